#!/bin/sh
# thorough tier: the same rules on a VTA-refined call graph, plus the seeded-variant matrix of the property as a
# self-test of the checker (each kept seed of the property is applied to a scratch copy of /repo's working tree outside
# /repo and /verif, analysed, and removed), and the refactoring corpus as a false-alarm self-test. The exit status is the property check's; self-test results are informational.
set -u
HERE="$(cd "$(dirname "$0")" && pwd)"
PROP="$1"
"$HERE/bin/finlint" -repo "${VERIF_REPO:-/repo}" -verif "$HERE" -property "$PROP" -tier thorough
RC=$?
if [ $RC -ne 0 ] && [ $RC -ne 1 ]; then
  echo "VIOLATION property=$PROP replay=$HERE/evidence/$PROP.json (checker ended with status $RC before deciding: undecided)"
  RC=1
fi
if [ -d "$HERE/seeded" ]; then
  for d in "$HERE"/seeded/"$PROP"-*/; do
    [ -f "$d/patch.diff" ] || continue
    "$HERE/tools/seedrun.sh" "${d%/}" "$PROP" | grep -E "^C[0-9]+-" | sed 's/^/selftest: /'
  done
fi
# false-alarm self-test: the behaviour-preserving refactorings must leave the check silent (summary line only)
if [ -d "$HERE/refactors" ]; then
  ls -d "$HERE"/refactors/*/ 2>/dev/null | xargs -P 8 -I{} "$HERE/tools/refacrun.sh" {} "$PROP" 2>/dev/null | grep -E " (silent|ALARM|APPLY-FAILED|BUILD-FAILED|CHECKER-CRASHED) " | awk '{c[$3]++} END {printf "selftest: refactorings"; for (k in c) printf " %s=%d", k, c[k]; printf "\n"}'
fi
exit $RC
