#!/bin/sh
# thorough tier: same rules on a VTA-refined call graph, plus (when seeded/ exists) the seeded-variant matrix.
set -u
HERE="$(cd "$(dirname "$0")" && pwd)"
PROP="$1"
"$HERE/bin/finlint" -repo "${VERIF_REPO:-/repo}" -verif "$HERE" -property "$PROP" -tier thorough
exit $?
