#!/usr/bin/env python3
# Runs tools/seedmatrix.sh and records, per kept seed, which rules of its property's check fire on it.
import json, subprocess, re, os, collections
out = open(os.environ['SEED_MATRIX_FILE']).read() if os.environ.get('SEED_MATRIX_FILE') else subprocess.run(['/verif/tools/seedmatrix.sh'], capture_output=True, text=True).stdout
res = {}
cur = None
for line in out.splitlines():
    m = re.match(r'^(C\d+-\w+) (C\d+) (DETECTED|missed|APPLY-FAILED|CHECKER-CRASHED)', line)
    if m:
        cur = m.group(1); res.setdefault(cur, {'status': m.group(3), 'findings': []})['status'] = m.group(3)
        continue
    m = re.match(r'^\s+(C\d+-\w+): finding: (.*)$', line)
    if m:
        res.setdefault(m.group(1), {'status': 'DETECTED', 'findings': []})['findings'].append(m.group(2))
why_missed = {
 'C11-Br9': 'a comment-wrapping loop that makes no progress when the last word is longer than the line: a termination argument over string arithmetic, no structural clause',
 'C02-Ar9': 'the Go init() registrations are collected for the packet and its direct inline objects only (a descent that stops at depth one); which emitted call ends up in which emitted init() is not a relation between Go-level facts the matrix sees',
 'C05-Ar9': 'the Python register calls are deferred to the end of the module but written out for top-level packets only: same slip as C02-Ar9 (a per-name side table consulted for declared packets only)',
 'C06-Br9': 'a shadowed `typ :=` discards the type looked up in the MetaData table; after repair 7b4e584 the seed is re-based - see its meta.json',
 'C02-Ar6': 'emitted-Python control flow: `self.x = []` is emitted by the routine that produces the body of the element loop, so the reset runs once per element; which emitted line ends up inside which emitted loop is not a relation between Go-level facts',
 'C04-Ar6': 'value-level: emitted Rust arithmetic measures from the end of the placeholder, counting every field declared between the length and its target (same family as C04-A, C04-Ar5)',
 'C04-Br6': 'emitted-Go semantics: a consistency check in Decode takes the difference of bytes.Buffer.Len() before and after, which shrinks while decoding; needs the semantics of the emitted program',
 'C06-Ar6': 'a step (take the type of the MetaData entry of the same name) moved from the per-declaration visitors into one of the two field collectors; the two collectors legitimately differ in other steps (length fields are only recorded for packets), so a sibling cross-check of their helper calls was tried on paper and rejected as a false alarm in waiting',
 'C06-Br6': 'emitted-Go semantics: the checksum is computed over buf.Bytes()[start:] instead of the whole buffer',
 'C17-Ar6': 'emitted-Java semantics: equals() compares a List member with == (and Float.compare on lists does not type-check); needs a Java front end',
 'C13-A': 'SUPERSEDED: the change made the Go output depend on the iteration order of Generate\'s range over PacketsMap; since fix 5c980ab the generator visits the packets in name order, so the changed tree is deterministic (C13/map-order reported it on the tree before the fix)',
 'C13-Ar3': 'SUPERSEDED by fix 5c980ab (same mechanism as C13-A: state carried across the iterations of Generate\'s range over PacketsMap)',
 'C13-Br2': 'SUPERSEDED by fix 5c980ab (same mechanism as C13-A)',
 'C02-Ar5': 'value-level: the Java encoder writes the list count with the big-endian accessor on every path (the little-endian branch was merged away); the cell still depends on LittleEndian through the elements, the count write of the "empty list" branch never did. Reported under C01/enc-sensitivity (the encode cell java/enc/*/list loses its prefix-in-byte-order dependence), not under C02',
 'C04-Ar5': 'value-level: emitted Java arithmetic measures from the placeholder instead of from the start of the target (same family as C04-A)',
 'C04-Br5': 'emitted-Go aliasing: the back-patch goes through a slice of buf.Bytes() taken before the target was encoded; a reallocation leaves it pointing at the old array. Needs Go semantics of the emitted program',
 'C06-Ar5': 'value-level: the emitted Rust write takes self.<field> instead of the computed val; both are constants of the generator',
 'C06-Br5': 'value-level: the emitted Python mask is computed from the size in bytes instead of bits',
 'C11-Br5': 'index into a slice of results by the position in the full table; rule I decides constant indices only. Reported under C16/compile (the write is not behind the err == nil edge of its own generator)',
 'C15-Ar5': 'emitted-Lua data flow: the offset returned by a nested dissector is dropped for repeated inline objects - the part of C15 that is declared not decided',
 'C17-Ar5': 'emitted-Python name resolution: __all__ stops the star import from re-exporting ByteBuf; needs Python import semantics',
 'C17-Br5': 'emitted-Java typing: a long length handed to readCharSequence(int, ..); needs a Java front end',
 'C02-Ar4': 'emitted-Python data flow: decode() returns self except in the early exit for a packet without fields, callers now store the result; a property of the emitted program (which def returns what)',
 'C02-Br4': 'emitted-Python semantics: a mutable default argument ([]) shared by every instance; needs Python evaluation rules, not a relation between the generator and the model',
 'C03-Br4': 'value-level: the minimum-size estimate emitted as the Rust decoder\'s refusal threshold counts a repeated object as one mandatory element; detected under C11 (R-bounded-recursion: the estimate recurses over packet references without a visited set), not under C03',
 'C04-Ar4': 'value-level / emitted-Go control flow: the measured length is assigned only inside the nil guard of the target, the back-patch still runs; same family as C04-A',
 'C05-Ar4': 'emitted-Go control flow: the decoder instantiates the payload only when the member is nil (same family as C05-Br3)',
 'C05-Br4': 'value-level: the Java factory key type is widened to Integer for byte/short keys while the decoded (signed) field is passed as is; sign behaviour of the emitted program',
 'C06-Ar4': 'emitted-C++ scoping: the checksum value is declared again inside the if block and shadows the one that is written; needs a C++ front end',
 'C06-Br4': 'emitted-Go data flow: the target is encoded into a scratch buffer and appended, the checksum service inside it then sees the scratch buffer instead of the frame; a property of the emitted program',
 'C10-Br4': 'value-level: one blank more in front of a comment that one of four callers puts on a line of its own; the shape analysis tracks how a text starts and ends, not how many blanks it starts with',
 'C15-Ar4': 'emitted-Lua operator precedence (k == 2 or 3); needs Lua semantics',
 'C15-Br4': 'the ordering pass now also filters inline objects through its name-keyed visited set; names of inline objects are unique only within their owner. Deciding it needs the uniqueness domain of Packet.Name per construct, which the emit-once rule does not model (it accepts Packet.Name as an identity)',
 'C02-Ar3': 'emitted-Python layout: only the first line of a multi-line loop body is indented (a blank prefix instead of the per-line indent helper); indentation of emitted text is a property of the emitted program, a may-analysis of which strings are multi-line would have to be path-sensitive per field kind to stay silent on correct code',
 'C02-Br3': 'kind coverage of a text/number decision for match keys in the Rust emitter (char[n] keys treated as numbers): every structural relation of the wire matrix is intact; the emitted Rust fails to type-check',
 'C04-Ar3': 'value-level: the emitted Go arithmetic measures from the length slot instead of from the start of the target (same family as C04-A / C04-Ar2)',
 'C05-Br3': 'emitted-Go control flow: the decoder instantiates the payload only when the member is nil (helper shared with the encoder); the dispatch table and every dependence are intact',
 'C10-Ar3': 'value-level arithmetic in formatStringList (>= instead of > on exact multiples), same family as C09-A',
 'C17-Br3': 'emitted-C++ typing: a by-value member is assigned a unique_ptr because a flag leaks into the recursion; needs a C++ front end',
 'C03-B': 'value-level: the emitted Java counts UTF-16 chars instead of UTF-8 bytes; every dependence the matrix demands is still present (the generator still consumes prefix type and byte order)',
 'C04-A': 'value-level: the emitted Python arithmetic subtracts the wrong marker; dependences on byte order and length-field type are intact',
 'C05-A': 'value-level: a different column of the same C++ table row (promoted int instead of exact-width type) is emitted as the factory key type',
 'C09-A': 'value-level arithmetic in formatStringList (row count off by one for exact multiples): no structural rule; the formatted text no longer parses',
 'C15-A': 'emitted-Lua ordering (a local function is emitted after its caller): a dataflow property of the emitted program, declined in DESIGN.md section 4',
 'C17-A': 'value-level: order of two sample-value lookups in the Rust test emitter; emitted sample has the wrong length',
 'C01-Br2': 'value-level: the emitted Java puts String.length() (UTF-16 units) in the prefix instead of the UTF-8 byte count; no Go-side structure changes',
 'C03-Br2': 'value-level: same Java String.length() change as C01-Br2 / C03-B',
 'C04-Ar2': 'value-level: emitted Python arithmetic measures from the end of the length slot instead of from the start of the target',
 'C08-Br2': 'SUPERSEDED: the change only had an effect through the bare-space pad default, a genuine defect of the pinned tree that is now fixed in /repo (f986813); C12/option-table "pad character constant ... is a quoted spelling" reports the root cause on the unfixed tree with or without this change',
 'C15-Ar2': 'emitted-Lua naming: dissectors de-duplicated by function name conflate distinct inline objects of the same name; needs the set of inline-object names, a model-level fact',
 'C17-B': 'emitted-Java import list: an `import java.util.Arrays` became conditional; needs a Java front end',
}

why_missed.update({
 'C02-Br7': 'emitted-Go control flow: Decode shares the encoder\'s "instantiate the match payload when it is nil" helper (same family as C05-Br3, C05-Ar4): a property of the emitted program',
 'C05-Ar7': 'emitted-Go control flow: the decoder wraps the match lookup in `if p.<Length> > 0`; the dispatch table and every dependence are intact',
 'C08-Ar7': 'an attribute cache whose key (char[n]) forgets an input of the cached object (the NUL padding of zchar[n]): needs a per-path comparison of what a memo\'s key and its value are built from - designed (DESIGN.md, round 7), not built',
 'C15-Br7': 'a helper selects the prefix type by IsRepeat for the element length of a repeated string; the helper\'s summary in the dependence analysis is flow-insensitive, so the cell still depends on both prefix options',
 'C15-Br8': 'emitted-Lua value flow: the key local is trimmed of its padding but compared with the literal as written; what the emitted comparison sees is a property of the emitted program',
 'C17-Ar8': 'emitted-Go naming: one test function per match alternative named after the alternative\'s packet - two keys for one packet declare the function twice; needs the Go front end (a per-packet name emitted per key without de-duplication is decided for the Rust emitters only)',
 'C17-Br8': 'the Rust sample for a repeated packet member now recurses (termination: subsumed by the known C11/R finding of the Rust sample emitters, keyed by receiver type) and names a type the module does not import (emitted-Rust scoping)',
 'C04-Ar8': 'value-level: the back-patch slot is a constant offset from the start of the packet applied to the start of the buffer (a second frame in one buffer, a nested root packet); the size sum behind it asks every member whether it repeats, so no structural relation is broken',
 'C04-Br8': 'value-level: `lengthAt > 0` where the sentinel is -1 (a length field at index 0 is never linked); an off-by-one in an index comparison',
})
rows = []
for name in sorted(res):
    d = f'/verif/seeded/{name}'
    mp = os.path.join(d, 'meta.json')
    if not os.path.exists(mp):
        continue
    meta = json.load(open(mp))
    rules = sorted({f.split(' ')[0] for f in res[name]['findings']})
    meta['detected'] = res[name]['status'] == 'DETECTED'
    meta['status_on_current_repo'] = res[name]['status']
    meta['detected_by_rules'] = rules
    meta['findings_on_seeded_tree'] = res[name]['findings'][:6]
    if not meta['detected']:
        meta['not_detected_because'] = why_missed.get(name, 'see DESIGN.md')
    json.dump(meta, open(mp, 'w'), indent=1, ensure_ascii=False)
    rows.append((name, meta['property'], 'yes' if meta['detected'] else 'NO', ', '.join(rules) if rules else meta.get('not_detected_because', ''), meta.get('needs_to_manifest', '')))
with open('/verif/seeded/MATRIX.md', 'w') as f:
    f.write('# Seeded changes vs. checks (written by tools/update_seed_meta.py)\n\n| seed | property | caught | by rule(s) / why not | needs to manifest |\n|---|---|---|---|---|\n')
    for r in rows:
        f.write('| %s | %s | %s | %s | %s |\n' % r)
print(open('/verif/seeded/MATRIX.md').read())
