#!/bin/sh
# Behaviour-preserving refactorings written by independent sub-agents (byte-identical outputs verified by them):
# every check must stay silent on each of them. Prints "<name> violations=<n>" per refactoring.
cd /verif/refactors || exit 2
ls -d */ | tr -d / | xargs -P 8 -I{} sh -c '/verif/tools/refaccheck.sh /verif/refactors/{}/patch.diff | grep -E "violations=|APPLY|BUILD|finding:" | sed "s#/verif/refactors/##" | cut -c1-200' 
