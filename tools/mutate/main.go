// mutate: a small AST mutator used to measure what the static checks see (tools/mutmatrix.sh).
// usage: mutate -file <path.go> -list            -> prints the number of mutation points
//        mutate -file <path.go> -n <k> -out <f>  -> writes the k-th mutant of the file to f and prints a one-line description
package main

import (
	"bytes"
	"flag"
	"fmt"
	"go/ast"
	"go/parser"
	"go/printer"
	"go/token"
	"os"
	"strconv"
)

type mutation struct {
	desc  string
	apply func()
	undo  func()
}

func main() {
	file := flag.String("file", "", "go source file")
	list := flag.Bool("list", false, "print number of mutation points")
	n := flag.Int("n", -1, "mutant index")
	out := flag.String("out", "", "output file")
	flag.Parse()
	fset := token.NewFileSet()
	f, err := parser.ParseFile(fset, *file, nil, parser.ParseComments)
	if err != nil {
		fmt.Fprintln(os.Stderr, err)
		os.Exit(2)
	}
	var muts []mutation
	pos := func(p token.Pos) string { return fmt.Sprintf("%s:%d", *file, fset.Position(p).Line) }
	add := func(desc string, apply, undo func()) { muts = append(muts, mutation{desc, apply, undo}) }
	ast.Inspect(f, func(nd ast.Node) bool {
		switch x := nd.(type) {
		case *ast.IfStmt:

			orig := x.Cond
			add("negate-if "+pos(x.Pos()), func() { x.Cond = &ast.UnaryExpr{Op: token.NOT, X: &ast.ParenExpr{X: orig}} }, func() { x.Cond = orig })
			if x.Else != nil {
				if eb, ok := x.Else.(*ast.BlockStmt); ok {
					body := x.Body
					add("swap-if-else "+pos(x.Pos()), func() { x.Body, x.Else = eb, body }, func() { x.Body, x.Else = body, eb })
				}
			}
		case *ast.BlockStmt:

			for i := range x.List {
				i := i
				st := x.List[i]
				switch s := st.(type) {
				case *ast.ExprStmt:
					if _, ok := s.X.(*ast.CallExpr); ok {
						add("delete-call "+pos(st.Pos()), func() { x.List[i] = &ast.EmptyStmt{Semicolon: st.Pos()} }, func() { x.List[i] = st })
					}
				case *ast.AssignStmt:
					if s.Tok == token.ASSIGN || s.Tok == token.ADD_ASSIGN {
						add("delete-assign "+pos(st.Pos()), func() { x.List[i] = &ast.EmptyStmt{Semicolon: st.Pos()} }, func() { x.List[i] = st })
					}
				case *ast.BranchStmt:
					if s.Tok == token.CONTINUE || s.Tok == token.BREAK {
						add("delete-"+s.Tok.String()+" "+pos(st.Pos()), func() { x.List[i] = &ast.EmptyStmt{Semicolon: st.Pos()} }, func() { x.List[i] = st })
					}
				case *ast.ReturnStmt:
					// early return inside an if: drop it (only when the function has no results, to stay compilable)
				}
			}
		case *ast.CaseClause:

			if len(x.Body) > 0 && len(x.List) > 0 {
				body := x.Body
				add("empty-case "+pos(x.Pos()), func() { x.Body = nil }, func() { x.Body = body })
			}
		case *ast.BinaryExpr:

			op := x.Op
			var alt token.Token
			switch op {
			case token.EQL:
				alt = token.NEQ
			case token.NEQ:
				alt = token.EQL
			case token.LSS:
				alt = token.LEQ
			case token.GTR:
				alt = token.GEQ
			case token.LEQ:
				alt = token.LSS
			case token.GEQ:
				alt = token.GTR
			case token.LAND:
				alt = token.LOR
			case token.LOR:
				alt = token.LAND
			}
			if alt != token.ILLEGAL {
				add("op "+op.String()+"->"+alt.String()+" "+pos(x.OpPos), func() { x.Op = alt }, func() { x.Op = op })
			}
		case *ast.BasicLit:

			if x.Kind == token.INT {
				v := x.Value
				if k, err := strconv.Atoi(v); err == nil {
					add("int "+v+"->"+strconv.Itoa(k+1)+" "+pos(x.Pos()), func() { x.Value = strconv.Itoa(k + 1) }, func() { x.Value = v })
				}
			}
		case *ast.SelectorExpr:
			// swap sibling struct fields that are commonly confused

			swaps := map[string]string{"Le": "BasicType", "Key": "Value", "Value": "Key", "StringLenPrefixLenType": "ListLenPrefixLenType", "ListLenPrefixLenType": "StringLenPrefixLenType", "PadLeft": "PadLeft", "GetStart": "GetStop", "GetStop": "GetStart"}
			if to, ok := swaps[x.Sel.Name]; ok && to != x.Sel.Name {
				from := x.Sel.Name
				add("field "+from+"->"+to+" "+pos(x.Pos()), func() { x.Sel.Name = to }, func() { x.Sel.Name = from })
			}
		case *ast.Ident:

			if x.Name == "true" || x.Name == "false" {
				from := x.Name
				to := "true"
				if from == "true" {
					to = "false"
				}
				add("bool "+from+"->"+to+" "+pos(x.Pos()), func() { x.Name = to }, func() { x.Name = from })
			}
		}
		return true
	})
	if *list {
		fmt.Println(len(muts))
		return
	}
	if *n < 0 || *n >= len(muts) {
		fmt.Fprintln(os.Stderr, "index out of range")
		os.Exit(2)
	}
	m := muts[*n]
	m.apply()
	var buf bytes.Buffer
	if err := printer.Fprint(&buf, fset, f); err != nil {
		fmt.Fprintln(os.Stderr, err)
		os.Exit(2)
	}
	if err := os.WriteFile(*out, buf.Bytes(), 0o644); err != nil {
		fmt.Fprintln(os.Stderr, err)
		os.Exit(2)
	}
	fmt.Println(m.desc)
}
