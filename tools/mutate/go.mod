module mutate

go 1.24
