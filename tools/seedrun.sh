#!/bin/sh
# usage: seedrun.sh <seed-dir> <props>   -> prints "<seed> <prop> DETECTED|missed <n findings>"
# Copies /repo's current working tree to a scratch directory outside /repo and /verif, applies the seeded patch,
# runs the static checks on the copy (no evidence written), removes the copy.
SEED="$1"; PROPS="$2"
NAME=$(basename "$SEED")
TMP=$(mktemp -d /tmp/finlint-seed.XXXXXX) || exit 2
trap 'rm -rf "$TMP"' EXIT
rsync -a --exclude .git "${VERIF_REPO:-/repo}/" "$TMP/repo/" || exit 2
( cd "$TMP/repo" && git apply --whitespace=nowarn "$SEED/patch.diff" ) 2>/dev/null || ( cd "$TMP/repo" && patch -p1 -s < "$SEED/patch.diff" ) >/dev/null 2>&1 || { echo "$NAME $PROPS APPLY-FAILED"; exit 0; }
OUT=$(${FINLINT:-/verif/bin/finlint} -repo "$TMP/repo" -verif /verif -property "$PROPS" -no-evidence 2>&1); RC=$?
if [ $RC -ne 0 ] && [ $RC -ne 1 ]; then echo "$NAME $PROPS CHECKER-CRASHED rc=$RC"; printf '%s\n' "$OUT" | grep -m3 -i 'panic\|fatal\|goroutine' | sed "s/^/    /"; exit 0; fi
N=$(printf '%s\n' "$OUT" | grep -c '^VIOLATION')
if [ "$N" -gt 0 ]; then
  echo "$NAME $PROPS DETECTED $N"
  printf '%s\n' "$OUT" | grep '^finding' | sed "s/^/    $NAME: /"
else
  echo "$NAME $PROPS missed 0"
fi
