#!/bin/sh
# usage: trypatch.sh <worktree> <patch.diff> <props>
# moves the scratch worktree to /repo's HEAD, applies the patch, runs finlint against it (no evidence), reverts.
WT="$1"; P="$2"; PROPS="$3"
git -C "$WT" reset -q --hard 2>/dev/null; git -C "$WT" clean -fdq -e .demo
git -C "$WT" checkout -q --detach "$(git -C /repo rev-parse HEAD)" || exit 3
git -C "$WT" apply "$P" 2>/dev/null || git -C "$WT" apply --3way "$P" 2>/dev/null || { echo "APPLY-FAILED $P"; git -C "$WT" checkout -q -- .; exit 3; }
${FINLINT:-/verif/bin/finlint} -repo "$WT" -verif /verif -property "$PROPS" -no-evidence 2>&1 | grep -E "^(finding|VIOLATION|C[0-9]+:)" 
git -C "$WT" reset -q --hard
