#!/bin/sh
# Mutation matrix: every mutant of the repository's hand-written sources (tools/mutate) is built, run against the repository's own
# test suite and, if it survives, analysed by all 17 static checks. Writes /verif/mutation/results.txt (or $MUT_OUT).
# usage: mutmatrix.sh [file ...]   (default: all hand-written sources)
# The go build cache grows by ~25 MB per mutant and is never trimmed by go itself: jobs run in chunks, the cache is emptied in between.
mkdir -p /verif/mutation
# a build cache of its own: emptying it between chunks must not pull the rug from under other builds on the machine
export GOCACHE=${MUT_GOCACHE:-/tmp/mut-gocache}
mkdir -p "$GOCACHE"
OUT=${MUT_OUT:-/verif/mutation/results.txt}
JOBS=$(mktemp /tmp/mut_jobs.XXXXXX)
FILES="$*"
[ -z "$FILES" ] && FILES="cmd/compile.go cmd/format.go cmd/root.go cmd/lib.go internal/model/model.go internal/parser/common.go internal/parser/packet_dsl_parser.go internal/parser/packet_dsl_formattor.go internal/parser/go_generator.go internal/parser/java_generator.go internal/parser/py_generator.go internal/parser/rust_generator.go internal/parser/cpp_generator.go internal/parser/lua_wsp_generator.go"
for f in $FILES; do
  n=$(/verif/bin/mutate -file /repo/$f -list)
  i=0; while [ $i -lt $n ]; do echo "$f $i" >> $JOBS; i=$((i+1)); done
done
wc -l < $JOBS
: > "$OUT"
split -l ${MUT_CHUNK:-300} $JOBS $JOBS.part.
for part in $JOBS.part.*; do
  xargs -P ${MUT_JOBS:-10} -L 1 /verif/tools/mutone.sh < $part >> "$OUT" 2>/dev/null
  rm -rf "$GOCACHE"; mkdir -p "$GOCACHE"
done
rm -f $JOBS $JOBS.part.*; rm -rf "$GOCACHE"
awk '{c[$3]++} END {for (k in c) print k, c[k]}' "$OUT"
