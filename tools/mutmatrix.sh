#!/bin/sh
# Mutation matrix: every mutant of the repository's hand-written sources (tools/mutate) is built, run against the repository's own
# test suite and, if it survives, analysed by all 17 static checks. Writes /verif/mutation/results.txt.
mkdir -p /verif/mutation
: > /tmp/mut_jobs.txt
for f in cmd/compile.go cmd/format.go cmd/root.go cmd/lib.go internal/model/model.go internal/parser/common.go internal/parser/packet_dsl_parser.go internal/parser/packet_dsl_formattor.go internal/parser/go_generator.go internal/parser/java_generator.go internal/parser/py_generator.go internal/parser/rust_generator.go internal/parser/cpp_generator.go internal/parser/lua_wsp_generator.go; do
  n=$(/verif/bin/mutate -file /repo/$f -list)
  i=0; while [ $i -lt $n ]; do echo "$f $i" >> /tmp/mut_jobs.txt; i=$((i+1)); done
done
wc -l /tmp/mut_jobs.txt
xargs -P ${MUT_JOBS:-10} -L 1 /verif/tools/mutone.sh < /tmp/mut_jobs.txt > /verif/mutation/results.txt 2>/dev/null
awk '{c[$3]++} END {for (k in c) print k, c[k]}' /verif/mutation/results.txt
