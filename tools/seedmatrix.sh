#!/bin/sh
# Runs every kept seed against the check of the property it breaks (scratch copies, 8 at a time) and prints the matrix.
cd /verif/seeded || exit 2
ls -d C*/ | tr -d / | xargs -P 8 -I{} sh -c 'p=$(echo {} | cut -d- -f1); /verif/tools/seedrun.sh /verif/seeded/{} $p' | sort
