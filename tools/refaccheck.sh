#!/bin/sh
# usage: refaccheck.sh <patch.diff>  -> runs all 17 checks on a scratch copy with the (behaviour-preserving) patch applied; any VIOLATION is a false alarm
P="$1"
TMP=$(mktemp -d /tmp/finlint-refac.XXXXXX) || exit 2
trap 'rm -rf "$TMP"' EXIT
rsync -a --exclude .git /repo/ "$TMP/repo/"
( cd "$TMP/repo" && git apply --whitespace=nowarn "$P" ) 2>/dev/null || ( cd "$TMP/repo" && patch -p1 -s --fuzz=3 < "$P" ) >/dev/null 2>&1 || { echo "APPLY-FAILED $P"; exit 0; }
( cd "$TMP/repo" && go build ./... ) >/dev/null 2>&1 || { echo "BUILD-FAILED $P"; exit 0; }
OUT=$(${FINLINT:-/verif/bin/finlint} -repo "$TMP/repo" -verif /verif -property all -no-evidence 2>&1)
N=$(printf '%s\n' "$OUT" | grep -c '^VIOLATION')
echo "$(basename $(dirname $P)) violations=$N"
printf '%s\n' "$OUT" | grep -A2 '^finding' | grep -v '^--' | cut -c1-330 | sed 's/^/    /'
