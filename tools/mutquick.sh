#!/bin/sh
# usage: mutquick.sh <relative go file> <index> <property|all>  -> like mutone.sh but without running the repository suite
F="$1"; I="$2"; P="${3:-all}"
TMP=$(mktemp -d /tmp/finlint-mq.XXXXXX) || exit 2
trap 'rm -rf "$TMP"' EXIT
rsync -a --exclude .git /repo/ "$TMP/repo/" || exit 2
DESC=$(/verif/bin/mutate -file "$TMP/repo/$F" -n "$I" -out "$TMP/repo/$F" 2>/dev/null) || { echo "$F $I error - | -"; exit 0; }
DESC=$(echo "$DESC" | sed "s#$TMP/repo/##")
( cd "$TMP/repo" && go build ./... ) >/dev/null 2>&1 || { echo "$F $I nocompile - | $DESC"; exit 0; }
OUT=$(${FINLINT:-/verif/bin/finlint} -repo "$TMP/repo" -verif /verif -property "$P" -no-evidence 2>&1)
PROPS=$(printf '%s\n' "$OUT" | grep '^VIOLATION' | sed 's/.*property=\([A-Z0-9]*\).*/\1/' | sort -u | tr '\n' ',' | sed 's/,$//')
if [ -n "$PROPS" ]; then echo "$F $I DETECTED $PROPS | $DESC"; else echo "$F $I undetected - | $DESC"; fi
[ -n "$MQ_VERBOSE" ] && printf '%s\n' "$OUT" | grep -E "^(FAIL|VIOLATION|  FAIL)" | head -5
exit 0
