#!/bin/sh
# usage: mutone.sh <relative go file> <index>  -> one line: <file> <index> <status> <props> | <description>
# status: nocompile | suite (killed by the repository's own tests) | DETECTED (survives the suite, some static check fires) | undetected
F="$1"; I="$2"
TMP=$(mktemp -d /tmp/finlint-mut.XXXXXX) || exit 2
trap 'rm -rf "$TMP"' EXIT
rsync -a --exclude .git /repo/ "$TMP/repo/" || exit 2
DESC=$(/verif/bin/mutate -file "$TMP/repo/$F" -n "$I" -out "$TMP/repo/$F" 2>/dev/null) || { echo "$F $I error - | -"; exit 0; }
DESC=$(echo "$DESC" | sed "s#$TMP/repo/##")
( cd "$TMP/repo" && go build ./... ) >/dev/null 2>&1 || { echo "$F $I nocompile - | $DESC"; exit 0; }
( cd "$TMP/repo" && go vet ./... ) >/dev/null 2>&1
( cd "$TMP/repo" && go test -vet=off -count=1 ./... ) >/dev/null 2>&1 || { echo "$F $I suite - | $DESC"; exit 0; }
OUT=$(${FINLINT:-/verif/bin/finlint} -repo "$TMP/repo" -verif /verif -property all -no-evidence 2>&1); RC=$?
if [ $RC -ne 0 ] && [ $RC -ne 1 ]; then echo "$F $I CRASHED - | $DESC"; exit 0; fi
PROPS=$(printf '%s\n' "$OUT" | grep '^VIOLATION' | sed 's/.*property=\([A-Z0-9]*\).*/\1/' | sort -u | tr '\n' ',' | sed 's/,$//')
if [ -n "$PROPS" ]; then echo "$F $I DETECTED $PROPS | $DESC"; else echo "$F $I undetected - | $DESC"; fi
