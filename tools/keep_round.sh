#!/bin/sh
# usage: keep_round.sh <seedroot> <suffix> <PROP>...  -> confirms and keeps .demo/A and .demo/B of each property's scratch worktree
ROOT="$1"; SUF="$2"; shift 2
for P in "$@"; do
  for V in A B; do
    N="$ROOT/$P/.demo/$V/NOTES.md"
    [ -f "$ROOT/$P/.demo/$V/patch.diff" ] || { echo "MISSING $P/$V"; continue; }
    NEEDS=$(awk '/^## What is needed for it to manifest/{f=1;next} /^## /{f=0} f&&NF{print}' "$N" 2>/dev/null | tr '\n' ' ' | cut -c1-400)
    [ -n "$NEEDS" ] || NEEDS="see NOTES.md"
    SEEDROOT="$ROOT" SUFFIX="$SUF" /verif/tools/keep_seed.sh "$P" "$V" "$NEEDS" 2>&1 | tail -2
  done
done
