#!/bin/sh
# usage: keep_seed.sh <PROP> <A|B> "<needs-to-manifest one-liner>"
# Confirms the seed on /repo HEAD and, if confirmed, copies it to /verif/seeded/<PROP>-<v>/ with meta.json.
# env: SEEDROOT (default /tmp/seed), SUFFIX (appended to the kept directory name, e.g. r2)
P="$1"; V="$2"; NEEDS="$3"
ROOT="${SEEDROOT:-/tmp/seed}"
SRC=$ROOT/$P/.demo/$V
OUT=$(/verif/tools/confirm_seed.sh "$SRC" $ROOT/$P); RC=$?
echo "$OUT"
[ $RC -eq 0 ] || { echo "NOT CONFIRMED: $P/$V"; exit 1; }
D=/verif/seeded/$P-$V$SUFFIX
rm -rf "$D"; mkdir -p "$D"
cp "$SRC/patch.diff" "$D/patch.diff"; cp -r "$SRC/demo" "$D/demo"; [ -f "$SRC/NOTES.md" ] && cp "$SRC/NOTES.md" "$D/NOTES.md"
python3 - "$P" "$V$SUFFIX" "$NEEDS" "$OUT" "$(git -C /repo rev-parse --short HEAD)" <<'PY'
import json,sys
p,v,needs,out,head=sys.argv[1:6]
json.dump({"property":p,"variant":v,"breaks":p,"needs_to_manifest":needs,
 "confirmed_on_repo_head":head,
 "what_i_ran":"tools/confirm_seed.sh (scratch worktree at /repo HEAD): go build ./... ; go test -vet=off -count=1 ./... with the change (must pass); the demo test with the change (must fail) and without it (must pass)",
 "confirm_result":out.strip(),"source":"written by an independent sub-agent given only the property text and a scratch worktree"},
 open(f"/verif/seeded/{p}-{v}/meta.json","w"),indent=1)
PY
echo "KEPT $D"
