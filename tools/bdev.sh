#!/bin/sh
# build the development binary of the checker
cd /verif/checker && PATH=/opt/veriftools/go1.26.8/bin:$PATH GOTOOLCHAIN=local GOPROXY=off GOFLAGS=-mod=mod go build -o /verif/bin/finlint-dev . && echo built
