#!/bin/sh
# usage: confirm_seed.sh <srcdir containing patch.diff and demo/> <scratch worktree>
# Confirms on /repo's current HEAD: build ok, suite passes with change, demo FAILS with change, demo PASSES without.
SRC="$1"; WT="$2"
HEAD="$(git -C /repo rev-parse HEAD)"
git -C "$WT" reset -q --hard; git -C "$WT" clean -fdq -e .demo; git -C "$WT" checkout -q --detach "$HEAD" || exit 3
place_demo() {
  PKGS=""
  for f in $(find "$SRC/demo" -name "*_test.go" | sort); do
    [ -f "$f" ] || continue
    pk=$(grep -m1 '^package ' "$f" | awk '{print $2}')
    case "$pk" in
      parser|parser_test) d=internal/parser;;
      model|model_test) d=internal/model;;
      main|main_test) d=cmd;;
      *) d=internal/parser;;
    esac
    cp "$f" "$WT/$d/"; PKGS="$PKGS ./$d/"
  done
  PKGS=$(echo $PKGS | tr ' ' '\n' | sort -u | tr '\n' ' ')
  NAMES=$(grep -h '^func Test' $(find "$SRC/demo" -name "*_test.go") | sed 's/func \(Test[A-Za-z0-9_]*\).*/\1/' | paste -sd'|')
}
rm_demo() { git -C "$WT" clean -fdq -e .demo; }
# 1. without change: demo passes
place_demo
(cd "$WT" && go test -vet=off -count=1 -run "^($NAMES)\$" $PKGS >/tmp/confirm_nochange.log 2>&1); R0=$?
rm_demo
# 2. with change
git -C "$WT" apply "$SRC/patch.diff" 2>/dev/null || git -C "$WT" apply --3way "$SRC/patch.diff" 2>/dev/null || { echo "RESULT apply=FAIL"; git -C "$WT" reset -q --hard; exit 4; }
(cd "$WT" && go build ./... >/tmp/confirm_build.log 2>&1); RB=$?
(cd "$WT" && go test -vet=off -count=1 ./... >/tmp/confirm_suite.log 2>&1); RS=$?
place_demo
(cd "$WT" && go test -vet=off -count=1 -run "^($NAMES)\$" $PKGS >/tmp/confirm_change.log 2>&1); R1=$?
rm_demo; git -C "$WT" reset -q --hard
echo "RESULT apply=ok build=$RB suite_with_change=$RS demo_without_change=$R0 demo_with_change=$R1 tests=$NAMES pkgs=$PKGS"
[ $RB -eq 0 ] && [ $RS -eq 0 ] && [ $R0 -eq 0 ] && [ $R1 -ne 0 ]
