#!/bin/sh
# usage: refacrun.sh <refactor-dir> <props>  -> prints "<name> <props> silent|ALARM <n>"
# Applies one behaviour-preserving refactoring to a scratch copy of /repo's working tree (outside /repo and /verif), runs the static
# checks of <props> on it (no evidence written) and removes the copy. Any finding is a false alarm of the checker.
D="$1"; PROPS="$2"
NAME=$(basename "$D")
TMP=$(mktemp -d /tmp/finlint-refac.XXXXXX) || exit 2
trap 'rm -rf "$TMP"' EXIT
rsync -a --exclude .git "${VERIF_REPO:-/repo}/" "$TMP/repo/" || exit 2
( cd "$TMP/repo" && git apply --whitespace=nowarn "$D/patch.diff" ) 2>/dev/null || ( cd "$TMP/repo" && patch -p1 -s --fuzz=3 < "$D/patch.diff" ) >/dev/null 2>&1 || { echo "$NAME $PROPS APPLY-FAILED"; exit 0; }
( cd "$TMP/repo" && go build ./... ) >/dev/null 2>&1 || { echo "$NAME $PROPS BUILD-FAILED"; exit 0; }
OUT=$(${FINLINT:-/verif/bin/finlint} -repo "$TMP/repo" -verif /verif -property "$PROPS" -no-evidence 2>&1); RC=$?
if [ $RC -ne 0 ] && [ $RC -ne 1 ]; then echo "$NAME $PROPS CHECKER-CRASHED rc=$RC"; printf '%s\n' "$OUT" | grep -m3 -i 'panic\|fatal\|goroutine' | sed "s/^/    /"; exit 0; fi
N=$(printf '%s\n' "$OUT" | grep -c '^VIOLATION')
if [ "$N" -gt 0 ]; then
  echo "$NAME $PROPS ALARM $N"
  printf '%s\n' "$OUT" | grep '^finding' | sed "s/^/    $NAME: /"
else
  echo "$NAME $PROPS silent 0"
fi
