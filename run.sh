#!/bin/sh
# usage: run.sh <property-id|all> [quick|thorough]
# Rebuilds nothing from /verif at run time except (if missing) the checker binary; the checker itself
# loads and type-checks /repo's current working tree on every invocation.
set -u
HERE="$(cd "$(dirname "$0")" && pwd)"
export PATH=/opt/veriftools/go1.26.8/bin:$PATH
export GOTOOLCHAIN=local GOPROXY=off GOWORK=off
unset GOFLAGS
PROP="${1:?property id}"
TIER="${2:-${VERIF_TIER:-quick}}"
if [ ! -x "$HERE/bin/finlint" ]; then
  (cd "$HERE/checker" && GOFLAGS=-mod=mod go build -o "$HERE/bin/finlint" .) || { echo "cannot build finlint"; exit 2; }
fi
if [ "$TIER" = "thorough" ]; then
  exec "$HERE/thorough.sh" "$PROP"
fi
"$HERE/bin/finlint" -repo "${VERIF_REPO:-/repo}" -verif "$HERE" -property "$PROP" -tier "$TIER"
RC=$?
if [ $RC -ne 0 ] && [ $RC -ne 1 ]; then
  # the checker itself died (panic, stack overflow, killed): nothing was decided, and undecided fails
  echo "VIOLATION property=$PROP replay=$HERE/evidence/$PROP.json (checker ended with status $RC before deciding: undecided)"
  exit 1
fi
exit $RC
