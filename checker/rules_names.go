package main

// */member-named-by-field: where emitted code names a member of the message object, the name comes from the field.
//
// Every generator declares the members of a message type from Field.Name (camel / snake cased). An emission that spells the member
// after the receiver (`p.X`, `this.x`, `self.x`, `this->x`) from the field's *type* instead - Field.GetType(), the name of the
// referenced packet - agrees with the declaration only while a member happens to be called like its type (`Header,`), and refers to
// a member that does not exist for `Header hdr,`: the generated file does not compile (Go, Java, C++, Rust) or fails at run time
// (Python). Decided, per codec generator: for every hole of a format string (and every operand of a concatenation) that directly
// follows the receiver of the target language, the value filled in derives from a Field.Name - or from no model name at all - and
// not only from a type name. Name sources are followed through strcase / strings functions, concatenation, phis, the generators'
// own helpers (with their arguments) and string parameters (over their call sites).

import (
	"fmt"
	"go/constant"
	"go/token"
	"regexp"
	"sort"
	"strings"

	"golang.org/x/tools/go/ssa"
)

type nameSrc uint8

const (
	nsField nameSrc = 1 << iota // a Field.Name
	nsType                      // Field.GetType(), ObjectFieldAttribute.PacketName, the Name of a referenced packet
	nsOther                     // something the analysis does not follow
)

type nameFlow struct {
	w    *World
	own  map[*ssa.Function]bool
	memo map[ssa.Value]nameSrc
	busy map[ssa.Value]bool
}

func (nf *nameFlow) of(v ssa.Value, depth int) nameSrc {
	if v == nil {
		return 0
	}
	if s, ok := nf.memo[v]; ok {
		return s
	}
	if nf.busy[v] || depth > 12 {
		return 0
	}
	nf.busy[v] = true
	s := nf.eval(v, depth)
	delete(nf.busy, v)
	nf.memo[v] = s
	return s
}

func (nf *nameFlow) eval(v ssa.Value, depth int) nameSrc {
	switch x := v.(type) {
	case *ssa.Const:
		return 0
	case *ssa.Phi:
		var s nameSrc
		for _, e := range x.Edges {
			s |= nf.of(e, depth+1)
		}
		return s
	case *ssa.BinOp:
		if x.Op == token.ADD {
			return nf.of(x.X, depth+1) | nf.of(x.Y, depth+1)
		}
		return 0
	case *ssa.MakeInterface:
		return nf.of(x.X, depth+1)
	case *ssa.ChangeType:
		return nf.of(x.X, depth+1)
	case *ssa.Convert:
		return nf.of(x.X, depth+1)
	case *ssa.TypeAssert:
		return nf.of(x.X, depth+1)
	case *ssa.Extract:
		if c, ok := x.Tuple.(*ssa.Call); ok {
			return nf.call(c, x.Index, depth)
		}
		return nsOther
	case *ssa.UnOp:
		if x.Op != token.MUL {
			return nsOther
		}
		switch a := x.X.(type) {
		case *ssa.FieldAddr:
			tn, f, _, _ := fieldOf(a)
			switch {
			case tn == "Field" && f == "Name":
				return nsField
			case tn == "ObjectFieldAttribute" && f == "PacketName":
				return nsType
			case tn == "Packet" && f == "Name":
				// the name of a packet reached through a reference is a type name; the enclosing packet's own name is too
				return nsType
			}
			return nsOther
		case *ssa.Alloc:
			var s nameSrc
			if a.Referrers() != nil {
				for _, ref := range *a.Referrers() {
					if st, ok := ref.(*ssa.Store); ok && st.Addr == ssa.Value(a) {
						s |= nf.of(st.Val, depth+1)
					}
				}
			}
			return s
		case *ssa.FreeVar:
			fn := a.Parent()
			var s nameSrc
			if fn.Parent() != nil {
				for i, fv := range fn.FreeVars {
					if fv != a {
						continue
					}
					forEachInstr(fn.Parent(), func(_ *ssa.BasicBlock, ins ssa.Instruction) {
						if mk, ok := ins.(*ssa.MakeClosure); ok && mk.Fn == ssa.Value(fn) && i < len(mk.Bindings) {
							if al, ok := mk.Bindings[i].(*ssa.Alloc); ok && al.Referrers() != nil {
								for _, ref := range *al.Referrers() {
									if st, ok := ref.(*ssa.Store); ok && st.Addr == ssa.Value(al) {
										s |= nf.of(st.Val, depth+1)
									}
								}
							}
						}
					})
				}
			}
			return s
		}
		return nsOther
	case *ssa.Field:
		tn := modelTypeName(x.X.Type())
		f := fieldNameOf(x.X.Type(), x.Field)
		if tn == "Field" && f == "Name" {
			return nsField
		}
		if (tn == "ObjectFieldAttribute" && f == "PacketName") || (tn == "Packet" && f == "Name") {
			return nsType
		}
		return nsOther
	case *ssa.Call:
		return nf.call(x, 0, depth)
	case *ssa.Parameter:
		fn := x.Parent()
		idx := -1
		for i, p := range fn.Params {
			if p == x {
				idx = i
			}
		}
		if idx < 0 || !isStringType(x.Type()) {
			return nsOther
		}
		var s nameSrc
		sites := 0
		for g := range nf.own {
			forEachInstr(g, func(_ *ssa.BasicBlock, ins ssa.Instruction) {
				c, ok := ins.(ssa.CallInstruction)
				if !ok || calleeOf(c) != fn || idx >= len(c.Common().Args) {
					return
				}
				sites++
				s |= nf.of(c.Common().Args[idx], depth+1)
			})
		}
		if sites == 0 {
			return nsOther
		}
		return s
	}
	return nsOther
}

func (nf *nameFlow) call(c *ssa.Call, resIdx int, depth int) nameSrc {
	cc := c.Common()
	if cc.IsInvoke() {
		return nsOther
	}
	f := cc.StaticCallee()
	if f == nil {
		return nsOther
	}
	if f.Signature.Recv() != nil && f.Name() == "GetType" && modelTypeName(f.Signature.Recv().Type()) == "Field" {
		return nsType
	}
	if f.Pkg != nil {
		switch p := f.Pkg.Pkg.Path(); {
		case p == "strings" || strings.HasSuffix(p, "/strcase") || p == "fmt":
			var s nameSrc
			for _, a := range cc.Args {
				if isStringType(a.Type()) {
					s |= nf.of(a, depth+1)
				} else if _, ok := a.(*ssa.Slice); ok {
					for _, o := range variadicOperands(a) {
						s |= nf.of(o, depth+1)
					}
				}
			}
			return s
		}
	}
	if f.Blocks == nil || !nf.w.isSubjectFunc(f) {
		return nsOther
	}
	// a helper of the repo: what it returns, in terms of model loads inside it and of its parameters (bound over all call sites, which
	// include this one)
	var s nameSrc
	forEachInstr(f, func(_ *ssa.BasicBlock, ins ssa.Instruction) {
		if ret, ok := ins.(*ssa.Return); ok && resIdx < len(ret.Results) {
			s |= nf.of(ret.Results[resIdx], depth+1)
		}
	})
	return s
}

// underInlineObject: the block runs only for an inline object (true edge of a test of ObjectFieldAttribute.IsIner). An inline object
// is written with one identifier, which is its field's name and its type's name at once.
func underInlineObject(blk *ssa.BasicBlock) bool {
	for _, b := range blk.Parent().Blocks {
		cond := branchCond(b)
		if cond == nil {
			continue
		}
		neg := false
		c := cond
		for {
			if u, ok := c.(*ssa.UnOp); ok && u.Op == token.NOT {
				neg = !neg
				c = u.X
				continue
			}
			break
		}
		ld, ok := c.(*ssa.UnOp)
		if !ok || ld.Op != token.MUL {
			continue
		}
		fa, ok := ld.X.(*ssa.FieldAddr)
		if !ok {
			continue
		}
		if tn, fname, _, _ := fieldOf(fa); tn != "ObjectFieldAttribute" || fname != "IsIner" {
			continue
		}
		succ := 0
		if neg {
			succ = 1
		}
		if edgeDominates(b, succ, blk) {
			return true
		}
	}
	return false
}

var goReceiverRE = regexp.MustCompile(`func \((\w+) \*?`)

func memberNamedByField(w *World, wc *wireCtx, r *Report, prop string) {
	rule := prop + "/member-named-by-field"
	total := 0
	for _, lang := range codecLangs {
		own := wc.anchors[lang]["own"]
		if len(own) == 0 {
			continue
		}
		inOwn := map[*ssa.Function]bool{}
		for _, f := range own {
			inOwn[f] = true
			for _, a := range f.AnonFuncs {
				inOwn[a] = true
			}
		}
		// the receiver spellings of the target language
		recv := map[string]bool{}
		switch lang {
		case "java":
			recv["this."] = true
		case "cpp":
			recv["this->"] = true
		case "python", "rust":
			recv["self."] = true
		case "go":
			for f := range inOwn {
				forEachInstr(f, func(_ *ssa.BasicBlock, ins ssa.Instruction) {
					for _, op := range ins.Operands(nil) {
						if k, ok := (*op).(*ssa.Const); ok && k.Value != nil && k.Value.Kind() == constant.String {
							for _, m := range goReceiverRE.FindAllStringSubmatch(constant.StringVal(k.Value), -1) {
								recv[m[1]+"."] = true
							}
						}
					}
				})
			}
		}
		followsReceiver := func(before string) bool {
			for rv := range recv {
				if strings.HasSuffix(before, rv) {
					rest := before[:len(before)-len(rv)]
					if rest == "" {
						return true
					}
					c := rest[len(rest)-1]
					if !(c == '_' || c >= 'a' && c <= 'z' || c >= 'A' && c <= 'Z' || c >= '0' && c <= '9' || c == '.') {
						return true
					}
				}
			}
			return false
		}
		nf := &nameFlow{w: w, own: inOwn, memo: map[ssa.Value]nameSrc{}, busy: map[ssa.Value]bool{}}
		type hit struct {
			ins ssa.Instruction
			txt string
		}
		var bad, badT []hit
		spellings := map[string][]hit{} // how the name of an instantiated packet type is cased: raw, ToCamel, ...
		n, nT := 0, 0
		judge := func(ins ssa.Instruction, before, after string, v ssa.Value) {
			// the converse position: an instantiated type (`new T(`, `&T{`) spelled from the field's name only
			if strings.HasSuffix(before, "new ") && strings.HasPrefix(after, "(") || strings.HasSuffix(before, "&") && strings.HasPrefix(after, "{") {
				nT++
				if s := nf.of(v, 0); s&nsType != 0 && s&nsField == 0 {
					for _, sp := range caseSpellings(v, 0) {
						if sp == "param" || sp == "?" {
							continue // not followed to its origin: not judged
						}
						spellings[sp] = append(spellings[sp], hit{ins, sp})
					}
				}
				if s := nf.of(v, 0); s&nsField != 0 && s&nsType == 0 && !underInlineObject(ins.Block()) {
					tail := before
					if len(tail) > 24 {
						tail = tail[len(tail)-24:]
					}
					badT = append(badT, hit{ins, strings.TrimSpace(tail)})
				}
				return
			}
			if !followsReceiver(before) {
				return
			}
			n++
			s := nf.of(v, 0)
			if s&nsType != 0 && s&nsField == 0 && !underInlineObject(ins.Block()) {
				tail := before
				if len(tail) > 24 {
					tail = tail[len(tail)-24:]
				}
				bad = append(bad, hit{ins, strings.TrimSpace(tail)})
			}
		}
		var fns []*ssa.Function
		for f := range inOwn {
			fns = append(fns, f)
		}
		sortFuncsByName(fns)
		for _, f := range fns {
			forEachInstr(f, func(_ *ssa.BasicBlock, ins ssa.Instruction) {
				switch x := ins.(type) {
				case *ssa.Call:
					callee := x.Call.StaticCallee()
					if callee == nil {
						return
					}
					idx := -1
					switch callee.String() {
					case "fmt.Sprintf":
						idx = 0
					case "fmt.Fprintf":
						idx = 1
					}
					if idx < 0 || idx+1 >= len(x.Call.Args) {
						return
					}
					format, ok := constString(x.Call.Args[idx])
					if !ok {
						return
					}
					ops := variadicOperands(x.Call.Args[idx+1])
					vi := 0
					for i := 0; i < len(format); i++ {
						if format[i] != '%' {
							continue
						}
						start := i
						i++
						for i < len(format) && strings.ContainsRune("+-# 0123456789.*[]", rune(format[i])) {
							i++
						}
						if i >= len(format) || format[i] == '%' {
							continue
						}
						if vi < len(ops) && ops[vi] != nil && (format[i] == 's' || format[i] == 'v') {
							judge(ins, format[:start], format[i+1:], ops[vi])
						}
						vi++
					}
				case *ssa.BinOp:
					if x.Op != token.ADD {
						return
					}
					// "...p." + name: the left operand (a constant, or a concatenation ending in one) ends with the receiver
					after := ""
					if x.Referrers() != nil {
						for _, ref := range *x.Referrers() {
							if nx, ok := ref.(*ssa.BinOp); ok && nx.Op == token.ADD && nx.X == ssa.Value(x) {
								if k, ok := constString(nx.Y); ok {
									after = k
								}
							}
						}
					}
					if k, ok := constString(x.X); ok {
						judge(ins, k, after, x.Y)
					} else if l, ok := x.X.(*ssa.BinOp); ok && l.Op == token.ADD {
						if k, ok := constString(l.Y); ok {
							judge(ins, k, after, x.Y)
						}
					}
				}
			})
		}
		total += n
		sort.Slice(bad, func(i, j int) bool { return bad[i].ins.Pos() < bad[j].ins.Pos() })
		key := lang + ": a member of the message object is spelled from the field's name"
		if len(bad) == 0 {
			r.pass(rule, key, w.pos(own[0].Pos()), fmt.Sprintf("%d receiver-member holes", n))
		} else {
			var where []string
			for _, b := range bad {
				where = append(where, fmt.Sprintf("%s in %s (`%s` + the type's name)", w.instrPos(b.ins), fnKey(b.ins.Parent()), b.txt))
			}
			r.fail(rule, key, w.instrPos(bad[0].ins), "the member that follows the receiver is spelled from the field's type (Field.GetType() / the referenced packet's name), while the member is declared under the field's name: for `Header hdr,` the emitted code refers to a member that does not exist - "+strings.Join(where, "; "))
		}
		if nT > 0 {
			sort.Slice(badT, func(i, j int) bool { return badT[i].ins.Pos() < badT[j].ins.Pos() })
			keyT := lang + ": an instantiated type is spelled from the type's name"
			if len(badT) == 0 {
				r.pass(rule, keyT, w.pos(own[0].Pos()), fmt.Sprintf("%d instantiation holes", nT))
			} else {
				var where []string
				for _, b := range badT {
					where = append(where, fmt.Sprintf("%s in %s (`%s` + the field's name)", w.instrPos(b.ins), fnKey(b.ins.Parent()), b.txt))
				}
				r.fail(rule, keyT, w.instrPos(badT[0].ins), "the type that is instantiated is spelled from the field's name (Field.Name) and not from its type: for `Header hdr,` the emitted code instantiates a type `hdr` that does not exist - "+strings.Join(where, "; "))
			}
		}
		// one packet, one type name: every place that instantiates the type of a packet cases its name the same way (the declaration
		// can only agree with one of them)
		if len(spellings) > 0 {
			keyS := lang + ": an instantiated packet type is cased the same way everywhere"
			if len(spellings) == 1 {
				r.pass(rule, keyS, w.pos(own[0].Pos()), strings.Join(sortedKeys(spellings), ","))
			} else {
				var where []string
				for _, sp := range sortedKeys(spellings) {
					hs := spellings[sp]
					sort.Slice(hs, func(i, j int) bool { return hs[i].ins.Pos() < hs[j].ins.Pos() })
					where = append(where, fmt.Sprintf("%s at %s (%s)", sp, w.instrPos(hs[0].ins), fnKey(hs[0].ins.Parent())))
				}
				r.fail(rule, keyS, w.pos(own[0].Pos()), "the name of the packet type that is instantiated is cased in different ways in one generator - "+strings.Join(where, "; ")+": for a packet name the case functions change (`Order_item`, `orderItem`) at most one of them names the declared type, the other does not compile")
			}
		}
	}
	if total == 0 {
		r.fail(rule, "receiver-member holes found", "internal/parser", "no emission of the form <receiver>.<hole> found in any codec generator: the rule lost its subject")
	}
}

// caseSpellings: how a name is cased on its way into the text: the outermost strcase function applied ("raw" for none), over the
// alternatives of phis and through the generators' own one-result helpers.
func caseSpellings(v ssa.Value, depth int) []string {
	if depth > 6 || v == nil {
		return []string{"?"}
	}
	switch x := v.(type) {
	case *ssa.MakeInterface:
		return caseSpellings(x.X, depth+1)
	case *ssa.ChangeType:
		return caseSpellings(x.X, depth+1)
	case *ssa.Phi:
		set := map[string]bool{}
		for _, e := range x.Edges {
			for _, s := range caseSpellings(e, depth+1) {
				set[s] = true
			}
		}
		return sortedBoolKeys(set)
	case *ssa.Call:
		if f := x.Call.StaticCallee(); f != nil {
			if f.Pkg != nil && f.Pkg.Pkg.Name() == "strcase" {
				return []string{f.Name()}
			}
			if f.Blocks != nil && theWorld != nil && theWorld.isSubjectFunc(f) && f.Signature.Results().Len() == 1 {
				set := map[string]bool{}
				for _, b := range f.Blocks {
					if ret, ok := b.Instrs[len(b.Instrs)-1].(*ssa.Return); ok && len(ret.Results) == 1 {
						for _, s := range caseSpellings(ret.Results[0], depth+1) {
							set[s] = true
						}
					}
				}
				// a helper that hands a parameter through: the spelling is the argument's
				if set["param"] {
					delete(set, "param")
					for _, a := range x.Call.Args {
						if isStringType(a.Type()) {
							for _, s := range caseSpellings(a, depth+1) {
								set[s] = true
							}
						}
					}
				}
				return sortedBoolKeys(set)
			}
		}
		return []string{"raw"}
	case *ssa.Parameter:
		// a helper's parameter: what its call sites hand in
		fn := x.Parent()
		idx := -1
		for i, p := range fn.Params {
			if p == x {
				idx = i
			}
		}
		set := map[string]bool{}
		if theWorld != nil && idx >= 0 {
			if n := theWorld.CallGraph().Nodes[fn]; n != nil {
				for _, e := range n.In {
					if e.Site == nil || e.Site.Common().IsInvoke() || idx >= len(e.Site.Common().Args) {
						continue
					}
					for _, s := range caseSpellings(e.Site.Common().Args[idx], depth+1) {
						set[s] = true
					}
				}
			}
		}
		if len(set) == 0 {
			return []string{"param"}
		}
		return sortedBoolKeys(set)
	}
	return []string{"raw"}
}
