package main

import (
	"fmt"
	"go/ast"
	"go/constant"
	"go/token"
	"go/types"
	"os"
	"regexp"
	"sort"
	"strings"

	"golang.org/x/tools/go/ssa"
)

var codecLangs = []string{"go", "rust", "java", "python", "cpp"}

type clause struct {
	name string
	need src
}

// requiredClauses: what the text emitted for unit u in direction dir must depend on (necessary: the wire varies with these inputs).
func requiredClauses(u unit, dir string, lua bool) []clause {
	var cs []clause
	if u.Target && dir == "enc" {
		return []clause{{"back-patch written in the length field's own width and the configured byte order", sLE | sLFT}}
	}
	if u.List && (u.K == kBasic || u.K == kDyn || u.K == kFixed || u.K == kObject) {
		cs = append(cs, clause{"list prefix read/written with ArrayPrefixLenType in the configured byte order", sAP | sLE})
	}
	switch u.K {
	case kBasic:
		cs = append(cs, clause{"scalar read/written in its declared width and the configured byte order", sLE | sTY})
	case kDyn:
		cs = append(cs, clause{"string prefix read/written with StringPrefixLenType in the configured byte order", sSP | sLE})
	case kFixed:
		if lua {
			cs = append(cs, clause{"fixed string spans its declared length", sFL})
		} else {
			cs = append(cs, clause{"fixed string uses its declared length and the declared-else-configured padding (char and side)", sFL | sFP | sCP | sPC | sPL})
		}
	case kLength:
		if dir == "enc" {
			cs = append(cs, clause{"placeholder reserves the length field's declared width", sTY})
		} else {
			cs = append(cs, clause{"length field read in its declared width and the configured byte order", sLE | sTY})
		}
	case kCheckSum:
		if dir == "enc" && !lua {
			cs = append(cs, clause{"checksum written in its declared width and byte order, computed by the named algorithm", sLE | sTY | sCS})
		} else {
			cs = append(cs, clause{"checksum read in its declared width and the configured byte order", sLE | sTY})
		}
	case kMatch:
		if dir == "dec" {
			cs = append(cs, clause{"decoder consults the key field of the match", sMK})
		}
	}
	return cs
}

// feasibleUnits: (kind, repeat) combinations the grammar can produce.
func feasibleUnits() []unit {
	var us []unit
	for _, k := range []int{kBasic, kDyn, kFixed, kObject} {
		us = append(us, unit{K: k}, unit{K: k, List: true})
	}
	us = append(us, unit{K: kLength}, unit{K: kCheckSum}, unit{K: kMatch})
	return us
}

type cellResult struct {
	lang, dir string
	u         unit
	cl        clause
	ok        bool
	have      src
	where     string
	sites     int
	partial   string
}

// evalCells evaluates all clauses of one generator direction.
func evalCells(m *matrix, fns []*ssa.Function, lang, dir string) []cellResult {
	var out []cellResult
	lua := lang == "lua"
	units := feasibleUnits()
	if dir == "enc" {
		// the target of a @lengthOf is a payload: a match field or a by-name / inline object. (Scalar, string and list targets are
		// accepted by the parse phase but no generator supports them - outside the documented constructs, see DESIGN.md.)
		units = append(units, unit{K: kMatch, Target: true}, unit{K: kObject, Target: true})
	}
	for _, u := range units {
		cls := requiredClauses(u, dir, lua)
		groups := m.unitGroups(fns, u)
		if os.Getenv("FINLINT_DEBUG_CELLS") == lang+"/"+dir {
			for _, g := range groups {
				fmt.Printf("DBG %s/%s %s group %s sites=%d deps=%s\n", lang, dir, u, fnKey(g.fn), g.sites, g.deps)
			}
		}
		for _, cl := range cls {
			res := cellResult{lang: lang, dir: dir, u: u, cl: cl}
			var union src
			for _, g := range groups {
				union |= g.deps
				res.sites += g.sites
				if g.deps&cl.need == cl.need {
					res.ok = true
					res.where = fnKey(g.fn)
					res.have = g.deps
				}
			}
			if !res.ok {
				res.have = union
			}
			out = append(out, res)
		}
		if len(cls) == 0 {
			// still record that the cell has emission sites (no-silent-drop uses it)
			n := 0
			for _, g := range groups {
				n += g.sites
			}
			out = append(out, cellResult{lang: lang, dir: dir, u: u, cl: clause{"(no wire-determining input besides delegation)", 0}, ok: true, sites: n})
		}
	}
	return out
}

func cellKey(c cellResult) string {
	return fmt.Sprintf("%s/%s/%s: %s", c.lang, c.dir, c.u, c.cl.name)
}

func reportCells(r *Report, rule string, cells []cellResult) {
	for _, c := range cells {
		if c.cl.need == 0 {
			continue
		}
		if c.ok {
			r.pass(rule, cellKey(c), "", fmt.Sprintf("depends on %s in %s", c.cl.need, c.where))
		} else if c.sites == 0 {
			r.fail(rule, cellKey(c), "", fmt.Sprintf("no emission site of the %s %s emitters is reachable for this field kind: the field is silently dropped", c.lang, c.dir))
		} else if c.partial != "" {
			r.fail(rule, cellKey(c), "", c.partial+": the text it emits is the same for both byte orders although the bytes must differ")
		} else {
			missing := c.cl.need &^ c.have
			r.fail(rule, cellKey(c), "", fmt.Sprintf("the emitted text for this cell does not depend on %s (it depends on %s): two inputs that need different bytes get the same code", missing, c.have))
		}
	}
}

// ---------- shared wire context ----------

type wireCtx struct {
	m       *matrix
	anchors map[string]map[string][]*ssa.Function
	cells   map[string][]cellResult // lang/dir
}

func buildWire(w *World, r *Report) *wireCtx {
	m := newMatrix(w)
	wc := &wireCtx{m: m, cells: map[string][]cellResult{}}
	wc.anchors = m.resolveAnchors(r)
	for _, ga := range anchorTable {
		for _, dir := range []string{"enc", "dec"} {
			fns := wc.anchors[ga.Lang][dir]
			if len(fns) == 0 {
				continue
			}
			wc.cells[ga.Lang+"/"+dir] = evalCells(m, fns, ga.Lang, dir)
		}
	}
	return wc
}

func init() {
	register("C01", "Sensitivity of the encode emitters: for every codec language and every grammatical field kind x repeat cell, the text emitted by the encoder emitter must depend (data or control dependence on the resolved program, specialised to the cell by a kind/repeat path-condition dataflow) on every input that determines that cell's bytes - byte order, scalar type, string/list prefix types, fixed length, declared-else-configured padding. "+
		"Plus: sibling arms of a byte-order / repeat / padding branch consume the same inputs, the LE arm uses the type table's LE column, encode and decode pass prefix types in the same order, no cell lacks an emission site, fields are emitted in declaration order, scalar tables cover the grammar's scalar types. "+
		"These are necessary conditions of C01; which bytes the emitted code writes (literal widths, argument values, runtime API semantics) is not decided.", func(w *World, r *Report) {
		wc := buildWire(w, r)
		for _, l := range codecLangs {
			reportCells(r, "C01/enc-sensitivity", wc.cells[l+"/enc"])
		}
		r.floor("C01/enc-sensitivity", 50)
		wireKindHasStep(wc, r, "C01", []string{"enc"})
		wireLESpellingSide(w, wc, r, "C01")
		// a member spelled from the field's type, a `repeat` lost on one path of the model visitor: the declared field is omitted /
		// encoded without its count
		r.refile("C07/member-named-by-field", "C01/member-named-by-field", func(sr *Report) { memberNamedByField(w, wc, sr, "C07") }, func(o Obligation) bool {
			return strings.Contains(o.Key, "a member of the message object")
		})
		r.refile("C08/repeat-is-modelled", "C01/repeat-is-modelled", func(sr *Report) { c08RepeatIsModelled(w, sr, w.ctxTable()) }, nil)
		wireArms(wc, r, "C01", "enc")
		wireLEColumn(wc, r, "C01", "enc")
		wireArgOrder(wc, r, "C01")
		wireTables(w, r, "C01")
		wireOrder(wc, r, "C01", "enc")
		wireDecimalLiterals(w, r, "C01")
		optionSemantics(w, r, "C01")
		wireCppBeName(wc, r, "C01", []string{"enc"}, 1<<kBasic|1<<kLength|1<<kCheckSum)
		wirePaddingSiblings(wc, r, "C01")
		wirePaddingOutcomes(wc, r, "C01")
		defaultPaddingPredicate(w, r, "C01")
		wirePaddingPrecedence(wc, r, "C01")
		wireOneByteEndian(w, wc, r, "C01")
		wireListEndianUnconditional(w, wc, r, "C01")
		wireSequenceFrame(w, r, "C01", map[string]bool{"Field": true})
		inlineObjectKeepsItsPacket(w, r, "C01")
		nameKeyedSetOverInline(w, r, "C01", func(fn *ssa.Function) bool { return isGeneratorFunc(fn) && recvNamedCore(fn) != "LuaWspGenerator" && roleOf(fn) != "test" }, "a generator remembers the packets it has written under their names and consults that set for inline objects too: of two inline objects that share a name (or an inline object named like a declared packet) only the first is emitted, and the members of the other are encoded with its layout")
		// what an encoder emits must not depend on which targets ran before it: no generator writes into the model they share
		wireModelFrame(w, r, "C01", frameWire, nil, map[string]bool{"Field": true, "MatchPair": true, "Packet": true}, "a generator rewrites the part of the shared model the encoders are derived from: what the targets generated after it put on the wire depends on which targets ran before")
		attributeIsolation(w, r, "C01")
		// round 9: the width a member is encoded with is the width of the type written for it - the routines that turn a declaration
		// into a field map a written type to the same attribute (one of them consulting the MetaData table by the member's *name*
		// gives `u64 Price` the width of an unrelated entry called Price)
		metadataByTypeNotByName(w, r, "C01")
		r.refile("C08/type-mapping-siblings", "C01/type-mapping-siblings", func(sr *Report) { c08TypeMappingSiblings(w, sr) }, nil)
		wireFieldOrderEmission(wc, r, "C01", map[string]bool{"enc": true})
		fieldTextIndependentOfSiblings(w, r, "C01")
		wireAssumptions(r)
	})
	register("C02", "Sensitivity of the decode emitters (as C01, for decoders) plus encode/decode symmetry per language: for each cell the decoder's dependence set must include every wire-determining input its own encoder depends on - a decoder that ignores an option its encoder honours cannot invert it. "+
		"Sibling arms, LE column, argument order and declaration order as in C01. Consumed-byte counts, trimming and re-encode equality are runtime values and are not decided.", func(w *World, r *Report) {
		wc := buildWire(w, r)
		for _, l := range codecLangs {
			reportCells(r, "C02/dec-sensitivity", wc.cells[l+"/dec"])
		}
		r.floor("C02/dec-sensitivity", 50)
		wireKindHasStep(wc, r, "C02", []string{"dec"})
		wireLESpellingSide(w, wc, r, "C02")
		wireListIdiomSide(w, wc, r, "C02")
		r.refile("C07/member-named-by-field", "C02/member-named-by-field", func(sr *Report) { memberNamedByField(w, wc, sr, "C07") }, func(o Obligation) bool {
			return strings.Contains(o.Key, "a member of the message object")
		})
		r.refile("C08/repeat-is-modelled", "C02/repeat-is-modelled", func(sr *Report) { c08RepeatIsModelled(w, sr, w.ctxTable()) }, nil)
		wireSymmetry(wc, r)
		wireArms(wc, r, "C02", "dec")
		wireLEColumn(wc, r, "C02", "dec")
		wireArgOrder(wc, r, "C02")
		wirePairDedup(w, wc, r, "C02/decode-arm-per-key", "dec")
		optionSemantics(w, r, "C02")
		wireListEndianUnconditional(w, wc, r, "C02")
		wireCppBeName(wc, r, "C02", []string{"dec"}, 1<<kBasic|1<<kLength|1<<kCheckSum)
		wireOrder(wc, r, "C02", "dec")
		wireFieldOrderEmission(wc, r, "C02", map[string]bool{"dec": true})
		fieldTextIndependentOfSiblings(w, r, "C02")
		sizeSumHonoursRepeat(w, r, "C02")
		kindByRuleNotByText(w, r, "C02")
		r.refile("C05/key-as-written", "C02/key-as-written", func(sr *Report) { wireKeyAsWritten(w, wc, sr, "C05") }, nil)
		wireModelFrame(w, r, "C02", frameWire, nil, map[string]bool{"Field": true, "MatchPair": true}, "a generator rewrites the part of the shared model the decoders are derived from: the decoders of the targets generated after it no longer mirror the declared layout")
		wireAssumptions(r)
	})
	register("C03", "Sibling cross-check of the five independently written generators against one absolute table: every cell of the encode and decode matrices must be satisfied by all five languages (the odd one out is named), the five GetPadding helpers must branch on the same facts and recognise every pad-character spelling the parser can produce, and the per-language scalar tables must agree (keys, sizes, distinct LE/BE columns). "+
		"Agreement of the five runtimes and of the bytes themselves is not decided.", func(w *World, r *Report) {
		wc := buildWire(w, r)
		matrixEvidence(wc, r)
		wireSiblingMatrix(wc, r)
		wirePairDedup(w, wc, r, "C03/dispatch-arm-per-key", "dec")
		optionSemantics(w, r, "C03")
		wireListEndianUnconditional(w, wc, r, "C03")
		wirePaddingSiblings(wc, r, "C03")
		wirePaddingOutcomes(wc, r, "C03")
		defaultPaddingPredicate(w, r, "C03")
		wirePaddingPrecedence(wc, r, "C03")
		wirePadSpellings(w, wc, r)
		wireTables(w, r, "C03")
		wireSequenceFrame(w, r, "C03", map[string]bool{"Field": true, "MatchPair": true})
		sizeSumHonoursRepeat(w, r, "C03")
		nameKeyedSetOverInline(w, r, "C03", func(fn *ssa.Function) bool { return isGeneratorFunc(fn) && recvNamedCore(fn) != "LuaWspGenerator" && roleOf(fn) != "test" }, "a generator remembers the packets it has written under their names and consults that set for inline objects too: of two inline objects that share a name (or an inline object named like a declared packet) only the first is emitted, and the members of the other are encoded with its layout")
		wireModelFrame(w, r, "C03", frameWire, nil, nil, "a generator rewrites the part of the shared model the codecs are derived from: the targets generated before and after it disagree on the wire")
		fieldTextIndependentOfSiblings(w, r, "C03")
		wireAssumptions(r)
	})
	register("C04", "Length-of fields: (link) the parser gives the target field its LenAttr and the length field its resolved target on every path where a length field exists, with a checked lookup; (placeholder/back-patch) every codec generator has an emission under the LengthFieldAttribute case that depends on the field's type, and an emission under the LenAttr test that depends on byte order and on the length field's own type, and decoders read the field with byte order and type. "+
		"That the patched number equals the byte count (slice bounds, literal widths, which marker variables are subtracted) is a property of the emitted text and is not decided.", func(w *World, r *Report) {
		wc := buildWire(w, r)
		wireLength(w, wc, r)
		lengthLinkByKind(w, r, "C04")
		wireOneByteEndian(w, wc, r, "C04")
		wireFieldOrderEmission(wc, r, "C04", map[string]bool{"enc": true})
		sizeSumHonoursRepeat(w, r, "C04")
		declarationKindIsModelled(w, r, "C04", map[string]bool{"LengthFieldAttribute": true})
		wireModelFrame(w, r, "C04", frameWire, frameLength, nil, "a generator rewrites the length link / the kind of a field in the shared model: the targets generated after it lose or misplace the back-patch")
		metadataByTypeNotByName(w, r, "C04")
		wireAssumptions(r)
	})
	register("C05", "Match dispatch: (expansion) every matchPair child and every key of a key list yields one pair, in source order, with the pair's packet; (table) each language's dispatch emitter ranges over the pair list and emits text depending on both the key and the packet of the loop element; "+
		"(dedup) a seen-set that filters the pairs is keyed by the key in decode dispatchers and by the packet in Rust's enum/encode emitters; (key) decoders consult the key field. The failure mode on an unmapped key and the dynamic type chosen are properties of emitted text and are not decided.", func(w *World, r *Report) {
		wc := buildWire(w, r)
		wireMatch(w, wc, r)
		wireSequenceFrame(w, r, "C05", map[string]bool{"MatchPair": true})
		// a key maps to exactly one packet: the parse phase rejects a key that occurs twice in one table (across pairs and lists)
		visitorKeepsNoPacketState(w, r, "C05")
		// round 9: a key written as a string literal reaches the emitted comparison as written - not through the html/template renderer,
		// which turns its quotes into &#34; (the dispatch chain of a string-keyed table is then not a program)
		wireTemplateTaint(w, wc, r, "C05", []string{"go", "rust", "java", "python", "cpp", "lua"})
		matchKeysCheckedWhereverCollected(w, r, "C05")
		declarationKindIsModelled(w, r, "C05", map[string]bool{"MatchFieldAttribute": true})
		genReach := map[*ssa.Function]bool{}
		if subs, err := c14Subjects(w); err == nil {
			for _, f := range subs {
				genReach[f] = true
			}
		}
		matchTableReadFromTheField(w, r, "C05", func(fn *ssa.Function) bool { return genReach[fn] && recvNamedCore(fn) != "LuaWspGenerator" }, "the dispatch emitted for a match field is built from the table of another match field of the same key")
		fieldsWithTheirPacket(w, wc, r, "C05")
		r.refile("C12/namespace", "C05/match-keys-unique", func(sr *Report) { c12Namespaces(w, sr) }, func(o Obligation) bool {
			return strings.Contains(o.Key, "match key")
		})
		wireEveryMatchField(w, wc, r, "C05", codecLangs)
		wireModelFrame(w, r, "C05", frameWire, frameMatch, nil, "a generator rewrites a match table / the kind of a field in the shared model: the targets generated after it dispatch by another table than the DSL declares")
		wireKeyAsWritten(w, wc, r, "C05")
		wireAssumptions(r)
	})
	register("C06", "Checksum fields: every codec generator's encoder cell depends on byte order, the field's type and the algorithm name, every decoder cell on byte order and type; the field's raw type spelling is read only through GetType; the checksum emission sits inside the ordered per-field loop (so 'preceding bytes' are what earlier fields wrote). "+
		"Algorithm results, buffer extent and the byte order of each individual emitted write are not decided, except for the C++ emitters, whose big-endian accessor is the bare type name: every such site must have consulted LittleEndian.", func(w *World, r *Report) {
		wc := buildWire(w, r)
		var cs []cellResult
		for _, l := range codecLangs {
			for _, dir := range []string{"enc", "dec"} {
				for _, c := range wc.cells[l+"/"+dir] {
					if c.u.K == kCheckSum {
						cs = append(cs, c)
					}
				}
			}
		}
		reportCells(r, "C06/checksum-sensitivity", cs)
		r.floor("C06/checksum-sensitivity", 10)
		wireCppBeName(wc, r, "C06", []string{"enc", "dec"}, 1<<kCheckSum)
		wireRawType(w, r, "C06", "CheckSumFieldAttribute.Type")
		declarationKindIsModelled(w, r, "C06", map[string]bool{"CheckSumFieldAttribute": true})
		// round 9: the checksum declared inside an inline object is that object's own - a by-name lookup that replaces the inline
		// packet by a declared packet of the same name swaps its calculated field (algorithm, width) for the other packet's
		inlineObjectKeepsItsPacket(w, r, "C06")
		metadataByTypeNotByName(w, r, "C06")
		wireModelFrame(w, r, "C06", frameWire, frameCheckSum, nil, "a generator rewrites the checksum attribute / the kind of a field in the shared model: the targets generated after it no longer calculate the checksum the DSL declares")
		wireOrder(wc, r, "C06", "enc")
		wireOneByteEndian(w, wc, r, "C06")
		wireFieldOrderEmission(wc, r, "C06", map[string]bool{"enc": true, "dec": true})
		fieldTextIndependentOfSiblings(w, r, "C06")
		wireAssumptions(r)
	})
	register("C15", "Lua dissector, decided part: the dissector emitters depend on the list/string prefix types, the scalar type and the byte order for every cell; every emission that takes a size from a source (fixed length, scalar table Size, prefix table Size) takes the range and the advance from the same source; the scalar table agrees with the other languages. "+
		"Also decided: per-packet `local function` helpers are emitted dependencies first (or declared ahead), a search for the match key considers every match field, 'already emitted' sets are keyed by the packet's name, emitted brackets balance. NOT decided (the heart of C15): whether the running offset is threaded through nested dissector calls, loops and match branches - a dataflow property of the emitted Lua program.", func(w *World, r *Report) {
		wc := buildWire(w, r)
		reportCells(r, "C15/lua-sensitivity", wc.cells["lua/dec"])
		r.floor("C15/lua-sensitivity", 8)
		wireBeColumn(wc, r, "C15")
		// the size of a checksum field comes from its resolved type, not from the type as it was spelled (uint32 has no table row)
		wireRawType(w, r, "C15", "CheckSumFieldAttribute.Type")
		sizeSumHonoursRepeat(w, r, "C15")
		matchTableReadFromTheField(w, r, "C15", func(fn *ssa.Function) bool { return recvNamedCore(fn) == "LuaWspGenerator" }, "the dissector emitter works on the table of another match field of the same key")
		nameKeyedSetOverInline(w, r, "C15", func(fn *ssa.Function) bool { return recvNamedCore(fn) == "LuaWspGenerator" }, "the dissector emitter remembers packets under their names and consults that set for inline objects too: of two inline objects that share a name only the first gets its dissector / its place in the order")
		wireModelFrame(w, r, "C15", framePackets, nil, map[string]bool{"Packet": true, "Field": true}, "a generator rewrites the packet list / a field list in the shared model: a packet whose slot was overwritten loses its dissector function although it is still called")
		wireEveryMatchField(w, wc, r, "C15", []string{"lua"})
		wireEmitOnceKeys(w, wc, r, "C15")
		c15HelpersDefinedFirst(w, wc, r)
		wireTemplateTaint(w, wc, r, "C15", []string{"lua"})
		// round 9: every declared packet gets its dissector routine - none is skipped for what it contains (the routines of the packets
		// that refer to an empty packet still call it)
		r.refile("C07/every-packet", "C15/every-packet", func(sr *Report) { c07Packets(w, wc, sr) }, func(o Obligation) bool { return strings.HasPrefix(strings.TrimPrefix(o.Key, o.Rule+" "), "lua") })
		wireBracketBalance(w, wc, r, "C15", map[string]bool{"code": true, "test": true, "only-lua": true})
		wireLuaSizes(wc, r)
		wireTables(w, r, "C15")
		wireAssumptions(r)
	})
}

// matrixEvidence records the per-cell dependence sets of all languages (what the sibling matrix compared).
func matrixEvidence(wc *wireCtx, r *Report) {
	rows := map[string]map[string]string{}
	for _, ga := range anchorTable {
		for _, dir := range []string{"enc", "dec"} {
			for _, c := range wc.cells[ga.Lang+"/"+dir] {
				if c.cl.need == 0 {
					continue
				}
				k := fmt.Sprintf("%s/%s needs %s", dir, c.u, c.cl.need)
				if rows[k] == nil {
					rows[k] = map[string]string{}
				}
				v := "ok in " + c.where
				if !c.ok {
					v = "MISSING " + (c.cl.need &^ c.have).String()
				}
				rows[k][ga.Lang] = v
			}
		}
	}
	if r.Extra == nil {
		r.Extra = map[string]any{}
	}
	r.Extra["wire_matrix"] = rows
}

func wireAssumptions(r *Report) {
	r.assume("generated code reads no configuration at run time: emitted text is the only channel from options/attributes to the wire")
	r.assume("dependence is over-approximated (helper calls are summarised flow-insensitively per cell); imprecision can hide a missing dependence, never invent one")
	r.assume("the frozen anchor table names each language's encode/decode emitters; everything inside them is found semantically")
}

// ---------- enc/dec symmetry (C02) ----------

func wireSymmetry(wc *wireCtx, r *Report) {
	const rule = "C02/enc-dec-symmetry"
	wireSrc := sLE | sSP | sAP | sFL | sFP | sCP | sPC | sPL
	for _, l := range codecLangs {
		for _, u := range feasibleUnits() {
			eg := wc.m.unitGroups(wc.anchors[l]["enc"], u)
			dg := wc.m.unitGroups(wc.anchors[l]["dec"], u)
			var e, d src
			for _, g := range eg {
				e |= g.deps
			}
			for _, g := range dg {
				d |= g.deps
			}
			if len(eg) == 0 || len(dg) == 0 {
				continue
			}
			key := fmt.Sprintf("%s/%s decoder honours what its encoder honours", l, u)
			if u.K == kLength || u.K == kCheckSum || u.K == kMatch {
				// encoders of these kinds write computed values; the decoder side is judged by its own clauses
				continue
			}
			miss := (e & wireSrc) &^ d
			if miss == 0 {
				r.pass(rule, key, "", (e & wireSrc).String())
			} else {
				r.fail(rule, key, "", fmt.Sprintf("the %s encoder's text for this cell depends on %s but the decoder's does not: the decoder cannot invert the encoder when that input changes", l, miss))
			}
		}
	}
	r.floor(rule, 30)
}

// ---------- sibling matrix (C03) ----------

func wireSiblingMatrix(wc *wireCtx, r *Report) {
	const rule = "C03/sibling-matrix"
	for _, dir := range []string{"enc", "dec"} {
		byCell := map[string]map[string]cellResult{}
		var order []string
		for _, l := range codecLangs {
			for _, c := range wc.cells[l+"/"+dir] {
				if c.cl.need == 0 {
					continue
				}
				k := fmt.Sprintf("%s/%s: %s", dir, c.u, c.cl.name)
				if byCell[k] == nil {
					byCell[k] = map[string]cellResult{}
					order = append(order, k)
				}
				byCell[k][l] = c
			}
		}
		for _, k := range order {
			var good, bad []string
			var detail []string
			for _, l := range codecLangs {
				c, ok := byCell[k][l]
				if !ok {
					continue
				}
				if c.ok {
					good = append(good, l)
				} else {
					bad = append(bad, l)
					detail = append(detail, fmt.Sprintf("%s lacks %s", l, c.cl.need&^c.have))
				}
			}
			if len(bad) == 0 {
				r.pass(rule, k, "", "all of "+strings.Join(good, ", "))
			} else {
				for _, l := range bad {
					c := byCell[k][l]
					r.fail(rule, l+"/"+k, "", fmt.Sprintf("odd one out: %s; %s have it - the languages drift apart on the wire for this cell", c.cl.need&^c.have, strings.Join(good, ", ")))
				}
				_ = detail
			}
		}
	}
	r.floor(rule, 25)
}

// ---------- sibling arms (C01/C02) ----------

type modeKind int

const (
	modeLE modeKind = iota
	modeRepeat
	modeIsDefault
)

// classifyMode: is cond (possibly negated) a direct test of byte order / repeat / default padding?
func classifyMode(cond ssa.Value) (modeKind, bool, bool) {
	neg := false
	for {
		if u, ok := cond.(*ssa.UnOp); ok && u.Op == token.NOT {
			neg = !neg
			cond = u.X
			continue
		}
		break
	}
	if ld, ok := cond.(*ssa.UnOp); ok && ld.Op == token.MUL {
		if fa, ok := ld.X.(*ssa.FieldAddr); ok {
			tn, f, _, _ := fieldOf(fa)
			if tn == "Configuration" && f == "LittleEndian" {
				return modeLE, neg, true
			}
			if tn == "Field" && f == "IsRepeat" {
				return modeRepeat, neg, true
			}
		}
	}
	if c, ok := cond.(*ssa.Call); ok {
		if f := c.Call.StaticCallee(); f != nil && f.Name() == "IsDefault" && recvNamed(f) == "Padding" {
			return modeIsDefault, neg, true
		}
	}
	return 0, false, false
}

func wireArms(wc *wireCtx, r *Report, prop, dir string) {
	rule := prop + "/sibling-arms"
	wireSrc := sSP | sAP | sFL | sPC | sPL | sCS | sTY | sLFT | sMK
	n := 0
	for _, l := range codecLangs {
		for _, fn := range wc.anchors[l][dir] {
			ff := wc.m.facts[fn]
			if ff == nil {
				continue
			}
			sites := wc.m.sitesOf(fn)
			counts := map[string]int{}
			for _, b := range fn.Blocks {
				cond := branchCond(b)
				if cond == nil {
					continue
				}
				mode, neg, ok := classifyMode(cond)
				if !ok {
					continue
				}
				var arm [2]src
				var cnt [2]int
				for _, s := range sites {
					for _, d := range ff.cd.allCtrl(s.instr.Block()) {
						if d.Branch != b {
							continue
						}
						data := wc.m.siteDataFull(s, nil)
						// only sites that carry wire-relevant operands matter
						if data&(wireSrc|sLE|sTBL) == 0 {
							continue
						}
						arm[d.Succ] |= data & wireSrc
						cnt[d.Succ]++
					}
				}
				if cnt[0] == 0 || cnt[1] == 0 {
					continue
				}
				n++
				t, f := arm[0], arm[1] // true edge, false edge
				if neg {
					t, f = f, t
				}
				st, _ := wc.m.stateAt(fn, b)
				kb := fmt.Sprintf("%s %s-branch under %s", fnKey(fn), []string{"byte-order", "repeat", "default-padding"}[mode], st)
				counts[kb]++
				key := kb
				if counts[kb] > 1 {
					key = fmt.Sprintf("%s#%d", kb, counts[kb])
				}
				pos := wc.m.w.instrPos(b.Instrs[len(b.Instrs)-1])
				switch mode {
				case modeLE:
					if t == f {
						r.pass(rule, key, pos, "both arms consume "+t.String())
					} else {
						r.fail(rule, key, pos, fmt.Sprintf("the little-endian arm consumes %s but the big-endian arm %s: one byte order drops an input the other honours", t, f))
					}
				case modeRepeat:
					// compare kind by kind: the single arm may also hold kinds that cannot repeat
					lsucc, ssucc := 0, 1
					if neg {
						lsucc, ssucc = 1, 0
					}
					var lacks []string
					for _, k := range []int{kBasic, kDyn, kFixed, kObject} {
						ul, us := unit{K: k, List: true}, unit{K: k}
						var dl, ds src
						nl, ns := 0, 0
						for _, s := range sites {
							stt, fld := wc.m.stateAt(fn, s.instr.Block())
							if fld == nil {
								continue
							}
							for _, d := range ff.cd.allCtrl(s.instr.Block()) {
								if d.Branch != b {
									continue
								}
								if d.Succ == lsucc && stt.admits(ul) {
									x := wc.m.siteDataFull(s, &ul)
									dl |= x & wireSrc
									nl++
								}
								if d.Succ == ssucc && stt.admits(us) {
									x := wc.m.siteDataFull(s, &us)
									ds |= x & wireSrc
									ns++
								}
							}
						}
						ignore := sLFT
						if k != kBasic {
							ignore |= sTY // the type only names the runtime call for non-scalar kinds
						}
						if nl > 0 && ns > 0 && ds&^dl&^ignore != 0 {
							lacks = append(lacks, fmt.Sprintf("%s: %s", kindNames[k], ds&^dl&^ignore))
						}
					}
					if len(lacks) == 0 {
						r.pass(rule, key, pos, "")
					} else {
						r.fail(rule, key, pos, "the repeated arm lacks inputs the single arm consumes for the same kind - "+strings.Join(lacks, "; "))
					}
				case modeIsDefault:
					// true edge = default padding
					nd := f
					df := t
					need := df | sPC | sPL
					if need&^nd == 0 {
						r.pass(rule, key, pos, "")
					} else {
						r.fail(rule, key, pos, fmt.Sprintf("the non-default-padding arm lacks %s", need&^nd))
					}
				}
			}
		}
	}
	r.note("%s: mode branches with emission sites in both arms: %d", rule, n)
	r.floor(rule, 10)
}

// ---------- LE column (C01/C02) ----------

// tableCols: the type-table columns a value is built from (data flow inside the function, through local objects and phis).
func tableCols(v ssa.Value, out map[string]bool, seen map[ssa.Value]bool, depth int) {
	if v == nil || seen[v] || depth > 40 {
		return
	}
	seen[v] = true
	colOf := func(tn, f string) {
		if tableTypeNames[tn] {
			out[f] = true
		}
	}
	switch x := v.(type) {
	case *ssa.Alloc:
		if x.Referrers() == nil {
			return
		}
		var visit func(addr ssa.Value, d int)
		visit = func(addr ssa.Value, d int) {
			if d > 4 || addr.Referrers() == nil {
				return
			}
			for _, ref := range *addr.Referrers() {
				switch y := ref.(type) {
				case *ssa.Store:
					if y.Addr == addr {
						tableCols(y.Val, out, seen, depth+1)
					}
				case *ssa.IndexAddr:
					visit(y, d+1)
				}
			}
		}
		visit(x, 0)
	case *ssa.Phi:
		for _, e := range x.Edges {
			tableCols(e, out, seen, depth+1)
		}
	case *ssa.UnOp:
		if fa, ok := x.X.(*ssa.FieldAddr); ok {
			tn, f, _, _ := fieldOf(fa)
			colOf(tn, f)
			return
		}
		tableCols(x.X, out, seen, depth+1)
	case *ssa.Field:
		tn, f, _, _ := fieldOf(x)
		colOf(tn, f)
	case *ssa.BinOp:
		tableCols(x.X, out, seen, depth+1)
		tableCols(x.Y, out, seen, depth+1)
	case *ssa.Slice:
		tableCols(x.X, out, seen, depth+1)
	case *ssa.MakeInterface:
		tableCols(x.X, out, seen, depth+1)
	case *ssa.ChangeType:
		tableCols(x.X, out, seen, depth+1)
	case *ssa.Convert:
		tableCols(x.X, out, seen, depth+1)
	case *ssa.Extract:
		tableCols(x.Tuple, out, seen, depth+1)
	case *ssa.Call:
		for _, a := range x.Call.Args {
			tableCols(a, out, seen, depth+1)
		}
	}
}

// wireBeColumn: a type table that has a big-endian and a little-endian accessor column (Lua: Be / Le) - the Be column may only be
// read where the byte order was consulted: under an LE branch, or as the default of a value that the LE branch overrides with Le.
func wireBeColumn(wc *wireCtx, r *Report, prop string) {
	rule := prop + "/be-column-guarded"
	m := wc.m
	n := 0
	for _, fn := range wc.anchors["lua"]["own"] {
		ff := m.facts[fn]
		if ff == nil {
			continue
		}
		cnt := 0
		forEachInstr(fn, func(b *ssa.BasicBlock, ins ssa.Instruction) {
			var v ssa.Value
			switch x := ins.(type) {
			case *ssa.Field:
				if tn, f, _, _ := fieldOf(x); tableTypeNames[tn] && f == "Be" {
					v = x
				}
			case *ssa.UnOp:
				if fa, ok := x.X.(*ssa.FieldAddr); ok && x.Op == token.MUL {
					if tn, f, _, _ := fieldOf(fa); tableTypeNames[tn] && f == "Be" {
						v = x
					}
				}
			}
			if v == nil {
				return
			}
			n++
			cnt++
			key := fmt.Sprintf("%s reads the big-endian accessor only after consulting the byte order", fnKey(fn))
			if cnt > 1 {
				key += fmt.Sprintf("#%d", cnt)
			}
			ok := false
			for _, d := range ff.cd.allCtrl(b) {
				if cond := branchCond(d.Branch); cond != nil {
					if mode, _, isM := classifyMode(cond); isM && mode == modeLE {
						ok = true
					}
				}
			}
			if !ok && v.Referrers() != nil {
				for _, ref := range *v.Referrers() {
					if phi, isPhi := ref.(*ssa.Phi); isPhi {
						cols := map[string]bool{}
						tableCols(phi, cols, map[ssa.Value]bool{}, 0)
						if cols["Le"] && m.ctx(fn, nil).phiSelectors(phi.Block())&sLE != 0 {
							ok = true
						}
					}
				}
			}
			if ok {
				r.pass(rule, key, m.w.instrPos(ins), "")
			} else {
				r.fail(rule, key, m.w.instrPos(ins), "the table's Be accessor is used without any test of LittleEndian: with LittleEndian = true the dissector still reads big-endian")
			}
		})
	}
	if n == 0 {
		r.note("no read of a Be accessor column found (the table may have been reshaped)")
	}
}

// wireCppBeName: in the C++ emitters the big-endian accessor is spelled with the scalar type name itself (buf.write_u32) and the
// little-endian one comes from the table's Le column. A site of a scalar cell that interpolates the bare type name, reads no table
// column and is neither selected by nor merged with the byte-order test writes big-endian whatever the configuration says.
func wireCppBeName(wc *wireCtx, r *Report, prop string, dirs []string, kinds uint8) {
	rule := prop + "/cpp-accessor-follows-byte-order"
	m := wc.m
	for _, dir := range dirs {
		for _, fn := range wc.anchors["cpp"][dir] {
			cnt := 0
			for _, s := range m.sitesOf(fn) {
				st, f := m.stateAt(fn, s.instr.Block())
				if f == nil || st.empty() || st.K&kinds == 0 || st.K&^(1<<kBasic|1<<kLength|1<<kCheckSum) != 0 && st.isTop() {
					continue
				}
				if st.K&^(1<<kBasic|1<<kLength|1<<kCheckSum) != 0 {
					continue // not specific to a scalar cell
				}
				d, c := m.siteDeps(s, nil)
				if d&sTY == 0 {
					continue
				}
				cols := map[string]bool{}
				tableCols(s.val, cols, map[ssa.Value]bool{}, 0)
				if len(cols) > 0 {
					continue
				}
				cnt++
				key := fmt.Sprintf("%s type-named accessor #%d is chosen by the byte order", fnKey(fn), cnt)
				if (d|c)&sLE != 0 {
					r.pass(rule, key, m.w.instrPos(s.instr), "")
				} else {
					r.fail(rule, key, m.w.instrPos(s.instr), "the emitted call is named after the bare scalar type (the big-endian accessor) on a path where LittleEndian was never consulted: with LittleEndian = true this value is still written/read big-endian")
				}
			}
		}
	}
}

var leFlavourRE = regexp.MustCompile(`_le\b|\ble_|[a-z0-9_]LE\b|^LE$|LittleEndian|little_endian`)

func leFlavoured(s string) bool { return leFlavourRE.MatchString(s) }

// stringConsts: the string constants a value is built from (format strings, suffixes), through concatenation, phis and call arguments.
func stringConsts(v ssa.Value) []string {
	var out []string
	seen := map[ssa.Value]bool{}
	var walk func(v ssa.Value, d int)
	walk = func(v ssa.Value, d int) {
		if v == nil || seen[v] || d > 12 {
			return
		}
		seen[v] = true
		switch x := v.(type) {
		case *ssa.Const:
			if s, ok := constString(x); ok && s != "" {
				out = append(out, s)
			}
		case *ssa.BinOp:
			walk(x.X, d+1)
			walk(x.Y, d+1)
		case *ssa.Phi:
			for _, e := range x.Edges {
				walk(e, d+1)
			}
		case *ssa.Call:
			for _, a := range x.Call.Args {
				walk(a, d+1)
			}
		case *ssa.MakeInterface:
			walk(x.X, d+1)
		case *ssa.Convert:
			walk(x.X, d+1)
		case *ssa.ChangeType:
			walk(x.X, d+1)
		}
	}
	walk(v, 0)
	return out
}

func allEmpty(l []ast.Stmt) bool {
	for _, st := range l {
		if _, ok := st.(*ast.EmptyStmt); !ok {
			return false
		}
	}
	return true
}

// enclosingIf: the innermost if statement of fn's source whose condition contains the given value's position.
func enclosingIf(w *World, fn *ssa.Function, cond ssa.Value) *ast.IfStmt {
	if cond == nil {
		return nil
	}
	pos := cond.Pos()
	if !pos.IsValid() {
		// a load or call inside the condition carries the position
		if u, ok := cond.(*ssa.UnOp); ok {
			pos = u.X.Pos()
			if !pos.IsValid() {
				if fa, ok := u.X.(*ssa.FieldAddr); ok {
					pos = fa.X.Pos()
				}
			}
		}
	}
	if !pos.IsValid() {
		return nil
	}
	var best *ast.IfStmt
	for _, p := range w.Pkgs {
		for _, f := range p.Syntax {
			if pos < f.Pos() || pos > f.End() {
				continue
			}
			ast.Inspect(f, func(n ast.Node) bool {
				if ifs, ok := n.(*ast.IfStmt); ok && ifs.Cond.Pos() <= pos && pos <= ifs.Cond.End() {
					best = ifs
				}
				return true
			})
		}
	}
	return best
}

var beCounterpart = map[string]string{"java": "BasicType", "python": "BasicType", "lua": "Be"}

func wireLEColumn(wc *wireCtx, r *Report, prop, dir string) {
	rule := prop + "/le-column"
	n := 0
	for _, ga := range anchorTable {
		if ga.Table == "" || (dir == "enc" && ga.Lang == "lua") {
			continue
		}
		for _, fn := range wc.anchors[ga.Lang][dir] {
			c := wc.m.ctx(fn, nil)
			counts := map[string]int{}
			verdict := func(leCols, beCols map[string]bool, leBits, beBits src, pos string) {
				if ga.Lang == "go" {
					return // Go's runtime is parameterised by a byte-order suffix, there is no Le column (polarity is still judged)
				}
				applies := false
				if cp := beCounterpart[ga.Lang]; cp != "" {
					applies = beCols[cp]
				} else {
					// C++: the big-endian method name is the type name itself
					applies = beBits&sTY != 0 && len(beCols) == 0
				}
				if !applies {
					// mirror image: the big-endian side reads the Le column and the little-endian side does not - the arms are swapped
					if beCols["Le"] && !leCols["Le"] {
						n++
						kb := fmt.Sprintf("%s byte-order selection", fnKey(fn))
						counts[kb]++
						key := kb
						if counts[kb] > 1 {
							key = fmt.Sprintf("%s#%d", kb, counts[kb])
						}
						r.fail(rule, key, pos, "the table's Le column is read on the big-endian side of the byte-order test and not on the little-endian side: the two byte orders are swapped")
					}
					return
				}
				n++
				kb := fmt.Sprintf("%s byte-order selection", fnKey(fn))
				counts[kb]++
				key := kb
				if counts[kb] > 1 {
					key = fmt.Sprintf("%s#%d", kb, counts[kb])
				}
				if leCols["Le"] {
					r.pass(rule, key, pos, "the little-endian side reads the table's Le column")
				} else {
					r.fail(rule, key, pos, "the big-endian side names the read/write method from the type ("+strings.Join(sortedBoolKeys(beCols), ",")+") but the little-endian side does not take it from the table's Le column: for types whose little-endian spelling is irregular (one-byte types) the emitted call does not exist")
				}
			}
			// the text chosen when LittleEndian is true is the little-endian flavoured one (..._le, ...LE, le_...), not the other way round
			polarity := func(leTexts, beTexts []string, pos string) {
				lf, bf := false, false
				for _, t := range leTexts {
					if leFlavoured(t) {
						lf = true
					}
				}
				for _, t := range beTexts {
					if leFlavoured(t) {
						bf = true
					}
				}
				if !lf && !bf {
					return
				}
				n++
				kb := fmt.Sprintf("%s byte-order polarity", fnKey(fn))
				counts[kb]++
				key := kb
				if counts[kb] > 1 {
					key = fmt.Sprintf("%s#%d", kb, counts[kb])
				}
				if bf && !lf {
					r.fail(rule, key, pos, "the little-endian spelling of the emitted call is selected when LittleEndian is FALSE and the plain one when it is true: the two byte orders are swapped")
				} else {
					r.pass(rule, key, pos, "")
				}
			}
			for _, b := range fn.Blocks {
				cond := branchCond(b)
				if cond == nil {
					continue
				}
				mode, neg, ok := classifyMode(cond)
				if !ok || mode != modeLE {
					continue
				}
				leSucc := 0
				if neg {
					leSucc = 1
				}
				leBlk, beBlk := b.Succs[leSucc], b.Succs[1-leSucc]
				// triangle/diamond with a phi at the join
				joins := append([]*ssa.BasicBlock{}, leBlk.Succs...)
				joins = append(joins, leBlk, beBlk) // an arm without statements jumps straight to the join
				joins = append(joins, beBlk.Succs...)
				seenJoin := map[*ssa.BasicBlock]bool{}
				for _, jb := range joins {
					if seenJoin[jb] {
						continue
					}
					seenJoin[jb] = true
					for _, ins := range jb.Instrs {
						phi, ok := ins.(*ssa.Phi)
						if !ok {
							break
						}
						var lev, bev ssa.Value
						for i, e := range phi.Edges {
							p := jb.Preds[i]
							switch {
							case p == leBlk && len(leBlk.Preds) == 1 && jb != leBlk:
								lev = e
							case p == beBlk && len(beBlk.Preds) == 1 && jb != beBlk:
								bev = e
							case p == b && jb == leBlk:
								lev = e // the little-endian edge goes straight to the join
							case p == b && jb == beBlk:
								bev = e
							}
						}
						if lev == nil || bev == nil {
							continue
						}
						lc, bc := map[string]bool{}, map[string]bool{}
						tableCols(lev, lc, map[ssa.Value]bool{}, 0)
						tableCols(bev, bc, map[ssa.Value]bool{}, 0)
						leTexts, beTexts := stringConsts(lev), stringConsts(bev)
						flav := false
						for _, t := range append(append([]string{}, leTexts...), beTexts...) {
							if leFlavoured(t) {
								flav = true
							}
						}
						// a choice between two plain type names (no column, no _le spelling on either side) selects a width, not an
						// accessor: the accessor is chosen where that name is used
						if len(lc) > 0 || len(bc) > 0 || flav {
							verdict(lc, bc, c.deps(lev), c.deps(bev), wc.m.w.instrPos(b.Instrs[len(b.Instrs)-1]))
						}
						polarity(leTexts, beTexts, wc.m.w.instrPos(b.Instrs[len(b.Instrs)-1]))
					}
				}
				// arm form: emission sites directly in the two arms
				ff := wc.m.facts[fn]
				lc, bc := map[string]bool{}, map[string]bool{}
				var lb, bb src
				nl, nb := 0, 0
				var lConsts, bConsts []string
				for _, s := range wc.m.sitesOf(fn) {
					for _, d := range ff.cd.ctrl[s.instr.Block()] {
						if d.Branch != b {
							continue
						}
						data, _ := wc.m.siteDeps(s, nil)
						if d.Succ == leSucc {
							tableCols(s.val, lc, map[ssa.Value]bool{}, 0)
							lb |= data
							nl++
							lConsts = append(lConsts, stringConsts(s.val)...)
						} else {
							tableCols(s.val, bc, map[ssa.Value]bool{}, 0)
							bb |= data
							nb++
							bConsts = append(bConsts, stringConsts(s.val)...)
						}
					}
				}
				if nl > 0 && nb > 0 {
					polarity(lConsts, bConsts, wc.m.w.instrPos(b.Instrs[len(b.Instrs)-1]))
					verdict(lc, bc, lb, bb, wc.m.w.instrPos(b.Instrs[len(b.Instrs)-1]))
					// the two arms are written as copies that differ in the accessor only: they emit the same number of pieces
					n++
					kb := fmt.Sprintf("%s byte-order arms emit the same number of pieces", fnKey(fn))
					counts[kb]++
					key := kb
					if counts[kb] > 1 {
						key = fmt.Sprintf("%s#%d", kb, counts[kb])
					}
					if nl == nb {
						r.pass(rule, key, wc.m.w.instrPos(b.Instrs[len(b.Instrs)-1]), fmt.Sprintf("%d each", nl))
					} else {
						r.fail(rule, key, wc.m.w.instrPos(b.Instrs[len(b.Instrs)-1]), fmt.Sprintf("the little-endian arm emits %d piece(s) of text and the big-endian arm %d: one byte order is missing a statement the other has", nl, nb))
					}
				}
				// an arm that emits nothing while its sibling emits a type-derived accessor: one byte order gets no code at all
				wireBits := sTY | sTBL | sSP | sAP | sLFT
				if (nl == 0) != (nb == 0) && (lb|bb)&wireBits != 0 && len(b.Succs) == 2 {
					n++
					kb := fmt.Sprintf("%s byte-order arms both emit", fnKey(fn))
					counts[kb]++
					key := kb
					if counts[kb] > 1 {
						key = fmt.Sprintf("%s#%d", kb, counts[kb])
					}
					which := "little-endian"
					if nb == 0 {
						which = "big-endian"
					}
					// only when the silent arm is a real arm (not the fall-through of `if le { suffix = "_le" }`)
					silent := b.Succs[leSucc]
					if nb == 0 {
						silent = b.Succs[1-leSucc]
					}
					other := b.Succs[1-leSucc]
					if nb == 0 {
						other = b.Succs[leSucc]
					}
					join := false
					for _, sc := range other.Succs {
						if sc == silent {
							join = true // if-without-else: the "silent arm" is the join block
						}
					}
					if join {
						// ... unless the source has that arm and it is empty (SSA construction folds an empty arm into the join)
						if ifs := enclosingIf(wc.m.w, fn, branchCond(b)); ifs != nil {
							emptyThen := len(ifs.Body.List) == 0 || allEmpty(ifs.Body.List)
							emptyElse := false
							if eb, ok := ifs.Else.(*ast.BlockStmt); ok {
								emptyElse = len(eb.List) == 0 || allEmpty(eb.List)
							}
							if emptyThen || emptyElse {
								join = false
							}
						}
					}
					if !join {
						r.fail(rule, key, wc.m.w.instrPos(b.Instrs[len(b.Instrs)-1]), "the "+which+" arm of this byte-order test emits nothing while the other arm emits a type-derived read/write: for that byte order the field is not encoded/decoded at all")
					}
				}
			}
		}
	}
	r.note("%s: byte-order selections judged: %d", rule, n)
}

// ---------- argument order symmetry ----------

// orderedSources: for an emitted value built by fmt.Sprintf, the sequence of ordered wire sources (AP, SP, TY) by operand position.
func (m *matrix) orderedSources(s site) []src {
	v := s.val
	for i := 0; i < 4; i++ {
		call, ok := v.(*ssa.Call)
		if !ok {
			return nil
		}
		f := call.Call.StaticCallee()
		if f == nil {
			return nil
		}
		if f.String() == "fmt.Sprintf" {
			ops := variadicOperands(call.Call.Args[1])
			c := m.ctx(s.fn, nil)
			var seq []src
			for _, op := range ops {
				if op == nil {
					continue
				}
				d := c.deps(op) & (sAP | sSP | sTY)
				if d != 0 && (d&(d-1)) == 0 { // exactly one ordered source
					seq = append(seq, d)
				}
			}
			return seq
		}
		// wrappers such as AddIndent4ln(x)
		if len(call.Call.Args) == 0 {
			return nil
		}
		v = call.Call.Args[len(call.Call.Args)-1]
	}
	return nil
}

func wireArgOrder(wc *wireCtx, r *Report, prop string) {
	rule := prop + "/enc-dec-argument-order"
	for _, l := range codecLangs {
		for _, u := range feasibleUnits() {
			rel := map[string]map[[2]src]string{"enc": {}, "dec": {}}
			for _, dir := range []string{"enc", "dec"} {
				for _, fn := range wc.anchors[l][dir] {
					for _, s := range wc.m.sitesOf(fn) {
						st, f := wc.m.stateAt(fn, s.instr.Block())
						if f == nil || st.isTop() || !st.admits(u) {
							continue
						}
						seq := wc.m.orderedSources(s)
						for i := 0; i < len(seq); i++ {
							for j := i + 1; j < len(seq); j++ {
								if seq[i] != seq[j] {
									rel[dir][[2]src{seq[i], seq[j]}] = wc.m.w.instrPos(s.instr)
								}
							}
						}
					}
				}
			}
			for pair, pos := range rel["enc"] {
				rev := [2]src{pair[1], pair[0]}
				key := fmt.Sprintf("%s/%s %s before %s", l, u, pair[0], pair[1])
				if dpos, bad := rel["dec"][rev]; bad {
					if _, alsoSame := rel["dec"][pair]; alsoSame {
						continue // decoder has both orders in different sites: no verdict
					}
					r.fail(rule, key, pos, fmt.Sprintf("the encoder passes %s before %s (at %s) but the decoder passes them in the opposite order (at %s): with different prefix types each side reads the other's width", pair[0], pair[1], pos, dpos))
				} else if _, same := rel["dec"][pair]; same {
					r.pass(rule, key, pos, "same order in encoder and decoder")
				}
			}
		}
	}
	r.assume("the codec runtimes take prefix/element type parameters in the same order in their read and write entry points (true on every pair today)")
}

// ---------- tables ----------

type tableInfo struct {
	name string
	keys map[string]map[string]string // key -> column -> value
	cols []string
}

func readTables(w *World) []tableInfo {
	pp := w.ByPath[parserPath]
	var out []tableInfo
	for _, f := range pp.Syntax {
		for _, d := range f.Decls {
			gd, ok := d.(*ast.GenDecl)
			if !ok || gd.Tok != token.VAR {
				continue
			}
			for _, sp := range gd.Specs {
				vs := sp.(*ast.ValueSpec)
				if len(vs.Names) != 1 || !strings.HasSuffix(vs.Names[0].Name, "BasicTypeMap") || len(vs.Values) != 1 {
					continue
				}
				cl, ok := vs.Values[0].(*ast.CompositeLit)
				if !ok {
					continue
				}
				ti := tableInfo{name: vs.Names[0].Name, keys: map[string]map[string]string{}}
				mt, _ := pp.TypesInfo.TypeOf(cl).Underlying().(*types.Map)
				var st *types.Struct
				if mt != nil {
					st, _ = mt.Elem().Underlying().(*types.Struct)
				}
				if st != nil {
					for i := 0; i < st.NumFields(); i++ {
						ti.cols = append(ti.cols, st.Field(i).Name())
					}
				}
				for _, el := range cl.Elts {
					kv, ok := el.(*ast.KeyValueExpr)
					if !ok {
						continue
					}
					ktv := pp.TypesInfo.Types[kv.Key]
					if ktv.Value == nil {
						continue
					}
					k := constant.StringVal(ktv.Value)
					row := map[string]string{}
					if vl, ok := kv.Value.(*ast.CompositeLit); ok {
						for i, ve := range vl.Elts {
							col := ""
							var ex ast.Expr = ve
							if kv2, ok := ve.(*ast.KeyValueExpr); ok {
								if id, ok := kv2.Key.(*ast.Ident); ok {
									col = id.Name
								}
								ex = kv2.Value
							} else if i < len(ti.cols) {
								col = ti.cols[i]
							}
							if tv := pp.TypesInfo.Types[ex]; tv.Value != nil {
								row[col] = tv.Value.ExactString()
								if tv.Value.Kind() == constant.String {
									row[col] = constant.StringVal(tv.Value)
								}
							}
						}
					}
					ti.keys[k] = row
				}
				out = append(out, ti)
			}
		}
	}
	sort.Slice(out, func(i, j int) bool { return out[i].name < out[j].name })
	return out
}

var scalarWidth = map[string]string{"i8": "1", "u8": "1", "char": "1", "i16": "2", "u16": "2", "i32": "4", "u32": "4", "f32": "4", "i64": "8", "u64": "8", "f64": "8"}

// canonicalScalars: the grammar's scalar types after alias normalisation (by model.getBasicType's switch).
func canonicalScalars(w *World) []string {
	set := map[string]bool{}
	norm := map[string]string{}
	for _, st := range normalisingSwitches(w) {
		if len(norm) == 0 || len(st.cases) > len(norm) {
			norm = st.cases // the widest table
		}
	}
	for _, lits := range w.G4.ScalarTokens() {
		for _, l := range lits {
			if n, ok := norm[l]; ok && n != "" {
				set[n] = true
			} else {
				set[l] = true
			}
		}
	}
	return sortedBoolKeys(set)
}

func wireTables(w *World, r *Report, prop string) {
	rule := prop + "/table-agreement"
	tables := readTables(w)
	if len(tables) < 5 {
		r.fail(rule, "scalar tables found", "internal/parser", fmt.Sprintf("expected the five per-language scalar tables, found %d", len(tables)))
		return
	}
	scalars := canonicalScalars(w)
	for _, t := range tables {
		if prop == "C15" && t.name != "luaBasicTypeMap" {
			continue
		}
		var missing []string
		for _, s := range scalars {
			if _, ok := t.keys[s]; !ok {
				missing = append(missing, s)
			}
		}
		key := t.name + " covers the grammar's scalar types"
		if len(missing) == 0 {
			r.pass(rule, key, "internal/parser", strings.Join(scalars, ","))
		} else {
			r.fail(rule, key, "internal/parser", fmt.Sprintf("scalar type(s) %s are grammatical (basicType) but have no row: fields of that type get an empty member type and no encode/decode step", strings.Join(missing, ", ")))
		}
		// sizes
		var badSize []string
		hasSize := false
		for k, row := range t.keys {
			if sz, ok := row["Size"]; ok {
				hasSize = true
				if want, known := scalarWidth[k]; known && sz != want {
					badSize = append(badSize, fmt.Sprintf("%s: Size %s, width %s", k, sz, want))
				}
			}
		}
		if hasSize {
			sort.Strings(badSize)
			if len(badSize) == 0 {
				r.pass(rule, t.name+" sizes equal the widths of the type names", "internal/parser", "")
			} else {
				r.fail(rule, t.name+" sizes equal the widths of the type names", "internal/parser", strings.Join(badSize, "; "))
			}
		}
		// LE/BE columns distinct for widths > 1
		for _, pair := range [][2]string{{"BasicType", "Le"}, {"Be", "Le"}} {
			a, b := pair[0], pair[1]
			hasCols := false
			var same []string
			for k, row := range t.keys {
				va, oka := row[a]
				vb, okb := row[b]
				if !oka || !okb {
					continue
				}
				hasCols = true
				if scalarWidth[k] != "1" && scalarWidth[k] != "" {
					cmpA := va
					if t.name == "javaBasicTypeMap" && a == "BasicType" {
						continue // Java's BE method is derived from BasicType by case conversion: compared in le-column rule
					}
					if cmpA == vb {
						same = append(same, k)
					}
				}
			}
			if hasCols && !(t.name == "javaBasicTypeMap" && a == "BasicType") {
				sort.Strings(same)
				key := fmt.Sprintf("%s: %s and %s columns differ for multi-byte types", t.name, a, b)
				if len(same) == 0 {
					r.pass(rule, key, "internal/parser", "")
				} else {
					r.fail(rule, key, "internal/parser", "identical big- and little-endian spelling for "+strings.Join(same, ", "))
				}
			}
		}
	}
	// prefix-type domain: every allowed prefix value of the option table is a key of every table
	mp := w.ByPath[modPath+"/internal/model"]
	_ = mp
	for _, t := range tables {
		if prop == "C15" && t.name != "luaBasicTypeMap" {
			continue
		}
		var missing []string
		for _, p := range []string{"u8", "u16", "u32", "u64"} {
			if _, ok := t.keys[p]; !ok {
				missing = append(missing, p)
			}
		}
		if len(missing) == 0 {
			r.pass(rule, t.name+" covers the prefix types", "internal/parser", "")
		} else {
			r.fail(rule, t.name+" covers the prefix types", "internal/parser", "no row for prefix type(s) "+strings.Join(missing, ", "))
		}
	}
}

// wireDecimalLiterals: the grammar's numeric token is a plain decimal digit string (DIGITS: [0-9]+, leading zeros allowed); every
// conversion of token text to a number in the parse phase must read it base 10 - base 0 turns char[010] into an 8 byte field.
func wireDecimalLiterals(w *World, r *Report, prop string) {
	rule := prop + "/decimal-literals"
	n := 0
	for _, fn := range parsePhaseFuncs(w) {
		cnt := 0
		forEachInstr(fn, func(b *ssa.BasicBlock, ins ssa.Instruction) {
			c, ok := ins.(ssa.CallInstruction)
			if !ok || c.Common().StaticCallee() == nil {
				return
			}
			name := c.Common().StaticCallee().String()
			switch name {
			case "strconv.Atoi":
				n++
				cnt++
				r.pass(rule, fmt.Sprintf("%s number conversion #%d reads base 10", fnKey(fn), cnt), w.instrPos(ins), "strconv.Atoi")
			case "strconv.ParseInt", "strconv.ParseUint":
				n++
				cnt++
				key := fmt.Sprintf("%s number conversion #%d reads base 10", fnKey(fn), cnt)
				if k, ok := c.Common().Args[1].(*ssa.Const); ok && k.Value != nil && k.Int64() == 10 {
					r.pass(rule, key, w.instrPos(ins), name+"(.., 10, ..)")
				} else {
					r.fail(rule, key, w.instrPos(ins), name+" is not called with base 10: a DIGITS token with a leading zero (legal, decimal in the grammar) is read as octal or rejected, so the declared size/tag silently changes")
				}
			}
		})
	}
	if n == 0 {
		r.fail(rule, "number conversions found", "internal/parser/packet_dsl_parser.go", "no conversion of a DIGITS token found in the parse phase: array sizes cannot reach the model")
	}
}

// ---------- declaration order ----------

func wireOrder(wc *wireCtx, r *Report, prop, dir string) {
	rule := prop + "/declaration-order"
	w := wc.m.w
	// per language: some function of the direction's emitter closure ranges over Packet.Fields in ascending order and emits per element
	langs := codecLangs
	for _, l := range langs {
		found := false
		var cand []*ssa.Function
		cand = append(cand, wc.anchors[l][dir]...)
		// drivers that call the anchors (e.g. Rust generateStructCode)
		for _, fn := range wc.m.funcs {
			for _, a := range wc.anchors[l][dir] {
				if len(callsTo(fn, a.String())) > 0 {
					cand = append(cand, fn)
				}
			}
		}
		for _, fn := range cand {
			if ok, why := fieldsLoopInOrder(fn); ok {
				found = true
				r.pass(rule, fmt.Sprintf("%s/%s: fields emitted in declaration order", l, dir), w.pos(fn.Pos()), fnKey(fn))
				break
			} else if why != "" {
				r.fail(rule, fmt.Sprintf("%s/%s: fields emitted in declaration order", l, dir), w.pos(fn.Pos()), fnKey(fn)+": "+why)
				found = true
				break
			}
		}
		if !found {
			r.fail(rule, fmt.Sprintf("%s/%s: fields emitted in declaration order", l, dir), "", "no ascending range over Packet.Fields found in the "+dir+" emitters")
		}
	}
	if prop == "C01" {
		// the parser appends fields in child order
		for _, name := range []string{"VisitPacketDefinition", "VisitInerObjectField"} {
			fn := lookupFunc(w.Parser, "PacketDslVisitorImpl", name)
			if fn == nil {
				r.fatal("anchor unresolved: (*PacketDslVisitorImpl).%s", name)
				continue
			}
			// the visitor's own work: the method and the helpers (passes, closures) it is split into, up to the next visitor method
			sorted := false
			usesAll := false
			for _, g := range visitorUnit(w, fn) {
				forEachInstr(g, func(b *ssa.BasicBlock, ins ssa.Instruction) {
					if c, ok := ins.(ssa.CallInstruction); ok && isSortCall(c) {
						sorted = true
					}
					if c, ok := ins.(*ssa.Call); ok {
						n := ""
						if c.Call.IsInvoke() {
							n = c.Call.Method.Name()
						} else if f := c.Call.StaticCallee(); f != nil {
							n = f.Name()
						}
						if n == "AllFieldDefinitionWithAttribute" || n == "AllFieldDefinition" {
							usesAll = true
						}
					}
				})
			}
			key := name + " appends fields in child order"
			if usesAll && !sorted {
				r.pass(rule, key, w.pos(fn.Pos()), "")
			} else {
				r.fail(rule, key, w.pos(fn.Pos()), fmt.Sprintf("ranges over the field children=%v, sorts=%v", usesAll, sorted))
			}
		}
	}
}

// visitorUnit: the functions that do the work of one visitor method: the method itself, its closures, and the helpers of the parser
// package it calls directly (statically, or as a closure made in the unit), transitively - but not other methods of the visitor
// interface the method belongs to (those do the work of their own node).
func visitorUnit(w *World, entry *ssa.Function) []*ssa.Function {
	// the methods of the visitor interface(s): every interface of the program that declares the entry's name and that the
	// receiver implements
	isEntry := map[string]bool{}
	if entry.Signature.Recv() != nil {
		recv := entry.Signature.Recv().Type()
		for _, pkg := range w.Prog.AllPackages() {
			for _, m := range pkg.Members {
				tn, ok := m.(*ssa.Type)
				if !ok {
					continue
				}
				it, ok := tn.Type().Underlying().(*types.Interface)
				if !ok || it.NumMethods() < 2 || !types.Implements(recv, it) {
					continue
				}
				has := false
				for i := 0; i < it.NumMethods(); i++ {
					if it.Method(i).Name() == entry.Name() {
						has = true
					}
				}
				if !has {
					continue
				}
				for i := 0; i < it.NumMethods(); i++ {
					isEntry[it.Method(i).Name()] = true
				}
			}
		}
	}
	seen := map[*ssa.Function]bool{}
	var out []*ssa.Function
	var visit func(f *ssa.Function, depth int)
	visit = func(f *ssa.Function, depth int) {
		if f == nil || seen[f] || f.Blocks == nil || depth > 4 {
			return
		}
		seen[f] = true
		out = append(out, f)
		forEachInstr(f, func(_ *ssa.BasicBlock, ins ssa.Instruction) {
			switch x := ins.(type) {
			case *ssa.MakeClosure:
				if g, ok := x.Fn.(*ssa.Function); ok {
					visit(g, depth+1)
				}
			case ssa.CallInstruction:
				g := x.Common().StaticCallee()
				if g == nil || g.Pkg != entry.Pkg {
					return
				}
				if g.Signature.Recv() != nil && isEntry[g.Name()] {
					return
				}
				visit(g, depth+1)
			}
		})
	}
	visit(entry, 0)
	return out
}

// fieldsLoopInOrder: fn contains `for _, f := range <packet>.Fields` (ascending index loop) whose body emits, with no sort/reverse of the slice.
func fieldsLoopInOrder(fn *ssa.Function) (bool, string) {
	found := false
	bad := ""
	forEachInstr(fn, func(b *ssa.BasicBlock, ins ssa.Instruction) {
		ia, ok := ins.(*ssa.IndexAddr)
		if !ok {
			return
		}
		ld, ok := ia.X.(*ssa.UnOp)
		if !ok {
			return
		}
		fa, ok := ld.X.(*ssa.FieldAddr)
		if !ok {
			return
		}
		if tn, f, _, _ := fieldOf(fa); tn != "Packet" || f != "Fields" {
			return
		}
		// index must be the rangeindex induction variable: phi(-1, idx+1) + 1
		bo, ok := ia.Index.(*ssa.BinOp)
		if !ok || bo.Op != token.ADD {
			bad = "Packet.Fields is indexed by something other than an ascending range index"
			return
		}
		phi, ok := bo.X.(*ssa.Phi)
		if !ok || phi.Comment != "rangeindex" {
			bad = "Packet.Fields is indexed by something other than an ascending range index"
			return
		}
		found = true
	})
	forEachInstr(fn, func(b *ssa.BasicBlock, ins ssa.Instruction) {
		if c, ok := ins.(ssa.CallInstruction); ok && isSortCall(c) && len(c.Common().Args) > 0 {
			if strings.Contains(describeTarget(c.Common().Args[0]), "Fields") {
				bad = "sorts the field list"
			}
		}
	})
	if bad != "" {
		return false, bad
	}
	return found, ""
}

// ---------- GetPadding siblings ----------

func wirePaddingSiblings(wc *wireCtx, r *Report, prop string) {
	rule := prop + "/padding-siblings"
	sigs := map[string]string{}
	var langs []string
	for _, l := range codecLangs {
		fns := wc.anchors[l]["padding"]
		if len(fns) != 1 {
			r.fail(rule, l+": GetPadding resolved", "", "padding helper not found")
			continue
		}
		sigs[l] = decisionSignature(wc.m.w, fns[0])
		langs = append(langs, l)
	}
	// majority signature
	count := map[string]int{}
	for _, s := range sigs {
		count[s]++
	}
	best := ""
	for s, n := range count {
		if n > count[best] || (n == count[best] && s < best) {
			best = s
		}
	}
	for _, l := range langs {
		key := l + ": GetPadding resolves padding like its siblings"
		if sigs[l] == best {
			r.pass(rule, key, wc.m.w.pos(wc.anchors[l]["padding"][0].Pos()), sigs[l])
		} else {
			r.fail(rule, key, wc.m.w.pos(wc.anchors[l]["padding"][0].Pos()), fmt.Sprintf("this generator decides the effective padding on [%s] while %d of its siblings decide on [%s]: for some DSL it pads with a different character/side than the other languages", sigs[l], count[best], best))
		}
	}
}

// decisionSignature: the set of facts a function (and the repo helpers it calls) branches on, described coarsely and without constants.
func decisionSignature(w *World, fn *ssa.Function) string {
	set := map[string]bool{}
	seen := map[*ssa.Function]bool{}
	var visit func(f *ssa.Function, depth int)
	visit = func(f *ssa.Function, depth int) {
		if f == nil || seen[f] || depth > 4 || f.Blocks == nil {
			return
		}
		seen[f] = true
		for _, b := range f.Blocks {
			if cond := branchCond(b); cond != nil {
				for _, d := range describeCond(w, cond, 0, func(g *ssa.Function) { visit(g, depth+1) }) {
					set[d] = true
				}
			}
			for _, ins := range b.Instrs {
				if c, ok := ins.(ssa.CallInstruction); ok {
					if g := c.Common().StaticCallee(); g != nil && w.isSubjectFunc(g) && g.Pkg == w.Parser {
						visit(g, depth+1)
					}
				}
			}
		}
	}
	visit(fn, 0)
	return strings.Join(sortedBoolKeys(set), "; ")
}

// describeCond: coarse descriptors of a condition: is(<AttrType>), nil(<type>), cmp-const-string, IsDefault(), bool field reads.
func describeCond(w *World, v ssa.Value, depth int, inline func(*ssa.Function)) []string {
	if depth > 6 {
		return nil
	}
	switch x := v.(type) {
	case *ssa.UnOp:
		if x.Op == token.NOT {
			return describeCond(w, x.X, depth+1, inline)
		}
		if x.Op == token.MUL {
			if fa, ok := x.X.(*ssa.FieldAddr); ok {
				tn, f, _, _ := fieldOf(fa)
				return []string{tn + "." + f}
			}
		}
	case *ssa.BinOp:
		if x.Op == token.EQL || x.Op == token.NEQ {
			if isNilConst(x.X) || isNilConst(x.Y) {
				o := x.X
				if isNilConst(o) {
					o = x.Y
				}
				return []string{"nil(" + types.TypeString(o.Type(), shortQual) + ")"}
			}
			_, c1 := constString(x.X)
			_, c2 := constString(x.Y)
			if isStringType(x.X.Type()) {
				// a comparison of a string with a spelling - a constant, or an element of a list of spellings the function was
				// handed: described by what is compared, not by how the spellings are supplied
				var what []string
				for _, o := range []ssa.Value{x.X, x.Y} {
					if ld, ok := stripIdentity(o).(*ssa.UnOp); ok && ld.Op == token.MUL {
						if fa, ok := ld.X.(*ssa.FieldAddr); ok {
							tn, f, _, _ := fieldOf(fa)
							what = append(what, tn+"."+f)
						}
					}
				}
				_ = what
				return []string{"cmp-string"}
			}
			if c1 || c2 {
				return []string{"cmp-string"}
			}
		}
		return append(describeCond(w, x.X, depth+1, inline), describeCond(w, x.Y, depth+1, inline)...)
	case *ssa.Extract:
		if ta, ok := x.Tuple.(*ssa.TypeAssert); ok {
			return []string{"is(" + modelTypeName(ta.AssertedType) + ")"}
		}
		return describeCond(w, x.Tuple, depth+1, inline)
	case *ssa.Call:
		if f := x.Call.StaticCallee(); f != nil {
			if f.Pkg == w.Model {
				return []string{f.Name() + "()"}
			}
			if w.isSubjectFunc(f) {
				inline(f) // a predicate helper: its own conditions are part of the signature
				return nil
			}
			return []string{f.Name() + "()"}
		}
	case *ssa.Phi:
		var out []string
		for _, e := range x.Edges {
			out = append(out, describeCond(w, e, depth+1, inline)...)
		}
		return out
	}
	return nil
}

// ---------- pad-character spellings (C03) ----------

func wirePadSpellings(w *World, wc *wireCtx, r *Report) {
	const rule = "C03/pad-spelling"
	// producers: constants stored into Padding.PadChar by parse-phase code that denote NUL, plus NUL lexemes of the option table
	produced := map[string]bool{}
	for _, fn := range parsePhaseFuncs(w) {
		forEachInstr(fn, func(b *ssa.BasicBlock, ins ssa.Instruction) {
			st, ok := ins.(*ssa.Store)
			if !ok {
				return
			}
			fa, ok := st.Addr.(*ssa.FieldAddr)
			if !ok {
				return
			}
			if tn, f, _, _ := fieldOf(fa); tn != "Padding" || f != "PadChar" {
				return
			}
			collectStringConsts(st.Val, produced, 0)
		})
	}
	mp := w.ByPath[modPath+"/internal/model"]
	for _, f := range mp.Syntax {
		ast.Inspect(f, func(n ast.Node) bool {
			vs, ok := n.(*ast.ValueSpec)
			if !ok || len(vs.Names) != 1 || vs.Names[0].Name != "options" {
				return true
			}
			ast.Inspect(vs, func(n2 ast.Node) bool {
				if bl, ok := n2.(*ast.BasicLit); ok && bl.Kind == token.STRING {
					if tv := mp.TypesInfo.Types[bl]; tv.Value != nil {
						produced[constant.StringVal(tv.Value)] = true
					}
				}
				return true
			})
			return false
		})
	}
	var nul []string
	for s := range produced {
		if strings.HasPrefix(s, "'") && (strings.Contains(s, "\x00") || strings.Contains(s, `\x00`)) {
			nul = append(nul, s)
		}
	}
	sort.Strings(nul)
	if len(nul) == 0 {
		r.fail(rule, "NUL pad spellings produced by the parser found", "internal/parser/packet_dsl_parser.go", "no NUL pad-character constant found in the model visitor / option table")
		return
	}
	for _, l := range codecLangs {
		fns := wc.anchors[l]["padding"]
		if len(fns) != 1 {
			continue
		}
		recognised := map[string]bool{}
		seenF := map[*ssa.Function]bool{}
		var scan func(f *ssa.Function, depth int)
		scan = func(f *ssa.Function, depth int) {
			if f == nil || seenF[f] || depth > 4 || f.Blocks == nil {
				return
			}
			seenF[f] = true
			forEachInstr(f, func(b *ssa.BasicBlock, ins ssa.Instruction) {
				switch x := ins.(type) {
				case *ssa.BinOp:
					if x.Op != token.EQL && x.Op != token.NEQ {
						return
					}
					for _, side := range []ssa.Value{x.X, x.Y} {
						if s, ok := constString(side); ok {
							recognised[s] = true
						}
					}
				case ssa.CallInstruction:
					if g := x.Common().StaticCallee(); g != nil && w.isSubjectFunc(g) && g.Pkg == w.Parser {
						scan(g, depth+1)
						// spellings handed over as a list literal ([]string{"'\x00'", ...}) to a helper that compares with its elements
						for _, a := range x.Common().Args {
							for _, v := range variadicOperands(a) {
								if v == nil {
									continue
								}
								if s, ok := constString(v); ok {
									recognised[s] = true
								}
							}
							// ... or as a list member of a package-level record (var nul = nulPadChar{spellings: []string{...}})
							for _, s := range listConstsOfGlobal(a) {
								recognised[s] = true
							}
						}
					}
				case *ssa.Lookup:
					// a set literal of spellings: map[string]bool{...}[s]
				}
			})
		}
		scan(fns[0], 0)
		for _, s := range nul {
			key := fmt.Sprintf("%s: GetPadding normalises the NUL spelling %q", l, s)
			if recognised[s] {
				r.pass(rule, key, w.pos(fns[0].Pos()), "")
			} else {
				r.fail(rule, key, w.pos(fns[0].Pos()), fmt.Sprintf("the parser/option table can hand this generator the pad character %q but its GetPadding does not recognise that spelling: it is copied into the emitted source as is, while sibling generators emit an escape", s))
			}
		}
	}
}

func collectStringConsts(v ssa.Value, out map[string]bool, depth int) {
	if depth > 6 {
		return
	}
	if s, ok := constString(v); ok {
		out[s] = true
		return
	}
	switch x := v.(type) {
	case *ssa.Phi:
		for _, e := range x.Edges {
			collectStringConsts(e, out, depth+1)
		}
	}
}

// ---------- raw type confinement for one field (C06) ----------

func wireRawType(w *World, r *Report, prop, field string) {
	rule := prop + "/raw-type-confined"
	n := 0
	for _, fn := range w.srcFuncs {
		var bad []string
		forEachInstr(fn, func(b *ssa.BasicBlock, ins ssa.Instruction) {
			ld, ok := ins.(*ssa.UnOp)
			if !ok || ld.Op != token.MUL {
				return
			}
			fa, ok := ld.X.(*ssa.FieldAddr)
			if !ok {
				return
			}
			if tn, f, _, _ := fieldOf(fa); tn+"."+f == field {
				n++
				if !(fn.Pkg == w.Model && fn.Name() == "GetType") {
					bad = append(bad, w.instrPos(ins))
				}
			}
		})
		if len(bad) > 0 {
			r.fail(rule, fnKey(fn)+" reads "+field, bad[0], "reads the type as spelled instead of GetType(): the long alias (uint32) and the inline attribute placement, which stores the raw spelling, then select a different (or no) write")
		}
	}
	if n == 0 {
		r.fail(rule, field+" is read by GetType", "internal/model/model.go", "no read of the raw type field found: anchor lost")
	} else {
		r.pass(rule, field+" is read only by model.GetType", "internal/model/model.go", fmt.Sprintf("%d reads", n))
	}
}

// listConstsOfGlobal: v is (a load of) a package-level variable: the string constants of the list literals its initialiser stores
// into it or into its members.
func listConstsOfGlobal(v ssa.Value) []string {
	v = stripIdentity(v)
	if ld, ok := v.(*ssa.UnOp); ok && ld.Op == token.MUL {
		v = ld.X
	}
	g, ok := v.(*ssa.Global)
	if !ok || g.Pkg == nil {
		return nil
	}
	initFn := g.Pkg.Func("init")
	if initFn == nil {
		return nil
	}
	var out []string
	// the literal may be built in a local of the initialiser and copied into the variable
	roots := map[ssa.Value]bool{g: true}
	forEachInstr(initFn, func(_ *ssa.BasicBlock, ins ssa.Instruction) {
		if st, ok := ins.(*ssa.Store); ok && st.Addr == ssa.Value(g) {
			if ld, ok := stripIdentity(st.Val).(*ssa.UnOp); ok && ld.Op == token.MUL {
				if al, ok := ld.X.(*ssa.Alloc); ok {
					roots[al] = true
				}
			}
		}
	})
	forEachInstr(initFn, func(_ *ssa.BasicBlock, ins ssa.Instruction) {
		st, ok := ins.(*ssa.Store)
		if !ok || !roots[valueRoot(st.Addr)] {
			return
		}
		for _, e := range variadicOperands(stripIdentity(st.Val)) {
			if e == nil {
				continue
			}
			if s, ok := constString(e); ok {
				out = append(out, s)
			}
		}
	})
	return out
}
