package main

import (
	"fmt"
	"go/constant"
	"go/token"
	"go/types"
	"os"
	"path/filepath"
	"regexp"
	"sort"
	"strings"

	"golang.org/x/tools/go/ssa"
)

func init() {
	register("C16", "Value-flow identity on the thin wrappers around the library: the operand of every sink (stdout print, os.WriteFile, C.CString, per-file Write) is the producer's result, unmodified and passed as data (never as a format string); the sink is dominated by the success edge and the error edge exits non-zero without a file write; "+
		"no other stdout write is reachable on the `format -d` path (Execute, the Run closure, the formatter library); compile's file writes happen only in WriteCodeToFile, create-truncate each map key under the requested directory and write the map value; flags, output keys and generators form a bijection; "+
		"`compile` is inserted only when the first argument is not a registered subcommand and the remaining arguments pass through unchanged; the C header declares exactly the exported symbols. Decides the wrappers' shape; does not run the binary.", runC16)
}

const parserPath = modPath + "/internal/parser"

var stdoutPrinters = map[string]bool{"fmt.Println": true, "fmt.Print": true, "fmt.Printf": true, "println": true, "print": true}

// fileMutators: os-level calls that create/modify the file system.
var fileMutators = []string{"os.Create", "os.WriteFile", "os.OpenFile", "os.MkdirAll", "os.Mkdir", "os.Rename", "os.Remove", "os.RemoveAll", "os.Truncate", "os.Chmod", "os.Symlink", "os.Link",
	"(*os.File).Write", "(*os.File).WriteString", "(*os.File).WriteAt", "(*os.File).Truncate", "io/ioutil.WriteFile", "os.CreateTemp", "os.MkdirTemp", "os.Chdir"}

func isStdoutWrite(c ssa.CallInstruction) bool {
	cc := c.Common()
	if b, ok := cc.Value.(*ssa.Builtin); ok && (b.Name() == "println" || b.Name() == "print") {
		return true
	}
	f := cc.StaticCallee()
	if f == nil {
		if cc.IsInvoke() && (cc.Method.Name() == "Write" || cc.Method.Name() == "WriteString") && isStdStream(cc.Value) {
			return true
		}
		return false
	}
	n := f.String()
	if stdoutPrinters[n] {
		return true
	}
	if (fprintFuncs[n] || strings.HasPrefix(n, "(*os.File).Write")) && len(cc.Args) > 0 && isStdStream(cc.Args[0]) {
		return true
	}
	return false
}

func isFileMutator(c ssa.CallInstruction) string {
	f := c.Common().StaticCallee()
	if f == nil {
		return ""
	}
	n := f.String()
	for _, m := range fileMutators {
		if n == m {
			if strings.HasPrefix(n, "(*os.File)") && len(c.Common().Args) > 0 && isStdStream(c.Common().Args[0]) {
				return ""
			}
			return n
		}
	}
	return ""
}

// dataSink describes where a value ends up.
type sinkUse struct {
	Callee   string
	AsFormat bool // used in the format-string position of a printf-like function
	Verbatim bool // printed as data without decoration other than a trailing newline
	Instr    ssa.Instruction
	Stdout   bool
	FileData bool // data operand of os.WriteFile / File.Write
	Bs       bindings // parameter bindings of the wrappers the value travelled through
}

// bindings map a callee parameter to the caller's argument value (for wrappers we step into).
type bindings map[*ssa.Parameter]ssa.Value

// resolveConst folds a string value to a constant through wrapper parameters and concatenation.
func resolveConst(v ssa.Value, bs bindings, depth int) (string, bool) {
	if depth > 8 {
		return "", false
	}
	if s, ok := constString(v); ok {
		return s, true
	}
	switch x := v.(type) {
	case *ssa.Parameter:
		if a, ok := bs[x]; ok {
			return resolveConst(a, bs, depth+1)
		}
	case *ssa.BinOp:
		if x.Op == token.ADD {
			a, ok1 := resolveConst(x.X, bs, depth+1)
			b, ok2 := resolveConst(x.Y, bs, depth+1)
			if ok1 && ok2 {
				return a + b, true
			}
		}
	}
	return "", false
}

func verbatimFormat(f string) bool {
	return f == "%s" || f == "%s\n" || f == "%v" || f == "%v\n"
}

// followToSinks follows v (identity-preserving, a trailing "\n" allowed) into prints/writes, through wrapper functions of the repo.
func (w *World) followToSinks(v ssa.Value, depth int, seen map[ssa.Value]bool) (sinks []sinkUse, otherUses []ssa.Instruction) {
	return w.followToSinksB(v, depth, seen, bindings{})
}

func (w *World) followToSinksB(v ssa.Value, depth int, seen map[ssa.Value]bool, bs bindings) (sinks []sinkUse, otherUses []ssa.Instruction) {
	if depth > 6 || seen[v] {
		return
	}
	seen[v] = true
	refs := v.Referrers()
	if refs == nil {
		return
	}
	for _, ref := range *refs {
		switch x := ref.(type) {
		case *ssa.ChangeType, *ssa.ChangeInterface, *ssa.MakeInterface:
			s, o := w.followToSinksB(x.(ssa.Value), depth, seen, bs)
			sinks, otherUses = append(sinks, s...), append(otherUses, o...)
		case *ssa.Convert:
			if isStringOrBytes(x.Type()) && isStringOrBytes(x.X.Type()) {
				s, o := w.followToSinksB(x, depth, seen, bs)
				sinks, otherUses = append(sinks, s...), append(otherUses, o...)
			} else {
				otherUses = append(otherUses, ref)
			}
		case *ssa.BinOp:
			// v + "\n": still the value, with the trailing newline Println would add
			if x.Op == token.ADD && x.X == v {
				if c, ok := resolveConst(x.Y, bs, 0); ok && c == "\n" {
					s, o := w.followToSinksB(x, depth, seen, bs)
					sinks, otherUses = append(sinks, s...), append(otherUses, o...)
					continue
				}
			}
			otherUses = append(otherUses, ref)
		case *ssa.Store:
			// stored into a varargs array element -> follow the slice of that array into the call
			if ia, ok := x.Addr.(*ssa.IndexAddr); ok {
				if al, ok := ia.X.(*ssa.Alloc); ok && x.Val == v {
					for _, r2 := range *al.Referrers() {
						if sl, ok := r2.(*ssa.Slice); ok {
							for _, r3 := range *sl.Referrers() {
								if call, ok := r3.(ssa.CallInstruction); ok {
									sinks = append(sinks, w.classifyCallUse(call, sl, true, depth, seen, &otherUses, bs)...)
								} else {
									otherUses = append(otherUses, r3)
								}
							}
						}
					}
					continue
				}
			}
			otherUses = append(otherUses, ref)
		case ssa.CallInstruction:
			_, isSlice := v.Type().Underlying().(*types.Slice)
			viaVar := isSlice && !isStringOrBytes(v.Type())
			sinks = append(sinks, w.classifyCallUse(x, v, viaVar, depth, seen, &otherUses, bs)...)
		case *ssa.DebugRef:
		default:
			otherUses = append(otherUses, ref)
		}
	}
	return
}

func (w *World) classifyCallUse(call ssa.CallInstruction, v ssa.Value, viaVarargs bool, depth int, seen map[ssa.Value]bool, other *[]ssa.Instruction, bs bindings) []sinkUse {
	out := w.classifyCallUse0(call, v, viaVarargs, depth, seen, other, bs)
	for i := range out {
		if out[i].Bs == nil {
			out[i].Bs = bs
		}
	}
	return out
}

func (w *World) classifyCallUse0(call ssa.CallInstruction, v ssa.Value, viaVarargs bool, depth int, seen map[ssa.Value]bool, other *[]ssa.Instruction, bs bindings) []sinkUse {
	cc := call.Common()
	f := cc.StaticCallee()
	argIdx := -1
	for i, a := range cc.Args {
		if a == v {
			argIdx = i
		}
	}
	name := calleeName(call)
	if f != nil {
		name = f.String()
	}
	single := func() bool {
		n := varargsLen(v)
		return viaVarargs && (n == 1 || n == -1 && varargsLenB(v, bs) == 1)
	}
	switch name {
	case "fmt.Println", "fmt.Print":
		return []sinkUse{{Callee: name, Verbatim: single(), Instr: call, Stdout: true}}
	case "fmt.Printf":
		if argIdx == 0 && !viaVarargs {
			return []sinkUse{{Callee: name, AsFormat: true, Instr: call, Stdout: true}}
		}
		fm, ok := resolveConst(cc.Args[0], bs, 0)
		return []sinkUse{{Callee: name, Verbatim: ok && verbatimFormat(fm) && single(), Instr: call, Stdout: true}}
	case "fmt.Fprintf", "fmt.Fprint", "fmt.Fprintln":
		std := len(cc.Args) > 0 && isStdStream(cc.Args[0])
		if name == "fmt.Fprintf" {
			if argIdx == 1 && !viaVarargs {
				return []sinkUse{{Callee: name, AsFormat: true, Instr: call, Stdout: std}}
			}
			fm, ok := resolveConst(cc.Args[1], bs, 0)
			return []sinkUse{{Callee: name, Verbatim: ok && verbatimFormat(fm) && single(), Instr: call, Stdout: std}}
		}
		return []sinkUse{{Callee: name, Verbatim: single(), Instr: call, Stdout: std}}
	case "fmt.Sprintf", "fmt.Sprint", "fmt.Sprintln", "fmt.Errorf":
		*other = append(*other, call)
		return nil
	case "os.WriteFile":
		if argIdx == 1 {
			return []sinkUse{{Callee: name, Verbatim: true, Instr: call, FileData: true, Bs: bs}}
		}
	case "(*os.File).Write", "(*os.File).WriteString", "io.WriteString":
		if argIdx == 1 {
			std := isStdStream(cc.Args[0])
			return []sinkUse{{Callee: name, Verbatim: true, Instr: call, FileData: !std, Stdout: std}}
		}
	}
	if b, ok := cc.Value.(*ssa.Builtin); ok && (b.Name() == "println" || b.Name() == "print") {
		return []sinkUse{{Callee: b.Name(), Verbatim: len(cc.Args) == 1, Instr: call, Stdout: true}}
	}
	// wrapper in the repo: continue inside the callee from the matching parameter
	if f != nil && w.isSubjectFunc(f) && argIdx >= 0 && f.Blocks != nil && argIdx < len(f.Params) {
		nb := bindings{}
		for k, val := range bs {
			nb[k] = val
		}
		for i, p := range f.Params {
			if i < len(cc.Args) {
				nb[p] = cc.Args[i]
			}
		}
		s, o := w.followToSinksB(f.Params[argIdx], depth+1, seen, nb)
		*other = append(*other, o...)
		return s
	}
	*other = append(*other, call)
	return nil
}

// varargsLenB: length of a variadic slice that reaches us through a wrapper's slice parameter.
func varargsLenB(v ssa.Value, bs bindings) int {
	for i := 0; i < 6; i++ {
		if n := varargsLen(v); n >= 0 {
			return n
		}
		p, ok := v.(*ssa.Parameter)
		if !ok {
			return -1
		}
		a, ok := bs[p]
		if !ok {
			return -1
		}
		v = a
	}
	return -1
}

func varargsLen(v ssa.Value) int {
	sl, ok := v.(*ssa.Slice)
	if !ok {
		return -1
	}
	al, ok := sl.X.(*ssa.Alloc)
	if !ok {
		return -1
	}
	if arr, ok := al.Type().(*types.Pointer).Elem().Underlying().(*types.Array); ok {
		return int(arr.Len())
	}
	return -1
}

func runC16(w *World, r *Report) {
	entryPointsKeepNoState(w, r, "C16", allEntryRoots(w), "reachable from an entry point", "an entry point writes package-level storage: what the next call (the next target of this compile, the next request to the library) delivers depends on the calls before it, not only on its own input")

	c16Format(w, r)
	c16FormatOnlyJudge(w, r)
	c16Export(w, r)
	c16Compile(w, r)
	c16Execute(w, r)
	r.assume("cobra dispatches to the Run/RunE function of the named subcommand and binds flags to the variables given to StringVarP")
	r.assume("os.Create/os.WriteFile truncate; C.CString/C.GoString copy bytes up to the first NUL")
}

// findFormatRun locates the function literal under cmd's init that calls parser.FormatPacketDsl.
func (w *World) findCmdFuncCalling(target string) []*ssa.Function {
	var out []*ssa.Function
	for _, fn := range w.srcFuncs {
		if fn.Pkg != w.Cmd && (fn.Parent() == nil || fn.Parent().Pkg != w.Cmd) {
			continue
		}
		if len(callsTo(fn, target)) > 0 {
			out = append(out, fn)
		}
	}
	return out
}

func c16Format(w *World, r *Report) {
	const rule = "C16/format-cli"
	var run *ssa.Function
	for _, fn := range w.findCmdFuncCalling(parserPath + ".FormatPacketDsl") {
		if fn.Name() != "FormatPacketDslExport" {
			if run != nil {
				r.note("several cmd functions call FormatPacketDsl: %s and %s", fnKey(run), fnKey(fn))
			}
			run = fn
		}
	}
	if run == nil {
		r.fatal("anchor unresolved: cmd function (format Run) calling parser.FormatPacketDsl")
		return
	}
	call := callsTo(run, parserPath+".FormatPacketDsl")[0].(*ssa.Call)
	var res0, res1 ssa.Value
	for _, ref := range *call.Referrers() {
		if e, ok := ref.(*ssa.Extract); ok {
			if e.Index == 0 {
				res0 = e
			} else {
				res1 = e
			}
		}
	}
	if res0 == nil || res1 == nil {
		r.fail(rule, "result-and-error-used", w.instrPos(call), "FormatPacketDsl's text or error result is discarded")
		return
	}
	// run may be a layer below the command's Run function: its parameters are what the (unique) caller passes
	runBs := bindings{}
	{
		cur := run
		for depth := 0; depth < 3 && len(cur.Params) > 0 && runFieldOf(w, cur) == ""; depth++ {
			var site ssa.CallInstruction
			n := 0
			for _, g := range w.srcFuncs {
				if g.Pkg != w.Cmd && (g.Parent() == nil || g.Parent().Pkg != w.Cmd) {
					continue
				}
				forEachInstr(g, func(_ *ssa.BasicBlock, ins ssa.Instruction) {
					if c, ok := ins.(ssa.CallInstruction); ok && c.Common().StaticCallee() == cur {
						site = c
						n++
					}
				})
			}
			if n != 1 {
				break
			}
			for i, p := range cur.Params {
				if i < len(site.Common().Args) {
					runBs[p] = site.Common().Args[i]
				}
			}
			cur = site.Parent()
		}
	}
	c16FormatInput(w, r, run, call, runBs)
	// error edge: exits non-zero, no file write
	errHandled := false
	for _, b := range run.Blocks {
		cond := branchCond(b)
		if cond == nil {
			continue
		}
		x, nn, ok := nilTest(cond)
		if !ok || !sameValue(x, res1) {
			continue
		}
		exits := false
		writes := ""
		// walk blocks dominated by the error successor
		for _, bb := range run.Blocks {
			if !edgeDominates(b, nn, bb) {
				continue
			}
			for _, ins := range bb.Instrs {
				if c, ok := ins.(ssa.CallInstruction); ok {
					if exitsNonZero(c, 0) {
						exits = true
					}
					if m := isFileMutator(c); m != "" {
						writes = m
					}
				}
			}
		}
		if !exits && writes == "" {
			// the error is returned to a caller that exits on it
			if errorDeliveredV(w, res1, call, 0) == "" {
				exits = true
			}
		}
		if exits && writes == "" {
			errHandled = true
			r.pass(rule, "error-edge exits non-zero without file write", w.instrPos(b.Instrs[len(b.Instrs)-1]), "")
		} else {
			r.fail(rule, "error-edge exits non-zero without file write", w.instrPos(b.Instrs[len(b.Instrs)-1]), fmt.Sprintf("on the FormatPacketDsl error edge: exits non-zero=%v, file mutation=%q", exits, writes))
			errHandled = true
		}
	}
	if !errHandled {
		r.fail(rule, "error-edge exits non-zero without file write", w.instrPos(call), "no `err != nil` test of FormatPacketDsl's error found")
	}
	// sinks of the result
	sinks, others := w.followToSinks(res0, 0, map[ssa.Value]bool{})
	for i := range sinks {
		if len(runBs) > 0 {
			nb := bindings{}
			for k, v := range sinks[i].Bs {
				nb[k] = v
			}
			for k, v := range runBs {
				if _, have := nb[k]; !have {
					nb[k] = v
				}
			}
			sinks[i].Bs = nb
		}
	}
	var stdoutSinks, fileSinks []sinkUse
	for _, s := range sinks {
		if s.Stdout {
			stdoutSinks = append(stdoutSinks, s)
		}
		if s.FileData {
			fileSinks = append(fileSinks, s)
		}
	}
	for _, o := range others {
		r.fail(rule, "result-unmodified: "+instrKind(o), w.instrPos(o), "FormatPacketDsl's result is transformed or used by something other than the two sinks: "+o.String())
	}
	okGuard := func(ins ssa.Instruction) bool {
		if ins.Parent() == run {
			return guardedByNil(ins.Block(), res1, false)
		}
		// inside a wrapper: every call in run that can reach the wrapper must be behind the err == nil edge
		target := ins.Parent()
		reaches := func(from *ssa.Function) bool {
			seen := map[*ssa.Function]bool{}
			stack := []*ssa.Function{from}
			for len(stack) > 0 {
				f := stack[len(stack)-1]
				stack = stack[:len(stack)-1]
				if f == target {
					return true
				}
				if seen[f] || f.Blocks == nil {
					continue
				}
				seen[f] = true
				forEachInstr(f, func(_ *ssa.BasicBlock, i ssa.Instruction) {
					if c, ok := i.(ssa.CallInstruction); ok {
						if g := c.Common().StaticCallee(); g != nil && w.isSubjectFunc(g) {
							stack = append(stack, g)
						}
					}
				})
			}
			return false
		}
		ok, any := true, false
		forEachInstr(run, func(b *ssa.BasicBlock, i ssa.Instruction) {
			if c, isC := i.(ssa.CallInstruction); isC {
				if g := c.Common().StaticCallee(); g != nil && w.isSubjectFunc(g) && reaches(g) {
					any = true
					if !guardedByNil(b, res1, false) {
						ok = false
					}
				}
			}
		})
		return ok && any
	}
	if len(stdoutSinks) != 1 {
		r.fail(rule, "stdout-sink-is-result", w.instrPos(call), fmt.Sprintf("expected exactly one stdout sink for the formatter result, found %d", len(stdoutSinks)))
	}
	for _, s := range stdoutSinks {
		switch {
		case s.AsFormat:
			r.fail(rule, "stdout-sink-is-result", w.instrPos(s.Instr), "the formatter result is used as a printf FORMAT string by "+s.Callee+": '%' in the DSL text is interpreted")
		case !s.Verbatim:
			r.fail(rule, "stdout-sink-is-result", w.instrPos(s.Instr), "the formatter result is printed together with other operands / a decorating format by "+s.Callee)
		case !okGuard(s.Instr):
			r.fail(rule, "stdout-sink-is-result", w.instrPos(s.Instr), "print of the result is not dominated by the err == nil edge")
		default:
			r.pass(rule, "stdout-sink-is-result", w.instrPos(s.Instr), s.Callee+"(result) verbatim")
		}
	}
	if len(fileSinks) != 1 {
		r.fail(rule, "file-sink-is-result", w.instrPos(call), fmt.Sprintf("expected exactly one file sink for the formatter result, found %d", len(fileSinks)))
	}
	var fileVar *ssa.Global
	for _, s := range fileSinks {
		c := s.Instr.(ssa.CallInstruction)
		okPath := false
		if s.Callee == "os.WriteFile" {
			// path operand: the variable bound to the --file flag, unmodified (through wrapper parameters)
			p := stripIdentity(c.Common().Args[0])
			for i := 0; i < 6; i++ {
				pp, isP := p.(*ssa.Parameter)
				if !isP {
					break
				}
				a, bound := s.Bs[pp]
				if !bound {
					break
				}
				p = stripIdentity(a)
			}
			if u, ok := p.(*ssa.UnOp); ok && u.Op == token.MUL {
				if g, ok := u.X.(*ssa.Global); ok && w.flagNamesOfCmd(g, ownerCommandOf(w, run))["file"] {
					okPath = true
					fileVar = g
				}
			}
		}
		if okPath && fileVar != nil && !emptinessGuard(s.Instr.Parent(), s.Bs, fileVar, s.Instr.Block(), true) {
			r.fail(rule, "file-sink-only-with--f", w.instrPos(s.Instr), "the file is written on a path that is not the non-empty edge of a test of the -f value: the result is written to a file although -f was not given")
		} else if okPath {
			r.pass(rule, "file-sink-only-with--f", w.instrPos(s.Instr), "")
		}
		switch {
		case !okPath:
			r.fail(rule, "file-sink-is-result", w.instrPos(s.Instr), "file sink is not os.WriteFile(<flag variable file>, result): path operand modified or different API ("+s.Callee+")")
		case !okGuard(s.Instr):
			r.fail(rule, "file-sink-is-result", w.instrPos(s.Instr), "os.WriteFile is not dominated by the err == nil edge of FormatPacketDsl")
		default:
			r.pass(rule, "file-sink-is-result", w.instrPos(s.Instr), "os.WriteFile(file, []byte(result))")
		}
	}
	for _, s := range stdoutSinks {
		if fileVar == nil {
			continue
		}
		if emptinessGuard(s.Instr.Parent(), s.Bs, fileVar, s.Instr.Block(), false) {
			r.pass(rule, "stdout-sink-only-without--f", w.instrPos(s.Instr), "")
		} else {
			r.fail(rule, "stdout-sink-only-without--f", w.instrPos(s.Instr), "the result is printed on a path that is not the empty edge of a test of the -f value: with -f the text is printed instead of (or in addition to) being written back")
		}
	}
	// "and nothing else": every other stdout write in Run must be on an error path (leads to os.Exit non-zero) .
	sinkInstr := map[ssa.Instruction]bool{}
	for _, s := range stdoutSinks {
		sinkInstr[s.Instr] = true
	}
	var extra []string
	forEachInstr(run, func(b *ssa.BasicBlock, ins ssa.Instruction) {
		c, ok := ins.(ssa.CallInstruction)
		if !ok || !isStdoutWrite(c) || sinkInstr[ins] {
			return
		}
		// allowed when this block cannot reach the success sinks (it is on a path that exits or reports an error)
		reachesSuccess := false
		for s := range sinkInstr {
			if s.Parent() == run && blockReaches(b, func(i ssa.Instruction) bool { return i == s }) {
				reachesSuccess = true
			}
		}
		for _, fs := range fileSinks {
			if fs.Instr.Parent() == run && fs.Instr.Block() != b && blockReaches(b, func(i ssa.Instruction) bool { return i == fs.Instr }) {
				reachesSuccess = true
			}
		}
		// ... and when it reports a failure: dominated by the non-nil edge of an error test, or on a path that only exits
		onError := false
		for _, bb := range run.Blocks {
			cond := branchCond(bb)
			if cond == nil {
				continue
			}
			x, nn, ok := nilTest(cond)
			if ok && isErrorType(x.Type()) && edgeDominates(bb, nn, b) {
				onError = true
			}
		}
		if !onError && !blockReaches(b, func(i ssa.Instruction) bool { _, isRet := i.(*ssa.Return); return isRet }) {
			onError = true // nothing but an exit follows
		}
		if reachesSuccess || !onError {
			extra = append(extra, w.instrPos(ins))
		}
	})
	// the same inside the wrappers the result travels through (a print after the file sink, say)
	wrappers := map[*ssa.Function]bool{}
	for _, s := range append(append([]sinkUse{}, stdoutSinks...), fileSinks...) {
		if s.Instr.Parent() != run {
			wrappers[s.Instr.Parent()] = true
		}
	}
	for _, wf := range sortedFuncs(wrappers) {
		forEachInstr(wf, func(b *ssa.BasicBlock, ins ssa.Instruction) {
			c, ok := ins.(ssa.CallInstruction)
			if !ok || !isStdoutWrite(c) || sinkInstr[ins] {
				return
			}
			onError := false
			for _, bb := range wf.Blocks {
				cond := branchCond(bb)
				if cond == nil {
					continue
				}
				x, nn, ok := nilTest(cond)
				if ok && isErrorType(x.Type()) && edgeDominates(bb, nn, b) {
					onError = true
				}
			}
			if !onError {
				extra = append(extra, w.instrPos(ins))
			}
		})
	}
	if len(extra) > 0 {
		r.fail(rule, "no-other-stdout-in-run", extra[0], "stdout write(s) on the success path besides the result: "+strings.Join(extra, ", "))
	} else {
		r.pass(rule, "no-other-stdout-in-run", w.pos(run.Pos()), "")
	}
	// Execute prelude: stdout writes that precede rootCmd.Execute()
	exec := w.Cmd.Func("Execute")
	if exec == nil {
		r.fatal("anchor unresolved: cmd.Execute")
	} else {
		dispatch := callsTo(exec, "(*github.com/spf13/cobra.Command).Execute")
		if len(dispatch) == 0 {
			r.fatal("anchor unresolved: rootCmd.Execute() call in cmd.Execute")
		} else {
			var pre []string
			forEachInstr(exec, func(b *ssa.BasicBlock, ins ssa.Instruction) {
				c, ok := ins.(ssa.CallInstruction)
				if !ok || !isStdoutWrite(c) {
					return
				}
				if blockReaches(b, func(i ssa.Instruction) bool { return i == dispatch[0].(ssa.Instruction) }) && !instrDominates(dispatch[0].(ssa.Instruction), ins) {
					pre = append(pre, w.instrPos(ins))
				}
			})
			if len(pre) > 0 {
				r.fail(rule, "Execute prints before dispatch", pre[0], "cmd.Execute writes to stdout before dispatching: `format -d` output is preceded by extra text ("+strings.Join(pre, ", ")+")")
			} else {
				r.pass(rule, "Execute prints before dispatch", w.pos(exec.Pos()), "")
			}
		}
	}
	// library: nothing reachable from FormatPacketDsl (formatter visitor only) prints
	fmtFn := w.Parser.Func("FormatPacketDsl")
	if fmtFn == nil {
		r.fatal("anchor unresolved: parser.FormatPacketDsl")
		return
	}
	reach := w.formatterReach()
	n := 0
	for _, fn := range sortedFuncs(reach) {
		n++
		var bad []string
		forEachInstr(fn, func(b *ssa.BasicBlock, ins ssa.Instruction) {
			if c, ok := ins.(ssa.CallInstruction); ok && isStdoutWrite(c) {
				bad = append(bad, w.instrPos(ins))
			}
		})
		if len(bad) > 0 {
			r.fail("C16/format-lib-silent", fnKey(fn), bad[0], "library code reachable from FormatPacketDsl writes to stdout: "+strings.Join(bad, ", "))
		} else {
			r.pass("C16/format-lib-silent", fnKey(fn), w.pos(fn.Pos()), "")
		}
	}
	r.floor("C16/format-lib-silent", 15)
}

// exitsNonZero: the call is os.Exit(k != 0) or a repo wrapper that never returns and only exits with non-zero constants.
func exitsNonZero(c ssa.CallInstruction, depth int) bool {
	f := c.Common().StaticCallee()
	if f == nil || depth > 4 {
		return false
	}
	if f.String() == "os.Exit" {
		k, ok := c.Common().Args[0].(*ssa.Const)
		return ok && k.Value != nil && constant.Sign(k.Value) != 0
	}
	if !noReturnFuncs[f] {
		return false
	}
	any, all := false, true
	forEachInstr(f, func(b *ssa.BasicBlock, ins ssa.Instruction) {
		c2, ok := ins.(ssa.CallInstruction)
		if !ok {
			return
		}
		f2 := c2.Common().StaticCallee()
		if f2 == nil {
			return
		}
		if f2.String() == "os.Exit" || noReturnFuncs[f2] {
			if exitsNonZero(c2, depth+1) {
				any = true
			} else {
				all = false
			}
		}
	})
	return any && all
}

func instrKind(i ssa.Instruction) string {
	s := fmt.Sprintf("%T", i)
	return strings.TrimPrefix(s, "*ssa.")
}

func sortedFuncs(m map[*ssa.Function]bool) []*ssa.Function {
	var out []*ssa.Function
	for f := range m {
		out = append(out, f)
	}
	sort.Slice(out, func(i, j int) bool { return fnKey(out[i]) < fnKey(out[j]) })
	return out
}

// formatterReach: subject functions reachable from FormatPacketDsl, with visitor dispatch restricted to *PacketDslFormattor
// (the visitor passed to Accept is the constructor's result; the model visitor cannot be reached from here).
func (w *World) formatterReach() map[*ssa.Function]bool {
	root := w.Parser.Func("FormatPacketDsl")
	return w.subjectsOnly(w.reachable([]*ssa.Function{root}, func(f *ssa.Function) bool {
		return w.isRepoLike(f) && recvNamed(f) != "PacketDslVisitorImpl"
	}))
}

// parseReach: subject functions reachable from ParseFile with the model visitor only.
func (w *World) parseReach() map[*ssa.Function]bool {
	root := w.Parser.Func("ParseFile")
	return w.subjectsOnly(w.reachable([]*ssa.Function{root}, func(f *ssa.Function) bool {
		return w.isRepoLike(f) && recvNamed(f) != "PacketDslFormattor"
	}))
}

func recvNamed(f *ssa.Function) string {
	if f.Signature.Recv() == nil {
		if f.Parent() != nil {
			return recvNamed(f.Parent())
		}
		return ""
	}
	if n := namedOf(f.Signature.Recv().Type()); n != nil {
		return n.Obj().Name()
	}
	return ""
}

func c16Export(w *World, r *Report) {
	const rule = "C16/c-export"
	fn := w.Cmd.Func("FormatPacketDslExport")
	if fn == nil {
		r.fatal("anchor unresolved: cmd.FormatPacketDslExport")
		return
	}
	// the exported function may delegate to cmd helpers: its returned C string is followed into them (parameters bound to arguments)
	isCgo := func(f *ssa.Function, suffix string) bool { return f != nil && strings.HasSuffix(f.Name(), suffix) }
	type leaf struct {
		v   ssa.Value
		blk *ssa.BasicBlock
		fn  *ssa.Function
		bs  bindings
		ins ssa.Instruction
	}
	var leaves []leaf
	wrappedAll := true
	var collect func(f *ssa.Function, bs bindings, top bool, depth int)
	collect = func(f *ssa.Function, bs bindings, top bool, depth int) {
		if depth > 4 {
			return
		}
		forEachInstr(f, func(blk *ssa.BasicBlock, ins ssa.Instruction) {
			ret, ok := ins.(*ssa.Return)
			if !ok || len(ret.Results) != 1 {
				return
			}
			v := ret.Results[0]
			if top {
				cs, ok := v.(*ssa.Call)
				if !ok || !isCgo(cs.Call.StaticCallee(), "_Cfunc_CString") {
					wrappedAll = false
					r.fail(rule, "every return is C.CString(...)", w.instrPos(ins), "returned value is not a C.CString call")
					return
				}
				v = cs.Call.Args[0]
			}
			v = stripIdentity(v)
			if c, ok := v.(*ssa.Call); ok {
				if g := c.Call.StaticCallee(); g != nil && g.Pkg == w.Cmd && g.Blocks != nil && !strings.Contains(g.Name(), "_Cfunc_") && g != f {
					nb := bindings{}
					for k, val := range bs {
						nb[k] = val
					}
					for i, p := range g.Params {
						if i < len(c.Call.Args) {
							nb[p] = c.Call.Args[i]
						}
					}
					collect(g, nb, false, depth+1)
					return
				}
			}
			leaves = append(leaves, leaf{v, blk, f, bs, ins})
		})
	}
	collect(fn, bindings{}, true, 0)
	// the single library call, in the exported function or one of the helpers on the return path
	var call *ssa.Call
	var callFn *ssa.Function
	var callBs bindings
	nCalls := 0
	seenFn := map[*ssa.Function]bool{}
	for _, cand := range append([]leaf{{fn: fn, bs: bindings{}}}, leaves...) {
		if seenFn[cand.fn] {
			continue
		}
		seenFn[cand.fn] = true
		for _, c := range callsTo(cand.fn, parserPath+".FormatPacketDsl") {
			call, callFn, callBs = c.(*ssa.Call), cand.fn, cand.bs
			nCalls++
		}
	}
	if nCalls != 1 {
		r.fail(rule, "calls-library-once", w.pos(fn.Pos()), fmt.Sprintf("expected one call to FormatPacketDsl on the way to the returned string, found %d", nCalls))
		return
	}
	// input identity
	in := stripIdentity(call.Call.Args[0])
	for i := 0; i < 6; i++ {
		p, isP := in.(*ssa.Parameter)
		if !isP {
			break
		}
		a, bound := callBs[p]
		if !bound {
			break
		}
		in = stripIdentity(a)
	}
	okIn := false
	if c, ok := in.(*ssa.Call); ok && isCgo(c.Call.StaticCallee(), "_Cfunc_GoString") && len(fn.Params) > 0 && c.Call.Args[0] == ssa.Value(fn.Params[0]) {
		okIn = true
	}
	if okIn {
		r.pass(rule, "input is C.GoString(dsl) unmodified", w.instrPos(call), "")
	} else {
		r.fail(rule, "input is C.GoString(dsl) unmodified", w.instrPos(call), "argument of FormatPacketDsl is not C.GoString(param)")
	}
	var errV ssa.Value
	for _, ref := range *call.Referrers() {
		if e, ok := ref.(*ssa.Extract); ok && e.Index == 1 {
			errV = e
		}
	}
	nRet := 0
	for _, lf := range leaves {
		nRet++
		arg := lf.v
		onErr := lf.fn == callFn && errV != nil && guardedByNil(lf.blk, errV, true)
		onOK := lf.fn == callFn && errV != nil && guardedByNil(lf.blk, errV, false)
		switch {
		case onOK:
			if isExtractOf(arg, call, 0) {
				r.pass(rule, "success returns the library result", w.instrPos(lf.ins), "C.CString(result) on err == nil")
			} else {
				r.fail(rule, "success returns the library result", w.instrPos(lf.ins), "on the err == nil edge the C string is not FormatPacketDsl's result unmodified")
			}
		case onErr:
			okMsg := false
			if bo, ok := arg.(*ssa.BinOp); ok && bo.Op == token.ADD {
				if s, ok := constString(bo.X); ok && s == "Error:" {
					if inv, ok := bo.Y.(*ssa.Call); ok && inv.Call.IsInvoke() && inv.Call.Method.Name() == "Error" && sameValue(inv.Call.Value, errV) {
						okMsg = true
					}
				}
			}
			if okMsg {
				r.pass(rule, "error returns Error:+message", w.instrPos(lf.ins), "")
			} else {
				r.fail(rule, "error returns Error:+message", w.instrPos(lf.ins), "on the error edge the C string is not \"Error:\" + err.Error()")
			}
		default:
			r.fail(rule, fmt.Sprintf("return#%d guarded by the error test", nRet), w.instrPos(lf.ins), "return not dominated by either edge of the error test")
		}
	}
	_ = wrappedAll
	// header <-> //export agreement
	exports := map[string]bool{}
	if p := w.ByPath[modPath+"/cmd"]; p != nil {
		re := regexp.MustCompile(`(?m)^//export\s+(\w+)`)
		for _, f := range p.CompiledGoFiles {
			_ = f
		}
		files, _ := filepath.Glob(filepath.Join(w.Repo, "cmd", "*.go"))
		for _, f := range files {
			if strings.HasSuffix(f, "_test.go") {
				continue
			}
			b, err := os.ReadFile(f)
			if err != nil {
				continue
			}
			for _, m := range re.FindAllStringSubmatch(string(b), -1) {
				exports[m[1]] = true
			}
		}
	}
	hdr, err := os.ReadFile(filepath.Join(w.Repo, "lib", "libpacketdsl.h"))
	if err != nil {
		r.fail(rule, "header declares the exported symbols", "lib/libpacketdsl.h", "header unreadable: "+err.Error())
		return
	}
	declared := map[string]bool{}
	for _, m := range regexp.MustCompile(`(?m)^extern\s+[^;(\n"]*?(\w+)\s*\(`).FindAllStringSubmatch(string(hdr), -1) {
		declared[m[1]] = true
	}
	var diff []string
	for e := range exports {
		if !declared[e] {
			diff = append(diff, "exported but not declared: "+e)
		}
	}
	for d := range declared {
		if !exports[d] {
			diff = append(diff, "declared but not exported: "+d)
		}
	}
	sort.Strings(diff)
	if len(exports) == 0 {
		diff = append(diff, "no //export found in cmd/*.go")
	}
	if len(diff) > 0 {
		r.fail(rule, "header declares the exported symbols", "lib/libpacketdsl.h", strings.Join(diff, "; "))
	} else {
		r.pass(rule, "header declares the exported symbols", "lib/libpacketdsl.h", fmt.Sprintf("%d symbols", len(exports)))
	}
}

var genPairing = map[string]string{"lua": "NewLuaWspGenerator", "rust": "NewRustGenerator", "go": "NewGoGenerator", "java": "NewJavaGenerator", "python": "NewPythonGenerator", "cpp": "NewCppGenerator"}

// the CLI contract (README): which flag selects which target
var flagKeyNames = map[string]string{"lua": "lua_output", "rust": "rs_output", "go": "go_output", "java": "java_output", "python": "py_output", "cpp": "cpp_output"}

func c16Compile(w *World, r *Report) {
	const rule = "C16/compile"
	compile := w.Cmd.Func("Compile")
	if compile == nil {
		r.fatal("anchor unresolved: cmd.Compile")
		return
	}
	// (a)+(b) every WriteCodeToFile reached from Compile (through cmd helpers) writes, below outputs[k], exactly the file map that
	// the generator paired with k returned - whatever table, closure or helper carries the pairing - and only after that
	// generator's error was found nil.
	d := newDriver(w)
	got := map[string]map[string]bool{} // key -> constructors whose files land there
	nWrites := 0
	for _, c := range d.inlinedCalls() {
		if !calleeIs(c.call, parserPath+".WriteCodeToFile") {
			continue
		}
		nWrites++
		args := c.call.Common().Args
		rows := d.evalOverTable([]ssa.Value{args[0], args[1]}, c.env)
		for _, label := range sortedKeys(rows) {
			dir, mp := rows[label][0], rows[label][1]
			if dir.Kind != "outkey" || mp.Kind != "genmap" {
				what := "WriteCodeToFile operands resolve to (outputs[k], files of a generator)"
				if label != "" {
					what += " for table " + label
				}
				r.fail(rule, what, w.instrPos(c.call), fmt.Sprintf("reached as %s: the directory is %s and the map is %s - not an output directory paired with a generator's unmodified result", c.path, dir, mp))
				continue
			}
			if got[dir.S] == nil {
				got[dir.S] = map[string]bool{}
			}
			got[dir.S][mp.S] = true
			// the generator's error is tested before its files are written
			guarded := false
			fr := c
			blk := c.call.Block()
			for i := len(c.frames); i >= 0 && !guarded; i-- {
				fn, env := fr.fn, fr.env
				if i < len(c.frames) {
					fn, env, blk = c.frames[i].call.Parent(), c.frames[i].env, c.frames[i].call.Block()
				}
				le := env
				if label != "" {
					le = d.withLit(env, d.lastTable, d.lastTable.lits[d.labelIndex(label)])
				}
				for _, bb := range fn.Blocks {
					cond := branchCond(bb)
					if cond == nil {
						continue
					}
					x, nn, ok := nilTest(cond)
					if !ok || !isErrorType(x.Type()) {
						continue
					}
					if sv := d.eval(x, le, 0); sv.Kind == "generr" && sv.S == mp.S && edgeDominates(bb, 1-nn, blk) {
						guarded = true
					}
				}
			}
			// the target is generated only when its output directory was given
			wanted := false
			blk = c.call.Block()
			for i := len(c.frames); i >= 0 && !wanted; i-- {
				fn, env := c.fn, c.env
				if i < len(c.frames) {
					fn, env, blk = c.frames[i].call.Parent(), c.frames[i].env, c.frames[i].call.Block()
				}
				le := env
				if label != "" {
					le = d.withLit(env, d.lastTable, d.lastTable.lits[d.labelIndex(label)])
				}
				for _, bb := range fn.Blocks {
					cond := branchCond(bb)
					if cond == nil {
						continue
					}
					neg := false
					cc := cond
					for {
						if u, ok := cc.(*ssa.UnOp); ok && u.Op == token.NOT {
							neg = !neg
							cc = u.X
							continue
						}
						break
					}
					bo, ok := cc.(*ssa.BinOp)
					if !ok || (bo.Op != token.NEQ && bo.Op != token.EQL) {
						continue
					}
					var other ssa.Value
					if s, ok := constString(bo.X); ok && s == "" {
						other = bo.Y
					} else if s, ok := constString(bo.Y); ok && s == "" {
						other = bo.X
					}
					if other == nil {
						continue
					}
					if sv := d.eval(other, le, 0); sv.Kind != "outkey" || sv.S != dir.S {
						continue
					}
					nonEmptyOnTrue := bo.Op == token.NEQ
					if neg {
						nonEmptyOnTrue = !nonEmptyOnTrue
					}
					succ := 1
					if nonEmptyOnTrue {
						succ = 0
					}
					if edgeDominates(bb, succ, blk) {
						wanted = true
					}
				}
			}
			// ... or the record that carries the directory was put on the list of targets only when it was given (the test guards the
			// append in the function that assembles the list)
			if !wanted {
				le := c.env
				if label != "" {
					le = d.withLit(c.env, d.lastTable, d.lastTable.lits[d.labelIndex(label)])
				}
				d.appends = nil
				d.eval(args[0], le, 0)
				for _, ap := range d.appends {
					for _, bb := range ap.call.Parent().Blocks {
						cond := branchCond(bb)
						if cond == nil {
							continue
						}
						neg := false
						cc := cond
						for {
							if u, ok := cc.(*ssa.UnOp); ok && u.Op == token.NOT {
								neg = !neg
								cc = u.X
								continue
							}
							break
						}
						bo, ok := cc.(*ssa.BinOp)
						if !ok || (bo.Op != token.NEQ && bo.Op != token.EQL) {
							continue
						}
						var other ssa.Value
						if s, ok := constString(bo.X); ok && s == "" {
							other = bo.Y
						} else if s, ok := constString(bo.Y); ok && s == "" {
							other = bo.X
						}
						if other == nil {
							continue
						}
						if sv := d.eval(other, ap.env, 0); sv.Kind != "outkey" || sv.S != dir.S {
							continue
						}
						nonEmptyOnTrue := bo.Op == token.NEQ
						if neg {
							nonEmptyOnTrue = !nonEmptyOnTrue
						}
						succ := 1
						if nonEmptyOnTrue {
							succ = 0
						}
						if edgeDominates(bb, succ, ap.call.Block()) {
							wanted = true
						}
					}
				}
			}
			wkey := fmt.Sprintf("outputs[%q] is written only when it was given", dir.S)
			if wanted {
				r.pass(rule, wkey, w.instrPos(c.call), "")
			} else {
				r.fail(rule, wkey, w.instrPos(c.call), "the write is not dominated by the non-empty edge of a test of this output directory: a target that was not requested is generated (into the current directory), or a requested one is skipped")
			}
			// a failed write becomes Compile's error
			dkey := fmt.Sprintf("a failed write below outputs[%q] becomes Compile's error", dir.S)
			if ev := errResultOf(c.call); ev != nil && d.delivered(c.fn, ev, 0) {
				r.pass(rule, dkey, w.instrPos(c.call), "")
			} else {
				r.fail(rule, dkey, w.instrPos(c.call), "WriteCodeToFile's error is dropped or inverted: a write failure exits 0")
			}
			key := fmt.Sprintf("files of %s are written only after its error was nil", mp.S)
			if guarded {
				r.pass(rule, key, w.instrPos(c.call), "")
			} else {
				r.fail(rule, key, w.instrPos(c.call), "WriteCodeToFile is not dominated by the err == nil edge of the generator call whose files it writes")
			}
		}
	}
	if nWrites == 0 {
		r.fail(rule, "WriteCodeToFile(path, gen())", w.pos(compile.Pos()), "cmd.Compile (with its helpers) never calls WriteCodeToFile")
	}
	for _, k := range sortedKeys(genPairing) {
		key := fmt.Sprintf("outputs[%q] receives the files of %s", k, genPairing[k])
		ctors := sortedBoolKeys(got[k])
		switch {
		case len(ctors) == 1 && ctors[0] == genPairing[k]:
			r.pass(rule, key, w.pos(compile.Pos()), "")
		case len(ctors) == 0:
			r.fail(rule, key, w.pos(compile.Pos()), fmt.Sprintf("nothing is ever written below outputs[%q]: the --%s target is silently ignored", k, flagKeyNames[k]))
		default:
			r.fail(rule, key, w.pos(compile.Pos()), fmt.Sprintf("outputs[%q] receives the files of %v", k, ctors))
		}
	}
	for k := range got {
		if _, ok := genPairing[k]; !ok {
			r.fail(rule, fmt.Sprintf("outputs[%q] is a documented target", k), w.pos(compile.Pos()), "files are written below an outputs key no flag fills")
		}
	}
	// (c) who-may-write: under Compile only WriteCodeToFile mutates the file system
	reach := w.compileReach()
	wctf := w.Parser.Func("WriteCodeToFile")
	if wctf == nil {
		r.fatal("anchor unresolved: parser.WriteCodeToFile")
		return
	}
	wset := w.writerSet(wctf)
	for _, fn := range sortedFuncs(reach) {
		if wset[fn] || fn.Blocks == nil {
			continue
		}
		var bad []string
		forEachInstr(fn, func(b *ssa.BasicBlock, ins ssa.Instruction) {
			if c, ok := ins.(ssa.CallInstruction); ok {
				if m := isFileMutator(c); m != "" {
					bad = append(bad, m+" at "+w.instrPos(ins))
				}
			}
		})
		if len(bad) > 0 {
			r.fail("C16/compile-writes-only-in-writer", fnKey(fn), w.pos(fn.Pos()), "file-system mutation reachable from compile outside WriteCodeToFile: "+strings.Join(bad, "; "))
		} else {
			r.pass("C16/compile-writes-only-in-writer", fnKey(fn), w.pos(fn.Pos()), "")
		}
	}
	r.floor("C16/compile-writes-only-in-writer", 60)
	c16Writer(w, r, wctf)
	// (d) the outputs map handed to Compile: key k <- the variable the flag for k is bound to; input <- the -f flag's variable
	flagOf := map[string]string{}   // global variable -> flag name
	stringFlag := map[string]bool{} // command variable|flag name: a string flag registered on that command's flag set
	for _, fn := range w.srcFuncs {
		if fn.Pkg != w.Cmd || !strings.HasPrefix(fn.Name(), "init") {
			continue
		}
		forEachInstr(fn, func(b *ssa.BasicBlock, ins ssa.Instruction) {
			c, ok := ins.(ssa.CallInstruction)
			if ok {
				// any string flag of a command, whichever registration form (constant name, or one per entry of a table of targets)
				nameArg := -1
				switch {
				case calleeIs(c, "(*github.com/spf13/pflag.FlagSet).StringVarP"), calleeIs(c, "(*github.com/spf13/pflag.FlagSet).StringVar"):
					nameArg = 2
				case calleeIs(c, "(*github.com/spf13/pflag.FlagSet).StringP"), calleeIs(c, "(*github.com/spf13/pflag.FlagSet).String"):
					nameArg = 1
				}
				if nameArg > 0 && len(c.Common().Args) > nameArg {
					if fs := d.eval(c.Common().Args[0], &drvEnv{}, 0); fs.Kind == "flagset" {
						for _, row := range d.evalOverTable([]ssa.Value{c.Common().Args[nameArg]}, &drvEnv{}) {
							if len(row) == 1 && row[0].Kind == "str" {
								stringFlag[fs.S+"|"+row[0].S] = true
							}
						}
					}
				}
			}
			if !ok || !(calleeIs(c, "(*github.com/spf13/pflag.FlagSet).StringVarP") || calleeIs(c, "(*github.com/spf13/pflag.FlagSet).StringVar")) {
				return
			}
			args := c.Common().Args
			if len(args) < 3 {
				return
			}
			// only flags of the command whose RunE calls Compile: the receiver is compileCmd.Flags()
			name, _ := constString(args[2])
			target := ""
			switch a := args[1].(type) {
			case *ssa.Global:
				target = a.Name()
			case *ssa.FieldAddr:
				if g, ok := a.X.(*ssa.Global); ok {
					_, fname, _, _ := fieldOf(a)
					target = g.Name() + "." + fname
				}
			}
			if target == "" || name == "" {
				// registered in a loop over a table of targets: variable = a member of the element, name = another member
				if fa, ok := args[1].(*ssa.FieldAddr); ok {
					_, fname, _, _ := fieldOf(fa)
					rows := d.evalOverTable([]ssa.Value{fa.X, args[2]}, &drvEnv{})
					for label, row := range rows {
						if label == "" || len(row) != 2 || row[0].Kind != "elem" || row[1].Kind != "str" || d.lastTable == nil {
							continue
						}
						l := d.lastTable.lits[d.labelIndex(label)]
						if l == nil || l.tname == "" {
							continue
						}
						if fc, ok := args[0].(*ssa.Call); ok && len(fc.Call.Args) > 0 {
							if ld, ok := fc.Call.Args[0].(*ssa.UnOp); ok {
								if cg, ok := ld.X.(*ssa.Global); ok {
									flagOf[cg.Name()+"|"+fmt.Sprintf("%s[%d].%s", l.tname, l.idx, fname)] = row[1].S
								}
							}
						}
					}
				}
				return
			}
			if target != "" && name != "" {
				if fc, ok := args[0].(*ssa.Call); ok && len(fc.Call.Args) > 0 {
					if ld, ok := fc.Call.Args[0].(*ssa.UnOp); ok {
						if cg, ok := ld.X.(*ssa.Global); ok {
							flagOf[cg.Name()+"|"+target] = name
						}
					}
				}
			}
		})
	}
	var runE *ssa.Function
	for _, fn := range w.findCmdFuncCalling(modPath + "/cmd.Compile") {
		runE = fn
	}
	if runE == nil {
		r.fatal("anchor unresolved: compile RunE closure calling Compile")
	} else {
		cc := callsTo(runE, modPath+"/cmd.Compile")[0].Common()
		// the function that calls Compile may be a layer below the command's Run function: climb the (unique) static call sites in cmd,
		// binding parameters, until a function is reached that is stored in a cobra.Command
		callEnv := &drvEnv{}
		{
			chain := []*ssa.Function{runE}
			var sites []ssa.CallInstruction
			for len(chain) < 5 && runFieldOf(w, chain[len(chain)-1]) == "" {
				cur := chain[len(chain)-1]
				var site ssa.CallInstruction
				n := 0
				for _, g := range w.srcFuncs {
					if g.Pkg != w.Cmd && (g.Parent() == nil || g.Parent().Pkg != w.Cmd) {
						continue
					}
					forEachInstr(g, func(_ *ssa.BasicBlock, ins ssa.Instruction) {
						if c, ok := ins.(ssa.CallInstruction); ok && c.Common().StaticCallee() == cur {
							site = c
							n++
						}
					})
				}
				if n != 1 {
					break
				}
				sites = append(sites, site)
				chain = append(chain, site.Parent())
			}
			// bind top-down
			env := &drvEnv{}
			for i := len(sites) - 1; i >= 0; i-- {
				callee := chain[i]
				ne := &drvEnv{params: map[*ssa.Parameter]drvBound{}}
				for j, p := range callee.Params {
					if j < len(sites[i].Common().Args) {
						ne.params[p] = drvBound{sites[i].Common().Args[j], env}
					}
				}
				env = ne
			}
			callEnv = env
			runE = chain[len(chain)-1]
		}
		// which command owns this RunE: the global whose literal stores the closure
		owner := ""
		for _, fn := range w.srcFuncs {
			if fn.Pkg != w.Cmd || !strings.HasPrefix(fn.Name(), "init") {
				continue
			}
			forEachInstr(fn, func(b *ssa.BasicBlock, ins ssa.Instruction) {
				st, ok := ins.(*ssa.Store)
				if !ok {
					return
				}
				holds := false
				switch v := stripIdentity(st.Val).(type) {
				case *ssa.Function:
					holds = v == runE
				case *ssa.MakeClosure:
					holds = v.Fn == ssa.Value(runE)
				}
				if !holds {
					return
				}
				if fa, ok := st.Addr.(*ssa.FieldAddr); ok {
					root := stripIdentity(fa.X)
					// &cobra.Command{...} allocated, then stored into the global
					if refs := root.Referrers(); refs != nil {
						for _, ref := range *refs {
							if s2, ok := ref.(*ssa.Store); ok && s2.Val == root {
								if g, ok := s2.Addr.(*ssa.Global); ok {
									owner = g.Name()
								}
							}
						}
					}
				}
			})
		}
		outs := d.eval(cc.Args[1], callEnv, 0)
		for _, k := range sortedKeys(flagKeyNames) {
			key := fmt.Sprintf("outputs[%q] is the value of --%s", k, flagKeyNames[k])
			v, ok := outs.Map[k]
			// without an outputs map: the directory of every write for k was read from the parsed flag set of this very command, under
			// the name of k's flag, and that flag is registered on the command as a string flag
			direct := outs.Kind != "maplit" && len(d.flagReads[k]) > 0
			for _, fs := range d.flagReads[k] {
				if fs.Kind != "flagset" || fs.S != owner || owner == "" {
					direct = false
				}
			}
			switch {
			case direct && stringFlag[owner+"|"+flagKeyNames[k]]:
				r.pass(rule, key, w.pos(runE.Pos()), "read from the command's parsed flag set")
			case direct:
				r.fail(rule, key, w.pos(runE.Pos()), fmt.Sprintf("the directory is read as flag --%s of %s, which is not registered there as a string flag: the lookup fails at run time", flagKeyNames[k], owner))
			case outs.Kind != "maplit":
				r.fail(rule, key, w.pos(runE.Pos()), "the outputs argument of Compile is "+outs.String()+", not a map built from the flag variables")
			case !ok || v.Kind != "flagvar":
				r.fail(rule, key, w.pos(runE.Pos()), fmt.Sprintf("outputs[%q] is filled from %s", k, v))
			case flagOf[owner+"|"+v.S] != flagKeyNames[k]:
				r.fail(rule, key, w.pos(runE.Pos()), fmt.Sprintf("outputs[%q] is filled from the variable of flag --%s", k, flagOf[owner+"|"+v.S]))
			default:
				r.pass(rule, key, w.pos(runE.Pos()), "through variable "+v.S)
			}
		}
		in := d.eval(cc.Args[0], callEnv, 0)
		if in.Kind == "flagvar" && flagOf[owner+"|"+in.S] == "file" {
			r.pass(rule, "Compile(file, outputs)", w.pos(runE.Pos()), "")
		} else {
			r.fail(rule, "Compile(file, outputs)", w.pos(runE.Pos()), "input path passed to Compile is not the -f flag's variable unmodified: "+in.String())
		}
	}
	r.floor(rule, 15)
}

// writerSet: WriteCodeToFile plus the repo helpers that are called only from inside the set (the writer's private helpers).
func (w *World) writerSet(root *ssa.Function) map[*ssa.Function]bool {
	set := map[*ssa.Function]bool{root: true}
	cg := w.CallGraph()
	changed := true
	for changed {
		changed = false
		for _, fn := range w.srcFuncs {
			if set[fn] {
				continue
			}
			n := cg.Nodes[fn]
			if n == nil || len(n.In) == 0 {
				continue
			}
			all := true
			for _, e := range n.In {
				if e.Site != nil && e.Site.Common().StaticCallee() == nil && !w.addressTaken(fn) {
					continue // class-hierarchy edge from a call through a function value: this function is never used as a value
				}
				if !set[e.Caller.Func] {
					all = false
				}
			}
			if all {
				set[fn] = true
				changed = true
			}
		}
	}
	return set
}

type inlinedCall struct {
	call ssa.CallInstruction
	bs   bindings
}

// collectInlined gathers calls in the given blocks of fn and, through static calls to functions of `within`, inside those callees (with parameter bindings).
func collectInlined(fn *ssa.Function, blocks map[*ssa.BasicBlock]bool, within map[*ssa.Function]bool, bs bindings, depth int, out *[]inlinedCall) {
	if depth > 4 {
		return
	}
	for _, b := range fn.Blocks {
		if blocks != nil && !blocks[b] {
			continue
		}
		for _, ins := range b.Instrs {
			c, ok := ins.(ssa.CallInstruction)
			if !ok {
				continue
			}
			*out = append(*out, inlinedCall{c, bs})
			f := c.Common().StaticCallee()
			if f == nil && !c.Common().IsInvoke() {
				// a closure or function variable of an inlined function
				if t := closureTarget(c.Common().Value, 0); t != nil && (within[t] || (t.Parent() != nil && within[t.Parent()])) {
					f = t
				}
			}
			if f != nil && (within[f] || (f.Parent() != nil && within[f.Parent()])) && f != fn && f.Blocks != nil {
				nb := bindings{}
				for k, v := range bs {
					nb[k] = v
				}
				for i, p := range f.Params {
					if i < len(c.Common().Args) {
						nb[p] = c.Common().Args[i]
					}
				}
				collectInlined(f, nil, within, nb, depth+1, out)
			}
		}
	}
}

func resolveParam(v ssa.Value, bs bindings) ssa.Value {
	for i := 0; i < 8; i++ {
		v = stripIdentity(v)
		p, ok := v.(*ssa.Parameter)
		if !ok {
			return v
		}
		a, ok := bs[p]
		if !ok {
			return v
		}
		v = a
	}
	return v
}

// c16Writer checks WriteCodeToFile's loop (following its private helpers).
func c16Writer(w *World, r *Report, fn *ssa.Function) {
	const rule = "C16/writer"
	if len(fn.Params) < 2 {
		r.fail(rule, "ranges over the code map", w.pos(fn.Pos()), "WriteCodeToFile does not take a directory and a code map")
		return
	}
	mapParam := ssa.Value(fn.Params[1])
	var keyV, valV ssa.Value
	var lpBlocks map[*ssa.BasicBlock]bool
	var lpHeader *ssa.BasicBlock
	var lpPos ssa.Instruction
	isMapValue := func(v ssa.Value) bool { return false }
	lookupValue := func(key ssa.Value) func(ssa.Value) bool {
		return func(v ssa.Value) bool {
			lk, ok := stripIdentity(v).(*ssa.Lookup)
			if !ok {
				if ex, isEx := stripIdentity(v).(*ssa.Extract); isEx && ex.Index == 0 {
					lk, ok = ex.Tuple.(*ssa.Lookup)
				}
			}
			return ok && lk.X == mapParam && sameValue(lk.Index, key)
		}
	}
	// form 1: one range over the map parameter (possibly only to collect the keys, see keyListLoop)
	if loops := mapRangeLoops(fn); len(loops) == 1 && loops[0].Range.X == mapParam {
		lp := loops[0]
		for _, ref := range *lp.Next.Referrers() {
			if e, ok := ref.(*ssa.Extract); ok {
				switch e.Index {
				case 1:
					keyV = e
				case 2:
					valV = e
				}
			}
		}
		lpBlocks, lpHeader, lpPos = lp.Blocks, lp.Next.Block(), ssa.Instruction(lp.Range)
		vv := valV
		isMapValue = func(v ssa.Value) bool { return sameValue(v, vv) }
		if kb, hd, key, ok := keyListLoop(fn, lp, keyV); ok {
			lpBlocks, lpHeader, keyV = kb, hd, key
			lpPos = hd.Instrs[0]
			isMapValue = lookupValue(key)
		}
	} else {
		// form 2: a loop over a list of all the keys of the map that somebody else made: a parser helper that collects every key
		// of its map parameter, or the standard library's maps.Keys (sorted / collected)
		forEachInstr(fn, func(_ *ssa.BasicBlock, ins ssa.Instruction) {
			if lpBlocks != nil {
				return
			}
			ld, ok := ins.(*ssa.UnOp)
			if !ok || ld.Op != token.MUL {
				return
			}
			ia, ok := ld.X.(*ssa.IndexAddr)
			if !ok || !w.allKeysOf(ia.X, mapParam, 0) {
				return
			}
			var phi *ssa.Phi
			switch ix := ia.Index.(type) {
			case *ssa.BinOp:
				phi, _ = ix.X.(*ssa.Phi)
			case *ssa.Phi:
				phi = ix
			}
			if phi == nil || phi.Comment != "rangeindex" {
				return
			}
			lpBlocks, lpHeader, keyV = naturalLoop(phi.Block()), phi.Block(), ld
			lpPos = phi.Block().Instrs[0]
			isMapValue = lookupValue(ld)
		})
		if lpBlocks == nil {
			r.fail(rule, "ranges over the code map", w.pos(fn.Pos()), "WriteCodeToFile neither ranges over its map parameter nor loops over a list of all its keys")
			return
		}
	}
	ws := w.writerSet(fn)
	var calls []inlinedCall
	collectInlined(fn, lpBlocks, ws, bindings{}, 0, &calls)
	var create, write *inlinedCall
	var loopCallToWrite ssa.Instruction // the instruction in the loop (direct or helper call) that leads to the write
	for i := range calls {
		c := calls[i]
		switch isFileMutator(c.call) {
		case "os.Create", "os.OpenFile":
			create = &calls[i]
		case "os.WriteFile":
			create = &calls[i]
			write = &calls[i]
		case "(*os.File).Write", "(*os.File).WriteString":
			write = &calls[i]
		}
	}
	if create == nil || write == nil {
		r.fail(rule, "creates and writes each entry", w.pos(fn.Pos()), "no create/write pair inside the loop (directly or in the writer's private helpers)")
		return
	}
	// locate the loop-level instruction that performs the write (for the skip check)
	for _, c := range calls {
		if c.call.Parent() != fn {
			continue
		}
		if c.call == write.call {
			loopCallToWrite = c.call
			break
		}
		if f := c.call.Common().StaticCallee(); f != nil && ws[f] {
			var inner []inlinedCall
			collectInlined(f, nil, ws, bindings{}, 0, &inner)
			for _, ic := range inner {
				if ic.call == write.call {
					loopCallToWrite = c.call
				}
			}
		}
	}
	cname := create.call.Common().StaticCallee().String()
	trunc := cname == "os.Create" || cname == "os.WriteFile"
	if cname == "os.OpenFile" {
		if k, ok := create.call.Common().Args[1].(*ssa.Const); ok {
			fl, _ := constant.Int64Val(k.Value)
			trunc = fl&int64(os.O_TRUNC) != 0 && fl&int64(os.O_CREATE) != 0 && fl&int64(os.O_WRONLY|os.O_RDWR) != 0 && fl&int64(os.O_APPEND) == 0
		}
	}
	if trunc {
		r.pass(rule, "file is created truncated", w.instrPos(create.call), cname)
	} else {
		r.fail(rule, "file is created truncated", w.instrPos(create.call), cname+" without O_TRUNC|O_CREATE|O_WRONLY: a longer stale file keeps its tail, so the file no longer equals the generator's bytes")
	}
	// path shape
	pathOK := false
	if bo, ok := resolveParam(create.call.Common().Args[0], create.bs).(*ssa.BinOp); ok && bo.Op == token.ADD {
		if sameValue(bo.Y, keyV) {
			if bo2, ok := bo.X.(*ssa.BinOp); ok && bo2.Op == token.ADD {
				if s, ok := constString(bo2.Y); ok && s == "/" && bo2.X == ssa.Value(fn.Params[0]) {
					pathOK = true
				}
			}
		}
	}
	if !pathOK {
		// the same three pieces, assembled across helpers and record members
		pieces := w.flattenConcat(create.call.Common().Args[0], create.bs, ws, 0)
		if len(pieces) == 3 && stripIdentity(pieces[0]) == ssa.Value(fn.Params[0]) && sameValue(pieces[2], keyV) {
			if s, ok := constString(pieces[1]); ok && s == "/" {
				pathOK = true
			}
		}
	}
	if pathOK {
		r.pass(rule, "path is dir + \"/\" + map key", w.instrPos(create.call), "")
	} else {
		r.fail(rule, "path is dir + \"/\" + map key", w.instrPos(create.call), "created path is not <directory parameter> + \"/\" + <range key>")
	}
	// data identity
	if isMapValue(resolveParam(write.call.Common().Args[1], write.bs)) {
		r.pass(rule, "bytes written are the map value", w.instrPos(write.call), "")
	} else {
		r.fail(rule, "bytes written are the map value", w.instrPos(write.call), "the data operand of the write is not the range value unmodified")
	}
	// every completed iteration passes through the write
	header := lpHeader
	all := loopCallToWrite != nil
	if all {
		for _, p := range header.Preds {
			if lpBlocks[p] && header.Dominates(p) && p != header {
				if !loopCallToWrite.Block().Dominates(p) {
					all = false
				}
			}
		}
	}
	if all {
		r.pass(rule, "no entry skipped", w.instrPos(lpPos), "")
	} else {
		r.fail(rule, "no entry skipped", w.instrPos(lpPos), "an iteration can reach the next one without passing through the write")
	}
	// written file handle is the created one
	if write.call.Common().StaticCallee().String() != "os.WriteFile" {
		h := write.call.Common().Args[0]
		okH := false
		var isCreated func(v ssa.Value, depth int) bool
		isCreated = func(v ssa.Value, depth int) bool {
			e, ok := stripIdentity(resolveParam(v, write.bs)).(*ssa.Extract)
			if !ok || e.Index != 0 || depth > 3 {
				return false
			}
			if e.Tuple == create.call.(ssa.Value) {
				return true
			}
			// the file comes out of a private helper of the writer that returns the created file
			c, ok := e.Tuple.(*ssa.Call)
			if !ok || c.Call.StaticCallee() == nil || !ws[c.Call.StaticCallee()] {
				return false
			}
			h := c.Call.StaticCallee()
			any := false
			for _, b := range h.Blocks {
				ret, ok := b.Instrs[len(b.Instrs)-1].(*ssa.Return)
				if !ok || len(ret.Results) == 0 {
					continue
				}
				if k, isConst := ret.Results[0].(*ssa.Const); isConst && k.IsNil() {
					continue // error return
				}
				if !isCreated(ret.Results[0], depth+1) {
					return false
				}
				any = true
			}
			return any
		}
		if isCreated(h, 0) {
			okH = true
		}
		if okH {
			r.pass(rule, "write goes to the created file", w.instrPos(write.call), "")
		} else {
			r.fail(rule, "write goes to the created file", w.instrPos(write.call), "the handle written is not the one just created")
		}
	}
}

func c16Execute(w *World, r *Report) {
	const rule = "C16/arg-rewrite"
	exec := w.Cmd.Func("Execute")
	if exec == nil {
		r.fatal("anchor unresolved: cmd.Execute")
		return
	}
	// Execute and the cmd helpers it calls
	set := map[*ssa.Function]bool{exec: true}
	sites := map[*ssa.Function][]ssa.CallInstruction{}
	work := []*ssa.Function{exec}
	for len(work) > 0 {
		f := work[len(work)-1]
		work = work[:len(work)-1]
		forEachInstr(f, func(_ *ssa.BasicBlock, ins ssa.Instruction) {
			if c, ok := ins.(ssa.CallInstruction); ok {
				for _, g := range calleesOfAll(c) {
					if g != nil && g.Pkg == w.Cmd && g.Blocks != nil {
						sites[g] = append(sites[g], c)
						if !set[g] {
							set[g] = true
							work = append(work, g)
						}
					}
				}
				// cmd functions handed on as values (a predicate passed to a helper)
				for _, a := range c.Common().Args {
					if g, ok := stripIdentity(a).(*ssa.Function); ok && g.Pkg == w.Cmd && g.Blocks != nil && !set[g] {
						set[g] = true
						work = append(work, g)
					}
				}
			}
		})
	}
	// argv: os.Args itself, or a parameter that every call site binds to it
	var isArgv func(v ssa.Value, depth int) bool
	isArgv = func(v ssa.Value, depth int) bool {
		v = stripIdentity(v)
		if isLoadOfOsArgs(v) {
			return true
		}
		p, ok := v.(*ssa.Parameter)
		if !ok || depth > 3 || len(sites[p.Parent()]) == 0 {
			return false
		}
		for i, q := range p.Parent().Params {
			if q != p {
				continue
			}
			for _, cs := range sites[p.Parent()] {
				if i >= len(cs.Common().Args) || !isArgv(cs.Common().Args[i], depth+1) {
					return false
				}
			}
			return true
		}
		return false
	}
	// subcommand predicates: cmd functions that compare their argument with the names of the registered commands
	isSubPred := func(f *ssa.Function) (bool, string) {
		if f == nil || len(f.Params) == 0 {
			return false, ""
		}
		usesCommands := len(callsTo(f, "(*github.com/spf13/cobra.Command).Commands")) > 0
		usesName := len(callsTo(f, "(*github.com/spf13/cobra.Command).Name")) > 0
		literalCmp, trueOnMatch := false, false
		// the registered names may be gathered by cmd helpers of the predicate (a list of names, a map keyed by name): what those
		// helpers consult counts as well, and so does any literal they compare with
		{
			seenH := map[*ssa.Function]bool{f: true}
			work := []*ssa.Function{f}
			for len(work) > 0 {
				cur := work[len(work)-1]
				work = work[:len(work)-1]
				forEachInstr(cur, func(_ *ssa.BasicBlock, ins ssa.Instruction) {
					if c, ok := ins.(ssa.CallInstruction); ok {
						if h := c.Common().StaticCallee(); h != nil && h.Pkg == w.Cmd && h.Blocks != nil && !seenH[h] {
							seenH[h] = true
							work = append(work, h)
						}
					}
				})
			}
			for h := range seenH {
				if h == f {
					continue
				}
				if len(callsTo(h, "(*github.com/spf13/cobra.Command).Commands")) > 0 {
					usesCommands = true
				}
				if len(callsTo(h, "(*github.com/spf13/cobra.Command).Name")) > 0 {
					usesName = true
				}
				forEachInstr(h, func(_ *ssa.BasicBlock, ins ssa.Instruction) {
					if bo, ok := ins.(*ssa.BinOp); ok && (bo.Op == token.EQL || bo.Op == token.NEQ) {
						if _, ok := constString(bo.X); ok {
							literalCmp = true
						}
						if _, ok := constString(bo.Y); ok {
							literalCmp = true
						}
					}
				})
			}
		}
		// membership forms whose polarity is positive by construction: `_, found := byName[arg]; return found`, slices.Contains(names, arg)
		memberForm := false
		forEachInstr(f, func(_ *ssa.BasicBlock, ins ssa.Instruction) {
			ret, ok := ins.(*ssa.Return)
			if !ok || len(ret.Results) != 1 {
				return
			}
			switch x := stripIdentity(ret.Results[0]).(type) {
			case *ssa.Extract:
				if lk, ok := x.Tuple.(*ssa.Lookup); ok && lk.CommaOk && x.Index == 1 && stripIdentity(lk.Index) == ssa.Value(f.Params[0]) {
					memberForm = true
				}
			case *ssa.Call:
				if c := x.Call.StaticCallee(); c != nil && strings.HasPrefix(c.String(), "slices.Contains[") && len(x.Call.Args) == 2 && stripIdentity(x.Call.Args[1]) == ssa.Value(f.Params[0]) {
					memberForm = true
				}
			}
		})
		if memberForm && usesCommands && usesName && !literalCmp {
			return true, "membership of the argument in a collection of the registered commands' names"
		}
		forEachInstr(f, func(b *ssa.BasicBlock, ins ssa.Instruction) {
			bo, ok := ins.(*ssa.BinOp)
			if !ok || (bo.Op != token.EQL && bo.Op != token.NEQ) {
				return
			}
			if _, ok := constString(bo.X); ok {
				literalCmp = true
			}
			if _, ok := constString(bo.Y); ok {
				literalCmp = true
			}
			if bo.X != ssa.Value(f.Params[0]) && bo.Y != ssa.Value(f.Params[0]) {
				return
			}
			for _, ref := range *bo.Referrers() {
				iff, ok := ref.(*ssa.If)
				if !ok {
					continue
				}
				eq := 0
				if bo.Op == token.NEQ {
					eq = 1
				}
				for _, i2 := range iff.Block().Succs[eq].Instrs {
					if ret, ok := i2.(*ssa.Return); ok && len(ret.Results) == 1 {
						if k, ok := ret.Results[0].(*ssa.Const); ok && k.Value != nil && k.Value.Kind() == constant.Bool && constant.BoolVal(k.Value) {
							trueOnMatch = true
						}
					}
				}
			}
		})
		// every other return says "not a subcommand"
		falseOtherwise := true
		nTrue := 0
		forEachInstr(f, func(b *ssa.BasicBlock, ins ssa.Instruction) {
			if ret, ok := ins.(*ssa.Return); ok && len(ret.Results) == 1 {
				if k, ok := ret.Results[0].(*ssa.Const); ok && k.Value != nil && k.Value.Kind() == constant.Bool {
					if constant.BoolVal(k.Value) {
						nTrue++
					}
				} else {
					falseOtherwise = false
				}
			}
		})
		if nTrue != 1 {
			falseOtherwise = false
		}
		// the library form: return slices.ContainsFunc(root.Commands(), func(c) bool { return c.Name() == arg })
		if !literalCmp && usesCommands {
			okLib := false
			forEachInstr(f, func(_ *ssa.BasicBlock, ins ssa.Instruction) {
				ret, ok := ins.(*ssa.Return)
				if !ok || len(ret.Results) != 1 {
					return
				}
				call, ok := stripIdentity(ret.Results[0]).(*ssa.Call)
				if !ok || call.Call.StaticCallee() == nil || !strings.HasPrefix(call.Call.StaticCallee().String(), "slices.ContainsFunc") || len(call.Call.Args) != 2 {
					return
				}
				if cc, ok := stripIdentity(call.Call.Args[0]).(*ssa.Call); !ok || cc.Call.StaticCallee() == nil || cc.Call.StaticCallee().Name() != "Commands" {
					return
				}
				mc, ok := stripIdentity(call.Call.Args[1]).(*ssa.MakeClosure)
				if !ok {
					return
				}
				pred, _ := mc.Fn.(*ssa.Function)
				if pred == nil || len(pred.Params) != 1 {
					return
				}
				// which captured variable is f's argument?
				argFree := map[ssa.Value]bool{}
				for j, b := range mc.Bindings {
					bv := stripIdentity(b)
					isArg := bv == ssa.Value(f.Params[0])
					if al, ok := bv.(*ssa.Alloc); ok && al.Referrers() != nil {
						for _, ref := range *al.Referrers() {
							if st, ok := ref.(*ssa.Store); ok && st.Addr == ssa.Value(al) && stripIdentity(st.Val) == ssa.Value(f.Params[0]) {
								isArg = true
							}
						}
					}
					if isArg && j < len(pred.FreeVars) {
						argFree[pred.FreeVars[j]] = true
					}
				}
				good := false
				forEachInstr(pred, func(_ *ssa.BasicBlock, i2 ssa.Instruction) {
					r2, ok := i2.(*ssa.Return)
					if !ok || len(r2.Results) != 1 {
						return
					}
					bo, ok := stripIdentity(r2.Results[0]).(*ssa.BinOp)
					if !ok || bo.Op != token.EQL {
						return
					}
					isName := func(v ssa.Value) bool {
						c, ok := stripIdentity(v).(*ssa.Call)
						return ok && c.Call.StaticCallee() != nil && c.Call.StaticCallee().Name() == "Name" && len(c.Call.Args) == 1 && stripIdentity(c.Call.Args[0]) == ssa.Value(pred.Params[0])
					}
					isArgV := func(v ssa.Value) bool {
						v = stripIdentity(v)
						if argFree[v] {
							return true
						}
						if ld, ok := v.(*ssa.UnOp); ok && ld.Op == token.MUL && argFree[ld.X] {
							return true
						}
						return false
					}
					if (isName(bo.X) && isArgV(bo.Y)) || (isName(bo.Y) && isArgV(bo.X)) {
						good = true
					}
				})
				if good {
					okLib = true
				}
			})
			if okLib {
				return true, "slices.ContainsFunc over Commands() comparing Name() with the argument"
			}
		}
		return usesCommands && usesName && !literalCmp && trueOnMatch && falseOtherwise,
			fmt.Sprintf("Commands()=%v Name()=%v literal-compare=%v returns-true-on-match=%v false-otherwise=%v", usesCommands, usesName, literalCmp, trueOnMatch, falseOtherwise)
	}
	found := false
	for _, fn := range sortedFuncs(set) {
		fn := fn
		forEachInstr(fn, func(b *ssa.BasicBlock, ins ssa.Instruction) {
			app, ok := ins.(*ssa.Call)
			if !ok {
				return
			}
			bi, ok := app.Call.Value.(*ssa.Builtin)
			if !ok || bi.Name() != "append" || len(app.Call.Args) < 2 {
				return
			}
			// does the head literal contain "compile"?
			hasCompile, headFirstIsArg0 := false, false
			if sl, ok := app.Call.Args[0].(*ssa.Slice); ok {
				if al, ok := sl.X.(*ssa.Alloc); ok {
					for _, ref := range *al.Referrers() {
						ia, ok := ref.(*ssa.IndexAddr)
						if !ok {
							continue
						}
						for _, r2 := range *ia.Referrers() {
							s2, ok := r2.(*ssa.Store)
							if !ok {
								continue
							}
							if cs, ok := constString(s2.Val); ok && cs == "compile" {
								hasCompile = true
							}
							if idx, ok := ia.Index.(*ssa.Const); ok && idx.Int64() == 0 {
								if ld, ok := s2.Val.(*ssa.UnOp); ok {
									if ia2, ok := ld.X.(*ssa.IndexAddr); ok {
										if i2, ok := ia2.Index.(*ssa.Const); ok && i2.Int64() == 0 && isArgv(ia2.X, 0) {
											headFirstIsArg0 = true
										}
									}
								}
							}
						}
					}
				}
			}
			if !hasCompile {
				return
			}
			found = true
			// tail = argv[1:], and the result becomes os.Args
			tailOK := false
			if sl, ok := app.Call.Args[1].(*ssa.Slice); ok && isArgv(sl.X, 0) && sl.High == nil {
				if lo, ok := sl.Low.(*ssa.Const); ok && lo.Int64() == 1 {
					tailOK = true
				}
			}
			var storedToArgs func(v ssa.Value, f *ssa.Function, depth int) bool
			storedToArgs = func(v ssa.Value, f *ssa.Function, depth int) bool {
				if depth > 3 || v.Referrers() == nil {
					return false
				}
				for _, ref := range *v.Referrers() {
					switch x := ref.(type) {
					case *ssa.Store:
						if g, ok := x.Addr.(*ssa.Global); ok && g.Name() == "Args" && g.Pkg != nil && g.Pkg.Pkg.Path() == "os" {
							return true
						}
					case *ssa.Phi:
						if storedToArgs(x, f, depth+1) {
							return true
						}
					case *ssa.Return:
						all := len(sites[f]) > 0
						for _, cs := range sites[f] {
							cv, ok := cs.(ssa.Value)
							if !ok || !storedToArgs(cv, cs.Parent(), depth+1) {
								all = false
							}
						}
						if all {
							return true
						}
					}
				}
				return false
			}
			if tailOK && headFirstIsArg0 && storedToArgs(app, fn, 0) {
				r.pass(rule, "remaining arguments pass through unchanged", w.instrPos(ins), "os.Args = [os.Args[0], \"compile\"] + os.Args[1:]")
			} else {
				r.fail(rule, "remaining arguments pass through unchanged", w.instrPos(ins), "rewritten argument vector is not [os.Args[0], \"compile\"] followed by os.Args[1:], stored back into os.Args")
			}
			// guarded by the not-a-subcommand edge of a subcommand predicate applied to argv[1]
			guarded := false
			predWhy := ""
			for _, bb := range fn.Blocks {
				cond := branchCond(bb)
				if cond == nil {
					continue
				}
				neg := false
				c := cond
				for {
					if u, ok := c.(*ssa.UnOp); ok && u.Op == token.NOT {
						neg = !neg
						c = u.X
						continue
					}
					break
				}
				call, ok := c.(*ssa.Call)
				if !ok || calleeOf(call) == nil || !set[calleeOf(call)] || len(call.Call.Args) == 0 {
					continue
				}
				okPred, why := isSubPred(calleeOf(call))
				if !okPred {
					predWhy = why
					continue
				}
				argOK := false
				if ld, ok := call.Call.Args[0].(*ssa.UnOp); ok {
					if ia, ok := ld.X.(*ssa.IndexAddr); ok && isArgv(ia.X, 0) {
						if k, ok := ia.Index.(*ssa.Const); ok && k.Int64() == 1 {
							argOK = true
						}
					}
				}
				succ := 1 // false edge of the predicate
				if neg {
					succ = 0
				}
				if argOK && edgeDominates(bb, succ, b) {
					guarded = true
				}
			}
			if guarded {
				r.pass(rule, "compile inserted only when arg1 is not a subcommand", w.instrPos(ins), "")
				r.pass(rule, "the subcommand test compares with registered command names", w.instrPos(ins), "")
			} else {
				r.fail(rule, "compile inserted only when arg1 is not a subcommand", w.instrPos(ins), "the rewrite that inserts \"compile\" is not dominated by the not-a-subcommand edge of a test of argv[1] against the registered command names "+predWhy)
			}
		})
	}
	// the other rewrite: flags appended to the argument vector as it stands (`--help` for a bare invocation) - only when the user
	// gave no arguments at all; appended to a real command line it replaces the compilation by a help text and exit status 0
	for _, fn := range sortedFuncs(set) {
		fn := fn
		forEachInstr(fn, func(b *ssa.BasicBlock, ins ssa.Instruction) {
			app, ok := ins.(*ssa.Call)
			if !ok {
				return
			}
			bi, ok := app.Call.Value.(*ssa.Builtin)
			if !ok || bi.Name() != "append" || len(app.Call.Args) != 2 || !isArgv(app.Call.Args[0], 0) {
				return
			}
			ops := variadicOperands(app.Call.Args[1])
			if len(ops) == 0 {
				return
			}
			var flags []string
			for _, o := range ops {
				s, isC := constString(o)
				if !isC {
					return
				}
				flags = append(flags, s)
			}
			key := fmt.Sprintf("%s is appended only to an empty command line", strings.Join(flags, " "))
			guarded := false
			for _, bb := range fn.Blocks {
				cond := branchCond(bb)
				if cond == nil {
					continue
				}
				neg := false
				c := cond
				for {
					if u, ok := c.(*ssa.UnOp); ok && u.Op == token.NOT {
						neg = !neg
						c = u.X
						continue
					}
					break
				}
				bo, ok := c.(*ssa.BinOp)
				if !ok {
					continue
				}
				lc, ok := stripIdentity(bo.X).(*ssa.Call)
				k, ok2 := bo.Y.(*ssa.Const)
				if !ok || !ok2 || k.Value == nil || k.Value.Kind() != constant.Int {
					continue
				}
				if lb, ok := lc.Call.Value.(*ssa.Builtin); !ok || lb.Name() != "len" || len(lc.Call.Args) != 1 || !isArgv(lc.Call.Args[0], 0) {
					continue
				}
				kv, _ := constant.Int64Val(k.Value)
				cmp := func(n int64) bool {
					var res bool
					switch bo.Op {
					case token.EQL:
						res = n == kv
					case token.NEQ:
						res = n != kv
					case token.LSS:
						res = n < kv
					case token.LEQ:
						res = n <= kv
					case token.GTR:
						res = n > kv
					case token.GEQ:
						res = n >= kv
					default:
						return false
					}
					return res != neg
				}
				for succ := 0; succ < 2; succ++ {
					holds := func(n int64) bool { return cmp(n) == (succ == 0) }
					// len(os.Args) == 1 is the bare program name
					if holds(1) && !holds(2) && !holds(3) && !holds(7) && edgeDominates(bb, succ, b) {
						guarded = true
					}
				}
			}
			if guarded {
				r.pass(rule, key, w.instrPos(ins), "")
			} else {
				r.fail(rule, key, w.instrPos(ins), "the argument vector is extended by "+strings.Join(flags, " ")+" on a path that is not the `no arguments` edge of a test of len(os.Args): a real command line gets the flag appended - `fin-protoc -f x.dsl -g out` prints the help text and exits 0 without compiling")
			}
		})
	}
	if !found {
		r.fail(rule, "compile inserted only when arg1 is not a subcommand", w.pos(exec.Pos()), "no rewrite of os.Args inserting \"compile\" found under Execute")
	}
	// every command object of the package is registered with the root command (the one Execute dispatches on)
	var root *ssa.Global
	for _, c := range callsTo(exec, "(*github.com/spf13/cobra.Command).Execute") {
		if len(c.Common().Args) > 0 {
			if ld, ok := c.Common().Args[0].(*ssa.UnOp); ok {
				if g, ok := ld.X.(*ssa.Global); ok {
					root = g
				}
			}
		}
	}
	if root == nil {
		r.fail(rule, "root command found", w.pos(exec.Pos()), "Execute does not dispatch on a package-level cobra command")
		return
	}
	added := map[*ssa.Global]bool{}
	for _, fn := range w.srcFuncs {
		if fn.Pkg != w.Cmd {
			continue
		}
		for _, c := range callsTo(fn, "(*github.com/spf13/cobra.Command).AddCommand") {
			args := c.Common().Args
			if len(args) < 2 {
				continue
			}
			if ld, ok := args[0].(*ssa.UnOp); !ok || ld.X != ssa.Value(root) {
				continue
			}
			// variadic slice of loaded globals
			if sl, ok := args[1].(*ssa.Slice); ok {
				if al, ok := sl.X.(*ssa.Alloc); ok {
					for _, ref := range *al.Referrers() {
						if ia, ok := ref.(*ssa.IndexAddr); ok {
							for _, r2 := range *ia.Referrers() {
								if st, ok := r2.(*ssa.Store); ok {
									if ld, ok := st.Val.(*ssa.UnOp); ok {
										if g, ok := ld.X.(*ssa.Global); ok {
											added[g] = true
										}
									}
								}
							}
						}
					}
				}
			}
		}
	}
	for _, m := range sortedKeys(w.Cmd.Members) {
		g, ok := w.Cmd.Members[m].(*ssa.Global)
		if !ok || g == root {
			continue
		}
		pt, ok := g.Type().(*types.Pointer)
		if !ok || !strings.HasSuffix(pt.Elem().String(), "github.com/spf13/cobra.Command") {
			continue
		}
		key := "command " + g.Name() + " is registered with the root command"
		if added[g] {
			r.pass(rule, key, w.pos(g.Pos()), "")
		} else {
			r.fail(rule, key, w.pos(g.Pos()), "the command object exists but is never added to the root command: its name is treated as an argument of `compile`")
		}
	}
}

func isLoadOfOsArgs(v ssa.Value) bool {
	u, ok := v.(*ssa.UnOp)
	if !ok || u.Op != token.MUL {
		return false
	}
	g, ok := u.X.(*ssa.Global)
	return ok && g.Name() == "Args" && g.Pkg != nil && g.Pkg.Pkg.Path() == "os"
}

// addressTaken: the function is used as a value (not just called) somewhere in the repo.
func (w *World) addressTaken(fn *ssa.Function) bool {
	if w.addrTaken == nil {
		w.addrTaken = map[*ssa.Function]bool{}
		for _, f := range w.srcFuncs {
			forEachInstr(f, func(_ *ssa.BasicBlock, ins ssa.Instruction) {
				var callee ssa.Value
				if c, ok := ins.(ssa.CallInstruction); ok && !c.Common().IsInvoke() {
					callee = c.Common().Value
				}
				for _, op := range ins.Operands(nil) {
					if op == nil || *op == nil {
						continue
					}
					if g, ok := (*op).(*ssa.Function); ok && (*op != callee || op != &ins.(ssa.CallInstruction).Common().Value) {
						w.addrTaken[g] = true
					}
				}
			})
		}
	}
	return w.addrTaken[fn]
}


// flagNamesOf: the command-line flag names whose value is stored in global g (pflag StringVar/StringVarP/BoolVar... registrations in cmd init).
func (w *World) flagNamesOf(g *ssa.Global) map[string]bool {
	if w.flagBind == nil {
		w.flagBind = map[*ssa.Global]map[string]bool{}
		for _, fn := range w.srcFuncs {
			if fn.Pkg != w.Cmd {
				continue
			}
			forEachInstr(fn, func(_ *ssa.BasicBlock, ins ssa.Instruction) {
				c, ok := ins.(ssa.CallInstruction)
				if !ok || c.Common().StaticCallee() == nil {
					return
				}
				f := c.Common().StaticCallee()
				if f.Pkg == nil || f.Pkg.Pkg.Path() != "github.com/spf13/pflag" || !strings.Contains(f.Name(), "Var") {
					return
				}
				args := c.Common().Args
				if len(args) < 3 {
					return
				}
				gv, ok := args[1].(*ssa.Global)
				name, ok2 := constString(args[2])
				if ok && ok2 {
					if w.flagBind[gv] == nil {
						w.flagBind[gv] = map[string]bool{}
					}
					w.flagBind[gv][name] = true
				}
			})
		}
	}
	return w.flagBind[g]
}

// c16FormatInput: what the format command hands to the formatter is the -d text when one is given, otherwise the content of the -f file;
// a read error or the absence of both never reaches the formatter. Decided by tracing the argument of FormatPacketDsl back to its
// sources (through phis, conversions and cmd helpers with their parameters bound) and checking the guard of each.
func c16FormatInput(w *World, r *Report, run *ssa.Function, call *ssa.Call, runBs bindings) {
	const rule = "C16/format-input"
	type leaf struct {
		kind string // flag | file | const | other
		g    *ssa.Global
		at   *ssa.BasicBlock
		fn   *ssa.Function
		bs   bindings
		read *ssa.Call
		desc string
	}
	var leaves []leaf
	resolve := func(v ssa.Value, bs bindings) ssa.Value {
		v = stripIdentity(v)
		for i := 0; i < 6; i++ {
			p, ok := v.(*ssa.Parameter)
			if !ok {
				break
			}
			a, bound := bs[p]
			if !bound {
				break
			}
			v = stripIdentity(a)
		}
		return v
	}
	globalOf := func(v ssa.Value, bs bindings) *ssa.Global {
		v = resolve(v, bs)
		if u, ok := v.(*ssa.UnOp); ok && u.Op == token.MUL {
			if g, ok := u.X.(*ssa.Global); ok {
				return g
			}
		}
		return nil
	}
	seen := map[ssa.Value]bool{}
	gatedHelpers := map[*ssa.Function]bool{} // helpers whose error result the caller tests before the formatter runs, and exits on
	var trace func(v ssa.Value, fn *ssa.Function, bs bindings, at *ssa.BasicBlock, depth int)
	trace = func(v ssa.Value, fn *ssa.Function, bs bindings, at *ssa.BasicBlock, depth int) {
		if depth > 12 {
			leaves = append(leaves, leaf{kind: "other", at: at, fn: fn, desc: "too deep"})
			return
		}
		v = stripIdentity(v)
		switch x := v.(type) {
		case *ssa.Phi:
			if seen[x] {
				return
			}
			seen[x] = true
			for i, e := range x.Edges {
				trace(e, fn, bs, x.Block().Preds[i], depth+1)
			}
		case *ssa.Convert:
			trace(x.X, fn, bs, at, depth+1)
		case *ssa.Const:
			leaves = append(leaves, leaf{kind: "const", at: at, fn: fn, bs: bs, desc: x.String()})
		case *ssa.Parameter:
			if a, ok := bs[x]; ok {
				// bound by the caller that stepped into this helper: continue in the caller's frame is not needed for guards inside the helper
				if g := globalOf(a, bs); g != nil {
					leaves = append(leaves, leaf{kind: "flag", g: g, at: at, fn: fn, bs: bs})
					return
				}
				leaves = append(leaves, leaf{kind: "other", at: at, fn: fn, desc: "parameter bound to a computed value"})
				return
			}
			leaves = append(leaves, leaf{kind: "other", at: at, fn: fn, desc: "unbound parameter " + x.Name()})
		case *ssa.UnOp:
			if g, ok := x.X.(*ssa.Global); ok && x.Op == token.MUL {
				leaves = append(leaves, leaf{kind: "flag", g: g, at: at, fn: fn, bs: bs})
				return
			}
			leaves = append(leaves, leaf{kind: "other", at: at, fn: fn, desc: "load"})
		case *ssa.Extract:
			if c, ok := x.Tuple.(*ssa.Call); ok && x.Index == 0 {
				if f := c.Call.StaticCallee(); f != nil && (f.String() == "os.ReadFile" || f.String() == "io/ioutil.ReadFile") {
					leaves = append(leaves, leaf{kind: "file", g: globalOf(c.Call.Args[0], bs), at: c.Block(), fn: fn, bs: bs, read: c})
					return
				}
			}
			// a component of what a cmd helper returns: `text, err := formatInput(dsl, file)`
			if c, ok := x.Tuple.(*ssa.Call); ok {
				if h := c.Call.StaticCallee(); h != nil && h.Pkg == w.Cmd && h.Blocks != nil {
					nb := bindings{}
					for k, val := range bs {
						nb[k] = val
					}
					for i, p := range h.Params {
						if i < len(c.Call.Args) {
							nb[p] = c.Call.Args[i]
						}
					}
					// the helper's error result, as seen by the caller: when the formatter call is behind its nil edge and a non-nil value
					// ends the command, the returns that carry an error never feed the formatter
					errIdx := -1
					for i := 0; i < h.Signature.Results().Len(); i++ {
						if isErrorType(h.Signature.Results().At(i).Type()) {
							errIdx = i
						}
					}
					gated := false
					if errIdx >= 0 && c.Referrers() != nil {
						for _, ref := range *c.Referrers() {
							if e2, ok := ref.(*ssa.Extract); ok && e2.Index == errIdx {
								if guardedByNil(at, e2, false) && errorDeliveredV(w, e2, c, 0) == "" {
									gated = true
								}
							}
						}
					}
					for _, b := range h.Blocks {
						ret, ok := b.Instrs[len(b.Instrs)-1].(*ssa.Return)
						if !ok || x.Index >= len(ret.Results) {
							continue
						}
						if gated && errIdx < len(ret.Results) && definitelyNonNilErr(ret.Results[errIdx]) {
							continue
						}
						if gated {
							gatedHelpers[h] = true
						}
						trace(ret.Results[x.Index], h, nb, b, depth+1)
					}
					return
				}
			}
			leaves = append(leaves, leaf{kind: "other", at: at, fn: fn, desc: "component of a call"})
		case *ssa.Call:
			if h := x.Call.StaticCallee(); h != nil && h.Pkg == w.Cmd && h.Blocks != nil {
				nb := bindings{}
				for k, val := range bs {
					nb[k] = val
				}
				for i, p := range h.Params {
					if i < len(x.Call.Args) {
						nb[p] = x.Call.Args[i]
					}
				}
				for _, b := range h.Blocks {
					if ret, ok := b.Instrs[len(b.Instrs)-1].(*ssa.Return); ok && len(ret.Results) > 0 {
						trace(ret.Results[0], h, nb, b, depth+1)
					}
				}
				return
			}
			leaves = append(leaves, leaf{kind: "other", at: at, fn: fn, desc: "result of " + calleeName(x)})
		default:
			leaves = append(leaves, leaf{kind: "other", at: at, fn: fn, desc: fmt.Sprintf("%T", v)})
		}
	}
	trace(call.Call.Args[0], run, runBs, call.Block(), 0)
	// nonEmptyGuard: at is dominated by the non-empty edge of a comparison of global g's value with ""
	nonEmptyGuard := func(fn *ssa.Function, bs bindings, g *ssa.Global, at *ssa.BasicBlock) bool {
		for _, bb := range fn.Blocks {
			cond := branchCond(bb)
			if cond == nil {
				continue
			}
			neg := false
			c := cond
			for {
				if u, ok := c.(*ssa.UnOp); ok && u.Op == token.NOT {
					neg = !neg
					c = u.X
					continue
				}
				break
			}
			bo, ok := c.(*ssa.BinOp)
			if !ok || (bo.Op != token.NEQ && bo.Op != token.EQL) {
				continue
			}
			var other ssa.Value
			if s, ok := constString(bo.X); ok && s == "" {
				other = bo.Y
			} else if s, ok := constString(bo.Y); ok && s == "" {
				other = bo.X
			}
			if other == nil || globalOf(other, bs) != g {
				continue
			}
			nonEmptyOnTrue := bo.Op == token.NEQ
			if neg {
				nonEmptyOnTrue = !nonEmptyOnTrue
			}
			succ := 1
			if nonEmptyOnTrue {
				succ = 0
			}
			if edgeDominates(bb, succ, at) {
				return true
			}
		}
		return false
	}
	haveText, haveFile := false, false
	for i, lf := range leaves {
		switch lf.kind {
		case "flag":
			key := "the text handed to the formatter is the -d value, used only when it is not empty"
			if !w.flagNamesOfCmd(lf.g, ownerCommandOf(w, run))["dsl"] {
				r.fail(rule, fmt.Sprintf("source #%d of the formatter input is a documented input", i+1), w.pos(lf.fn.Pos()), "the formatter input can be the variable "+lf.g.Name()+", which is not the -d flag's")
				continue
			}
			haveText = true
			if nonEmptyGuard(lf.fn, lf.bs, lf.g, lf.at) {
				r.pass(rule, key, w.pos(lf.fn.Pos()), "")
			} else {
				r.fail(rule, key, w.pos(lf.fn.Pos()), "the -d text reaches the formatter on a path that is not the non-empty edge of a `dsl != \"\"` test: the wrong input is chosen when both or neither are given")
			}
		case "file":
			key := "the file content handed to the formatter is that of the -f file, read only when -f is given, and a read error stops the command"
			okFile := lf.g != nil && w.flagNamesOfCmd(lf.g, ownerCommandOf(w, run))["file"] && nonEmptyGuard(lf.fn, lf.bs, lf.g, lf.at)
			// read error: from the err != nil edge neither the formatter call nor a return of the helper is reachable
			var errV ssa.Value
			for _, ref := range *lf.read.Referrers() {
				if e, ok := ref.(*ssa.Extract); ok && e.Index == 1 {
					errV = e
				}
			}
			okErr := false
			if errV != nil {
				for _, bb := range lf.fn.Blocks {
					cond := branchCond(bb)
					if cond == nil {
						continue
					}
					x, nn, ok := nilTest(cond)
					if !ok || !sameValue(x, errV) {
						continue
					}
					reaches := blockReaches(bb.Succs[nn], func(i ssa.Instruction) bool {
						if i == ssa.Instruction(call) {
							return true
						}
						_, isRet := i.(*ssa.Return)
						return isRet && lf.fn != run
					})
					exits := false
					for _, b3 := range lf.fn.Blocks {
						if edgeDominates(bb, nn, b3) {
							for _, i3 := range b3.Instrs {
								if ci, ok := i3.(ssa.CallInstruction); ok && exitsNonZero(ci, 0) {
									exits = true
								}
							}
						}
					}
					if !reaches && exits {
						okErr = true
					}
					// ... or every way out of the helper from here returns a fresh error, and the caller stops on it
					if gatedHelpers[lf.fn] {
						all := true
						any := false
						seenB := map[*ssa.BasicBlock]bool{}
						st := []*ssa.BasicBlock{bb.Succs[nn]}
						for len(st) > 0 {
							cur := st[len(st)-1]
							st = st[:len(st)-1]
							if seenB[cur] {
								continue
							}
							seenB[cur] = true
							if ret, ok := cur.Instrs[len(cur.Instrs)-1].(*ssa.Return); ok {
								any = true
								okRet := false
								for _, rv := range ret.Results {
									if isErrorType(rv.Type()) && definitelyNonNilErr(rv) {
										okRet = true
									}
								}
								if !okRet {
									all = false
								}
							}
							for _, i3 := range cur.Instrs {
								if i3 == ssa.Instruction(call) {
									all = false
								}
							}
							st = append(st, cur.Succs...)
						}
						if any && all {
							okErr = true
						}
					}
				}
			}
			haveFile = true
			if okFile && okErr {
				r.pass(rule, key, w.instrPos(lf.read), "")
			} else {
				r.fail(rule, key, w.instrPos(lf.read), fmt.Sprintf("file read is guarded by `file != \"\"` on the -f variable: %v; a read error exits non-zero before the formatter runs: %v", okFile, okErr))
			}
		case "const":
			key := fmt.Sprintf("constant input #%d only on a path that exits", i+1)
			if noReturnBlock(lf.at) {
				r.pass(rule, key, w.pos(lf.fn.Pos()), "")
			} else {
				r.fail(rule, key, w.pos(lf.fn.Pos()), "the formatter can be handed the constant "+lf.desc+" on a path that does not exit: with neither -d nor -f the command formats nothing instead of reporting the missing input")
			}
		default:
			r.fail(rule, fmt.Sprintf("source #%d of the formatter input is a documented input", i+1), w.pos(lf.fn.Pos()), "the formatter input can come from "+lf.desc)
		}
	}
	if !haveText || !haveFile {
		r.fail(rule, "both documented inputs reach the formatter", w.instrPos(call), fmt.Sprintf("-d text reaches the formatter: %v; -f file content reaches the formatter: %v", haveText, haveFile))
	}
}


// emptinessGuard: block at of fn is dominated by the (non-)empty edge of a comparison of global g's value with "" (the compared
// operand may be a wrapper parameter bound, through bs, to a load of g).
func emptinessGuard(fn *ssa.Function, bs bindings, g *ssa.Global, at *ssa.BasicBlock, wantNonEmpty bool) bool {
	globalOf := func(v ssa.Value) *ssa.Global {
		v = stripIdentity(v)
		for i := 0; i < 6; i++ {
			p, ok := v.(*ssa.Parameter)
			if !ok {
				break
			}
			a, bound := bs[p]
			if !bound {
				break
			}
			v = stripIdentity(a)
		}
		if u, ok := v.(*ssa.UnOp); ok && u.Op == token.MUL {
			if gg, ok := u.X.(*ssa.Global); ok {
				return gg
			}
		}
		return nil
	}
	for _, bb := range fn.Blocks {
		cond := branchCond(bb)
		if cond == nil {
			continue
		}
		neg := false
		c := cond
		for {
			if u, ok := c.(*ssa.UnOp); ok && u.Op == token.NOT {
				neg = !neg
				c = u.X
				continue
			}
			break
		}
		bo, ok := c.(*ssa.BinOp)
		if !ok || (bo.Op != token.NEQ && bo.Op != token.EQL) {
			continue
		}
		var other ssa.Value
		if s, ok := constString(bo.X); ok && s == "" {
			other = bo.Y
		} else if s, ok := constString(bo.Y); ok && s == "" {
			other = bo.X
		}
		if other == nil || globalOf(other) != g {
			continue
		}
		nonEmptyOnTrue := bo.Op == token.NEQ
		if neg {
			nonEmptyOnTrue = !nonEmptyOnTrue
		}
		succ := 1
		if nonEmptyOnTrue == wantNonEmpty {
			succ = 0
		}
		if edgeDominates(bb, succ, at) {
			return true
		}
	}
	return false
}

// keyListLoop recognises "collect every key of the map, then loop over the collected keys": in the map-range loop lp every
// iteration appends the range key to one slice, and a later loop ranges over that slice by index. Returns the blocks and header of
// that second loop and the value of its element (a key of the map).
func keyListLoop(fn *ssa.Function, lp rangeLoop, mapKey ssa.Value) (map[*ssa.BasicBlock]bool, *ssa.BasicBlock, ssa.Value, bool) {
	var app *ssa.Call
	for b := range lp.Blocks {
		for _, ins := range b.Instrs {
			c, ok := ins.(*ssa.Call)
			if !ok {
				continue
			}
			if bi, ok := c.Call.Value.(*ssa.Builtin); !ok || bi.Name() != "append" || len(c.Call.Args) != 2 {
				continue
			}
			for _, o := range variadicOperands(c.Call.Args[1]) {
				if sameValue(o, mapKey) {
					app = c
				}
			}
		}
	}
	if app == nil {
		return nil, nil, nil, false
	}
	// every iteration appends
	header := lp.Next.Block()
	for _, p := range header.Preds {
		if lp.Blocks[p] && header.Dominates(p) && p != header && !app.Block().Dominates(p) {
			return nil, nil, nil, false
		}
	}
	var fromApp func(v ssa.Value, depth int, seen map[ssa.Value]bool) bool
	fromApp = func(v ssa.Value, depth int, seen map[ssa.Value]bool) bool {
		v = stripIdentity(v)
		if v == ssa.Value(app) {
			return true
		}
		if depth > 5 || seen[v] {
			return false
		}
		seen[v] = true
		switch x := v.(type) {
		case *ssa.Phi:
			for _, e := range x.Edges {
				if fromApp(e, depth+1, seen) {
					return true
				}
			}
		case *ssa.UnOp:
			if al, ok := x.X.(*ssa.Alloc); ok && al.Referrers() != nil {
				for _, ref := range *al.Referrers() {
					if st, ok := ref.(*ssa.Store); ok && st.Addr == ssa.Value(al) && fromApp(st.Val, depth+1, seen) {
						return true
					}
				}
			}
		}
		return false
	}
	for _, b := range fn.Blocks {
		if lp.Blocks[b] {
			continue
		}
		for _, ins := range b.Instrs {
			ld, ok := ins.(*ssa.UnOp)
			if !ok || ld.Op != token.MUL {
				continue
			}
			ia, ok := ld.X.(*ssa.IndexAddr)
			if !ok || !fromApp(ia.X, 0, map[ssa.Value]bool{}) {
				continue
			}
			// indexed by a range index
			var phi *ssa.Phi
			switch ix := ia.Index.(type) {
			case *ssa.Phi:
				phi = ix
			case *ssa.BinOp:
				if p, ok := ix.X.(*ssa.Phi); ok {
					phi = p
				}
			}
			if phi == nil || phi.Comment != "rangeindex" {
				continue
			}
			return naturalLoop(phi.Block()), phi.Block(), ld, true
		}
	}
	return nil, nil, nil, false
}

// allKeysOf: the slice v holds every key of the map m (in some order): maps.Keys(m) sorted or collected by the standard library,
// or the result of a parser function that ranges over its map parameter and appends the key on every iteration.
func (w *World) allKeysOf(v ssa.Value, m ssa.Value, depth int) bool {
	if depth > 3 {
		return false
	}
	c, ok := stripIdentity(v).(*ssa.Call)
	if !ok {
		return false
	}
	f := c.Call.StaticCallee()
	if f == nil {
		return false
	}
	name := f.String()
	if i := strings.Index(name, "["); i >= 0 {
		name = name[:i]
	}
	switch name {
	case "slices.Sorted", "slices.Collect":
		if len(c.Call.Args) == 1 {
			if kc, ok := stripIdentity(c.Call.Args[0]).(*ssa.Call); ok && kc.Call.StaticCallee() != nil {
				kn := kc.Call.StaticCallee().String()
				if i := strings.Index(kn, "["); i >= 0 {
					kn = kn[:i]
				}
				return kn == "maps.Keys" && len(kc.Call.Args) == 1 && stripIdentity(kc.Call.Args[0]) == stripIdentity(m)
			}
		}
		return false
	}
	if f.Blocks == nil || f.Pkg != w.Parser {
		// an instantiation of a generic parser function has no package of its own: look at its origin
		if o := f.Origin(); o == nil || o.Pkg != w.Parser || f.Blocks == nil {
			return false
		}
	}
	// which parameter receives m?
	pidx := -1
	for i, a := range c.Call.Args {
		if stripIdentity(a) == stripIdentity(m) {
			pidx = i
		}
		if ct, ok := stripIdentity(a).(*ssa.ChangeType); ok && stripIdentity(ct.X) == stripIdentity(m) {
			pidx = i
		}
	}
	if pidx < 0 || pidx >= len(f.Params) {
		return false
	}
	loops := mapRangeLoops(f)
	if len(loops) == 0 {
		// a wrapper that hands the map on to the function that collects the keys
		n := 0
		for _, b := range f.Blocks {
			if ret, ok := b.Instrs[len(b.Instrs)-1].(*ssa.Return); ok {
				n++
				if len(ret.Results) != 1 || !w.allKeysOf(ret.Results[0], f.Params[pidx], depth+1) {
					return false
				}
			}
		}
		return n > 0
	}
	if len(loops) != 1 || stripIdentity(loops[0].Range.X) != ssa.Value(f.Params[pidx]) {
		return false
	}
	lp := loops[0]
	var key ssa.Value
	for _, ref := range *lp.Next.Referrers() {
		if e, ok := ref.(*ssa.Extract); ok && e.Index == 1 {
			key = e
		}
	}
	if key == nil {
		return false
	}
	var app *ssa.Call
	for b := range lp.Blocks {
		for _, ins := range b.Instrs {
			if ac, ok := ins.(*ssa.Call); ok {
				if bi, ok := ac.Call.Value.(*ssa.Builtin); ok && bi.Name() == "append" && len(ac.Call.Args) == 2 {
					for _, o := range variadicOperands(ac.Call.Args[1]) {
						if sameValue(o, key) {
							app = ac
						}
					}
				}
			}
		}
	}
	if app == nil {
		return false
	}
	header := lp.Next.Block()
	for _, p := range header.Preds {
		if lp.Blocks[p] && header.Dominates(p) && p != header && !app.Block().Dominates(p) {
			return false
		}
	}
	// every return hands back the accumulated slice
	var fromApp func(x ssa.Value, d int, seen map[ssa.Value]bool) bool
	fromApp = func(x ssa.Value, d int, seen map[ssa.Value]bool) bool {
		x = stripIdentity(x)
		if x == ssa.Value(app) {
			return true
		}
		if d > 5 || seen[x] {
			return false
		}
		seen[x] = true
		if ph, ok := x.(*ssa.Phi); ok {
			for _, e := range ph.Edges {
				if fromApp(e, d+1, seen) {
					return true
				}
			}
		}
		return false
	}
	okRet := false
	for _, b := range f.Blocks {
		if ret, ok := b.Instrs[len(b.Instrs)-1].(*ssa.Return); ok {
			if len(ret.Results) != 1 || !fromApp(ret.Results[0], 0, map[ssa.Value]bool{}) {
				return false
			}
			okRet = true
		}
	}
	return okRet
}

// flattenConcat: the operands of a string concatenation in source order, through parameters (bindings), calls of the writer's
// private helpers that return one such expression, and members of a local record that are assigned once.
func (w *World) flattenConcat(v ssa.Value, bs bindings, within map[*ssa.Function]bool, depth int) []ssa.Value {
	if depth > 8 {
		return []ssa.Value{v}
	}
	v = resolveParam(v, bs)
	switch x := v.(type) {
	case *ssa.BinOp:
		if x.Op == token.ADD {
			return append(w.flattenConcat(x.X, bs, within, depth+1), w.flattenConcat(x.Y, bs, within, depth+1)...)
		}
	case *ssa.Call:
		h := x.Call.StaticCallee()
		if h == nil || h.Blocks == nil || !(within[h] || h.Pkg == w.Parser) {
			return []ssa.Value{v}
		}
		nb := bindings{}
		for k, val := range bs {
			nb[k] = val
		}
		for i, p := range h.Params {
			if i < len(x.Call.Args) {
				nb[p] = x.Call.Args[i]
			}
		}
		var only []ssa.Value
		n := 0
		for _, b := range h.Blocks {
			if ret, ok := b.Instrs[len(b.Instrs)-1].(*ssa.Return); ok && len(ret.Results) == 1 {
				only = w.flattenConcat(ret.Results[0], nb, within, depth+1)
				n++
			}
		}
		if n == 1 {
			return only
		}
	case *ssa.UnOp:
		// a member of a record: the one value stored into that member of the record the receiver denotes
		if fa, ok := x.X.(*ssa.FieldAddr); ok && x.Op == token.MUL {
			rec := resolveParam(fa.X, bs)
			if al, ok := stripIdentity(rec).(*ssa.Alloc); ok && al.Referrers() != nil {
				var val ssa.Value
				n := 0
				for _, ref := range *al.Referrers() {
					if f2, ok := ref.(*ssa.FieldAddr); ok && f2.Field == fa.Field && f2.Referrers() != nil {
						for _, r2 := range *f2.Referrers() {
							if st, ok := r2.(*ssa.Store); ok && st.Addr == ssa.Value(f2) {
								val = st.Val
								n++
							}
						}
					}
				}
				if n == 1 {
					// the record lives in the function that made it: its member values are that function's (the writer's own) values
					return w.flattenConcat(val, bindings{}, within, depth+1)
				}
			}
		}
	}
	return []ssa.Value{v}
}

// ownerCommandOf: the package-level cobra.Command whose literal stores fn (or, climbing unique static call sites, a function that
// leads to fn) in one of its Run fields. "" when none is found.
func ownerCommandOf(w *World, fn *ssa.Function) string {
	cur := fn
	for depth := 0; depth < 4 && runFieldOf(w, cur) == ""; depth++ {
		var site ssa.CallInstruction
		n := 0
		for _, g := range w.srcFuncs {
			if g.Pkg != w.Cmd && (g.Parent() == nil || g.Parent().Pkg != w.Cmd) {
				continue
			}
			forEachInstr(g, func(_ *ssa.BasicBlock, ins ssa.Instruction) {
				if c, ok := ins.(ssa.CallInstruction); ok && c.Common().StaticCallee() == cur {
					site = c
					n++
				}
			})
		}
		if n != 1 {
			break
		}
		cur = site.Parent()
	}
	owner := ""
	for _, f := range w.srcFuncs {
		if f.Pkg != w.Cmd || !strings.HasPrefix(f.Name(), "init") {
			continue
		}
		forEachInstr(f, func(_ *ssa.BasicBlock, ins ssa.Instruction) {
			st, ok := ins.(*ssa.Store)
			if !ok {
				return
			}
			holds := false
			switch v := stripIdentity(st.Val).(type) {
			case *ssa.Function:
				holds = v == cur
			case *ssa.MakeClosure:
				holds = v.Fn == ssa.Value(cur)
			}
			if !holds {
				return
			}
			if fa, ok := st.Addr.(*ssa.FieldAddr); ok {
				root := stripIdentity(fa.X)
				if refs := root.Referrers(); refs != nil {
					for _, ref := range *refs {
						if s2, ok := ref.(*ssa.Store); ok && s2.Val == root {
							if g, ok := s2.Addr.(*ssa.Global); ok {
								owner = g.Name()
							}
						}
					}
				}
			}
		})
	}
	return owner
}

// flagNamesOfCmd: the names under which variable g is registered as a flag of the command held in the package-level variable cmd
// (`cmdVar.Flags().StringVarP(&g, name, ...)`); with cmd == "" the registrations on any command.
func (w *World) flagNamesOfCmd(g *ssa.Global, cmd string) map[string]bool {
	out := map[string]bool{}
	for _, fn := range w.srcFuncs {
		if fn.Pkg != w.Cmd {
			continue
		}
		forEachInstr(fn, func(_ *ssa.BasicBlock, ins ssa.Instruction) {
			c, ok := ins.(ssa.CallInstruction)
			if !ok || c.Common().StaticCallee() == nil {
				return
			}
			f := c.Common().StaticCallee()
			if f.Pkg == nil || f.Pkg.Pkg.Path() != "github.com/spf13/pflag" || !strings.Contains(f.Name(), "Var") {
				return
			}
			args := c.Common().Args
			if len(args) < 3 {
				return
			}
			gv, ok := args[1].(*ssa.Global)
			name, ok2 := constString(args[2])
			if !ok || !ok2 || gv != g {
				return
			}
			if cmd != "" {
				// the flag set: <cmd>.Flags() / PersistentFlags()
				fc, ok := stripIdentity(args[0]).(*ssa.Call)
				if !ok || len(fc.Call.Args) == 0 {
					return
				}
				ld, ok := stripIdentity(fc.Call.Args[0]).(*ssa.UnOp)
				if !ok {
					return
				}
				cg, ok := ld.X.(*ssa.Global)
				if !ok || cg.Name() != cmd {
					return
				}
			}
			out[name] = true
		})
	}
	return out
}
