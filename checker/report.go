package main

import (
	"encoding/json"
	"fmt"
	"os"
	"path/filepath"
	"sort"
	"strings"
	"time"
)

// Obligation is one decided instance of a rule.
type Obligation struct {
	Rule   string `json:"rule"`             // e.g. "C13/map-order"
	Key    string `json:"key"`              // rule + construct; never a line number
	OK     bool   `json:"ok"`               // discharged?
	Detail string `json:"detail,omitempty"` // what was found / witness
	Pos    string `json:"pos,omitempty"`    // file:line, diagnostic only
}

// Report collects obligations for one property.
type Report struct {
	Property    string
	Obls        []Obligation
	RuleCounts  map[string]int // instances examined per rule
	Floors      map[string]int // minimal instance counts per rule
	Assumptions []string
	Notes       []string
	Fatal       []string // unresolved anchors etc.: fail the check
	Extra       map[string]any
}

func newReport(prop string) *Report {
	return &Report{Property: prop, RuleCounts: map[string]int{}, Floors: map[string]int{}}
}

func (r *Report) add(rule, key string, ok bool, pos, detail string) {
	r.Obls = append(r.Obls, Obligation{Rule: rule, Key: rule + " " + key, OK: ok, Detail: detail, Pos: pos})
	r.RuleCounts[rule]++
}

func (r *Report) pass(rule, key, pos, detail string) { r.add(rule, key, true, pos, detail) }
func (r *Report) fail(rule, key, pos, detail string) { r.add(rule, key, false, pos, detail) }
func (r *Report) fatal(format string, a ...any)      { r.Fatal = append(r.Fatal, fmt.Sprintf(format, a...)) }
func (r *Report) floor(rule string, n int)           { r.Floors[rule] = n }
func (r *Report) assume(s string)                    { r.Assumptions = append(r.Assumptions, s) }
func (r *Report) note(format string, a ...any)       { r.Notes = append(r.Notes, fmt.Sprintf(format, a...)) }

// KnownFinding is one entry of /verif/known_findings.json.
type KnownFinding struct {
	Property string `json:"property"`
	Key      string `json:"key"`
	Status   string `json:"status"` // "known" | "fixed"
	Commit   string `json:"commit,omitempty"`
	What     string `json:"what"`
	Repro    string `json:"repro,omitempty"`
}

func loadKnown(path string) ([]KnownFinding, error) {
	b, err := os.ReadFile(path)
	if err != nil {
		if os.IsNotExist(err) {
			return nil, nil
		}
		return nil, err
	}
	var out struct {
		Findings []KnownFinding `json:"findings"`
	}
	if err := json.Unmarshal(b, &out); err != nil {
		return nil, err
	}
	return out.Findings, nil
}

type evidence struct {
	PropertyID  string         `json:"property_id"`
	Tier        string         `json:"tier"`
	Seed        int            `json:"seed"`
	Level       string         `json:"level"`
	Coverage    map[string]any `json:"coverage"`
	Assumptions []string       `json:"assumptions"`
	WallS       float64        `json:"wall_s"`
	Violations  int            `json:"violations"`
}

// finish prints the verdict lines, writes evidence and replay files, and returns the exit code.
func (r *Report) finish(verifDir, tier string, seed int, start time.Time, explanation string, extra map[string]any, quietEvidence bool) int {
	known, err := loadKnown(filepath.Join(verifDir, "known_findings.json"))
	if err != nil {
		r.fatal("known_findings.json unreadable: %v", err)
	}
	knownSet := map[string]KnownFinding{}
	for _, k := range known {
		if k.Property == r.Property && k.Status == "known" {
			knownSet[k.Key] = k
		}
	}
	// floors
	for rule, n := range r.Floors {
		if r.RuleCounts[rule] < n {
			r.Obls = append(r.Obls, Obligation{Rule: rule, Key: rule + " instance-floor", OK: false,
				Detail: fmt.Sprintf("rule matched %d instances, hand-confirmed floor is %d: the rule lost its anchors (vacuous pass refused)", r.RuleCounts[rule], n)})
		}
	}
	for _, f := range r.Fatal {
		r.Obls = append(r.Obls, Obligation{Rule: r.Property + "/engine", Key: r.Property + "/engine " + f, OK: false, Detail: f})
	}
	sort.SliceStable(r.Obls, func(i, j int) bool { return r.Obls[i].Key < r.Obls[j].Key })
	// dedupe identical keys (keep failing one)
	dedup := map[string]int{}
	var obls []Obligation
	for _, o := range r.Obls {
		if i, ok := dedup[o.Key]; ok {
			if !o.OK && obls[i].OK {
				obls[i] = o
			} else if !o.OK && !obls[i].OK && o.Detail != obls[i].Detail {
				obls[i].Detail += " | " + o.Detail
			}
			continue
		}
		dedup[o.Key] = len(obls)
		obls = append(obls, o)
	}
	r.Obls = obls

	if pat := os.Getenv("FINLINT_DEBUG_OBL"); pat != "" {
		for _, o := range r.Obls {
			if strings.Contains(o.Key, pat) {
				fmt.Printf("DBG obl ok=%v %s | %s\n", o.OK, o.Key, o.Detail)
			}
		}
	}
	var violations, knownHits []Obligation
	discharged := 0
	for _, o := range r.Obls {
		if o.OK {
			discharged++
			continue
		}
		if _, ok := knownSet[o.Key]; ok {
			knownHits = append(knownHits, o)
			continue
		}
		violations = append(violations, o)
	}
	replayDir := filepath.Join(verifDir, "evidence", "replay")
	if !quietEvidence {
		os.MkdirAll(replayDir, 0o755)
		// clear stale replay files of this property
		if ents, err := os.ReadDir(replayDir); err == nil {
			for _, e := range ents {
				if strings.HasPrefix(e.Name(), r.Property+"-") {
					os.Remove(filepath.Join(replayDir, e.Name()))
				}
			}
		}
	}
	for _, o := range knownHits {
		fmt.Printf("KNOWN-FINDING: property=%s %s -- %s\n", r.Property, o.Key, knownSet[o.Key].What)
	}
	seen := map[string]bool{}
	for _, o := range knownHits {
		seen[o.Key] = true
	}
	for k := range knownSet {
		if !seen[k] {
			fmt.Printf("note: listed known finding no longer derived (stale entry?): %s\n", k)
		}
	}
	for i, o := range violations {
		path := filepath.Join(replayDir, fmt.Sprintf("%s-%d.json", r.Property, i+1))
		if !quietEvidence {
			b, _ := json.MarshalIndent(map[string]any{"property": r.Property, "obligation": o,
				"replay": fmt.Sprintf("cd /verif && ./run.sh %s   # re-derives this obligation from /repo's current source", r.Property)}, "", " ")
			os.WriteFile(path, b, 0o644)
		}
		fmt.Printf("finding: %s\n    at %s\n    %s\n", o.Key, o.Pos, o.Detail)
		fmt.Printf("VIOLATION property=%s replay=%s\n", r.Property, path)
	}
	// evidence
	var samples []any
	perRule := map[string][]Obligation{}
	for _, o := range r.Obls {
		perRule[o.Rule] = append(perRule[o.Rule], o)
	}
	rules := sortedKeys(perRule)
	for _, rule := range rules {
		os_ := perRule[rule]
		n := 0
		for _, o := range os_ {
			if n >= 3 {
				break
			}
			samples = append(samples, o)
			n++
		}
	}
	cov := map[string]any{
		"explanation":         explanation,
		"obligations":         len(r.Obls),
		"discharged":          discharged,
		"known_findings":      len(knownHits),
		"undischarged":        len(violations),
		"evaluations":         len(r.Obls),
		"distinct_nontrivial": len(r.Obls),
		"rule":                "one obligation per (rule, construct) derived from /repo's resolved program on this run; all are distinct by key; an obligation is non-trivial because it names a construct the rule matched",
		"rule_instances":      r.RuleCounts,
		"rule_floors":         r.Floors,
		"samples":             samples,
		"notes":               r.Notes,
		"exhaustive":          true,
		"checker_cmd":         "/verif/run.sh " + r.Property,
	}
	var failing []Obligation
	failing = append(failing, knownHits...)
	failing = append(failing, violations...)
	cov["failing_obligations"] = failing
	for k, v := range extra {
		cov[k] = v
	}
	for k, v := range r.Extra {
		cov[k] = v
	}
	ev := evidence{PropertyID: r.Property, Tier: tier, Seed: seed, Level: "other", Coverage: cov,
		Assumptions: r.Assumptions, WallS: time.Since(start).Seconds(), Violations: len(violations)}
	if ev.Assumptions == nil {
		ev.Assumptions = []string{}
	}
	if !quietEvidence {
		os.MkdirAll(filepath.Join(verifDir, "evidence"), 0o755)
		b, _ := json.MarshalIndent(ev, "", " ")
		if err := os.WriteFile(filepath.Join(verifDir, "evidence", r.Property+".json"), b, 0o644); err != nil {
			fmt.Println("cannot write evidence:", err)
			return 2
		}
	}
	fmt.Printf("%s: %d obligations, %d discharged, %d known findings, %d violations (%.1fs)\n",
		r.Property, len(r.Obls), discharged, len(knownHits), len(violations), time.Since(start).Seconds())
	for _, rule := range rules {
		fmt.Printf("  rule %-34s instances=%d\n", rule, r.RuleCounts[rule])
	}
	if len(violations) > 0 {
		return 1
	}
	return 0
}

// refile runs a rule written for another property into a scratch report and files the obligations selected by keep under this
// property's rule name: one structural fact can be a necessary condition of several properties.
func (r *Report) refile(fromRule, toRule string, run func(sr *Report), keep func(o Obligation) bool) int {
	sr := newReport(r.Property)
	run(sr)
	n := 0
	for _, o := range sr.Obls {
		if o.Rule != fromRule || (keep != nil && !keep(o)) {
			continue
		}
		key := strings.TrimPrefix(o.Key, o.Rule+" ")
		r.add(toRule, key, o.OK, o.Pos, o.Detail)
		n++
	}
	r.Fatal = append(r.Fatal, sr.Fatal...)
	return n
}
