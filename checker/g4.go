package main

import (
	"fmt"
	"os"
	"sort"
	"strings"
	"unicode"
)

// A small reader for the subset of ANTLR4 syntax used by grammar/PacketDsl.g4.

type elemKind int

const (
	ekToken elemKind = iota // UPPERCASE reference to a lexer rule
	ekRule                  // lowercase reference to a parser rule
	ekLit                   // 'literal' (implicit token)
	ekGroup                 // ( alt | alt )
)

type Elem struct {
	Kind   elemKind
	Name   string // token name, rule name or literal text
	Label  string // x= label
	Suffix byte   // 0, '?', '*', '+'
	Group  []*Alt
}

type Alt struct {
	Label string // # AltLabel
	Elems []*Elem
}

type PRule struct {
	Name string
	Alts []*Alt
}

// LRule: lexer rule. Literals holds the literal spellings when the rule is a pure
// alternation of literals (e.g. UINT16: 'uint16' | 'u16'), else nil.
type LRule struct {
	Name     string
	Literals []string
	Raw      string
	Action   string // "skip", "channel(HIDDEN)" or ""
}

type Grammar struct {
	Name   string
	PRules []*PRule
	LRules []*LRule
	prule  map[string]*PRule
	lrule  map[string]*LRule
}

// Occ is the occurrence range of a child in a context.
type Occ struct {
	Min  int // 0 or 1 (1 means: present in every syntactically valid tree)
	Many bool
}

// CtxInfo describes one generated context type (rule or labelled alternative).
type CtxInfo struct {
	CtxType  string          // e.g. "ObjectFieldContext"
	Rule     string          // owning parser rule
	AltLabel string          // non-empty for labelled alternatives
	Children map[string]Occ  // by child name: token name / rule name
	Labels   map[string]string // label -> child name (x=IDENTIFIER)
	LabelOcc map[string]Occ
	Order    []string // child names in first-appearance order
	IsTok    map[string]bool
	Lits     []string // literal texts appearing
	// interleaved: alternation of >=2 distinct children inside a repetition
	Interleaved [][]string
}

type g4lexer struct {
	s   []rune
	pos int
}

func (l *g4lexer) skip() {
	for l.pos < len(l.s) {
		c := l.s[l.pos]
		if unicode.IsSpace(c) {
			l.pos++
			continue
		}
		if c == '/' && l.pos+1 < len(l.s) && l.s[l.pos+1] == '/' {
			for l.pos < len(l.s) && l.s[l.pos] != '\n' {
				l.pos++
			}
			continue
		}
		if c == '/' && l.pos+1 < len(l.s) && l.s[l.pos+1] == '*' {
			l.pos += 2
			for l.pos+1 < len(l.s) && !(l.s[l.pos] == '*' && l.s[l.pos+1] == '/') {
				l.pos++
			}
			l.pos += 2
			continue
		}
		break
	}
}

type g4tok struct {
	kind string // id, lit, set, punct, eof
	text string
}

func (l *g4lexer) next() g4tok {
	l.skip()
	if l.pos >= len(l.s) {
		return g4tok{"eof", ""}
	}
	c := l.s[l.pos]
	switch {
	case c == '\'':
		start := l.pos
		l.pos++
		for l.pos < len(l.s) && l.s[l.pos] != '\'' {
			if l.s[l.pos] == '\\' {
				l.pos++
			}
			l.pos++
		}
		l.pos++
		return g4tok{"lit", string(l.s[start+1 : l.pos-1])}
	case c == '[':
		start := l.pos
		l.pos++
		for l.pos < len(l.s) && l.s[l.pos] != ']' {
			if l.s[l.pos] == '\\' {
				l.pos++
			}
			l.pos++
		}
		l.pos++
		return g4tok{"set", string(l.s[start:l.pos])}
	case unicode.IsLetter(c) || c == '_':
		start := l.pos
		for l.pos < len(l.s) && (unicode.IsLetter(l.s[l.pos]) || unicode.IsDigit(l.s[l.pos]) || l.s[l.pos] == '_') {
			l.pos++
		}
		return g4tok{"id", string(l.s[start:l.pos])}
	case c == '-' && l.pos+1 < len(l.s) && l.s[l.pos+1] == '>':
		l.pos += 2
		return g4tok{"punct", "->"}
	default:
		l.pos++
		return g4tok{"punct", string(c)}
	}
}

func (l *g4lexer) peek() g4tok {
	p := l.pos
	t := l.next()
	l.pos = p
	return t
}

func parseG4File(path string) (*Grammar, error) {
	b, err := os.ReadFile(path)
	if err != nil {
		return nil, err
	}
	return parseG4(string(b))
}

func parseG4(src string) (*Grammar, error) {
	l := &g4lexer{s: []rune(src)}
	g := &Grammar{prule: map[string]*PRule{}, lrule: map[string]*LRule{}}
	t := l.next()
	if t.text != "grammar" {
		return nil, fmt.Errorf("expected 'grammar'")
	}
	g.Name = l.next().text
	if l.next().text != ";" {
		return nil, fmt.Errorf("expected ';' after grammar name")
	}
	for {
		t := l.next()
		if t.kind == "eof" {
			break
		}
		if t.kind != "id" {
			return nil, fmt.Errorf("expected rule name, got %q", t.text)
		}
		name := t.text
		if c := l.next(); c.text != ":" {
			return nil, fmt.Errorf("rule %s: expected ':' got %q", name, c.text)
		}
		if unicode.IsUpper([]rune(name)[0]) {
			lr, err := parseLexerRule(l, name)
			if err != nil {
				return nil, err
			}
			g.LRules = append(g.LRules, lr)
			g.lrule[name] = lr
		} else {
			alts, err := parseAlts(l, true)
			if err != nil {
				return nil, fmt.Errorf("rule %s: %w", name, err)
			}
			if c := l.next(); c.text != ";" {
				return nil, fmt.Errorf("rule %s: expected ';' got %q", name, c.text)
			}
			pr := &PRule{Name: name, Alts: alts}
			g.PRules = append(g.PRules, pr)
			g.prule[name] = pr
		}
	}
	if len(g.PRules) == 0 || len(g.LRules) == 0 {
		return nil, fmt.Errorf("grammar has %d parser and %d lexer rules", len(g.PRules), len(g.LRules))
	}
	return g, nil
}

func parseLexerRule(l *g4lexer, name string) (*LRule, error) {
	lr := &LRule{Name: name}
	start := l.pos
	pure := true
	var lits []string
	expectAlt := true
	for {
		t := l.next()
		if t.kind == "eof" {
			return nil, fmt.Errorf("lexer rule %s: unexpected eof", name)
		}
		if t.kind == "punct" && t.text == ";" {
			break
		}
		if t.kind == "punct" && t.text == "->" {
			a := l.next().text
			if l.peek().text == "(" {
				l.next()
				a += "(" + l.next().text + ")"
				l.next()
			}
			lr.Action = a
			continue
		}
		if t.kind == "lit" && expectAlt {
			lits = append(lits, t.text)
			expectAlt = false
			continue
		}
		if t.kind == "punct" && t.text == "|" && !expectAlt {
			expectAlt = true
			continue
		}
		pure = false
	}
	lr.Raw = strings.TrimSpace(string(l.s[start : l.pos-1]))
	if pure && !expectAlt {
		lr.Literals = lits
	}
	return lr, nil
}

func parseAlts(l *g4lexer, top bool) ([]*Alt, error) {
	var alts []*Alt
	cur := &Alt{}
	for {
		t := l.peek()
		switch {
		case t.kind == "eof":
			return nil, fmt.Errorf("unexpected eof")
		case t.kind == "punct" && (t.text == ";" || t.text == ")"):
			alts = append(alts, cur)
			return alts, nil
		case t.kind == "punct" && t.text == "|":
			l.next()
			alts = append(alts, cur)
			cur = &Alt{}
		case t.kind == "punct" && t.text == "#":
			l.next()
			cur.Label = l.next().text
		case t.kind == "punct" && t.text == "(":
			l.next()
			inner, err := parseAlts(l, false)
			if err != nil {
				return nil, err
			}
			if c := l.next(); c.text != ")" {
				return nil, fmt.Errorf("expected ')' got %q", c.text)
			}
			e := &Elem{Kind: ekGroup, Group: inner}
			e.Suffix = parseSuffix(l)
			cur.Elems = append(cur.Elems, e)
		case t.kind == "lit":
			l.next()
			e := &Elem{Kind: ekLit, Name: t.text}
			e.Suffix = parseSuffix(l)
			cur.Elems = append(cur.Elems, e)
		case t.kind == "id":
			l.next()
			label := ""
			name := t.text
			if pk := l.peek(); pk.kind == "punct" && pk.text == "=" {
				l.next()
				label = name
				nt := l.next()
				if nt.kind != "id" {
					return nil, fmt.Errorf("label %s= followed by %q", label, nt.text)
				}
				name = nt.text
			}
			k := ekRule
			if unicode.IsUpper([]rune(name)[0]) {
				k = ekToken
			}
			e := &Elem{Kind: k, Name: name, Label: label}
			e.Suffix = parseSuffix(l)
			cur.Elems = append(cur.Elems, e)
		default:
			return nil, fmt.Errorf("unexpected %q", t.text)
		}
	}
}

func parseSuffix(l *g4lexer) byte {
	t := l.peek()
	if t.kind == "punct" && (t.text == "?" || t.text == "*" || t.text == "+") {
		l.next()
		return t.text[0]
	}
	return 0
}

// ---- derived facts ----

type occMap map[string]Occ

func seqOcc(elems []*Elem, g *Grammar, byLabel bool) occMap {
	out := occMap{}
	for _, e := range elems {
		var m occMap
		switch e.Kind {
		case ekGroup:
			m = altsOcc(e.Group, g, byLabel)
		case ekLit:
			if byLabel {
				continue
			}
			m = occMap{"'" + e.Name + "'": {Min: 1}}
		default:
			key := e.Name
			if byLabel {
				if e.Label == "" {
					continue
				}
				key = e.Label
			}
			m = occMap{key: {Min: 1}}
		}
		for k, o := range m {
			switch e.Suffix {
			case '?':
				o.Min = 0
			case '*':
				o.Min = 0
				o.Many = true
			case '+':
				o.Many = true
			}
			if prev, ok := out[k]; ok {
				// appears twice in a sequence: many; min = max of mins (present if either mandatory)
				if prev.Min > o.Min {
					o.Min = prev.Min
				}
				o.Many = true
			}
			out[k] = o
		}
	}
	return out
}

func altsOcc(alts []*Alt, g *Grammar, byLabel bool) occMap {
	out := occMap{}
	maps := make([]occMap, len(alts))
	for i, a := range alts {
		maps[i] = seqOcc(a.Elems, g, byLabel)
	}
	names := map[string]bool{}
	for _, m := range maps {
		for k := range m {
			names[k] = true
		}
	}
	for k := range names {
		o := Occ{Min: 1}
		for _, m := range maps {
			if mo, ok := m[k]; ok {
				if mo.Min == 0 {
					o.Min = 0
				}
				if mo.Many {
					o.Many = true
				}
			} else {
				o.Min = 0
			}
		}
		out[k] = o
	}
	return out
}

func collectOrder(elems []*Elem, seen map[string]bool, order *[]string, isTok map[string]bool, lits *[]string) {
	for _, e := range elems {
		switch e.Kind {
		case ekGroup:
			for _, a := range e.Group {
				collectOrder(a.Elems, seen, order, isTok, lits)
			}
		case ekLit:
			*lits = append(*lits, e.Name)
		default:
			if !seen[e.Name] {
				seen[e.Name] = true
				*order = append(*order, e.Name)
			}
			isTok[e.Name] = e.Kind == ekToken
		}
	}
}

func collectLabels(elems []*Elem, out map[string]string) {
	for _, e := range elems {
		if e.Kind == ekGroup {
			for _, a := range e.Group {
				collectLabels(a.Elems, out)
			}
			continue
		}
		if e.Label != "" {
			out[e.Label] = e.Name
		}
	}
}

// interleavings finds groups with suffix * or + whose alternatives start with distinct children.
func interleavings(elems []*Elem, out *[][]string) {
	for _, e := range elems {
		if e.Kind != ekGroup {
			continue
		}
		for _, a := range e.Group {
			interleavings(a.Elems, out)
		}
	}
	// pattern 1: ( a | b | c )* or +
	for _, e := range elems {
		if e.Kind == ekGroup && (e.Suffix == '*' || e.Suffix == '+') && len(e.Group) >= 2 {
			var names []string
			for _, a := range e.Group {
				for _, x := range a.Elems {
					if x.Kind == ekToken || x.Kind == ekRule {
						names = append(names, x.Name)
					}
				}
			}
			names = uniq(names)
			if len(names) >= 2 {
				*out = append(*out, names)
			}
		}
	}
	// pattern 2: (A|B) (SEP (A|B))* : the same alternation group appears both plain and inside a repetition
	var plain [][]string
	for _, e := range elems {
		if e.Kind == ekGroup && e.Suffix == 0 && len(e.Group) >= 2 {
			var names []string
			for _, a := range e.Group {
				for _, x := range a.Elems {
					if x.Kind == ekToken || x.Kind == ekRule {
						names = append(names, x.Name)
					}
				}
			}
			plain = append(plain, uniq(names))
		}
	}
	for _, e := range elems {
		if e.Kind == ekGroup && (e.Suffix == '*' || e.Suffix == '+') && len(e.Group) == 1 {
			for _, x := range e.Group[0].Elems {
				if x.Kind == ekGroup && len(x.Group) >= 2 {
					var names []string
					for _, a := range x.Group {
						for _, y := range a.Elems {
							if y.Kind == ekToken || y.Kind == ekRule {
								names = append(names, y.Name)
							}
						}
					}
					names = uniq(names)
					for _, p := range plain {
						if strings.Join(p, ",") == strings.Join(names, ",") && len(names) >= 2 {
							*out = append(*out, names)
						}
					}
				}
			}
		}
	}
}

func uniq(in []string) []string {
	m := map[string]bool{}
	var out []string
	for _, s := range in {
		if !m[s] {
			m[s] = true
			out = append(out, s)
		}
	}
	sort.Strings(out)
	return out
}

func title(s string) string {
	if s == "" {
		return s
	}
	return strings.ToUpper(s[:1]) + s[1:]
}

// Contexts enumerates every generated context type with its children.
func (g *Grammar) Contexts() []*CtxInfo {
	var out []*CtxInfo
	for _, r := range g.PRules {
		labelled := false
		for _, a := range r.Alts {
			if a.Label != "" {
				labelled = true
			}
		}
		mk := func(ctxType, label string, alts []*Alt) *CtxInfo {
			ci := &CtxInfo{CtxType: ctxType, Rule: r.Name, AltLabel: label, IsTok: map[string]bool{}, Labels: map[string]string{}}
			all := altsOcc(alts, g, false)
			ci.Children = map[string]Occ{}
			for k, o := range all {
				if strings.HasPrefix(k, "'") {
					continue
				}
				ci.Children[k] = o
			}
			ci.LabelOcc = map[string]Occ(altsOcc(alts, g, true))
			seen := map[string]bool{}
			for _, a := range alts {
				collectOrder(a.Elems, seen, &ci.Order, ci.IsTok, &ci.Lits)
				collectLabels(a.Elems, ci.Labels)
				interleavings(a.Elems, &ci.Interleaved)
			}
			// top-level alternation inside a starred single group is found by interleavings (pattern 1)
			return ci
		}
		if labelled {
			for _, a := range r.Alts {
				out = append(out, mk(a.Label+"Context", a.Label, []*Alt{a}))
			}
			// the base context has no child accessors of its own
			out = append(out, &CtxInfo{CtxType: title(r.Name) + "Context", Rule: r.Name, Children: map[string]Occ{}, IsTok: map[string]bool{}, Labels: map[string]string{}, LabelOcc: map[string]Occ{}})
		} else {
			out = append(out, mk(title(r.Name)+"Context", "", r.Alts))
		}
	}
	return out
}

// AccessorName gives the ANTLR Go accessor for a child ("Type_" for rule type, "AllX" when many).
func accessorName(child string, isTok bool, many bool) string {
	n := child
	if !isTok {
		n = title(child)
		switch child {
		case "type", "func", "var", "package", "range", "map", "chan", "go", "select", "interface", "struct", "import", "return", "default", "switch", "case", "for", "if", "else", "const", "defer", "break", "continue", "goto", "fallthrough":
			n += "_"
		}
	}
	if many {
		return "All" + n
	}
	return n
}

// Nullable reports whether a parser rule can match the empty token sequence.
func (g *Grammar) Nullable(rule string) bool {
	memo := map[string]int{}
	var nullRule func(string) bool
	var nullSeq func([]*Elem) bool
	nullSeq = func(es []*Elem) bool {
		for _, e := range es {
			if e.Suffix == '?' || e.Suffix == '*' {
				continue
			}
			switch e.Kind {
			case ekToken, ekLit:
				return false
			case ekRule:
				if !nullRule(e.Name) {
					return false
				}
			case ekGroup:
				any := false
				for _, a := range e.Group {
					if nullSeq(a.Elems) {
						any = true
					}
				}
				if !any {
					return false
				}
			}
		}
		return true
	}
	nullRule = func(n string) bool {
		if v, ok := memo[n]; ok {
			return v == 1
		}
		memo[n] = 0
		r := g.prule[n]
		if r == nil {
			return false
		}
		for _, a := range r.Alts {
			if nullSeq(a.Elems) {
				memo[n] = 1
				return true
			}
		}
		return false
	}
	return nullRule(rule)
}

// Aliases returns lexer rules with >= 2 literal spellings.
func (g *Grammar) Aliases() map[string][]string {
	out := map[string][]string{}
	for _, r := range g.LRules {
		if len(r.Literals) >= 2 {
			out[r.Name] = r.Literals
		}
	}
	return out
}

// ScalarTokens: the token alternatives of rule basicType with their spellings.
func (g *Grammar) ScalarTokens() map[string][]string {
	out := map[string][]string{}
	r := g.prule["basicType"]
	if r == nil {
		return out
	}
	for _, a := range r.Alts {
		for _, e := range a.Elems {
			if e.Kind == ekToken {
				if lr := g.lrule[e.Name]; lr != nil {
					out[e.Name] = lr.Literals
				}
			}
		}
	}
	return out
}

// contentChild reports whether a child of a context carries author content
// (identifier/number/string text, a type choice, or an optional keyword whose presence matters).
func (g *Grammar) contentChild(ci *CtxInfo, child string) bool {
	if !ci.IsTok[child] {
		return true // sub-rule
	}
	lr := g.lrule[child]
	if lr == nil {
		return true
	}
	if lr.Literals == nil {
		return true // free-text token (IDENTIFIER, DIGITS, STRING, STRING_LITERAL, PADDING_ATTR, PADDING_CHAR)
	}
	if len(lr.Literals) >= 2 {
		return true // alias token: which type
	}
	// single-literal keyword/punctuation: content only if optional (presence is information)
	// or if it is one arm of a token alternation (e.g. CHAR in basicType)
	occ := ci.Children[child]
	if occ.Min == 0 {
		return true
	}
	return false
}

// AdmitsLineBreak: can a token of lexer rule `name` contain a line break? (a literal or set containing \n, a negated set or
// negated character that does not exclude \n, the wildcard `.`, or a reference to a rule that can)
func (g *Grammar) AdmitsLineBreak(name string) bool {
	return g.admitsLB(name, map[string]bool{})
}

func (g *Grammar) admitsLB(name string, seen map[string]bool) bool {
	if seen[name] {
		return false
	}
	seen[name] = true
	lr := g.lrule[name]
	if lr == nil {
		return false
	}
	raw := lr.Raw
	if i := strings.Index(raw, "->"); i >= 0 {
		raw = raw[:i]
	}
	hasNL := func(s string) bool { return strings.Contains(s, `\n`) || strings.Contains(s, "\n") }
	neg := false
	for i := 0; i < len(raw); i++ {
		c := raw[i]
		switch {
		case c == '~':
			neg = true
			continue
		case c == '\'':
			j := i + 1
			for j < len(raw) && raw[j] != '\'' {
				if raw[j] == '\\' {
					j++
				}
				j++
			}
			lit := raw[i+1 : min(j, len(raw))]
			if neg {
				if !hasNL(lit) {
					return true
				}
			} else if hasNL(lit) {
				return true
			}
			i = j
		case c == '[':
			j := i + 1
			for j < len(raw) && raw[j] != ']' {
				if raw[j] == '\\' {
					j++
				}
				j++
			}
			set := raw[i+1 : min(j, len(raw))]
			if neg {
				if !hasNL(set) {
					return true
				}
			} else if hasNL(set) {
				return true
			}
			i = j
		case c == '.':
			return true
		case c >= 'A' && c <= 'Z':
			j := i
			for j < len(raw) && (raw[j] == '_' || raw[j] >= 'A' && raw[j] <= 'Z' || raw[j] >= '0' && raw[j] <= '9') {
				j++
			}
			if g.admitsLB(raw[i:j], seen) {
				return true
			}
			i = j - 1
		case c == ' ' || c == '\t' || c == '\n':
			continue
		}
		neg = false
	}
	return false
}

// RuleAdmitsLineBreak: can the text of parser rule `rule` contain a line break inside one of its tokens?
func (g *Grammar) RuleAdmitsLineBreak(rule string) bool {
	seen := map[string]bool{}
	var walk func(r string) bool
	var elems func(es []*Elem) bool
	elems = func(es []*Elem) bool {
		for _, e := range es {
			switch e.Kind {
			case ekToken:
				if g.AdmitsLineBreak(e.Name) {
					return true
				}
			case ekRule:
				if walk(e.Name) {
					return true
				}
			case ekGroup:
				for _, a := range e.Group {
					if elems(a.Elems) {
						return true
					}
				}
			}
		}
		return false
	}
	walk = func(r string) bool {
		if seen[r] {
			return false
		}
		seen[r] = true
		pr := g.prule[r]
		if pr == nil {
			return false
		}
		for _, a := range pr.Alts {
			if elems(a.Elems) {
				return true
			}
		}
		return false
	}
	return walk(rule)
}
