package main

// <prop>/default-padding-predicate: every generator asks the model whether a padding is the default one (a space, on the right) and
// writes the short form of the code when it is. The predicate is a two-member truth table: it has to be true for (default pad
// character, right) and false for the three other combinations. Decided by evaluating the predicate's body - comparisons of the
// receiver's members with constants, negation, short-circuit joins - over the four combinations; nothing is executed. A predicate
// whose body uses anything else is reported as not judged.

import (
	"fmt"
	"go/constant"
	"go/token"
	"go/types"

	"golang.org/x/tools/go/ssa"
)

func defaultPaddingPredicate(w *World, r *Report, prop string) {
	rule := prop + "/default-padding-predicate"
	var cands []*ssa.Function
	var named *ssa.Function
	for _, fn := range w.srcFuncs {
		if fn.Pkg != w.Model || recvNamedCore(fn) != "Padding" || fn.Blocks == nil || len(fn.Params) != 1 {
			continue
		}
		res := fn.Signature.Results()
		if res.Len() != 1 || !types.Identical(res.At(0).Type().Underlying(), types.Typ[types.Bool]) {
			continue
		}
		// consulted by generator code
		used := false
		if n := w.CallGraph().Nodes[fn]; n != nil {
			for _, e := range n.In {
				if e.Caller.Func != nil && pkgOfFunc(e.Caller.Func) == w.Parser {
					used = true
				}
			}
		}
		if !used {
			continue
		}
		cands = append(cands, fn)
		if fn.Name() == "IsDefault" {
			named = fn
		}
	}
	pred := named
	if pred == nil && len(cands) == 1 {
		pred = cands[0]
	}
	key := "the model's default-padding predicate is true for (space, right) only"
	if pred == nil {
		r.pass(rule, key, "internal/model/model.go", fmt.Sprintf("not judged: %d boolean predicates on Padding are consulted by the generators, none is named IsDefault", len(cands)))
		return
	}
	def, _ := strconvUnquote(optionDefault["Padding.PadChar"])
	type point struct {
		ch   string
		left bool
	}
	points := []point{{def, false}, {def, true}, {"'0'", false}, {"'0'", true}}
	for _, pt := range points {
		got, ok := evalPaddingPredicate(w, pred, pt.ch, pt.left)
		if !ok {
			r.pass(rule, key, w.pos(pred.Pos()), "not judged: the body of "+fnKey(pred)+" is not a combination of member comparisons")
			return
		}
		want := pt.ch == def && !pt.left
		if got != want {
			r.fail(rule, key, w.pos(pred.Pos()), fmt.Sprintf("%s yields %v for PadChar=%q PadLeft=%v (documented default: %q on the right): every generator takes the wrong branch for that padding - the declared pad character or side is not what goes on the wire", fnKey(pred), got, pt.ch, pt.left, def))
			return
		}
	}
	r.pass(rule, key, w.pos(pred.Pos()), fnKey(pred)+": 4 combinations evaluated")
}

func strconvUnquote(s string) (string, bool) {
	if len(s) >= 2 && s[0] == '"' && s[len(s)-1] == '"' {
		return s[1 : len(s)-1], true
	}
	return s, false
}

// evalPaddingPredicate walks the body of a Padding predicate with the receiver's members fixed to the given values.
func evalPaddingPredicate(w *World, fn *ssa.Function, padChar string, padLeft bool) (result bool, ok bool) {
	recv := fn.Params[0]
	isRecv := func(v ssa.Value) bool {
		v = stripIdentity(v)
		if v == ssa.Value(recv) {
			return true
		}
		// the spilled copy of a by-value receiver
		if al, isAl := v.(*ssa.Alloc); isAl && al.Referrers() != nil {
			for _, ref := range *al.Referrers() {
				if st, isSt := ref.(*ssa.Store); isSt && st.Addr == ssa.Value(al) && st.Val == ssa.Value(recv) {
					return true
				}
			}
		}
		return false
	}
	member := func(t types.Type, idx int) (any, bool) {
		if pt, isPtr := t.Underlying().(*types.Pointer); isPtr {
			t = pt.Elem()
		}
		st, isSt := t.Underlying().(*types.Struct)
		if !isSt || idx >= st.NumFields() {
			return nil, false
		}
		switch st.Field(idx).Name() {
		case "PadChar":
			return padChar, true
		case "PadLeft":
			return padLeft, true
		}
		return nil, false
	}
	phis := map[*ssa.Phi]any{}
	// a whole record as a value: the receiver itself, or a package-level record of defaults that is assigned once by the package
	// initialiser from a literal and never written afterwards (`p == defaultPadding`). Two records of one type are equal when every
	// member is; the value is spelled member by member in declaration order so that it can be compared.
	type recVal string
	spell := func(t types.Type, at func(i int) (any, bool)) (any, bool) {
		if pt, isPtr := t.Underlying().(*types.Pointer); isPtr {
			t = pt.Elem()
		}
		st, isSt := t.Underlying().(*types.Struct)
		if !isSt {
			return nil, false
		}
		out := t.String()
		for i := 0; i < st.NumFields(); i++ {
			mv, okm := at(i)
			if !okm {
				return nil, false
			}
			out += fmt.Sprintf("|%s=%T:%v", st.Field(i).Name(), mv, mv)
		}
		return recVal(out), true
	}
	record := func(v ssa.Value) (any, bool) {
		if _, isSt := v.Type().Underlying().(*types.Struct); !isSt {
			return nil, false
		}
		if v == ssa.Value(recv) {
			return spell(v.Type(), func(i int) (any, bool) { return member(v.Type(), i) })
		}
		ld, isLd := v.(*ssa.UnOp)
		if !isLd || ld.Op != token.MUL {
			return nil, false
		}
		if isRecv(ld.X) {
			return spell(v.Type(), func(i int) (any, bool) { return member(v.Type(), i) })
		}
		g, isG := ld.X.(*ssa.Global)
		if !isG {
			return nil, false
		}
		members, known := w.globalRecordInit(g)
		if !known {
			return nil, false
		}
		st := v.Type().Underlying().(*types.Struct)
		return spell(v.Type(), func(i int) (any, bool) {
			mv := members[i]
			if mv == nil {
				switch {
				case isStringType(st.Field(i).Type()):
					return "", true
				case types.Identical(st.Field(i).Type().Underlying(), types.Typ[types.Bool]):
					return false, true
				}
				return nil, false
			}
			k, isK := mv.(*ssa.Const)
			if !isK || k.Value == nil {
				return nil, false
			}
			switch k.Value.Kind() {
			case constant.String:
				return constant.StringVal(k.Value), true
			case constant.Bool:
				return constant.BoolVal(k.Value), true
			}
			return nil, false
		})
	}
	var eval func(v ssa.Value, depth int) (any, bool)
	eval = func(v ssa.Value, depth int) (any, bool) {
		if depth > 20 {
			return nil, false
		}
		if rv, isRec := record(v); isRec {
			return rv, true
		}
		switch x := v.(type) {
		case *ssa.Const:
			if x.Value == nil {
				return nil, false
			}
			switch x.Value.Kind() {
			case constant.String:
				return constant.StringVal(x.Value), true
			case constant.Bool:
				return constant.BoolVal(x.Value), true
			}
			return nil, false
		case *ssa.Field:
			if isRecv(x.X) {
				return member(x.X.Type(), x.Field)
			}
		case *ssa.UnOp:
			switch x.Op {
			case token.MUL:
				if fa, isFA := x.X.(*ssa.FieldAddr); isFA && isRecv(fa.X) {
					return member(fa.X.Type(), fa.Field)
				}
			case token.NOT:
				if b, okb := eval(x.X, depth+1); okb {
					if bv, isB := b.(bool); isB {
						return !bv, true
					}
				}
			}
		case *ssa.BinOp:
			a, ok1 := eval(x.X, depth+1)
			b, ok2 := eval(x.Y, depth+1)
			if !ok1 || !ok2 {
				return nil, false
			}
			switch x.Op {
			case token.EQL:
				return a == b, true
			case token.NEQ:
				return a != b, true
			}
		case *ssa.Phi:
			val, have := phis[x]
			return val, have
		}
		return nil, false
	}
	// enter: fix the values of the block's phis by the edge taken
	enter := func(from, to *ssa.BasicBlock) bool {
		vals := map[*ssa.Phi]any{}
		for _, ins := range to.Instrs {
			phi, isPhi := ins.(*ssa.Phi)
			if !isPhi {
				break
			}
			for i, p := range to.Preds {
				if p == from {
					v, okv := eval(phi.Edges[i], 0)
					if !okv {
						return false
					}
					vals[phi] = v
				}
			}
		}
		for k, v := range vals {
			phis[k] = v
		}
		return true
	}
	b := fn.Blocks[0]
	for steps := 0; steps < 64; steps++ {
		last := b.Instrs[len(b.Instrs)-1]
		switch x := last.(type) {
		case *ssa.Return:
			if len(x.Results) != 1 {
				return false, false
			}
			v, okv := eval(x.Results[0], 0)
			bv, isB := v.(bool)
			return bv, okv && isB
		case *ssa.If:
			c, okc := eval(x.Cond, 0)
			cb, isB := c.(bool)
			if !okc || !isB {
				return false, false
			}
			next := b.Succs[1]
			if cb {
				next = b.Succs[0]
			}
			if !enter(b, next) {
				return false, false
			}
			b = next
		case *ssa.Jump:
			if !enter(b, b.Succs[0]) {
				return false, false
			}
			b = b.Succs[0]
		default:
			return false, false
		}
	}
	return false, false
}
