package main

import (
	"fmt"
	"go/ast"
	"go/constant"
	"go/token"
	"go/types"
	"regexp"
	"sort"
	"strings"

	"golang.org/x/tools/go/ssa"
)

func init() {
	register("C12", "Diagnostics as structure: (gate) in cmd.Compile every generator call and file write is dominated by the no-diagnostics edge, the diagnostics edge returns an error and Execute turns errors into a non-zero exit; "+
		"(namespace) every insertion into a declaration namespace (packets, MetaData, options, fields of a packet, root slot) is dominated by the not-present edge of a membership test on the same container and key whose present edge reaches AddSyntaxError with the line of the *current* declaration; field collectors have such a namespace; "+
		"(live) no AddSyntaxError is reachable only through a membership test on a map that is never written; (resolution) every name-resolving lookup (object type, match-pair packet, match key field, length target, MetaData reference) has a miss edge that reaches AddSyntaxError, and the @lengthOf placement diagnostics exist and skip the offending field; "+
		"(order) declarations that share a namespace are visited in source order; (options) the option table accepts every pad-character lexeme and prefix spelling the grammar documents, and every option constant is a table key consumed by NewConfiguration. "+
		"The concrete message/line for a concrete program is a runtime value and is not decided.", runC12)
}

// isAddSyntaxError: a call that records a diagnostic - AddSyntaxError itself, a primitive that appends a diagnostics record to the list
// the gate reads (diagPrimitives), or a wrapper that always calls one of those (also the closure a constructor returns).
func isAddSyntaxError(i ssa.Instruction) bool {
	c, ok := i.(ssa.CallInstruction)
	if !ok {
		return false
	}
	f := calleeOf(c) // static callee, closure or function variable
	return f != nil && (f.Name() == "AddSyntaxError" || diagWrappers()[f])
}

var diagWrapperSet map[*ssa.Function]bool

// diagWrappers: the diagnostic primitives, and the repo functions in which a diagnostic call sits in a block that dominates every
// return (fixpoint over wrappers of wrappers). A call counts through its static callee or through the one function its function
// value can be (calleeOf).
func diagWrappers() map[*ssa.Function]bool {
	if diagWrapperSet != nil || theWorld == nil {
		return diagWrapperSet
	}
	set := map[*ssa.Function]bool{}
	diagWrapperSet = set
	for f := range diagPrimitives() {
		set[f] = true
	}
	// the calls of each function, resolved once
	type callIn struct {
		b *ssa.BasicBlock
		g *ssa.Function
	}
	calls := map[*ssa.Function][]callIn{}
	rets := map[*ssa.Function][]*ssa.BasicBlock{}
	for _, fn := range theWorld.srcFuncs {
		if fn.Name() == "AddSyntaxError" || len(fn.Blocks) == 0 {
			continue
		}
		for _, b := range fn.Blocks {
			if _, ok := b.Instrs[len(b.Instrs)-1].(*ssa.Return); ok {
				rets[fn] = append(rets[fn], b)
			}
		}
		if len(rets[fn]) == 0 {
			continue
		}
		for _, b := range fn.Blocks {
			for _, ins := range b.Instrs {
				if c, ok := ins.(ssa.CallInstruction); ok {
					g := c.Common().StaticCallee()
					if g == nil && !c.Common().IsInvoke() {
						if _, isB := c.Common().Value.(*ssa.Builtin); !isB {
							g = calleeOf(c)
						}
					}
					if g != nil && g != fn {
						calls[fn] = append(calls[fn], callIn{b, g})
					}
				}
			}
		}
	}
	for changed := true; changed; {
		changed = false
		for _, fn := range theWorld.srcFuncs {
			if set[fn] || len(calls[fn]) == 0 {
				continue
			}
			for _, ci := range calls[fn] {
				if ci.g.Name() != "AddSyntaxError" && !set[ci.g] {
					continue
				}
				all := true
				for _, rb := range rets[fn] {
					if !ci.b.Dominates(rb) {
						all = false
					}
				}
				if all {
					set[fn] = true
					changed = true
					break
				}
			}
		}
	}
	return set
}

// parsePhaseFuncs: model package functions + methods of the model visitor.
func parsePhaseFuncs(w *World) []*ssa.Function {
	var out []*ssa.Function
	reach := w.parseReach()
	for _, fn := range w.srcFuncs {
		if !reach[fn] {
			continue
		}
		if fn.Pkg == w.Model || recvNamedCore(fn) == "PacketDslVisitorImpl" || (fn.Pkg == w.Parser && fn.Name() == "ParseFile") {
			out = append(out, fn)
		}
	}
	// plus the parser-package helpers those call directly (a visitor method split into plain functions)
	in := map[*ssa.Function]bool{}
	for _, f := range out {
		in[f] = true
	}
	for i := 0; i < len(out); i++ {
		forEachInstr(out[i], func(_ *ssa.BasicBlock, ins ssa.Instruction) {
			c, ok := ins.(ssa.CallInstruction)
			if !ok {
				return
			}
			// static callees, and the functions a called function value can be (handlers kept in a table, closures)
			for _, g := range calleesOfAll(c) {
				if g == nil || in[g] || pkgOfFunc(g) != w.Parser || g.Blocks == nil || !w.isSubjectFunc(g) {
					continue
				}
				if rn := recvNamedCore(g); strings.HasSuffix(rn, "Generator") || strings.HasSuffix(rn, "Formattor") || strings.HasSuffix(rn, "Formatter") {
					continue
				}
				in[g] = true
				out = append(out, g)
			}
		})
	}
	sortFuncsByName(out)
	return out
}

// membership describes a test "key present in map".
type membership struct {
	lookup      *ssa.Lookup
	branch      *ssa.BasicBlock
	presentSucc int
}

func membershipTests(fn *ssa.Function) []membership {
	var out []membership
	for _, b := range fn.Blocks {
		cond := branchCond(b)
		if cond == nil {
			continue
		}
		neg := false
		c := cond
		for {
			if u, ok := c.(*ssa.UnOp); ok && u.Op == token.NOT {
				neg = !neg
				c = u.X
				continue
			}
			break
		}
		// (a) comma-ok
		if ex, ok := c.(*ssa.Extract); ok && ex.Index == 1 {
			if lk, ok := ex.Tuple.(*ssa.Lookup); ok && lk.CommaOk {
				if _, isMap := lk.X.Type().Underlying().(*types.Map); isMap {
					s := 0
					if neg {
						s = 1
					}
					out = append(out, membership{lk, b, s})
				}
			}
			continue
		}
		// (b) m[k] != nil / == nil, (c) m[k] != T{}
		if bo, ok := c.(*ssa.BinOp); ok && (bo.Op == token.NEQ || bo.Op == token.EQL) {
			var lk *ssa.Lookup
			var other ssa.Value
			if l, ok := bo.X.(*ssa.Lookup); ok {
				lk, other = l, bo.Y
			} else if l, ok := bo.Y.(*ssa.Lookup); ok {
				lk, other = l, bo.X
			}
			if lk == nil || lk.CommaOk {
				continue
			}
			if _, isMap := lk.X.Type().Underlying().(*types.Map); !isMap {
				continue
			}
			if !isNilConst(other) && !isZeroStruct(other) {
				continue
			}
			presentOnTrue := bo.Op == token.NEQ
			if neg {
				presentOnTrue = !presentOnTrue
			}
			s := 1
			if presentOnTrue {
				s = 0
			}
			out = append(out, membership{lk, b, s})
		}
	}
	return out
}

// keyPath: two-level description of a map key operand.
func keyPath(v ssa.Value) string {
	v = stripIdentity(v)
	switch x := v.(type) {
	case *ssa.UnOp:
		if fa, ok := x.X.(*ssa.FieldAddr); ok {
			tn, f, _, _ := fieldOf(fa)
			if inner, ok := fa.X.(*ssa.UnOp); ok {
				if fa2, ok := inner.X.(*ssa.FieldAddr); ok {
					tn2, f2, _, _ := fieldOf(fa2)
					return tn2 + "." + f2 + "." + f
				}
			}
			return tn + "." + f
		}
	case *ssa.Field:
		tn, f, _, _ := fieldOf(x)
		return tn + "." + f
	case *ssa.Parameter:
		return "param " + x.Name()
	case *ssa.Call:
		// label/token accessor chain: ctx.GetTyp().GetText()
		var recv ssa.Value
		if x.Call.IsInvoke() {
			recv = x.Call.Value
		} else if len(x.Call.Args) > 0 {
			recv = x.Call.Args[0]
		}
		if rc, ok := recv.(*ssa.Call); ok {
			return calleeShort(rc) + calleeShort(x)
		}
		return calleeShort(x)
	case *ssa.Extract:
		return "elem"
	case *ssa.Phi:
		return "var"
	}
	return "expr"
}

// keyPathsOf: the descriptions a lookup's key can have: its own, or - when the key is a parameter of the function (a `lookupPacket(name,
// ..)` helper that tests the name and reports the miss itself) - those of the arguments at the function's call sites (two levels).
func (w *World) keyPathsOf(fn *ssa.Function, key ssa.Value) []string {
	var out []string
	var walk func(fn *ssa.Function, v ssa.Value, depth int)
	walk = func(fn *ssa.Function, v ssa.Value, depth int) {
		p, ok := stripIdentity(v).(*ssa.Parameter)
		if !ok || depth > 2 || fn == nil {
			out = append(out, keyPath(v))
			return
		}
		idx := -1
		for i, q := range fn.Params {
			if q == p {
				idx = i
			}
		}
		n := w.CallGraph().Nodes[fn]
		sites := 0
		if n != nil && idx >= 0 {
			for _, e := range n.In {
				if e.Site == nil || e.Site.Common().StaticCallee() != fn || idx >= len(e.Site.Common().Args) {
					continue
				}
				sites++
				walk(e.Caller.Func, e.Site.Common().Args[idx], depth+1)
			}
		}
		if sites == 0 {
			out = append(out, keyPath(v))
		}
	}
	walk(fn, key, 0)
	return out
}

func sameKey(a, b ssa.Value) bool {
	if stripIdentity(a) == stripIdentity(b) {
		return true
	}
	// two loads of one variable cell that is written once (a parameter or local captured by a closure lives in such a cell)
	if ca, cb := singleAssignCell(a), singleAssignCell(b); ca != nil && ca == cb {
		return true
	}
	ka, kb := keyPath(a), keyPath(b)
	return ka == kb && ka != "expr" && ka != "var" && ka != "elem"
}

func runC12(w *World, r *Report) {
	optionSemantics(w, r, "C12")
	optionValueAsWritten(w, r, "C12")
	phaseTables(w, r, "C12")
	wholeInputRule(w, r, "C12")
	errorsNotDiscarded(w, r, "C12")
	computedFieldsSingle(w, r, "C12")
	lengthLinkByKind(w, r, "C12")
	c12OptionValidation(w, r, "C12")
	c12PositionSource(w, r)
	c12PositionRecorded(w, r)
	c12Gate(w, r)
	c12DiagnosticSink(w, r)
	diagnosticAtTheElement(w, r, "C12")
	visitorKeepsNoPacketState(w, r, "C12")
	resolverDescendsIntoInline(w, r, "C12")
	matchKeysCheckedWhereverCollected(w, r, "C12")
	matchTableReadFromTheField(w, r, "C12", func(fn *ssa.Function) bool { return !isGeneratorFunc(fn) && parsePhaseSet(w)[fn] }, "the packets a match table names are validated on the table of another match field of the same key: an undeclared packet in the earlier table is accepted")
	nameKeyedSetOverInline(w, r, "C12", func(fn *ssa.Function) bool { return !isGeneratorFunc(fn) && parsePhaseSet(w)[fn] }, "the parse phase remembers packets under their names and consults that set for inline objects too: an inline object named like a construct seen before is skipped, its references are neither linked nor validated (an undeclared name in it is accepted, a declared one stays nil and crashes the generators)")
	c12Namespaces(w, r)
	c12Live(w, r)
	c12Resolution(w, r)
	collectorRules(w, r, "C12/resolution", "")
	c12Order(w, r)
	c12Options(w, r)
	r.assume("cobra's RunE error becomes rootCmd.Execute()'s error")
	r.assume("the frozen list of namespaces and resolving lookups is the fault-class list of the property; a new kind of declaration needs a new row")
}

// ---- gate ----

func lenGtZero(cond ssa.Value) (operand ssa.Value, nonEmptySucc int, ok bool) {
	neg := false
	for {
		if u, isU := cond.(*ssa.UnOp); isU && u.Op == token.NOT {
			neg = !neg
			cond = u.X
			continue
		}
		break
	}
	bo, isB := cond.(*ssa.BinOp)
	if !isB {
		return nil, 0, false
	}
	lenOf := func(v ssa.Value) ssa.Value {
		c, ok := v.(*ssa.Call)
		if !ok {
			return nil
		}
		if b, ok := c.Call.Value.(*ssa.Builtin); ok && b.Name() == "len" {
			return c.Call.Args[0]
		}
		return nil
	}
	intOf := func(v ssa.Value) (int64, bool) {
		c, ok := v.(*ssa.Const)
		if !ok || c.Value == nil || c.Value.Kind() != constant.Int {
			return 0, false
		}
		return c.Int64(), true
	}
	var nonEmptyOnTrue bool
	if x := lenOf(bo.X); x != nil {
		k, okk := intOf(bo.Y)
		if !okk {
			return nil, 0, false
		}
		switch {
		case bo.Op == token.GTR && k == 0, bo.Op == token.NEQ && k == 0, bo.Op == token.GEQ && k == 1:
			nonEmptyOnTrue = true
		case bo.Op == token.EQL && k == 0, bo.Op == token.LEQ && k == 0, bo.Op == token.LSS && k == 1:
			nonEmptyOnTrue = false
		default:
			return nil, 0, false
		}
		operand = x
	} else if y := lenOf(bo.Y); y != nil {
		k, okk := intOf(bo.X)
		if !okk {
			return nil, 0, false
		}
		switch {
		case bo.Op == token.LSS && k == 0, bo.Op == token.NEQ && k == 0, bo.Op == token.LEQ && k == 1:
			nonEmptyOnTrue = true
		case bo.Op == token.EQL && k == 0, bo.Op == token.GEQ && k == 0:
			nonEmptyOnTrue = false
		default:
			return nil, 0, false
		}
		operand = y
	} else {
		return nil, 0, false
	}
	if neg {
		nonEmptyOnTrue = !nonEmptyOnTrue
	}
	if nonEmptyOnTrue {
		return operand, 0, true
	}
	return operand, 1, true
}

func c12Gate(w *World, r *Report) {
	const rule = "C12/gate"
	d := newDriver(w)
	compile := d.compile
	if compile == nil {
		r.fatal("anchor unresolved: cmd.Compile")
		return
	}
	// the diagnostics test: directly in Compile, or in a helper that returns a non-nil error exactly when there are diagnostics
	var gateFn *ssa.Function
	for _, fn := range d.sortedFns() {
		if len(d.directGates(fn)) > 0 {
			gateFn = fn
		}
	}
	if gateFn == nil {
		r.fail(rule, "diagnostics test exists", w.pos(compile.Pos()), "neither cmd.Compile nor a helper it calls tests `len(binModel.SyntaxErrors)`")
		return
	}
	r.pass(rule, "diagnostics test exists", w.pos(gateFn.Pos()), fnKey(gateFn))
	// effects that must be behind the gate: generator runs, constructor calls, file writes
	n := 0
	cnt := map[string]int{}
	for _, fn := range d.sortedFns() {
		forEachInstr(fn, func(b *ssa.BasicBlock, ins ssa.Instruction) {
			c, ok := ins.(ssa.CallInstruction)
			if !ok {
				return
			}
			cc := c.Common()
			isGen := cc.StaticCallee() == nil && !cc.IsInvoke() && cc.Value != nil && func() bool {
				_, isB := cc.Value.(*ssa.Builtin)
				return !isB
			}()
			isInvokeGen := cc.IsInvoke() && cc.Method.Name() == "Generate"
			if f := cc.StaticCallee(); f != nil && f.Pkg == w.Parser {
				if f.Name() == "Generate" {
					isInvokeGen = true
				}
				for _, g := range generators {
					if f.Name() == g.Ctor {
						isInvokeGen = true
					}
				}
			}
			isWrite := calleeIs(c, parserPath+".WriteCodeToFile") || isFileMutator(c) != ""
			if !isGen && !isWrite && !isInvokeGen {
				return
			}
			n++
			what := "generator call"
			if isWrite {
				what = "file write"
			}
			kb := what + " in " + fnKey(fn)
			cnt[kb]++
			key := fmt.Sprintf("%s#%d behind the gate", kb, cnt[kb])
			if d.gated(fn, b, 0) {
				r.pass(rule, key, w.instrPos(ins), "")
			} else {
				r.fail(rule, key, w.instrPos(ins), what+" under cmd.Compile is not dominated by the no-diagnostics edge: code is generated / files are written although the DSL was rejected")
			}
		})
	}
	if n < 2 {
		r.fail(rule, "effects found", w.pos(compile.Pos()), "expected a generator call and a file write under cmd.Compile")
	}
	// the diagnostics edge returns a non-nil error all the way up
	okErr := false
	for _, g := range d.directGates(gateFn) {
		errRet, bad := false, false
		for _, b := range gateFn.Blocks {
			if !edgeDominates(g.b, 1-g.empty, b) {
				continue
			}
			if ret, ok := b.Instrs[len(b.Instrs)-1].(*ssa.Return); ok {
				for _, rv := range ret.Results {
					if !isErrorType(rv.Type()) {
						continue
					}
					if isNilConst(rv) {
						bad = true
					} else {
						errRet = true
					}
				}
			}
		}
		if !errRet || bad {
			continue
		}
		if gateFn == compile {
			okErr = true
			continue
		}
		all := len(d.sites[gateFn]) > 0
		for _, s := range d.sites[gateFn] {
			if ev := errResultOf(s); ev == nil || !d.delivered(s.Parent(), ev, 0) {
				all = false
			}
		}
		okErr = all
	}
	if okErr {
		r.pass(rule, "diagnostics edge returns an error", w.pos(gateFn.Pos()), "")
	} else {
		r.fail(rule, "diagnostics edge returns an error", w.pos(gateFn.Pos()), "with diagnostics present Compile can return nil (exit status 0)")
	}
	// ParseFile's error is returned before the model is inspected
	var pcall ssa.CallInstruction
	var pfn *ssa.Function
	np := 0
	for _, fn := range d.sortedFns() {
		for _, c := range callsTo(fn, parserPath+".ParseFile") {
			pcall, pfn = c, fn
			np++
		}
	}
	if np != 1 {
		r.fail(rule, "ParseFile error returned", w.pos(compile.Pos()), fmt.Sprintf("expected one ParseFile call under cmd.Compile, found %d", np))
	} else {
		errV := errResultOf(pcall)
		okP := errV != nil && d.delivered(pfn, errV, 0)
		if okP && pfn == gateFn {
			okP = false
			for _, g := range d.directGates(gateFn) {
				if guardedByNil(g.b, errV, false) {
					okP = true
				}
			}
		}
		if okP {
			r.pass(rule, "ParseFile error returned", w.instrPos(pcall), "")
		} else {
			r.fail(rule, "ParseFile error returned", w.instrPos(pcall), "ParseFile's error does not become Compile's error before the model is inspected")
		}
	}
	// Compile's error reaches the command
	nDel := 0
	for _, f := range w.allFuncsInRepo() {
		if f.Pkg != w.Cmd {
			continue
		}
		for _, c := range callsTo(f, compile.String()) {
			nDel++
			key := "Compile's error reaches the exit status"
			if nDel > 1 {
				key += fmt.Sprintf(" (call #%d)", nDel)
			}
			cv, ok := c.(*ssa.Call)
			if !ok {
				r.fail(rule, key, w.instrPos(c), "Compile is started with go/defer: its error is dropped, a rejected DSL ends with exit status 0")
				continue
			}
			if why := errorDelivered(w, cv, 0); why == "" {
				r.pass(rule, key, w.instrPos(c), "")
			} else {
				r.fail(rule, key, w.instrPos(c), why+": a rejected DSL ends with exit status 0")
			}
		}
	}
	if nDel == 0 {
		r.fail(rule, "Compile is called by the command line", w.pos(compile.Pos()), "no call of cmd.Compile in package cmd")
	}
	// Execute: error -> os.Exit(non-zero)
	exec := w.Cmd.Func("Execute")
	if exec == nil {
		r.fatal("anchor unresolved: cmd.Execute")
		return
	}
	okExit := false
	for _, c := range callsTo(exec, "(*github.com/spf13/cobra.Command).Execute") {
		cv, ok := c.(*ssa.Call)
		if !ok {
			continue
		}
		if errorForcesExit(w, cv, 0) {
			okExit = true
		}
	}
	if okExit {
		r.pass(rule, "Execute exits non-zero on error", w.pos(exec.Pos()), "")
	} else {
		r.fail(rule, "Execute exits non-zero on error", w.pos(exec.Pos()), "a path on which rootCmd.Execute() returned an error leaves Execute without os.Exit(non-zero): a rejected DSL ends with exit status 0")
	}
}

// ---- namespaces ----

func namespaceOf(w *World, fn *ssa.Function, m ssa.Value) string {
	d := mapDesc(m)
	switch d {
	case ".PacketsMap":
		return "packets"
	case ".MetaDataMap":
		return "metadata"
	case ".Options":
		return "options"
	}
	mt, ok := m.Type().Underlying().(*types.Map)
	if !ok {
		return ""
	}
	if !typeIs(mt.Elem(), modPath+"/internal/model", "Field") {
		return ""
	}
	if _, fresh := valueRoot(m).(*ssa.MakeMap); fresh {
		return "fields"
	}
	// a name set kept in a scratch record of the parser (not a model struct)
	if key := structFieldKey(m); key != "" && !strings.Contains(key, "/internal/model.") {
		return "fields"
	}
	// the field table of a packet that this very function is constructing (&model.Packet{FieldMap: make(..)} filled in place)
	if ld, ok := stripIdentity(m).(*ssa.UnOp); ok && ld.Op == token.MUL {
		if fa, ok := ld.X.(*ssa.FieldAddr); ok {
			if al, ok := stripIdentity(fa.X).(*ssa.Alloc); ok && al.Parent() == fn {
				return "fields"
			}
		}
	}
	return ""
}

func c12Namespaces(w *World, r *Report) {
	const rule = "C12/namespace"
	funcs := parsePhaseFuncs(w)
	seenNS := map[string]int{}
	for _, fn := range funcs {
		tests := membershipTests(fn)
		counts := map[string]int{}
		forEachInstr(fn, func(b *ssa.BasicBlock, ins ssa.Instruction) {
			switch x := ins.(type) {
			case *ssa.MapUpdate:
				ns := namespaceOf(w, fn, x.Map)
				if _, fresh := valueRoot(x.Map).(*ssa.MakeMap); ns == "" && fresh && pairFieldOf(x.Key) != "" && fn.Pkg == w.Parser && recvNamedCore(fn) == "PacketDslVisitorImpl" {
					ns = "match keys"
					if pf := pairFieldOf(x.Key); pf != "Key" {
						r.fail(rule, fmt.Sprintf("%s: the keys of one match field are unique by key", fnKey(fn)), w.instrPos(ins), "the duplicate check of a match table is keyed by MatchPair."+pf+": two entries with the same key pass, two keys for one packet are rejected")
						return
					}
				}
				if ns == "" {
					return
				}
				seenNS[ns]++
				kb := fmt.Sprintf("%s inserts into %s", fnKey(fn), ns)
				counts[kb]++
				key := kb
				if counts[kb] > 1 {
					key = fmt.Sprintf("%s#%d", kb, counts[kb])
				}
				verdict := "no membership test on the same map and key dominates the insertion: a duplicate declaration silently replaces the earlier one"
				ok := false
				// the membership tests on the same container and key: made here on a lookup, or on what a resolver of the container
				// (a routine that hands out the entry of its lookup, or entry and found) answered for the same key
				type nsTest struct {
					entry       ssa.Value
					lookup      *ssa.Lookup // nil: the test is on the answer of a resolver
					branch      *ssa.BasicBlock
					presentSucc int
				}
				var nts []nsTest
				for _, t := range tests {
					if mapDesc(t.lookup.X) != mapDesc(x.Map) || valueRoot(t.lookup.X) != valueRoot(x.Map) && mapDesc(x.Map) == "local-map" {
						continue
					}
					if !sameKey(t.lookup.Index, x.Key) {
						continue
					}
					nts = append(nts, nsTest{t.lookup, t.lookup, t.branch, t.presentSucc})
				}
				for _, cm := range callMemberships(fn) {
					if crossCallSame(cm.info.lookup.X, x.Map, cm.call) && crossCallSame(cm.info.lookup.Index, x.Key, cm.call) {
						nts = append(nts, nsTest{cm.call, nil, cm.branch, cm.presentSucc})
					}
				}
				for _, t := range nts {
					if !edgeDominatesV(t.branch, 1-t.presentSucc, b) {
						verdict = "a membership test exists but some path reaches the insertion without taking its not-present edge"
						continue
					}
					// present edge reaches AddSyntaxError
					diags := edgeReports(t.branch, t.presentSucc)
					if len(diags) == 0 {
						// the helper that owns the name set answers "taken" (a boolean constant on the already-present edge) and the
						// diagnostic is filed by its callers, on that answer
						if t.lookup != nil && duplicateAnsweredAndReported(fn, membership{t.lookup, t.branch, t.presentSucc}, funcs) != "" {
							ok = true
							break
						}
						verdict = "the already-present edge of the membership test does not report a diagnostic"
						continue
					}
					earlier := false
					for _, diag := range diags {
						if lineSource(diag, t.entry) == "earlier" {
							earlier = true
						}
					}
					if earlier {
						verdict = "the duplicate diagnostic takes its line from the EARLIER declaration (the looked-up entry), not from the offending one"
						continue
					}
					ok = true
					break
				}
				if !ok {
					// the insertion is a "declare" helper: the membership test and the diagnostic are at its call sites
					if why := nsGuardedAtCallSites(w, fn, x, funcs); why != "" {
						ok = true
					}
				}
				if !ok && nsGuardedByVerdict(w, fn, x, b) {
					// the membership test and the duplicate message are in a checking helper, the insertion is behind its verdict
					ok = true
				}
				if ok {
					r.pass(rule, key, w.instrPos(ins), "guarded by membership test; duplicate reports the current declaration's line")
				} else {
					r.fail(rule, key, w.instrPos(ins), verdict)
				}
			case *ssa.Store:
				fa, okf := x.Addr.(*ssa.FieldAddr)
				if !okf {
					return
				}
				tn, f, _, _ := fieldOf(fa)
				if tn != "BinaryModel" || f != "RootPacket" {
					return
				}
				if _, isAlloc := valueRoot(fa.X).(*ssa.Alloc); isAlloc {
					return // composite literal initialisation
				}
				seenNS["root"]++
				key := fmt.Sprintf("%s sets the root slot", fnKey(fn))
				okRoot := false
				for _, bb := range fn.Blocks {
					cond := branchCond(bb)
					if cond == nil {
						continue
					}
					v, nn, okn := nilTest(cond)
					if !okn {
						continue
					}
					ld, okl := stripIdentity(v).(*ssa.UnOp)
					if !okl {
						continue
					}
					fa2, okf2 := ld.X.(*ssa.FieldAddr)
					if !okf2 {
						continue
					}
					if tn2, f2, _, _ := fieldOf(fa2); tn2 != "BinaryModel" || f2 != "RootPacket" {
						continue
					}
					if !edgeDominates(bb, 1-nn, b) {
						continue
					}
					for _, b3 := range fn.Blocks {
						if edgeDominates(bb, nn, b3) {
							for _, i3 := range b3.Instrs {
								if isAddSyntaxError(i3) {
									okRoot = true
								}
							}
						}
					}
				}
				// the test is made by a checking helper, the assignment is behind the flag it returns
				vOK, vRootEdge := false, false
				if !okRoot {
					vOK, vRootEdge = rootGuardedByVerdict(w, fn, x, b)
					okRoot = vOK
				}
				// ... and only a packet declared `root` takes the slot
				isRootEdge := vOK && vRootEdge
				for _, bb := range fn.Blocks {
					cond := branchCond(bb)
					if cond == nil {
						continue
					}
					val := true
					c := cond
					for {
						if u, ok := c.(*ssa.UnOp); ok && u.Op == token.NOT {
							c, val = u.X, !val
							continue
						}
						break
					}
					ld, ok := stripIdentity(c).(*ssa.UnOp)
					if !ok || ld.Op != token.MUL {
						continue
					}
					f3, ok := ld.X.(*ssa.FieldAddr)
					if !ok {
						continue
					}
					if tn3, n3, _, _ := fieldOf(f3); tn3 != "Packet" || n3 != "IsRoot" || !sameValue(f3.X, x.Val) {
						continue
					}
					succ := 0
					if !val {
						succ = 1
					}
					if edgeDominates(bb, succ, b) {
						isRootEdge = true
					}
				}
				if okRoot && !isRootEdge {
					r.fail(rule, key, w.instrPos(ins), "the root slot is assigned on a path where the packet's IsRoot is not known to be true: a packet that is not declared root becomes the root (and two ordinary packets are reported as `multiple root packets`)")
				} else if okRoot {
					r.pass(rule, key, w.instrPos(ins), "assigned only when empty; a second root reports a diagnostic")
				} else {
					r.fail(rule, key, w.instrPos(ins), "RootPacket is assigned without a dominating `RootPacket == nil` test whose other edge reports `multiple root packets`")
				}
			}
		})
	}
	for _, ns := range []string{"packets", "metadata", "options", "fields", "root"} {
		if seenNS[ns] == 0 {
			r.fail(rule, "namespace "+ns+" has an insertion site", "internal/model/model.go", "no insertion into the "+ns+" namespace found in parse-phase code: the namespace table is stale or the declaration kind lost its duplicate detection")
		}
	}
	// field collectors: functions appending *model.Field in a loop over parse-tree children must own a 'fields' namespace
	for _, fn := range funcs {
		collects := false
		forEachInstr(fn, func(b *ssa.BasicBlock, ins ssa.Instruction) {
			c, ok := ins.(*ssa.Call)
			if !ok {
				return
			}
			if bi, ok := c.Call.Value.(*ssa.Builtin); ok && bi.Name() == "append" {
				if sl, ok := c.Type().Underlying().(*types.Slice); ok && typeIs(sl.Elem(), modPath+"/internal/model", "Field") {
					// appended element comes from a Visit* call (a declared field), not a copy loop
					collects = true
				}
			}
		})
		if !collects {
			continue
		}
		has := false
		forEachInstr(fn, func(b *ssa.BasicBlock, ins ssa.Instruction) {
			if mu, ok := ins.(*ssa.MapUpdate); ok && namespaceOf(w, fn, mu.Map) == "fields" {
				has = true
			}
		})
		if !has && entersFieldsThroughHelper(w, fn, funcs) {
			has = true
		}
		key := fmt.Sprintf("%s collects fields into a checked namespace", fnKey(fn))
		if has {
			r.pass(rule, key, w.pos(fn.Pos()), "")
		} else {
			r.fail(rule, key, w.pos(fn.Pos()), "this routine collects declared fields but keeps no name set: duplicate field names inside it are accepted without a diagnostic")
		}
	}
	r.floor(rule, 6)
}

// appendedFields: the *model.Field values fn appends to a list of fields.
func appendedFields(fn *ssa.Function) map[ssa.Value]bool {
	out := map[ssa.Value]bool{}
	forEachInstr(fn, func(b *ssa.BasicBlock, ins ssa.Instruction) {
		c, ok := ins.(*ssa.Call)
		if !ok {
			return
		}
		bi, ok := c.Call.Value.(*ssa.Builtin)
		if !ok || bi.Name() != "append" || len(c.Call.Args) < 2 {
			return
		}
		sl, ok := c.Type().Underlying().(*types.Slice)
		if !ok || !typeIs(sl.Elem(), modPath+"/internal/model", "Field") {
			return
		}
		if vs, ok := c.Call.Args[1].(*ssa.Slice); ok {
			if al, ok := vs.X.(*ssa.Alloc); ok {
				for _, ref := range *al.Referrers() {
					if ia, ok := ref.(*ssa.IndexAddr); ok {
						for _, r2 := range *ia.Referrers() {
							if st, ok := r2.(*ssa.Store); ok {
								out[stripIdentity(st.Val)] = true
							}
						}
					}
				}
			}
		}
	})
	return out
}

// entersFieldsThroughHelper: the collector keeps its name set in a record (or hands the set to a helper) and enters every field
// it appends through a helper of the parse phase: some call passes an appended field to a function whose parameter is entered -
// itself, or under its Name - into a `fields` namespace. Whether that insertion is guarded is decided at the insertion.
func entersFieldsThroughHelper(w *World, fn *ssa.Function, phase []*ssa.Function) bool {
	inPhase := map[*ssa.Function]bool{}
	for _, f := range phase {
		inPhase[f] = true
	}
	appended := appendedFields(fn)
	found := false
	forEachInstr(fn, func(_ *ssa.BasicBlock, ins ssa.Instruction) {
		c, ok := ins.(*ssa.Call)
		if !ok || found || c.Call.IsInvoke() {
			return
		}
		g := soleCallee(c)
		if g == nil || g == fn || !inPhase[g] || len(c.Call.Args) != len(g.Params) {
			return
		}
		forEachInstr(g, func(_ *ssa.BasicBlock, i2 ssa.Instruction) {
			mu, ok := i2.(*ssa.MapUpdate)
			if !ok || namespaceOf(w, g, mu.Map) != "fields" {
				return
			}
			// the entered value is a parameter of the helper, or the key is that parameter's name
			pi := paramIndexOf(g, mu.Value)
			if pi < 0 {
				if ld, ok := stripIdentity(mu.Key).(*ssa.UnOp); ok && ld.Op == token.MUL {
					if fa, ok := ld.X.(*ssa.FieldAddr); ok {
						pi = paramIndexOf(g, fa.X)
					}
				}
			}
			if pi < 0 || !isFieldPtr(c.Call.Args[pi].Type()) {
				return
			}
			if len(appended) > 0 && !appended[stripIdentity(c.Call.Args[pi])] {
				return
			}
			found = true
		})
	})
	return found
}

// nsGuardedAtCallSites: fn inserts (key derived from one of its parameters) into a name set kept in a record; every call site of fn
// in the parse phase is dominated by the not-present edge of a membership predicate on the same set and the same name, whose present
// edge reports a diagnostic.
func nsGuardedAtCallSites(w *World, fn *ssa.Function, mu *ssa.MapUpdate, phase []*ssa.Function) string {
	mapKey := structFieldKey(mu.Map)
	if mapKey == "" {
		return ""
	}
	// the key: parameter p itself, or p.Name
	pidx, suffix := -1, ""
	k := stripIdentity(mu.Key)
	for i, p := range fn.Params {
		if k == ssa.Value(p) {
			pidx = i
		}
		if ld, ok := k.(*ssa.UnOp); ok {
			if fa, ok := ld.X.(*ssa.FieldAddr); ok && stripIdentity(fa.X) == ssa.Value(p) {
				_, f, _, _ := fieldOf(fa)
				pidx, suffix = i, "."+f
			}
		}
	}
	if pidx < 0 {
		return ""
	}
	desc := func(v ssa.Value, suffix string) string {
		v = stripIdentity(v)
		if suffix == "" {
			// x.Name -> "<value id>.Name"
			if ld, ok := v.(*ssa.UnOp); ok {
				if fa, ok := ld.X.(*ssa.FieldAddr); ok {
					_, f, _, _ := fieldOf(fa)
					return fmt.Sprintf("%p.%s", stripIdentity(fa.X), f)
				}
			}
			return fmt.Sprintf("%p", v)
		}
		return fmt.Sprintf("%p%s", v, suffix)
	}
	// membership predicates: bool functions returning the comma-ok of a lookup in the same set keyed by a parameter
	type pred struct {
		fn   *ssa.Function
		pidx int
	}
	var preds []pred
	for _, q := range phase {
		res := q.Signature.Results()
		if res.Len() != 1 || !types.Identical(res.At(0).Type().Underlying(), types.Typ[types.Bool]) {
			continue
		}
		forEachInstr(q, func(_ *ssa.BasicBlock, ins ssa.Instruction) {
			lk, ok := ins.(*ssa.Lookup)
			if !ok || !lk.CommaOk || structFieldKey(lk.X) != mapKey {
				return
			}
			for i, p := range q.Params {
				if stripIdentity(lk.Index) == ssa.Value(p) {
					preds = append(preds, pred{q, i})
				}
			}
		})
	}
	if len(preds) == 0 {
		return ""
	}
	nSites := 0
	for _, caller := range phase {
		bad := false
		forEachInstr(caller, func(b *ssa.BasicBlock, ins ssa.Instruction) {
			c, ok := ins.(ssa.CallInstruction)
			if !ok || c.Common().StaticCallee() != fn || pidx >= len(c.Common().Args) {
				return
			}
			nSites++
			want := desc(c.Common().Args[pidx], suffix)
			guarded := false
			for _, bb := range caller.Blocks {
				cond := branchCond(bb)
				if cond == nil {
					continue
				}
				neg := false
				cv := cond
				for {
					if u, ok := cv.(*ssa.UnOp); ok && u.Op == token.NOT {
						neg = !neg
						cv = u.X
						continue
					}
					break
				}
				pc, ok := cv.(*ssa.Call)
				if !ok {
					continue
				}
				for _, pr := range preds {
					if pc.Call.StaticCallee() != pr.fn || pr.pidx >= len(pc.Call.Args) {
						continue
					}
					if desc(pc.Call.Args[pr.pidx], "") != want {
						continue
					}
					present, absent := 0, 1
					if neg {
						present, absent = 1, 0
					}
					if !edgeDominates(bb, absent, b) {
						continue
					}
					for _, b3 := range caller.Blocks {
						if edgeDominates(bb, present, b3) {
							for _, i3 := range b3.Instrs {
								if isAddSyntaxError(i3) {
									guarded = true
								}
							}
						}
					}
				}
			}
			if !guarded {
				bad = true
			}
		})
		if bad {
			return ""
		}
	}
	if nSites == 0 {
		return ""
	}
	return "guarded at every call site"
}

// lineSource: where does the Line of the SyntaxError passed to AddSyntaxError come from: "earlier" if it derives from the looked-up entry.
func lineSource(diag ssa.CallInstruction, lk ssa.Value) string {
	args := diag.Common().Args
	viaRoutine := func() string {
		// the record is built by the routine that is called (a reporter made for a position): the line it is handed
		vs := diagPositionValues(diag, "Line")
		for _, v := range vs {
			if derivesFrom(v, lk, 0) {
				return "earlier"
			}
		}
		if len(vs) > 0 {
			return "current"
		}
		return ""
	}
	if len(args) < 2 {
		return viaRoutine()
	}
	al, ok := args[1].(*ssa.Alloc)
	if !ok {
		return viaRoutine()
	}
	for _, ref := range *al.Referrers() {
		fa, ok := ref.(*ssa.FieldAddr)
		if !ok {
			continue
		}
		if _, f, _, _ := fieldOf(fa); f != "Line" {
			continue
		}
		for _, r2 := range *fa.Referrers() {
			st, ok := r2.(*ssa.Store)
			if !ok {
				continue
			}
			if derivesFrom(st.Val, lk, 0) {
				return "earlier"
			}
			return "current"
		}
	}
	return ""
}

func derivesFrom(v ssa.Value, src ssa.Value, depth int) bool {
	if depth > 10 {
		return false
	}
	if v == src {
		return true
	}
	switch x := v.(type) {
	case *ssa.Extract:
		return derivesFrom(x.Tuple, src, depth+1)
	case *ssa.Field:
		return derivesFrom(x.X, src, depth+1)
	case *ssa.FieldAddr:
		return derivesFrom(x.X, src, depth+1)
	case *ssa.UnOp:
		return derivesFrom(x.X, src, depth+1)
	case *ssa.ChangeType:
		return derivesFrom(x.X, src, depth+1)
	case *ssa.Lookup:
		if l2, ok := src.(*ssa.Lookup); ok && x != l2 && mapDesc(x.X) == mapDesc(l2.X) && sameKey(x.Index, l2.Index) {
			return true
		}
	}
	return false
}

// fieldCollectors: model-visitor functions that append declared fields (results of the VisitField* routines) to a field list.
// appendsFieldParam: the parameter indices of fn whose *model.Field value fn appends to a slice (a "declare" helper).
func appendsFieldParam(fn *ssa.Function) map[int]bool {
	out := map[int]bool{}
	forEachInstr(fn, func(b *ssa.BasicBlock, ins ssa.Instruction) {
		c, ok := ins.(*ssa.Call)
		if !ok {
			return
		}
		bi, ok := c.Call.Value.(*ssa.Builtin)
		if !ok || bi.Name() != "append" || len(c.Call.Args) < 2 {
			return
		}
		sl, ok := c.Type().Underlying().(*types.Slice)
		if !ok || !typeIs(sl.Elem(), modPath+"/internal/model", "Field") {
			return
		}
		// appended element(s): the variadic slice's stores
		if vs, ok := c.Call.Args[1].(*ssa.Slice); ok {
			if al, ok := vs.X.(*ssa.Alloc); ok {
				for _, ref := range *al.Referrers() {
					if ia, ok := ref.(*ssa.IndexAddr); ok {
						for _, r2 := range *ia.Referrers() {
							if st, ok := r2.(*ssa.Store); ok {
								for i, p := range fn.Params {
									if stripIdentity(st.Val) == ssa.Value(p) {
										out[i] = true
									}
								}
							}
						}
					}
				}
			}
		}
	})
	return out
}

func fieldCollectors(w *World) []*ssa.Function {
	var out []*ssa.Function
	phase := parsePhaseFuncs(w)
	for _, fn := range phase {
		if recvNamedCore(fn) != "PacketDslVisitorImpl" {
			continue
		}
		collects := false
		forEachInstr(fn, func(b *ssa.BasicBlock, ins ssa.Instruction) {
			c, ok := ins.(*ssa.Call)
			if !ok {
				return
			}
			if g := c.Call.StaticCallee(); g != nil && g.Pkg == w.Parser && g.Blocks != nil {
				// hands a declared field to a helper that appends it to the list of fields
				for i := range appendsFieldParam(g) {
					if i < len(c.Call.Args) && isFieldPtr(c.Call.Args[i].Type()) {
						collects = true
					}
				}
				return
			}
			bi, ok := c.Call.Value.(*ssa.Builtin)
			if !ok || bi.Name() != "append" {
				return
			}
			sl, ok := c.Type().Underlying().(*types.Slice)
			if !ok || !typeIs(sl.Elem(), modPath+"/internal/model", "Field") {
				return
			}
			collects = true
		})
		if collects {
			out = append(out, fn)
		}
	}
	return out
}

// collectorCluster: the collector, its direct callers in the parse phase and the helpers those call - the routines that together
// handle one packet body. Other collectors and visitor methods of other grammar rules are not entered.
func collectorCluster(w *World, col *ssa.Function, cols []*ssa.Function) []*ssa.Function {
	isCol := map[*ssa.Function]bool{}
	for _, c := range cols {
		isCol[c] = true
	}
	phase := map[*ssa.Function]bool{}
	for _, f := range parsePhaseFuncs(w) {
		phase[f] = true
	}
	seen := map[*ssa.Function]bool{col: true}
	roots := []*ssa.Function{col}
	for f := range phase {
		if isCol[f] {
			continue
		}
		forEachInstr(f, func(_ *ssa.BasicBlock, ins ssa.Instruction) {
			if c, ok := ins.(ssa.CallInstruction); ok && c.Common().StaticCallee() == col && !seen[f] {
				seen[f] = true
				roots = append(roots, f)
			}
		})
	}
	stack := append([]*ssa.Function{}, roots...)
	for len(stack) > 0 {
		f := stack[len(stack)-1]
		stack = stack[:len(stack)-1]
		forEachInstr(f, func(_ *ssa.BasicBlock, ins ssa.Instruction) {
			c, ok := ins.(ssa.CallInstruction)
			if !ok {
				return
			}
			g := c.Common().StaticCallee()
			if g == nil || seen[g] || !phase[g] || isCol[g] || strings.HasPrefix(g.Name(), "Visit") {
				return
			}
			seen[g] = true
			stack = append(stack, g)
		})
	}
	out := sortedFuncs(seen)
	return out
}

// collectorRules: every field collector (a) diagnoses a length-of field it may not hold (or is the root collector that links it)
// and (b) links match fields to their key field through a checked lookup. Sibling rule over the collectors.
func collectorRules(w *World, r *Report, ruleLen, ruleLink string) {
	cols := fieldCollectors(w)
	if len(cols) < 2 {
		r.fail(ruleLink, "field collectors found", "internal/parser/packet_dsl_parser.go", fmt.Sprintf("expected the packet and inline-object collectors, found %d", len(cols)))
	}
	for _, col := range cols {
		fn := col
		cluster := collectorCluster(w, col, cols)
		// (a) a checked assertion to *LengthFieldAttribute whose ok edge reaches AddSyntaxError
		lenDiag := false
		for _, fn := range cluster {
			for _, b := range fn.Blocks {
				iff, ok := b.Instrs[len(b.Instrs)-1].(*ssa.If)
				if !ok {
					continue
				}
				ex, ok := iff.Cond.(*ssa.Extract)
				if !ok || ex.Index != 1 {
					continue
				}
				ta, ok := ex.Tuple.(*ssa.TypeAssert)
				if !ok || !ta.CommaOk || modelTypeName(ta.AssertedType) != "LengthFieldAttribute" {
					continue
				}
				// ... directly, or as a judgement that the one report site of the routine files
				if len(edgeReports(b, 0)) > 0 {
					lenDiag = true
				}
			}
		}
		if ruleLen != "" {
			key := fnKey(fn) + " diagnoses a length-of field it must not hold"
			if lenDiag {
				r.pass(ruleLen, key, w.pos(fn.Pos()), "")
			} else {
				r.fail(ruleLen, key, w.pos(fn.Pos()), "this routine collects declared fields but never tests for a length-of field: `@lengthOf` outside the root packet (e.g. inside an inline object) is accepted, its placeholder is emitted and never back-patched")
			}
		}
		// (b) MatchKeyField assigned from a found lookup
		if ruleLink != "" {
			linked := false
			for _, fn := range cluster {
				tests := membershipTests(fn)
				forEachInstr(fn, func(b *ssa.BasicBlock, ins ssa.Instruction) {
					st, ok := ins.(*ssa.Store)
					if !ok {
						return
					}
					fa, ok := st.Addr.(*ssa.FieldAddr)
					if !ok {
						return
					}
					if tn, f, _, _ := fieldOf(fa); tn != "MatchFieldAttribute" || f != "MatchKeyField" {
						return
					}
					if ex, ok := stripIdentity(st.Val).(*ssa.Extract); ok {
						if lk, ok := ex.Tuple.(*ssa.Lookup); ok && lk.CommaOk {
							for _, t := range tests {
								if t.lookup == lk && edgeDominates(t.branch, t.presentSucc, b) {
									linked = true
								}
							}
						}
					}
					// ... or the entry a resolver (a helper returning (entry, found) of its lookup) found, under the found edge
					if foundLookupValue(fn, st.Val, b) != nil {
						linked = true
					}
				})
			}
			key := fnKey(fn) + " links match fields to their key field"
			if linked {
				r.pass(ruleLink, key, w.pos(fn.Pos()), "")
			} else {
				r.fail(ruleLink, key, w.pos(fn.Pos()), "this routine collects declared fields (a match field among them is grammatical) but never replaces the key-field placeholder by the declared field: generators dereference the placeholder's missing attribute")
			}
		}
	}
}

// ---- live diagnostics ----

func c12Live(w *World, r *Report) {
	const rule = "C12/live-diagnostic"
	for _, fn := range parsePhaseFuncs(w) {
		tests := membershipTests(fn)
		n := 0
		forEachInstr(fn, func(b *ssa.BasicBlock, ins ssa.Instruction) {
			if !isAddSyntaxError(ins) {
				return
			}
			n++
			key := fmt.Sprintf("%s diagnostic#%d", fnKey(fn), n)
			if msg := diagMessage(ins.(ssa.CallInstruction)); msg != "" {
				key = fmt.Sprintf("%s diagnostic %q", fnKey(fn), msg)
			}
			dead := ""
			for _, t := range tests {
				if !edgeDominates(t.branch, t.presentSucc, b) {
					continue
				}
				mm, isMake := valueRoot(t.lookup.X).(*ssa.MakeMap)
				if !isMake {
					continue
				}
				written := false
				escapes := false
				for _, ref := range *mm.Referrers() {
					switch ref.(type) {
					case *ssa.MapUpdate:
						written = true
					case *ssa.Lookup, *ssa.DebugRef:
					default:
						escapes = true
					}
				}
				if !written && !escapes {
					dead = "reachable only when a key is found in a local map that is never written: this diagnostic can never fire"
				}
			}
			if dead != "" {
				r.fail(rule, key, w.instrPos(ins), dead)
			} else {
				r.pass(rule, key, w.instrPos(ins), "")
			}
		})
	}
	r.floor(rule, 8)
}

func diagMessage(c ssa.CallInstruction) string {
	args := c.Common().Args
	if len(args) < 2 {
		return ""
	}
	al, ok := args[1].(*ssa.Alloc)
	if !ok {
		return ""
	}
	for _, ref := range *al.Referrers() {
		fa, ok := ref.(*ssa.FieldAddr)
		if !ok {
			continue
		}
		if _, f, _, _ := fieldOf(fa); f != "Msg" {
			continue
		}
		for _, r2 := range *fa.Referrers() {
			if st, ok := r2.(*ssa.Store); ok {
				return leadingConst(st.Val)
			}
		}
	}
	return ""
}

func leadingConst(v ssa.Value) string {
	for i := 0; i < 8; i++ {
		if s, ok := constString(v); ok {
			return strings.TrimSpace(s)
		}
		bo, ok := v.(*ssa.BinOp)
		if !ok {
			return ""
		}
		v = bo.X
	}
	return ""
}

// ---- checked resolution ----

func c12Resolution(w *World, r *Report) {
	const rule = "C12/resolution"
	type want struct {
		name, mapd, key string
	}
	wants := []want{
		{"packet type of an object field", ".PacketsMap", "ObjectFieldAttribute.PacketName"},
		{"packet named by a match pair", ".PacketsMap", "MatchPair.Value"},
		{"key field of a match", "", "MatchFieldAttribute.MatchKeyField.Name"},
		{"target field of @lengthOf", "", "LengthFieldAttribute.TragetField.Name"},
		{"type of a MetaData reference entry", ".MetaDataMap", ".GetTyp().GetText()"},
	}
	funcs := parsePhaseFuncs(w)
	for _, wn := range wants {
		found := false
		checked := false
		pos := ""
		unchecked := ""
		for _, fn := range funcs {
			tests := membershipTests(fn)
			// every routine that tests the name for presence reports the miss (two routines collect fields: each validates its own)
			testedHere, checkedHere, posHere := false, false, ""
			forEachInstr(fn, func(b *ssa.BasicBlock, ins ssa.Instruction) {
				lk, ok := ins.(*ssa.Lookup)
				if !ok {
					return
				}
				if _, isMap := lk.X.Type().Underlying().(*types.Map); !isMap {
					return
				}
				if wn.mapd != "" && mapDesc(lk.X) != wn.mapd {
					return
				}
				kp := keyPath(lk.Index)
				if kp != wn.key && strings.TrimPrefix(kp, ".") != strings.TrimPrefix(wn.key, ".") {
					// the lookup sits in a helper that is handed the name (a `resolve` method of the record that holds the table, a
					// closure, a function taking the table): the name is what the call sites pass, the miss is reported in the helper
					// or, when the helper returns (entry, found), at the call site
					if paramIndexOf(fn, lk.Index) < 0 {
						return
					}
					for _, kb := range lookupKeyBindings(lk, funcs) {
						if kb.site == nil {
							continue
						}
						bk := keyPath(kb.key)
						if bk != wn.key && strings.TrimPrefix(bk, ".") != strings.TrimPrefix(wn.key, ".") {
							continue
						}
						found = true
						if pos == "" {
							pos = w.instrPos(kb.site)
						}
						tested, chk := missDiagnosed(lk, kb)
						if chk {
							checked = true
						}
						if tested && !chk && unchecked == "" {
							unchecked = fnKey(kb.site.Parent()) + " (" + w.instrPos(kb.site) + ")"
						}
					}
					return
				}
				found = true
				if pos == "" {
					pos = w.instrPos(ins)
				}
				for _, t := range tests {
					if t.lookup != lk {
						continue
					}
					testedHere = true
					if posHere == "" {
						posHere = w.instrPos(ins)
					}
					// the miss edge rejects the input: a diagnostic is recorded behind it, or the routine returns behind it the
					// complaint that every caller records when it is not empty (diagnosticBlocks)
					for _, bb := range w.diagnosticBlocks(fn) {
						if edgeDominates(t.branch, 1-t.presentSucc, bb) {
							checked = true
							checkedHere = true
						}
					}
				}
			})
			if testedHere && !checkedHere && unchecked == "" {
				unchecked = fnKey(fn) + " (" + posHere + ")"
			}
		}
		key := "unknown " + wn.name + " is diagnosed"
		switch {
		case found && checked && unchecked != "":
			r.fail(rule, key, pos, "the "+wn.name+" is tested for presence in "+unchecked+" but the miss edge there reaches no AddSyntaxError: an undeclared name written in that construct is accepted (and crashes later)")
		case !found:
			r.fail(rule, key, "internal/parser/packet_dsl_parser.go", "no lookup resolving the "+wn.name+" found in parse-phase code (never resolved, hence never validated)")
		case !checked:
			r.fail(rule, key, pos, "the lookup that resolves the "+wn.name+" has no miss edge that reaches AddSyntaxError: an undeclared name is accepted (and crashes later)")
		default:
			r.pass(rule, key, pos, "")
		}
	}
	// @lengthOf placement: two guarded diagnostics under the LengthFieldAttribute test, each skipping the field
	theWorld = w
	kinds := map[string]bool{}
	var vpd *ssa.Function
	for _, col := range fieldCollectors(w) {
		c12Placement(w, col, kinds)
		if vpd == nil || len(kinds) > 0 && vpd == nil {
			vpd = col
		}
	}
	if vpd == nil {
		r.fail(rule, "@lengthOf placement diagnostics", "internal/parser/packet_dsl_parser.go", "no routine collecting declared fields found in the parse phase")
		return
	}
	for _, k := range []string{"outside-root", "declared-twice"} {
		key := "@lengthOf " + k + " is diagnosed and the field skipped"
		if kinds[k] {
			r.pass(rule, key, w.pos(vpd.Pos()), "")
		} else {
			r.fail(rule, key, w.pos(vpd.Pos()), fmt.Sprintf("no AddSyntaxError for a length-of field %s that also skips the field (found: %v)", k, sortedBoolKeys(kinds)))
		}
	}
}

func sortedBoolKeys(m map[string]bool) []string {
	var out []string
	for k := range m {
		out = append(out, k)
	}
	sort.Strings(out)
	return out
}

var theWorld *World

// c12Placement: the guarded diagnostics under the LengthFieldAttribute test of one field collector, each skipping the field.
func c12Placement(w *World, vpd *ssa.Function, kinds map[string]bool) {
	c12PlacementD(w, vpd, kinds, 0)
}

func c12PlacementD(w *World, vpd *ssa.Function, kinds map[string]bool, depth int) {
	var lenTestBlock *ssa.BasicBlock
	for _, b := range vpd.Blocks {
		iff, ok := b.Instrs[len(b.Instrs)-1].(*ssa.If)
		if !ok {
			continue
		}
		if kindTestOf(iff.Cond, 0) == "LengthFieldAttribute" {
			lenTestBlock = b
			break
		}
	}
	if lenTestBlock == nil {
		// the collector only walks the declarations and hands each field to a routine that accepts or rejects it (a `declare`
		// method of the record that holds the list): the kind test, the diagnostics and the append are all there - a diagnostic
		// that does not reach the append in that routine skips the field
		if depth < 2 {
			seen := map[*ssa.Function]bool{}
			forEachInstr(vpd, func(_ *ssa.BasicBlock, ins ssa.Instruction) {
				c, ok := ins.(*ssa.Call)
				if !ok {
					return
				}
				g := c.Call.StaticCallee()
				if g == nil || g == vpd || seen[g] || g.Pkg != w.Parser || g.Blocks == nil {
					return
				}
				for i := range appendsFieldParam(g) {
					if i < len(c.Call.Args) && isFieldPtr(c.Call.Args[i].Type()) && !seen[g] {
						seen[g] = true
						c12PlacementD(w, g, kinds, depth+1)
					}
				}
			})
		}
		return
	}
	var appendCall ssa.Instruction
	forEachInstr(vpd, func(b *ssa.BasicBlock, ins ssa.Instruction) {
		if c, ok := ins.(*ssa.Call); ok {
			if bi, ok := c.Call.Value.(*ssa.Builtin); ok && bi.Name() == "append" {
				if sl, ok := c.Type().Underlying().(*types.Slice); ok && typeIs(sl.Elem(), modPath+"/internal/model", "Field") && appendCall == nil {
					appendCall = ins
				}
			}
			// ... or hands the field to a helper that appends it
			if g := c.Call.StaticCallee(); g != nil && g.Pkg == w.Parser && g.Blocks != nil && appendCall == nil {
				for i := range appendsFieldParam(g) {
					if i < len(c.Call.Args) && isFieldPtr(c.Call.Args[i].Type()) {
						appendCall = ins
					}
				}
			}
		}
	})
	// the diagnostics live in a helper that says, by its bool result, whether the field may stay: every diagnostic in the helper is
	// followed by `return false` only, and in the collector the false edge of the call's result does not reach the append
	for _, b := range vpd.Blocks {
		if !edgeDominates(lenTestBlock, 0, b) {
			continue
		}
		for _, ins := range b.Instrs {
			c, ok := ins.(*ssa.Call)
			if !ok {
				continue
			}
			h := c.Call.StaticCallee()
			if h == nil || h.Pkg != w.Parser || h.Blocks == nil || h == vpd {
				continue
			}
			if rs := h.Signature.Results(); rs.Len() != 1 || !isBoolType(rs.At(0).Type()) {
				continue
			}
			// where does the collector go when the helper says no?
			skips := false
			if c.Referrers() != nil {
				for _, ref := range *c.Referrers() {
					iff, ok := ref.(*ssa.If)
					if !ok {
						continue
					}
					from := iff.Block().Succs[1]
					skips = appendCall == nil || !(from == appendCall.Block() || reachesWithin2(from, appendCall, lenTestBlock))
				}
			}
			for _, hb := range h.Blocks {
				for _, hi := range hb.Instrs {
					if !isAddSyntaxError(hi) {
						continue
					}
					// every return that follows the diagnostic is `return false`
					allFalse := true
					seen := map[*ssa.BasicBlock]bool{}
					stack := []*ssa.BasicBlock{hb}
					for len(stack) > 0 {
						x := stack[len(stack)-1]
						stack = stack[:len(stack)-1]
						if seen[x] {
							continue
						}
						seen[x] = true
						if ret, ok := x.Instrs[len(x.Instrs)-1].(*ssa.Return); ok {
							k, isConst := ret.Results[0].(*ssa.Const)
							if !isConst || k.Value == nil || constant.BoolVal(k.Value) {
								allFalse = false
							}
						}
						stack = append(stack, x.Succs...)
					}
					kind := "other"
					for _, bb := range h.Blocks {
						cond := branchCond(bb)
						if cond == nil || !(edgeDominates(bb, 0, hb) || edgeDominates(bb, 1, hb)) {
							continue
						}
						if v, _, ok := nilTest(cond); ok && typeIs(v.Type(), modPath+"/internal/model", "Field") {
							kind = "declared-twice"
						} else if dependsOnROOT(cond, 0) {
							kind = "outside-root"
						}
					}
					if skips && allFalse {
						kinds[kind] = true
					} else {
						kinds[kind+"(not skipped)"] = true
					}
				}
			}
		}
	}
	for _, b := range vpd.Blocks {
		if !edgeDominates(lenTestBlock, 0, b) {
			continue
		}
		for _, ins := range b.Instrs {
			if !isAddSyntaxError(ins) {
				continue
			}
			// which guard? control-dependent on a ROOT()-derived bool or on a *Field nil test
			kind := "other"
			for _, bb := range vpd.Blocks {
				cond := branchCond(bb)
				if cond == nil || !(edgeDominates(bb, 0, b) || edgeDominates(bb, 1, b)) {
					continue
				}
				if v, _, ok := nilTest(cond); ok && typeIs(v.Type(), modPath+"/internal/model", "Field") {
					kind = "declared-twice"
				} else if dependsOnROOT(cond, 0) {
					kind = "outside-root"
				}
			}
			skips := appendCall == nil || !reachesWithin(b, appendCall, lenTestBlock)
			// one diagnostic whose message a helper chose: "why can this packet not take a length field" - the helper's non-empty
			// results are the diagnostics, its guards say which offence each one names
			var viaHelper []string
			if kind == "other" {
				viaHelper = placementKindsOfHelper(w, ins)
			}
			if len(viaHelper) > 0 {
				for _, k := range viaHelper {
					if skips {
						kinds[k] = true
					} else {
						kinds[k+"(not skipped)"] = true
					}
				}
				continue
			}
			if skips {
				kinds[kind] = true
			} else {
				kinds[kind+"(not skipped)"] = true
			}
		}
	}
}

// kindTestOf: cond is true exactly when a value's Attr is of one model attribute kind - the ok of a checked type assertion, or the
// bool a parser-package helper returns for such an ok (`attr, ok := asLengthField(f)`, `isLengthField(f)`). Returns the kind's name.
func kindTestOf(cond ssa.Value, depth int) string {
	if depth > 3 {
		return ""
	}
	switch x := cond.(type) {
	case *ssa.Extract:
		if ta, ok := x.Tuple.(*ssa.TypeAssert); ok {
			if x.Index == 1 && ta.CommaOk {
				return modelTypeName(ta.AssertedType)
			}
			return ""
		}
		if c, ok := x.Tuple.(*ssa.Call); ok {
			return kindTestOfResult(c, x.Index, depth)
		}
	case *ssa.Call:
		return kindTestOfResult(x, 0, depth)
	}
	return ""
}

func kindTestOfResult(c *ssa.Call, idx int, depth int) string {
	h := c.Call.StaticCallee()
	if h == nil || h.Blocks == nil || theWorld == nil || h.Pkg != theWorld.Parser {
		return ""
	}
	kind := ""
	for _, b := range h.Blocks {
		ret, ok := b.Instrs[len(b.Instrs)-1].(*ssa.Return)
		if !ok || idx >= len(ret.Results) || !isBoolType(ret.Results[idx].Type()) {
			continue
		}
		k := kindTestOf(ret.Results[idx], depth+1)
		if k == "" || (kind != "" && kind != k) {
			return ""
		}
		kind = k
	}
	return kind
}

func dependsOnROOT(v ssa.Value, depth int) bool {
	if depth > 8 {
		return false
	}
	switch x := v.(type) {
	case *ssa.Parameter:
		// a flag handed in by the callers: some caller derives it from ROOT()
		fn := x.Parent()
		if fn == nil || theWorld == nil {
			return false
		}
		n := theWorld.CallGraph().Nodes[fn]
		if n == nil {
			return false
		}
		for i, q := range fn.Params {
			if q != x {
				continue
			}
			for _, e := range n.In {
				if e.Site != nil && !e.Site.Common().IsInvoke() && i < len(e.Site.Common().Args) && dependsOnROOT(e.Site.Common().Args[i], depth+1) {
					return true
				}
			}
		}
		return false
	case *ssa.Extract:
		return dependsOnROOT(x.Tuple, depth+1)
	case *ssa.Call:
		if f := x.Call.StaticCallee(); f != nil && f.Name() == "ROOT" {
			return true
		}
		if x.Call.IsInvoke() && x.Call.Method.Name() == "ROOT" {
			return true
		}
	case *ssa.BinOp:
		return dependsOnROOT(x.X, depth+1) || dependsOnROOT(x.Y, depth+1)
	case *ssa.UnOp:
		if x.Op == token.MUL {
			if fa, ok := x.X.(*ssa.FieldAddr); ok {
				tn, f, _, _ := fieldOf(fa)
				if tn == "Packet" && f == "IsRoot" {
					return true // the model's record of the `root` keyword
				}
				// a member of a record of the parser's own: what is stored there, anywhere
				if theWorld != nil && isBoolType(x.Type()) {
					found := false
					for _, g := range theWorld.allFuncsInRepo() {
						if g.Pkg != theWorld.Parser || found {
							continue
						}
						forEachInstr(g, func(_ *ssa.BasicBlock, ins ssa.Instruction) {
							st, ok := ins.(*ssa.Store)
							if !ok || found {
								return
							}
							fa2, ok := st.Addr.(*ssa.FieldAddr)
							if !ok {
								return
							}
							if tn2, f2, _, _ := fieldOf(fa2); tn2 == tn && f2 == f && dependsOnROOT(st.Val, depth+1) {
								found = true
							}
						})
					}
					return found
				}
			}
		}
		return dependsOnROOT(x.X, depth+1)
	case *ssa.Phi:
		for _, e := range x.Edges {
			if dependsOnROOT(e, depth+1) {
				return true
			}
		}
	case *ssa.MakeInterface:
		return dependsOnROOT(x.X, depth+1)
	}
	return false
}

// reachesWithin2: like reachesWithin, but starting at block from itself (not at its successors).
func reachesWithin2(from *ssa.BasicBlock, target ssa.Instruction, stop *ssa.BasicBlock) bool {
	if from == target.Block() {
		return true
	}
	if from == stop {
		return false
	}
	return reachesWithin(from, target, stop)
}

func isBoolType(t types.Type) bool {
	b, ok := t.Underlying().(*types.Basic)
	return ok && b.Info()&types.IsBoolean != 0
}

// reachesWithin: can control flow from b reach target without passing through stop (the per-iteration test block)?
func reachesWithin(from *ssa.BasicBlock, target ssa.Instruction, stop *ssa.BasicBlock) bool {
	seen := map[*ssa.BasicBlock]bool{}
	stack := append([]*ssa.BasicBlock{}, from.Succs...)
	for len(stack) > 0 {
		b := stack[len(stack)-1]
		stack = stack[:len(stack)-1]
		if seen[b] || b == stop {
			continue
		}
		seen[b] = true
		if b == target.Block() {
			return true
		}
		if noReturnBlock(b) {
			continue
		}
		stack = append(stack, b.Succs...)
	}
	return false
}

// ---- order of same-namespace declarations ----

func c12Order(w *World, r *Report) {
	const rule = "C12/source-order"
	// contexts whose interleaved alternatives feed one namespace: visiting them by separate AllX() passes loses their relative order
	sameNS := map[string]string{
		"MetaDataDefinitionContext": "metaDataDeclaration and refMetaDataDeclaration both insert into MetaDataMap (duplicate detection and reference resolution depend on order)",
		"ListContext":               "DIGITS and STRING keys of one list become one ordered pair list",
	}
	ctxs := w.ctxTable()
	funcs := parsePhaseFuncs(w)
	for _, ctxName := range sortedKeys(sameNS) {
		ci := ctxs[ctxName]
		if ci == nil || len(ci.Interleaved) == 0 {
			r.fail(rule, ctxName, "grammar/PacketDsl.g4", "frozen interleaved context no longer has an alternation inside a repetition in the grammar")
			continue
		}
		for _, fn := range funcs {
			used := map[string]bool{}
			pos := ""
			forEachInstr(fn, func(b *ssa.BasicBlock, ins ssa.Instruction) {
				c, ok := ins.(*ssa.Call)
				if !ok {
					return
				}
				_, ai, ok := w.accessorOf(c, ctxs)
				if !ok || ai.Ctx != ctxName || !strings.HasSuffix(ai.What, "*") {
					return
				}
				child := strings.TrimSuffix(ai.What, "*")
				for _, set := range ci.Interleaved {
					for _, s := range set {
						if s == child {
							used[child] = true
							if pos == "" {
								pos = w.instrPos(ins)
							}
						}
					}
				}
			})
			if len(used) == 0 {
				continue
			}
			key := fmt.Sprintf("%s visits %s in source order", fnKey(fn), ctxName)
			if len(used) >= 2 {
				r.fail(rule, key, pos, "reads the interleaved alternatives "+strings.Join(sortedBoolKeys(used), ", ")+" through separate All*() calls: their relative order in the source is lost ("+sameNS[ctxName]+")")
			} else {
				r.pass(rule, key, pos, "only one alternative read via All*()")
			}
		}
	}
	// the MetaData block must be walked child by child somewhere
	walked := false
	for _, fn := range funcs {
		forEachInstr(fn, func(b *ssa.BasicBlock, ins ssa.Instruction) {
			c, ok := ins.(ssa.CallInstruction)
			if !ok {
				return
			}
			cc := c.Common()
			if cc.IsInvoke() && cc.Method.Name() == "GetChildren" && grammarCtxName(cc.Value.Type()) == "MetaDataDefinitionContext" {
				walked = true
			}
			if f := cc.StaticCallee(); f != nil && f.Name() == "GetChildren" && len(cc.Args) > 0 {
				v := cc.Args[0]
				for i := 0; i < 6; i++ {
					if grammarCtxName(v.Type()) == "MetaDataDefinitionContext" {
						walked = true
					}
					fa, ok := v.(*ssa.FieldAddr)
					if !ok {
						break
					}
					v = fa.X
				}
			}
		})
	}
	if walked {
		r.pass(rule, "MetaData entries walked child by child", "internal/parser/packet_dsl_parser.go", "")
	} else {
		r.fail(rule, "MetaData entries walked child by child", "internal/parser/packet_dsl_parser.go", "no GetChildren() walk over a MetaData block in the model visitor: entries are not processed in source order")
	}
}

// ---- option table ----

func c12Options(w *World, r *Report) {
	const rule = "C12/option-table"
	mp := w.ByPath[modPath+"/internal/model"]
	if mp == nil {
		r.fatal("model package not loaded")
		return
	}
	table := map[string][]string{}
	foundTable := false
	for _, f := range mp.Syntax {
		ast.Inspect(f, func(n ast.Node) bool {
			vs, ok := n.(*ast.ValueSpec)
			if !ok || len(vs.Names) != 1 || len(vs.Values) != 1 {
				return true
			}
			cl, ok := vs.Values[0].(*ast.CompositeLit)
			if !ok {
				return true
			}
			// the option table: a package-level map[string][]string (whatever it is called)
			if tv, ok := mp.TypesInfo.Types[cl]; !ok || tv.Type == nil || tv.Type.Underlying().String() != "map[string][]string" {
				return true
			}
			foundTable = true
			for _, el := range cl.Elts {
				kv, ok := el.(*ast.KeyValueExpr)
				if !ok {
					continue
				}
				ktv := mp.TypesInfo.Types[kv.Key]
				if ktv.Value == nil {
					continue
				}
				k := constant.StringVal(ktv.Value)
				table[k] = []string{}
				if vl, ok := kv.Value.(*ast.CompositeLit); ok {
					for _, ve := range vl.Elts {
						if tv := mp.TypesInfo.Types[ve]; tv.Value != nil {
							table[k] = append(table[k], constant.StringVal(tv.Value))
						}
					}
				}
			}
			return false
		})
	}
	if !foundTable {
		// the table kept as a list of rows {name, allowed values, ...} that is searched by name
		for _, kt := range w.keyedListTables() {
			rows := w.tableRows(kt.g)
			t2 := map[string][]string{}
			okAll := len(rows) > 0
			for _, row := range rows {
				k, okK := constString(row[kt.keyField])
				if row[kt.keyField] == nil || !okK {
					okAll = false
					break
				}
				t2[k] = []string{}
				if lv := row[kt.listField]; lv != nil {
					vals, okL := w.listConstsOf(lv)
					if !okL {
						okAll = false
						break
					}
					t2[k] = append(t2[k], vals...)
				}
			}
			if okAll {
				foundTable = true
				for k, v := range t2 {
					table[k] = v
				}
			}
		}
	}
	if !foundTable {
		r.fatal("anchor unresolved: model.options table")
		return
	}
	// option-name constants: exported string constants of package model whose value equals their name
	var consts []string
	scope := mp.Types.Scope()
	for _, n := range scope.Names() {
		if c, ok := scope.Lookup(n).(*types.Const); ok && c.Val().Kind() == constant.String && constant.StringVal(c.Val()) == n {
			consts = append(consts, n)
		}
	}
	nc := w.Model.Func("NewConfiguration")
	consumed := map[string]bool{}
	// a key is consumed by a lookup with that constant, directly or inside a helper that looks up the key it is handed
	var lookupParams func(fn *ssa.Function, depth int) map[int]bool
	lookupParams = func(fn *ssa.Function, depth int) map[int]bool {
		out := map[int]bool{}
		if fn == nil || depth > 3 {
			return out
		}
		idxOf := func(v ssa.Value) int {
			for i, p := range fn.Params {
				if stripIdentity(v) == ssa.Value(p) {
					return i
				}
			}
			return -1
		}
		forEachInstr(fn, func(b *ssa.BasicBlock, ins ssa.Instruction) {
			switch x := ins.(type) {
			case *ssa.Lookup:
				if i := idxOf(x.Index); i >= 0 {
					out[i] = true
				}
			case ssa.CallInstruction:
				if g := x.Common().StaticCallee(); g != nil && pkgOfFunc(g) == w.Model && g != fn {
					for j := range lookupParams(g, depth+1) {
						if j < len(x.Common().Args) {
							if i := idxOf(x.Common().Args[j]); i >= 0 {
								out[i] = true
							}
						}
					}
				}
			}
		})
		return out
	}
	if nc != nil {
		// constant-keyed lookups in NewConfiguration and the model helpers it calls
		seenFn := map[*ssa.Function]bool{nc: true}
		work := []*ssa.Function{nc}
		for i := 0; i < len(work) && i < 32; i++ {
			forEachInstr(work[i], func(_ *ssa.BasicBlock, ins ssa.Instruction) {
				switch x := ins.(type) {
				case *ssa.Lookup:
					if s, ok := constString(x.Index); ok {
						consumed[s] = true
					}
				case ssa.CallInstruction:
					if g := x.Common().StaticCallee(); g != nil && pkgOfFunc(g) == w.Model && g.Blocks != nil && !seenFn[g] {
						seenFn[g] = true
						work = append(work, g)
					}
				}
			})
		}
		for _, cf := range work {
			forEachInstr(cf, func(b *ssa.BasicBlock, ins ssa.Instruction) {
				switch x := ins.(type) {
				case *ssa.Lookup:
					if s, ok := constString(x.Index); ok {
						consumed[s] = true
					}
					// the key member of the current row of a table: every row's key
					for _, kv := range w.columnOf(x.Index) {
						if s, ok := constString(kv); ok {
							consumed[s] = true
						}
					}
				case ssa.CallInstruction:
					if g := x.Common().StaticCallee(); g != nil && pkgOfFunc(g) == w.Model {
						for j := range lookupParams(g, 0) {
							if j < len(x.Common().Args) {
								if s, ok := constString(x.Common().Args[j]); ok {
									consumed[s] = true
								}
							}
						}
					}
				}
			})
		}
	}
	for _, c := range consts {
		_, inTable := table[c]
		switch {
		case !inTable:
			r.fail(rule, "option "+c+" is accepted", "internal/model/model.go", "option constant "+c+" is not a key of the option table: the documented option is rejected as unknown")
		case !consumed[c]:
			r.fail(rule, "option "+c+" is consumed", "internal/model/model.go", "option "+c+" is accepted but NewConfiguration never reads it")
		default:
			r.pass(rule, "option "+c+" is accepted and consumed", "internal/model/model.go", "")
		}
	}
	// acceptance side: pad-character lexemes, prefix spellings, booleans
	padLex := padCharLexemes(w.G4)
	if len(padLex) == 0 {
		r.fail(rule, "PADDING_CHAR lexemes derived", "grammar/PacketDsl.g4", "cannot derive the literal alternatives of PADDING_CHAR from the grammar")
	}
	for _, lx := range padLex {
		key := fmt.Sprintf("FixedStringPadChar accepts %q", lx)
		if contains(table["FixedStringPadChar"], lx) {
			r.pass(rule, key, "internal/model/model.go", "")
		} else {
			r.fail(rule, key, "internal/model/model.go", fmt.Sprintf("the grammar lexes the pad character %s (the documented spelling) but the option table does not list it: `FixedStringPadChar = %s` is rejected (table has %q)", lx, lx, table["FixedStringPadChar"]))
		}
	}
	// every constant that can become a pad character is one of the grammar's quoted spellings (the generators print it verbatim as a
	// character literal of the target language); the raw-NUL form is the parser's own normalisation of '\x00'
	okPad := map[string]bool{"'\x00'": true}
	for _, lx := range padLex {
		okPad[lx] = true
	}
	nPad := 0
	padFuncs := parsePhaseFuncs(w)
	// a default padding written down as a package-level record of the model is built by the package initialiser
	if initFn := w.Model.Func("init"); initFn != nil && initFn.Blocks != nil {
		have := false
		for _, fn := range padFuncs {
			if fn == initFn {
				have = true
			}
		}
		if !have {
			padFuncs = append(padFuncs, initFn)
		}
	}
	for _, fn := range padFuncs {
		forEachInstr(fn, func(b *ssa.BasicBlock, ins ssa.Instruction) {
			st, ok := ins.(*ssa.Store)
			if !ok {
				return
			}
			fa, ok := st.Addr.(*ssa.FieldAddr)
			if !ok {
				return
			}
			if tn, f, _, _ := fieldOf(fa); tn != "Padding" || f != "PadChar" {
				return
			}
			var leaves func(v ssa.Value, d int, out *[]string)
			seen := map[ssa.Value]bool{}
			leaves = func(v ssa.Value, d int, out *[]string) {
				if d > 10 || seen[v] {
					return
				}
				seen[v] = true
				switch x := v.(type) {
				case *ssa.Const:
					if s, ok := constString(x); ok {
						*out = append(*out, s)
					}
				case *ssa.Phi:
					for _, e := range x.Edges {
						leaves(e, d+1, out)
					}
				}
			}
			var consts []string
			leaves(st.Val, 0, &consts)
			for _, c := range consts {
				nPad++
				key := fmt.Sprintf("%s: pad character constant %q is a quoted spelling", fnKey(fn), c)
				if okPad[c] {
					r.pass(rule, key, w.instrPos(ins), "")
				} else {
					r.fail(rule, key, w.instrPos(ins), fmt.Sprintf("the constant %q can become Padding.PadChar, but the generators print the pad character verbatim as a character literal: only the grammar's quoted spellings (%s) are valid there", c, strings.Join(padLex, " ")))
				}
			}
		})
	}
	if nPad == 0 {
		r.fail(rule, "pad character constants found", "internal/model/model.go", "no constant default for Padding.PadChar found in the parse phase")
	}
	spell := map[string]bool{}
	for _, lits := range w.G4.ScalarTokens() {
		for _, l := range lits {
			spell[l] = true
		}
	}
	for _, opt := range []string{"StringPrefixLenType", "ArrayPrefixLenType"} {
		vals := table[opt]
		okAll := len(vals) > 0
		for _, v := range vals {
			if !spell[v] || !strings.HasPrefix(v, "u") {
				okAll = false
			}
		}
		for _, need := range []string{"u8", "u16", "u32", "u64"} {
			if !contains(vals, need) {
				okAll = false
			}
		}
		if okAll {
			r.pass(rule, opt+" accepts the unsigned prefix types", "internal/model/model.go", strings.Join(vals, ","))
		} else {
			r.fail(rule, opt+" accepts the unsigned prefix types", "internal/model/model.go", fmt.Sprintf("allowed values %q are not exactly lexable unsigned type spellings including u8,u16,u32,u64", vals))
		}
	}
	for _, opt := range []string{"LittleEndian", "FixedStringPadFromLeft"} {
		vals := append([]string{}, table[opt]...)
		sort.Strings(vals)
		if strings.Join(vals, ",") == "false,true" {
			r.pass(rule, opt+" accepts true/false", "internal/model/model.go", "")
		} else {
			r.fail(rule, opt+" accepts true/false", "internal/model/model.go", fmt.Sprintf("allowed values %q", vals))
		}
	}
}

func contains(xs []string, s string) bool {
	for _, x := range xs {
		if x == s {
			return true
		}
	}
	return false
}

// padCharLexemes evaluates PADDING_CHAR: '\” ('0' | ' ' | '\\x00') '\” to its literal lexemes.
func padCharLexemes(g *Grammar) []string {
	lr := g.lrule["PADDING_CHAR"]
	if lr == nil {
		return nil
	}
	re := regexp.MustCompile(`'((?:\\.|[^'\\])*)'`)
	parts := re.FindAllStringSubmatchIndex(lr.Raw, -1)
	if len(parts) < 3 {
		return nil
	}
	unesc := func(s string) string {
		s = strings.ReplaceAll(s, `\\`, "\x00BS")
		s = strings.ReplaceAll(s, `\'`, "'")
		s = strings.ReplaceAll(s, "\x00BS", `\`)
		return s
	}
	lits := []string{}
	for _, p := range parts {
		lits = append(lits, unesc(lr.Raw[p[2]:p[3]]))
	}
	// shape: first literal, group of alternatives, last literal
	first, last := lits[0], lits[len(lits)-1]
	var out []string
	for _, mid := range lits[1 : len(lits)-1] {
		out = append(out, first+mid+last)
	}
	return out
}

// placementKindsOfHelper: the diagnostic at ins takes its message from a string-valued repo helper; which placement offences do the
// helper's non-empty results stand for? (a result guarded by a *Field nil test: declared twice; by the root flag: outside root)
func placementKindsOfHelper(w *World, ins ssa.Instruction) []string {
	c, ok := ins.(ssa.CallInstruction)
	if !ok {
		return nil
	}
	// the message: Msg member of the SyntaxError literal handed to the call (or a string argument of a wrapper)
	var msgs []ssa.Value
	for _, a := range c.Common().Args {
		a = stripIdentity(a)
		if al, ok := a.(*ssa.Alloc); ok && al.Referrers() != nil {
			for _, ref := range *al.Referrers() {
				fa, ok := ref.(*ssa.FieldAddr)
				if !ok || fa.Referrers() == nil {
					continue
				}
				if _, f, _, _ := fieldOf(fa); f != "Msg" {
					continue
				}
				for _, r2 := range *fa.Referrers() {
					if st, ok := r2.(*ssa.Store); ok && st.Addr == ssa.Value(fa) {
						msgs = append(msgs, st.Val)
					}
				}
			}
		} else if isStringType(a.Type()) {
			msgs = append(msgs, a)
		}
	}
	var out []string
	for _, m := range msgs {
		call, ok := stripIdentity(m).(*ssa.Call)
		if !ok {
			continue
		}
		h := call.Call.StaticCallee()
		if h == nil || h.Blocks == nil || !w.isSubjectFunc(h) {
			continue
		}
		for _, b := range h.Blocks {
			ret, ok := b.Instrs[len(b.Instrs)-1].(*ssa.Return)
			if !ok || len(ret.Results) != 1 {
				continue
			}
			if s, isConst := constString(ret.Results[0]); !isConst || s == "" {
				continue
			}
			kind := ""
			for _, bb := range h.Blocks {
				cond := branchCond(bb)
				if cond == nil || !(edgeDominates(bb, 0, b) || edgeDominates(bb, 1, b)) {
					continue
				}
				if v, _, ok := nilTest(cond); ok && typeIs(v.Type(), modPath+"/internal/model", "Field") {
					kind = "declared-twice"
				} else if dependsOnROOT(cond, 0) && kind == "" {
					kind = "outside-root"
				}
			}
			if kind != "" {
				out = append(out, kind)
			}
		}
	}
	return out
}

// singleAssignCell: v is a load of a local variable cell that is stored to exactly once.
func singleAssignCell(v ssa.Value) *ssa.Alloc {
	ld, ok := stripIdentity(v).(*ssa.UnOp)
	if !ok || ld.Op != token.MUL {
		return nil
	}
	al, ok := ld.X.(*ssa.Alloc)
	if !ok || al.Referrers() == nil {
		return nil
	}
	n := 0
	for _, ref := range *al.Referrers() {
		if st, ok := ref.(*ssa.Store); ok && st.Addr == ssa.Value(al) {
			n++
		}
	}
	if n != 1 {
		return nil
	}
	return al
}

// C12/diagnostic-sink: a diagnostic that is raised is kept. Every rule of this property ends in "AddSyntaxError is reached"; that
// only rejects the DSL if AddSyntaxError, on every call, appends what it is handed to the list the gate in cmd.Compile reads
// (BinaryModel.SyntaxErrors). Also here: the option table's miss edge (an option name that is not documented) reaches a diagnostic.
func c12DiagnosticSink(w *World, r *Report) {
	const rule = "C12/diagnostic-sink"
	var sink *ssa.Function
	for _, fn := range w.srcFuncs {
		if fn.Pkg == w.Model && fn.Name() == "AddSyntaxError" && recvNamedCore(fn) == "BinaryModel" {
			sink = fn
		}
	}
	if sink == nil || len(sink.Params) < 2 {
		r.fail(rule, "AddSyntaxError keeps the diagnostic", "internal/model/model.go", "(*BinaryModel).AddSyntaxError not found: anchor lost")
	} else {
		key := "AddSyntaxError keeps the diagnostic"
		kept := false
		forEachInstr(sink, func(b *ssa.BasicBlock, ins ssa.Instruction) {
			st, ok := ins.(*ssa.Store)
			if !ok {
				return
			}
			fa, ok := st.Addr.(*ssa.FieldAddr)
			if !ok {
				return
			}
			if tn, f, _, _ := fieldOf(fa); tn != "BinaryModel" || f != "SyntaxErrors" || stripIdentity(fa.X) != ssa.Value(sink.Params[0]) {
				return
			}
			ap, ok := stripIdentity(st.Val).(*ssa.Call)
			if !ok {
				return
			}
			if bi, ok := ap.Call.Value.(*ssa.Builtin); !ok || bi.Name() != "append" || len(ap.Call.Args) != 2 {
				return
			}
			// the list that is extended is the list itself
			ld, ok := stripIdentity(ap.Call.Args[0]).(*ssa.UnOp)
			if !ok || ld.Op != token.MUL {
				return
			}
			if fa0, ok := ld.X.(*ssa.FieldAddr); !ok || fa0.Field != fa.Field || stripIdentity(fa0.X) != ssa.Value(sink.Params[0]) {
				return
			}
			has := false
			for _, o := range variadicOperands(ap.Call.Args[1]) {
				if o != nil && stripIdentity(o) == ssa.Value(sink.Params[1]) {
					has = true
				}
			}
			if !has {
				return
			}
			// on every call: the store dominates every return that is not behind `error == nil`
			all := true
			for _, rb := range sink.Blocks {
				if _, isRet := rb.Instrs[len(rb.Instrs)-1].(*ssa.Return); !isRet {
					continue
				}
				if b.Dominates(rb) || guardedByNil(rb, sink.Params[1], false) {
					continue
				}
				all = false
			}
			if all {
				kept = true
			}
		})
		// or it hands the diagnostic, on every call, to a routine that appends it to that list (a method of the list's own type, ...)
		if !kept && keepsDiagnostic(sink, sink.Params[1], 0) {
			kept = true
		}
		if kept {
			r.pass(rule, key, w.pos(sink.Pos()), "appends its argument to BinaryModel.SyntaxErrors on every call")
		} else {
			r.fail(rule, key, w.pos(sink.Pos()), "AddSyntaxError does not, on every call, append the diagnostic it is handed to BinaryModel.SyntaxErrors: diagnostics are raised and lost, the gate in cmd.Compile sees an empty list and code is generated for a rejected DSL")
		}
	}
	// the option table: a name that is not a key is reported
	n := 0
	for _, fn := range parsePhaseFuncs(w) {
		if fn.Pkg != w.Model {
			continue
		}
		tests := membershipTests(fn)
		forEachInstr(fn, func(b *ssa.BasicBlock, ins ssa.Instruction) {
			lk, ok := ins.(*ssa.Lookup)
			if !ok || !lk.CommaOk || lk.X.Type().Underlying().String() != "map[string][]string" {
				return
			}
			if _, isGlobal := valueRoot(lk.X).(*ssa.Global); !isGlobal {
				return
			}
			if _, isParam := stripIdentity(lk.Index).(*ssa.Parameter); !isParam {
				return
			}
			for _, t := range tests {
				if t.lookup != lk {
					continue
				}
				n++
				key := fmt.Sprintf("%s: an option name that is not in the table is reported", fnKey(fn))
				reported := false
				for _, db := range w.diagnosticBlocks(fn) {
					if edgeDominates(t.branch, 1-t.presentSucc, db) {
						reported = true
					}
				}
				if reported {
					r.pass(rule, key, w.instrPos(ins), "")
				} else {
					r.fail(rule, key, w.instrPos(ins), "the miss edge of the option table lookup reaches no diagnostic: an unknown option is accepted (or dropped) without a word")
				}
			}
		})
		// the table kept as a list of rows that a helper searches by name: `row, ok := find(name)`
		for _, t := range w.rowLookupTests(fn) {
			isTable := false
			for _, kt := range w.keyedListTables() {
				if kt.g == t.found.lk.g {
					isTable = true
				}
			}
			if _, isParam := stripIdentity(t.found.keyArg()).(*ssa.Parameter); !isTable || !isParam {
				continue
			}
			n++
			key := fmt.Sprintf("%s: an option name that is not in the table is reported", fnKey(fn))
			reported := false
			for _, db := range w.diagnosticBlocks(fn) {
				if edgeDominates(t.branch, 1-t.presentSucc, db) {
					reported = true
				}
			}
			if reported {
				r.pass(rule, key, w.instrPos(t.found.call), "")
			} else {
				r.fail(rule, key, w.instrPos(t.found.call), "the miss edge of the option table lookup reaches no diagnostic: an unknown option is accepted (or dropped) without a word")
			}
		}
	}
	if n == 0 {
		r.fail(rule, "option table membership test found", "internal/model/model.go", "no checked lookup of an option name in the option table found in the model's parse-phase code")
	}
}
