package main

import (
	"flag"
	"fmt"
	"os"
	"sort"
	"strconv"
	"strings"
	"time"
)

type propCheck struct {
	ID          string
	Explanation string
	Run         func(w *World, r *Report)
}

var registry = map[string]*propCheck{}

func register(id, explanation string, run func(w *World, r *Report)) {
	registry[id] = &propCheck{ID: id, Explanation: explanation, Run: run}
}

func main() {
	repo := flag.String("repo", "/repo", "repository root to analyse")
	verif := flag.String("verif", "/verif", "verif directory (evidence, known findings)")
	prop := flag.String("property", "", "property id (C01..C17) or 'all'")
	tier := flag.String("tier", "quick", "quick|thorough")
	dump := flag.String("dump", "", "debug dumps: g4 | funcs | ssa:<substring of a function name>")
	noEvidence := flag.Bool("no-evidence", false, "do not write evidence/replay files (used for scratch-copy variants)")
	flag.Parse()
	if t := os.Getenv("VERIF_TIER"); t == "quick" || t == "thorough" {
		if !isFlagSet("tier") {
			*tier = t
		}
	}
	seed := 0
	if s := os.Getenv("VERIF_SEED"); s != "" {
		if n, err := strconv.Atoi(s); err == nil {
			seed = n
		}
	}
	start := time.Now()
	w, err := loadWorld(*repo, *tier == "thorough")
	if *dump != "" {
		if err != nil {
			fmt.Println("load error:", err)
			os.Exit(2)
		}
		doDump(w, *dump)
		return
	}
	var ids []string
	if *prop == "all" {
		for id := range registry {
			ids = append(ids, id)
		}
		sort.Strings(ids)
	} else {
		for _, id := range strings.Split(*prop, ",") {
			if _, ok := registry[id]; !ok {
				fmt.Printf("unknown property %q\n", id)
				os.Exit(2)
			}
			ids = append(ids, id)
		}
	}
	exit := 0
	for _, id := range ids {
		pc := registry[id]
		r := newReport(id)
		t0 := start
		if len(ids) > 1 {
			t0 = time.Now()
		}
		if err != nil {
			r.fatal("cannot load/type-check %s: %v", *repo, err)
		} else {
			func() {
				defer func() {
					if p := recover(); p != nil {
						r.fatal("checker panic: %v", p)
						if os.Getenv("FINLINT_DEBUG") != "" {
							panic(p)
						}
					}
				}()
				pc.Run(w, r)
			}()
		}
		extra := map[string]any{
			"analysed": analysedSummary(w),
			"trusted_base": []string{"go/types + go/ssa (x/tools v0.50.0) model of the Go source", "ANTLR runtime and generated parser are faithful to grammar/PacketDsl.g4 (cross-checked: accessor sets)",
				"third-party packages (strcase, cobra, html/template) behave as documented"},
		}
		code := r.finish(*verif, *tier, seed, t0, pc.Explanation, extra, *noEvidence)
		if code > exit {
			exit = code
		}
	}
	os.Exit(exit)
}

func isFlagSet(name string) bool {
	set := false
	flag.Visit(func(f *flag.Flag) {
		if f.Name == name {
			set = true
		}
	})
	return set
}

func analysedSummary(w *World) map[string]any {
	if w == nil {
		return map[string]any{"loaded": false}
	}
	pk := []string{}
	for _, p := range w.Pkgs {
		pk = append(pk, p.PkgPath)
	}
	return map[string]any{
		"packages":            pk,
		"subject_functions":   len(w.srcFuncs),
		"all_functions_ssa":   len(w.allFuncs),
		"grammar_parser_rules": len(w.G4.PRules),
		"grammar_lexer_rules":  len(w.G4.LRules),
		"callgraph":           map[bool]string{true: "CHA refined by VTA", false: "CHA"}[w.useVTA],
	}
}

func doDump(w *World, what string) {
	switch what {
	case "g4":
		for _, ci := range w.G4.Contexts() {
			fmt.Printf("%s (rule %s)\n", ci.CtxType, ci.Rule)
			for _, c := range ci.Order {
				o := ci.Children[c]
				fmt.Printf("   %-28s min=%d many=%v tok=%v content=%v acc=%s\n", c, o.Min, o.Many, ci.IsTok[c], w.G4.contentChild(ci, c), accessorName(c, ci.IsTok[c], o.Many))
			}
			for l, c := range ci.Labels {
				fmt.Printf("   label %s=%s occ=%v\n", l, c, ci.LabelOcc[l])
			}
			if len(ci.Interleaved) > 0 {
				fmt.Printf("   interleaved: %v\n", ci.Interleaved)
			}
		}
		for _, r := range w.G4.PRules {
			fmt.Printf("nullable(%s)=%v\n", r.Name, w.G4.Nullable(r.Name))
		}
		fmt.Println("aliases:", w.G4.Aliases())
		fmt.Println("scalars:", w.G4.ScalarTokens())
		for _, l := range w.G4.LRules {
			fmt.Printf("lex %s lits=%q action=%q raw=%q\n", l.Name, l.Literals, l.Action, l.Raw)
		}
	case "funcs":
		for _, f := range w.srcFuncs {
			fmt.Println(fnKey(f))
		}
	case "cmdssa":
		for _, f := range w.srcFuncs {
			if f.Pkg == w.Cmd || (f.Parent() != nil && f.Parent().Pkg == w.Cmd) {
				f.WriteTo(os.Stdout)
			}
		}
	default:
		// ssa:<substring>: the SSA form of every repository function whose name contains the substring
		if sub, ok := strings.CutPrefix(what, "ssa:"); ok {
			for _, f := range w.repoFuncsWithBodies() {
				if strings.Contains(f.String(), sub) {
					f.WriteTo(os.Stdout)
				}
			}
		}
	}
}
