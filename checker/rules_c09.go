package main

import (
	"fmt"
	"go/token"
	"go/types"
	"os"
	"sort"
	"strings"
	"unicode"

	"golang.org/x/tools/go/ssa"
)

func init() {
	register("C09", "Coverage relation between grammar/PacketDsl.g4 and the hand-written formatter, decided per grammar rule: "+
		"(content) every child that carries author content (identifiers, numbers, strings, doc strings, type tokens, optional keywords, sub-rules) is read by the formatter - through its accessor, a GetText() of an enclosing context, or a GetChildren() walk - an element never read cannot appear in the output; "+
		"(order) alternatives interleaved inside a repetition are walked in child order, not by separate All*() passes; "+
		"(comments) every construct that starts an output line passes its start token to the hidden-left query, every closing brace and the end of input are queried too - a comment is only recoverable through the token that follows it, so each missing anchor is a position where a comment is provably deleted (comments between two tokens of one line are outside this rule); "+
		"(error path) FormatPacketDsl returns its input and a non-nil error on the syntax-error edge, visits the tree only on the other edge, and the CLI writes the file only on err == nil. "+
		"Byte-identical recompilation and the exact text of re-emitted tokens are runtime equalities and are not decided.", runC09)
	register("C10", "Layout canonicity as non-interference: the formatter's result may depend only on token types/texts, comment texts and the one predicate `comment is on the same line as token t`. Decided: in code reachable from FormatPacketDsl, positional or raw-text accessors (GetLine, GetColumn, character indices, GetTokenIndex outside a hidden-channel query, GetInputStream, GetTextFromInterval, the original dsl string) occur only inside the enumerated same-line comparison; WS is `-> skip` and comments go to the hidden channel; "+
		"comment anchors are start/stop tokens of contexts only; each comment is emitted at most once (emission dominated by the not-yet-seen edge of the seen-set lookup and paired with the insert). "+
		"Idempotence format(format(x)) = format(x) depends on how emitted text re-lexes and is NOT decided.", runC10)
}

func isPunctLiteral(lits []string) bool {
	if len(lits) != 1 {
		return false
	}
	for _, r := range lits[0] {
		if unicode.IsLetter(r) || unicode.IsDigit(r) {
			return false
		}
	}
	return true
}

// formatterFuncs: subject functions reachable from FormatPacketDsl (sorted).
func formatterFuncs(w *World) []*ssa.Function {
	return sortedFuncs(w.formatterReach())
}

type fmtFacts struct {
	acc       map[string]bool            // "Ctx.child" read through an accessor (child or label's child)
	accOut    map[string]bool            // ... by an accessor call whose node (its text, what a visitor makes of it) can reach the function's result
	accAll    map[string]map[string]bool // ctx -> children read through All*() in one function: fn|ctx -> set
	getText   map[string]bool            // contexts on which GetText() is called
	children  map[string]map[string]bool // ctx whose GetChildren() is walked -> context types handled by assertions in that function
	leftAt    map[string]bool            // contexts whose GetStart() flows to getHiddenLeft
	rightAt   map[string]bool            // contexts whose GetStop() flows to getHiddenRightAtSameLine
	leftStop  map[string]bool            // contexts whose GetStop() flows to getHiddenLeft (closing-brace anchor)
	selfLeft  map[string]bool            // left anchor taken on the visiting function's own ctx parameter: holds for every caller
	callLeft  map[string]map[string]bool // function -> contexts it left-anchors on a child before handing it on
	visitFrom map[string]map[string]bool // context -> functions that pass it to another formatter function
	badAnchor []string
}

// possibleCtxs: the grammar contexts a value may denote, from its static type (interface for a rule with alternatives -> all alternatives),
// and for interface{}/ParserRuleContext parameters from the static types at the call sites.
func (w *World) possibleCtxs(fn *ssa.Function, v ssa.Value, ctxs map[string]*CtxInfo, depth int) []string {
	v = stripIdentity(v)
	if ta, ok := v.(*ssa.TypeAssert); ok {
		if n := grammarCtxName(ta.AssertedType); n != "" {
			return w.expandCtx(n, ctxs)
		}
		return w.possibleCtxs(fn, ta.X, ctxs, depth)
	}
	if ex, ok := v.(*ssa.Extract); ok {
		if ta, ok := ex.Tuple.(*ssa.TypeAssert); ok && ex.Index == 0 {
			if n := grammarCtxName(ta.AssertedType); n != "" {
				return w.expandCtx(n, ctxs)
			}
			return w.possibleCtxs(fn, ta.X, ctxs, depth)
		}
	}
	if n := grammarCtxName(v.Type()); n != "" {
		return w.expandCtx(n, ctxs)
	}
	if fa, ok := v.(*ssa.FieldAddr); ok {
		return w.possibleCtxs(fn, fa.X, ctxs, depth)
	}
	if p, ok := v.(*ssa.Parameter); ok && depth < 3 {
		idx := -1
		for i, q := range fn.Params {
			if q == p {
				idx = i
			}
		}
		set := map[string]bool{}
		if n := w.CallGraph().Nodes[fn]; n != nil && idx >= 0 {
			for _, e := range n.In {
				if e.Site == nil || e.Caller.Func.Synthetic != "" || !w.isSubjectFunc(e.Caller.Func) {
					continue
				}
				args := e.Site.Common().Args
				if e.Site.Common().IsInvoke() {
					args = append([]ssa.Value{e.Site.Common().Value}, args...)
				}
				if idx < len(args) {
					for _, c := range w.possibleCtxs(e.Caller.Func, args[idx], ctxs, depth+1) {
						set[c] = true
					}
				}
			}
		}
		return sortedBoolKeys(set)
	}
	if ld, ok := v.(*ssa.UnOp); ok && ld.Op == token.MUL {
		// element of an All*() slice
		if ia, ok := ld.X.(*ssa.IndexAddr); ok {
			if n := grammarCtxName(ld.Type()); n != "" {
				return w.expandCtx(n, ctxs)
			}
			_ = ia
		}
	}
	return nil
}

// expandCtx: a rule's base context stands for all its labelled alternatives.
func (w *World) expandCtx(name string, ctxs map[string]*CtxInfo) []string {
	ci := ctxs[name]
	if ci == nil {
		return nil
	}
	if ci.AltLabel == "" {
		var alts []string
		for _, c := range ctxs {
			if c.Rule == ci.Rule && c.AltLabel != "" {
				alts = append(alts, c.CtxType)
			}
		}
		if len(alts) > 0 {
			sort.Strings(alts)
			return alts
		}
	}
	return []string{name}
}

type queryFn struct {
	kind      string // "left" | "right"; "" when the side is whatever the function value bound to parameter kindParam asks
	param     int    // index of the token parameter (receiver included)
	kindParam int    // index of the function-typed parameter that is the query (-1: the side is fixed)
}

// kindsAt: the side(s) asked when a function with summary q is called with args from caller: fixed, read off the function value
// handed in for the query parameter, or - when the caller only hands on a parameter of its own - the index of that parameter (pass).
func (q queryFn) kindsAt(caller *ssa.Function, args []ssa.Value) (kinds []string, pass int) {
	if q.kindParam < 0 {
		return []string{q.kind}, -1
	}
	if q.kindParam >= len(args) {
		return nil, -1
	}
	if i := paramIndexOf(caller, args[q.kindParam]); i >= 0 {
		return nil, i
	}
	return hiddenQueryKindsOfValue(args[q.kindParam]), -1
}

// commentQueryFns: the formatter methods that query the hidden channel around a token parameter, and their wrappers. The query may
// be a method call on the token stream or a call of a function value that can only be such a query; when that value is a parameter
// of the function, the side is decided where the function is called (kindParam).
func commentQueryFns(w *World) map[*ssa.Function][]queryFn {
	out := map[*ssa.Function][]queryFn{}
	has := func(fn *ssa.Function, q queryFn) bool {
		for _, x := range out[fn] {
			if x == q {
				return true
			}
		}
		return false
	}
	fns := formatterFuncs(w)
	isToken := func(t types.Type) bool { return strings.HasSuffix(types.TypeString(t, shortQual), "antlr.Token") }
	for _, fn := range fns {
		forEachInstr(fn, func(b *ssa.BasicBlock, ins ssa.Instruction) {
			c, ok := ins.(ssa.CallInstruction)
			if !ok {
				return
			}
			kinds := hiddenQueryAt(c)
			kp := -1
			if len(kinds) == 0 {
				return
			}
			if i := calledParam(fn, c); i >= 0 {
				kinds, kp = []string{""}, i
			}
			// the index argument is token.GetTokenIndex() of a parameter
			anchor := hiddenQueryAnchor(c)
			if anchor == nil {
				return
			}
			for i, p := range fn.Params {
				if stripIdentity(anchor) == ssa.Value(p) && isToken(p.Type()) {
					for _, k := range kinds {
						if !has(fn, queryFn{k, i, kp}) {
							out[fn] = append(out[fn], queryFn{k, i, kp})
						}
					}
				}
			}
		})
	}
	changed := true
	for changed {
		changed = false
		for _, fn := range fns {
			forEachInstr(fn, func(b *ssa.BasicBlock, ins ssa.Instruction) {
				c, ok := ins.(ssa.CallInstruction)
				if !ok {
					return
				}
				f := c.Common().StaticCallee()
				if f == nil || f == fn {
					return
				}
				for _, q := range out[f] {
					if q.param >= len(c.Common().Args) {
						continue
					}
					a := stripIdentity(c.Common().Args[q.param])
					kinds, pass := q.kindsAt(fn, c.Common().Args)
					if pass >= 0 {
						kinds = []string{""}
					}
					for i, p := range fn.Params {
						if a != ssa.Value(p) || !isToken(p.Type()) {
							continue
						}
						for _, k := range kinds {
							if !has(fn, queryFn{k, i, pass}) {
								out[fn] = append(out[fn], queryFn{k, i, pass})
								changed = true
							}
						}
					}
				}
			})
		}
	}
	return out
}

func collectFmtFacts(w *World, ctxs map[string]*CtxInfo) *fmtFacts {
	queryFns := commentQueryFns(w)
	ff := &fmtFacts{acc: map[string]bool{}, accOut: map[string]bool{}, accAll: map[string]map[string]bool{}, getText: map[string]bool{}, children: map[string]map[string]bool{},
		leftAt: map[string]bool{}, rightAt: map[string]bool{}, leftStop: map[string]bool{},
		selfLeft: map[string]bool{}, callLeft: map[string]map[string]bool{}, visitFrom: map[string]map[string]bool{}}
	fmtSet := map[*ssa.Function]bool{}
	for _, fn := range formatterFuncs(w) {
		fmtSet[fn] = true
	}
	for _, fn := range formatterFuncs(w) {
		handled := map[string]bool{}
		// type tests in this function and in the helpers it hands tree nodes to (not other visitor methods)
		// A helper may also be entered through a function value (a handler picked from a table of functions, a closure made by an
		// adapter): the value is followed to the functions it can be, with the helper's parameters bound to what this caller passes.
		type helperAt struct {
			g    *ssa.Function
			site ssa.CallInstruction
		}
		helperSet := map[helperAt]bool{}
		helpers := []*ssa.Function{fn}
		helperBind := []bindings{nil}
		for i := 0; i < len(helpers) && i < 64; i++ {
			hb := helperBind[i]
			forEachInstr(helpers[i], func(_ *ssa.BasicBlock, ins ssa.Instruction) {
				c, ok := ins.(ssa.CallInstruction)
				if !ok || c.Common().IsInvoke() {
					return
				}
				var callees []*ssa.Function
				if g := c.Common().StaticCallee(); g != nil {
					callees = []*ssa.Function{g}
				} else if _, isB := c.Common().Value.(*ssa.Builtin); !isB {
					callees, _ = w.fnValueTargets(c.Common().Value, hb)
				}
				for _, g := range callees {
					if pkgOfFunc(g) != w.Parser || g == fn || helperSet[helperAt{g, c}] || g.Blocks == nil || strings.HasPrefix(g.Name(), "Visit") {
						continue
					}
					helperSet[helperAt{g, c}] = true
					helpers = append(helpers, g)
					nb := bindings{}
					for k, v := range hb {
						nb[k] = v
					}
					for k, p := range g.Params {
						if k < len(c.Common().Args) {
							nb[p] = c.Common().Args[k]
						}
					}
					helperBind = append(helperBind, nb)
				}
			})
		}
		for _, hf := range helpers {
			forEachInstr(hf, func(b *ssa.BasicBlock, ins ssa.Instruction) {
				if ta, ok := ins.(*ssa.TypeAssert); ok {
					// a case for a kind of child counts when what it finds can reach the text handed back
					if !flowsToResult(hf, ta) {
						// a type switch that binds nothing (`switch x.(type) { case *A, *B: keep(x) }`): the node itself is what is
						// handed on, under the case
						bound := false
						if ta.Referrers() != nil {
							for _, ref := range *ta.Referrers() {
								if ex, ok := ref.(*ssa.Extract); ok && ex.Index == 0 && ex.Referrers() != nil && len(*ex.Referrers()) > 0 {
									bound = true
								}
							}
						}
						if bound || !ta.CommaOk || !flowsToResult(hf, valueRoot(ta.X)) {
							return
						}
					}
					if n := grammarCtxName(ta.AssertedType); n != "" {
						handled[n] = true
					}
					if strings.HasSuffix(types.TypeString(ta.AssertedType, shortQual), "antlr.TerminalNode") {
						handled["<terminal>"] = true
					}
				}
			})
		}
		forEachInstr(fn, func(b *ssa.BasicBlock, ins ssa.Instruction) {
			call, ok := ins.(*ssa.Call)
			if !ok {
				return
			}
			cc := call.Call
			name := ""
			var recv ssa.Value
			if cc.IsInvoke() {
				name, recv = cc.Method.Name(), cc.Value
			} else if f := cc.StaticCallee(); f != nil && f.Signature.Recv() != nil && len(cc.Args) > 0 {
				name, recv = f.Name(), cc.Args[0]
			}
			if _, ai, ok := w.accessorOf(call, ctxs); ok && ai.Known {
				child := strings.TrimSuffix(strings.TrimSuffix(ai.What, "*"), "=")
				if strings.HasSuffix(ai.What, "=") {
					ff.acc[ai.Ctx+".label:"+child] = true
					if flowsToResult(fn, call) {
						ff.accOut[ai.Ctx+".label:"+child] = true
					}
					if ci := ctxs[ai.Ctx]; ci != nil {
						child = ci.Labels[child]
					}
				}
				ff.acc[ai.Ctx+"."+child] = true
				if flowsToResult(fn, call) {
					ff.accOut[ai.Ctx+"."+child] = true
				} else if lr := w.G4.lrule[child]; lr != nil && len(lr.Literals) == 1 && keywordPresenceFlows(fn, call, lr.Literals[0]) {
					// a keyword (root, repeat): its presence is its content - the spelling is written on the edge where it is there
					ff.accOut[ai.Ctx+"."+child] = true
				}
				if strings.HasSuffix(ai.What, "*") {
					k := fnKey(fn) + "|" + ai.Ctx
					if ff.accAll[k] == nil {
						ff.accAll[k] = map[string]bool{}
					}
					ff.accAll[k][child] = true
				}
			}
			switch name {
			case "GetText":
				for _, c := range w.possibleCtxs(fn, recv, ctxs, 0) {
					ff.getText[c] = true
				}
			case "GetChildren":
				for _, c := range w.possibleCtxs(fn, recv, ctxs, 0) {
					if ff.children[c] == nil {
						ff.children[c] = map[string]bool{}
					}
					for h := range handled {
						ff.children[c][h] = true
					}
				}
			}
			// a tree node handed to another formatter function
			if f := cc.StaticCallee(); f != nil && fmtSet[f] && f != fn && len(queryFns[f]) == 0 {
				for _, a := range cc.Args {
					if grammarCtxName(a.Type()) == "" {
						continue
					}
					if _, passThrough := stripIdentity(a).(*ssa.Parameter); passThrough {
						continue // handed on unchanged: whoever obtained the node from its parent is responsible
					}
					for _, c := range w.possibleCtxs(fn, a, ctxs, 0) {
						if ff.visitFrom[c] == nil {
							ff.visitFrom[c] = map[string]bool{}
						}
						ff.visitFrom[c][fnKey(fn)] = true
					}
				}
			}
			// comment anchors (queries and their wrappers)
			if f := cc.StaticCallee(); f != nil {
				for _, q := range queryFns[f] {
					if q.param >= len(cc.Args) {
						continue
					}
					if _, isParam := stripIdentity(cc.Args[q.param]).(*ssa.Parameter); isParam && len(queryFns[fn]) > 0 {
						continue // inside a wrapper: the anchor is decided at the wrapper's call sites
					}
					// which side is asked here: fixed by the callee, or by the query value handed to it at this very call
					qkinds, _ := q.kindsAt(fn, cc.Args)
					if len(qkinds) != 1 {
						continue // side unknown at this site (or decided further up, at the callers of fn): no anchor fact
					}
					qkind := qkinds[0]
					arg := stripIdentity(cc.Args[q.param])
					tokCall, isCall := arg.(*ssa.Call)
					which := ""
					var trecv ssa.Value
					if isCall {
						if tokCall.Call.IsInvoke() {
							which, trecv = tokCall.Call.Method.Name(), tokCall.Call.Value
						} else if tf := tokCall.Call.StaticCallee(); tf != nil && len(tokCall.Call.Args) > 0 {
							which, trecv = tf.Name(), tokCall.Call.Args[0]
						}
					}
					if which != "GetStart" && which != "GetStop" {
						ff.badAnchor = append(ff.badAnchor, fmt.Sprintf("%s: %s takes a token that is not ctx.GetStart()/ctx.GetStop() (%s) at %s", fnKey(fn), f.Name(), which, w.instrPos(ins)))
						continue
					}
					for _, c := range w.possibleCtxs(fn, trecv, ctxs, 0) {
						switch {
						case qkind == "left" && which == "GetStart":
							ff.leftAt[c] = true
							base := stripIdentity(trecv)
							for {
								if ta, ok := base.(*ssa.TypeAssert); ok {
									base = stripIdentity(ta.X)
									continue
								}
								if fa, ok := base.(*ssa.FieldAddr); ok { // embedded BaseParserRuleContext
									base = stripIdentity(fa.X)
									continue
								}
								if ex, ok := base.(*ssa.Extract); ok {
									base = stripIdentity(ex.Tuple)
									continue
								}
								break
							}
							if _, isParam := base.(*ssa.Parameter); isParam {
								ff.selfLeft[c] = true
							} else {
								if ff.callLeft[fnKey(fn)] == nil {
									ff.callLeft[fnKey(fn)] = map[string]bool{}
								}
								ff.callLeft[fnKey(fn)][c] = true
							}
						case qkind == "left" && which == "GetStop":
							ff.leftStop[c] = true
						case qkind == "right" && which == "GetStop":
							ff.rightAt[c] = true
						default:
							ff.badAnchor = append(ff.badAnchor, fmt.Sprintf("%s: same-line right query anchored at a start token at %s", fnKey(fn), w.instrPos(ins)))
						}
					}
				}
			}
		})
	}
	return ff
}

func runC09(w *World, r *Report) {
	entryPointsKeepNoState(w, r, "C09", formatEntryRoots(w), "reachable from the formatter", "the formatter writes package-level storage: what it returns for a text depends on the texts it was given before (a remembered result is handed out for a text it was not made from)")

	ctxs := w.ctxTable()
	ff := collectFmtFacts(w, ctxs)
	fns := formatterFuncs(w)
	r.note("formatter-reachable subject functions: %d", len(fns))

	// ---- 1. content coverage ----
	const ruleContent = "C09/content-coverage"
	// contexts whose text is taken whole cover their subtree
	covered := map[string]bool{}
	var mark func(c string)
	mark = func(c string) {
		if covered[c] {
			return
		}
		covered[c] = true
		ci := ctxs[c]
		if ci == nil {
			return
		}
		for child := range ci.Children {
			if !ci.IsTok[child] {
				for _, sub := range w.expandCtx(title(child)+"Context", ctxs) {
					mark(sub)
				}
			}
		}
	}
	for c := range ff.getText {
		mark(c)
	}
	for _, name := range sortedKeys(ctxs) {
		ci := ctxs[name]
		for _, child := range ci.Order {
			if !w.G4.contentChild(ci, child) {
				continue
			}
			if lr := w.G4.lrule[child]; lr != nil && ci.IsTok[child] && isPunctLiteral(lr.Literals) {
				continue // optional punctuation (SEMICOLON?, COMMA?): layout, not content
			}
			key := name + "." + child
			how := ""
			readOnly := false
			switch {
			case covered[name]:
				how = "GetText() of this or an enclosing context"
			case ff.acc[key] && !ff.accOut[key]:
				how = ""
				readOnly = true
			case ff.acc[key]:
				how = "accessor"
			case ff.children[name] != nil && (ci.IsTok[child] && ff.children[name]["<terminal>"] || !ci.IsTok[child] && childHandled(w, ff.children[name], child, ctxs)):
				how = "GetChildren() walk with a case for it"
			}
			// labelled tokens: every label must be read
			if how == "accessor" {
				for label, lchild := range ci.Labels {
					if lchild == child && !ff.accOut[name+".label:"+label] && ci.Children[child].Many {
						how = ""
						key = name + "." + child + " (label " + label + ")"
					}
				}
			}
			if how != "" {
				r.pass(ruleContent, key, "internal/parser/packet_dsl_formattor.go", how)
			} else if readOnly {
				r.fail(ruleContent, key, "internal/parser/packet_dsl_formattor.go", fmt.Sprintf("the formatter asks for %s of %s but nothing it obtains from it can reach the text the function returns (only presence tests, or a value that is thrown away): whatever the author wrote there is dropped from the formatted text", child, name))
			} else {
				r.fail(ruleContent, key, "internal/parser/packet_dsl_formattor.go", fmt.Sprintf("the formatter never reads %s of %s (no accessor call, no enclosing GetText(), no GetChildren() case): whatever the author wrote there is dropped from the formatted text", child, name))
			}
		}
	}
	r.floor(ruleContent, 45)
	c09PresentChildPrinted(w, r, ctxs)
	optionalPartsIndependent(w, r, "C09", ctxs, formatterFuncs(w))

	// ---- 2. order coverage ----
	const ruleOrder = "C09/order-coverage"
	nOrd := 0
	for _, name := range sortedKeys(ctxs) {
		ci := ctxs[name]
		if len(ci.Interleaved) == 0 {
			continue
		}
		nOrd++
		bad := ""
		for k, set := range ff.accAll {
			if !strings.HasSuffix(k, "|"+name) {
				continue
			}
			for _, il := range ci.Interleaved {
				n := 0
				var used []string
				for _, s := range il {
					if set[s] {
						n++
						used = append(used, s)
					}
				}
				if n >= 2 {
					bad = fmt.Sprintf("%s reads the interleaved alternatives %s by separate All*() calls", strings.SplitN(k, "|", 2)[0], strings.Join(used, ", "))
				}
			}
		}
		if bad != "" {
			r.fail(ruleOrder, name, "internal/parser/packet_dsl_formattor.go", bad+": their relative order in the source is lost in the formatted text")
		} else {
			r.pass(ruleOrder, name, "internal/parser/packet_dsl_formattor.go", "walked in child order or a single alternative")
		}
	}
	if nOrd < 3 {
		r.fail(ruleOrder, "interleaved contexts found", "grammar/PacketDsl.g4", fmt.Sprintf("expected >= 3 contexts with interleaved alternatives, found %d", nOrd))
	}

	// sibling agreement: the model visitor and the formatter must walk an interleaved context the same way,
	// otherwise the formatted text compiles to a different pair/declaration order than the original
	pf := map[string]map[string]bool{}
	for _, fn := range parsePhaseFuncs(w) {
		forEachInstr(fn, func(b *ssa.BasicBlock, ins ssa.Instruction) {
			call, ok := ins.(*ssa.Call)
			if !ok {
				return
			}
			if _, ai, ok := w.accessorOf(call, ctxs); ok && ai.Known && strings.HasSuffix(ai.What, "*") {
				if pf[ai.Ctx] == nil {
					pf[ai.Ctx] = map[string]bool{}
				}
				pf[ai.Ctx][strings.TrimSuffix(ai.What, "*")] = true
			}
		})
	}
	for _, name := range sortedKeys(ctxs) {
		ci := ctxs[name]
		if len(ci.Interleaved) == 0 || name == "PacketContext" {
			continue // top-level kinds go to separate namespaces in the model: their mutual order carries no meaning
		}
		kind := func(set map[string]bool) string {
			var used []string
			for _, il := range ci.Interleaved {
				for _, x := range il {
					if set[x] {
						used = append(used, x)
					}
				}
			}
			if len(uniq(used)) >= 2 {
				return "separate passes over " + strings.Join(uniq(used), "+")
			}
			return "child order"
		}
		fset := map[string]bool{}
		for k, set := range ff.accAll {
			if strings.HasSuffix(k, "|"+name) {
				for x := range set {
					fset[x] = true
				}
			}
		}
		pk, fk := kind(pf[name]), kind(fset)
		if pk == fk {
			r.pass(ruleOrder, name+": compiler and formatter agree on the walk", "internal/parser", pk)
		} else {
			r.fail(ruleOrder, name+": compiler and formatter agree on the walk", "internal/parser", fmt.Sprintf("the model visitor walks %s in %s but the formatter in %s: formatting a text changes the order the compiler sees", name, pk, fk))
		}
	}

	// ---- 3. comment anchors ----
	const ruleAnch = "C09/comment-anchor"
	lineStart := []string{"packetDefinition", "metaDataDefinition", "optionDefinition", "optionDeclaration", "fieldDefinition", "fieldAttribute", "metaDataDeclaration", "refMetaDataDeclaration", "matchPair"}
	for _, rule := range lineStart {
		if w.G4.prule[rule] == nil {
			r.fail(ruleAnch, "rule "+rule+" exists", "grammar/PacketDsl.g4", "frozen line-start rule missing from the grammar")
			continue
		}
		for _, c := range w.expandCtx(title(rule)+"Context", ctxs) {
			// a metaDataDeclaration used as a field is anchored through its MetaField parent
			// on every path: the visiting function anchors its own node, or every function that hands the node on anchors it first
			var unanchored []string
			if ff.leftAt[c] && !ff.selfLeft[c] {
				for _, from := range sortedBoolKeys(ff.visitFrom[c]) {
					if !ff.callLeft[from][c] {
						unanchored = append(unanchored, from)
					}
				}
			}
			if ff.leftAt[c] && len(unanchored) > 0 {
				r.fail(ruleAnch, c+": own-line comment before it is kept", "internal/parser/packet_dsl_formattor.go", "the comment before this construct is only emitted by some of the functions that format it; "+strings.Join(unanchored, ", ")+" hand(s) the node on without asking for the comments in front of it: they are deleted there")
			} else if ff.leftAt[c] {
				r.pass(ruleAnch, c+": own-line comment before it is kept", "internal/parser/packet_dsl_formattor.go", "getHiddenLeft(ctx.GetStart())")
			} else {
				r.fail(ruleAnch, c+": own-line comment before it is kept", "internal/parser/packet_dsl_formattor.go", "no getHiddenLeft(ctx.GetStart()) for this construct: a `// comment` on the line(s) before it is only reachable through this token and is deleted")
			}
		}
	}
	if os.Getenv("FINLINT_DEBUG_RIGHT") != "" {
		fmt.Fprintf(os.Stderr, "rightAt: %v\n", sortedBoolKeys(ff.rightAt))
	}
	// an input without any declaration: the start rule can match nothing, then the only token is EOF and the comments in front
	// of it are reachable through the start context's own start token alone
	if len(w.G4.PRules) > 0 {
		start := w.G4.PRules[0]
		c := title(start.Name) + "Context"
		if w.G4.Nullable(start.Name) {
			if ff.selfLeft[c] {
				r.pass(ruleAnch, c+": comments of an input without declarations are kept", "internal/parser/packet_dsl_formattor.go", "getHiddenLeft(ctx.GetStart()) on the start context itself")
			} else {
				r.fail(ruleAnch, c+": comments of an input without declarations are kept", "internal/parser/packet_dsl_formattor.go", "rule '"+start.Name+"' can match the empty input; its visitor does not ask for the comments in front of its own start token (the declarations' visitors do, but there are none then): a file of comments only is formatted to the empty text")
			}
		}
	}
	// closing braces: rules whose last literal is '}'
	for _, pr := range w.G4.PRules {
		last := ""
		for _, a := range pr.Alts {
			if n := len(a.Elems); n > 0 && a.Elems[n-1].Kind == ekLit {
				last = a.Elems[n-1].Name
			} else if n > 0 && a.Elems[n-1].Kind == ekGroup {
				for _, ga := range a.Elems[n-1].Group {
					if m := len(ga.Elems); m > 0 && ga.Elems[m-1].Kind == ekLit {
						last = ga.Elems[m-1].Name
					}
				}
			}
		}
		if last != "}" {
			continue
		}
		c := title(pr.Name) + "Context"
		if ff.leftStop[c] {
			r.pass(ruleAnch, c+": comment before the closing brace is kept", "internal/parser/packet_dsl_formattor.go", "getHiddenLeft(ctx.GetStop())")
		} else {
			r.fail(ruleAnch, c+": comment before the closing brace is kept", "internal/parser/packet_dsl_formattor.go", "no getHiddenLeft on the closing `}` of "+pr.Name+": a comment on its own line after the last entry is deleted")
		}
	}
	// end of input: a right-hand query without the same-line restriction, applied to the stop token of the whole input
	eofOK := false
	qf := commentQueryFns(w)
	type fq struct {
		f *ssa.Function
		q queryFn
	}
	var fqs []fq
	for f, qs := range qf {
		for _, q := range qs {
			fqs = append(fqs, fq{f, q})
		}
	}
	for _, x := range fqs {
		f, q := x.f, x.q
		if q.kind != "right" && q.kindParam < 0 {
			continue
		}
		var isRestricted func(f *ssa.Function, depth int) bool
		isRestricted = func(f *ssa.Function, depth int) bool {
			direct, viaAll, viaAny := false, true, false
			for _, g := range append([]*ssa.Function{f}, f.AnonFuncs...) {
				forEachInstr(g, func(b *ssa.BasicBlock, ins ssa.Instruction) {
					c, ok := ins.(*ssa.Call)
					if !ok {
						return
					}
					if c.Call.IsInvoke() && c.Call.Method.Name() == "GetLine" {
						direct = true
					}
					if callee := c.Call.StaticCallee(); callee != nil && callee != f && depth < 4 {
						for _, cq := range qf[callee] {
							right := cq.kind == "right"
							if cq.kindParam >= 0 {
								// the side is what this call hands in (or what f itself was handed: may be the right side)
								ks, pass := cq.kindsAt(g, c.Call.Args)
								right = pass >= 0
								for _, k := range ks {
									if k == "right" {
										right = true
									}
								}
							}
							if right {
								viaAny = true
								// the restriction may sit in the callee, or in a predicate this call hands to it (a filter the
								// callee applies to each hidden token: `scan(side, tok, onLineOf(tok))`)
								handsLineTest := false
								for _, a := range c.Call.Args {
									if funcValueReadsLine(a) {
										handsLineTest = true
									}
								}
								if !handsLineTest && !isRestricted(callee, depth+1) {
									viaAll = false
								}
							}
						}
					}
				})
			}
			return direct || (viaAny && viaAll)
		}
		if isRestricted(f, 0) {
			continue
		}
		if n := w.CallGraph().Nodes[f]; n != nil {
			for _, e := range n.In {
				if e.Site == nil || e.Caller.Func.Synthetic != "" || q.param >= len(e.Site.Common().Args) {
					continue
				}
				if q.kindParam >= 0 {
					// asked through a query value handed in at this call: it must be the right-hand query, and no line filter
					// may be handed in with it
					ks, _ := q.kindsAt(e.Caller.Func, e.Site.Common().Args)
					if len(ks) != 1 || ks[0] != "right" {
						continue
					}
					filtered := false
					for _, a := range e.Site.Common().Args {
						if funcValueReadsLine(a) {
							filtered = true
						}
					}
					if filtered {
						continue
					}
				}
				if tc, ok := stripIdentity(e.Site.Common().Args[q.param]).(*ssa.Call); ok {
					var trecv ssa.Value
					nm := ""
					if tc.Call.IsInvoke() {
						nm, trecv = tc.Call.Method.Name(), tc.Call.Value
					} else if tf := tc.Call.StaticCallee(); tf != nil && len(tc.Call.Args) > 0 {
						nm, trecv = tf.Name(), tc.Call.Args[0]
					}
					if nm == "GetStop" {
						for _, c := range w.possibleCtxs(e.Caller.Func, trecv, ctxs, 0) {
							if c == "PacketContext" {
								eofOK = true
							}
						}
					}
				}
			}
		}
	}
	if eofOK {
		r.pass(ruleAnch, "comments after the last token are kept", "internal/parser/packet_dsl_formattor.go", "")
	} else {
		r.fail(ruleAnch, "comments after the last token are kept", "internal/parser/packet_dsl_formattor.go", "the only right-hand query is restricted to the same line: `// comment` lines after the last declaration are deleted")
	}
	for _, b := range ff.badAnchor {
		r.fail(ruleAnch, "anchor shape: "+strings.SplitN(b, " at ", 2)[0], "", b)
	}

	// ---- 4. error path ----
	c09ErrorPath(w, r)
	wholeInputRule(w, r, "C09")
	errorsNotDiscarded(w, r, "C09")
	c09SiblingIndependence(w, r, "C09")
	c10TokenTextNotAFormat(w, r, "C09", nil, nil)
	c09TokenTextNotSubstituted(w, r, "C09")
	c09CommentDelivery(w, r)
	fmtCommentEndsLine(w, r, "C09")
	r.assume("comments are only recoverable through hidden-channel queries at adjacent default-channel tokens (LINE_COMMENT -> channel(HIDDEN))")
}

func childHandled(w *World, handled map[string]bool, child string, ctxs map[string]*CtxInfo) bool {
	for _, c := range w.expandCtx(title(child)+"Context", ctxs) {
		if !handled[c] {
			return false
		}
	}
	return true
}

func c09ErrorPath(w *World, r *Report) {
	const rule = "C09/error-path"
	fn := w.Parser.Func("FormatPacketDsl")
	if fn == nil {
		r.fatal("anchor unresolved: parser.FormatPacketDsl")
		return
	}
	// the "errors were reported" edge returns (dsl, non-nil error); the test may be HasErrors() or len(errors) > 0 on the errors a
	// parsing helper returned
	unit := newParseUnit(w, fn)
	okRet := false
	for _, b := range fn.Blocks {
		cond := branchCond(b)
		if cond == nil {
			continue
		}
		errSucc, _, isGate := unit.gateOf(cond)
		if !isGate {
			continue
		}
		for _, bb := range fn.Blocks {
			if !edgeDominates(b, errSucc, bb) {
				continue
			}
			for _, ins := range bb.Instrs {
				if ret, ok := ins.(*ssa.Return); ok && len(ret.Results) == 2 {
					if ret.Results[0] == ssa.Value(fn.Params[0]) && !isNilConst(ret.Results[1]) {
						okRet = true
					} else {
						okRet = false
						r.fail(rule, "syntax-error edge returns the input unchanged and an error", w.instrPos(ins), "on the HasErrors() edge FormatPacketDsl does not return (dsl, non-nil error)")
						return
					}
				}
			}
		}
	}
	if !okRet {
		okRet = c09PresetResult(unit, fn)
	}
	if okRet {
		r.pass(rule, "syntax-error edge returns the input unchanged and an error", w.pos(fn.Pos()), "")
	} else {
		r.fail(rule, "syntax-error edge returns the input unchanged and an error", w.pos(fn.Pos()), "no return of (dsl, err) found on the HasErrors() edge")
	}
	// gate + listeners: same structural rule as C11/G, restricted to the formatter
	sub := newReport("tmp")
	c11RuleG(w, sub)
	for _, o := range sub.Obls {
		if strings.Contains(o.Key, "FormatPacketDsl") {
			r.add(rule, strings.TrimPrefix(o.Key, "C11/G-error-gate "), o.OK, o.Pos, o.Detail)
		}
	}
	// CLI: file write only on err == nil, error edge exits non-zero (shared with C16)
	sub2 := newReport("tmp")
	c16Format(w, sub2)
	for _, o := range sub2.Obls {
		if strings.Contains(o.Key, "error-edge exits") || strings.Contains(o.Key, "file-sink-is-result") {
			r.add(rule, "cli: "+strings.TrimPrefix(o.Key, "C16/format-cli "), o.OK, o.Pos, o.Detail)
		}
	}
}

// c09PresetResult: the same fact without a branch in the entry function: a return hands back (variable, err) where err is what a
// function of the unit returns - nil only if no syntax error was reported - and the variable holds the input text unless it is
// re-assigned, which happens only behind the no-error edge of a gate (in the function or in a closure the unit runs there).
// Every return of the entry function that lies behind such a parse must be of that form.
func c09PresetResult(u *parseUnit, fn *ssa.Function) bool {
	if len(fn.Params) == 0 {
		return false
	}
	found := false
	for _, b := range fn.Blocks {
		ret, ok := b.Instrs[len(b.Instrs)-1].(*ssa.Return)
		if !ok || len(ret.Results) != 2 {
			continue
		}
		// is the error result the verdict of a parse of the unit?
		var call *ssa.Call
		idx := 0
		switch x := stripIdentity(ret.Results[1]).(type) {
		case *ssa.Call:
			call = x
		case *ssa.Extract:
			call, _ = x.Tuple.(*ssa.Call)
			idx = x.Index
		}
		if call == nil {
			continue
		}
		if _, isVerdict := u.nilOnlyWithoutErrors(call, idx, 0); !isVerdict {
			continue
		}
		// the text result: the input itself, or a variable that is the input wherever errors were reported
		if ret.Results[0] == ssa.Value(fn.Params[0]) {
			found = true
			continue
		}
		var al *ssa.Alloc
		if ld, isLoad := ret.Results[0].(*ssa.UnOp); isLoad && ld.Op == token.MUL {
			al = cellOfAddr(ld.X)
		}
		if al == nil || al.Parent() != fn {
			return false
		}
		stores, escaped := cellStores(al)
		if escaped {
			return false
		}
		preset := false
		for _, st := range stores {
			if stripIdentity(st.Val) == ssa.Value(fn.Params[0]) {
				if st.Parent() == fn && instrDominates(st, call) {
					preset = true
				}
				continue
			}
			// any other assignment: before the parse (then the preset must come after it - not modelled: refuse), or behind a gate
			if !u.gated(st, 0, map[ssa.Value]bool{}) {
				return false
			}
		}
		if !preset {
			return false
		}
		found = true
	}
	return found
}

// ---------------- C10 ----------------

var positionalMethods = map[string]bool{"GetLine": true, "GetColumn": true, "GetCharPositionInLine": true, "GetInputStream": true, "GetTextFromInterval": true,
	"GetTextFromTokens": true, "GetTextFromRuleContext": true, "GetSourceInterval": true, "GetAllText": true, "GetSource": true, "Index": true, "Seek": true}

func runC10(w *World, r *Report) {
	entryPointsKeepNoState(w, r, "C10", formatEntryRoots(w), "reachable from the formatter", "the formatter writes package-level storage: formatting a text a second time, or after another text, need not give what formatting it alone gives")

	fns := formatterFuncs(w)
	ctxs := w.ctxTable()
	const rulePos = "C10/no-layout-input"
	for _, fn := range fns {
		var bad []string
		forEachInstr(fn, func(b *ssa.BasicBlock, ins ssa.Instruction) {
			call, ok := ins.(*ssa.Call)
			if !ok {
				return
			}
			cc := call.Call
			name := ""
			var recv ssa.Value
			if cc.IsInvoke() {
				name, recv = cc.Method.Name(), cc.Value
			} else if f := cc.StaticCallee(); f != nil && f.Signature.Recv() != nil && len(cc.Args) > 0 {
				name, recv = f.Name(), cc.Args[0]
				if f.Pkg == nil || !strings.Contains(f.Pkg.Pkg.Path(), "antlr") && f.Pkg.Pkg.Path() != grammarPath {
					return
				}
			} else {
				return
			}
			isTokenRecv := strings.HasSuffix(types.TypeString(recv.Type(), shortQual), "antlr.Token")
			switch {
			case (name == "GetLine" || positionalMethods[name]) && onlyInDiagnostics(call):
				// the position is only reported (line/column of a syntax error): it cannot reach the formatted text, which is not
				// returned when an error was recorded
			case name == "GetLine":
				// allowed only as an operand of an equality between two GetLine() results (the same-line predicate)
				okUse := lineOnlyCompared(call, 0)
				if !okUse {
					bad = append(bad, "GetLine() used other than in the same-line comparison at "+w.instrPos(ins))
				}
			case name == "GetTokenIndex":
				for _, ref := range *call.Referrers() {
					// a hidden-channel query: the method call, or a call of a function value that can only be one of the two queries
					c2, isC := ref.(ssa.CallInstruction)
					if _, dbg := ref.(*ssa.DebugRef); dbg {
						continue
					}
					if !isC || !isHiddenQueryCall(c2) {
						bad = append(bad, "GetTokenIndex() used other than as the argument of a hidden-channel query at "+w.instrPos(ins))
					}
				}
			case positionalMethods[name]:
				bad = append(bad, name+"() at "+w.instrPos(ins))
			case isTokenRecv && (name == "GetStart" || name == "GetStop"):
				bad = append(bad, "character index Token."+name+"() at "+w.instrPos(ins))
			}
		})
		if len(bad) > 0 {
			r.fail(rulePos, fnKey(fn), w.pos(fn.Pos()), "the formatter reads layout/position of the input: two inputs with the same tokens may format differently: "+strings.Join(bad, "; "))
		} else {
			r.pass(rulePos, fnKey(fn), w.pos(fn.Pos()), "")
		}
	}
	r.floor(rulePos, 20)
	c10SameLineAnchor(w, r, fns)
	fmtCommentEndsLine(w, r, "C10")
	c10TokenTextNotCut(w, r, "C10")
	c09SiblingIndependence(w, r, "C10")
	// the dsl text itself is not consulted after parsing
	fmtFn := w.Parser.Func("FormatPacketDsl")
	if fmtFn == nil {
		r.fatal("anchor unresolved: parser.FormatPacketDsl")
		return
	}
	okDsl := true
	detail := ""
	// the text goes into the character stream of the lexer (directly or through parser-package helpers) and nowhere else
	var onlyParsed func(v ssa.Value, depth int) bool
	onlyParsed = func(v ssa.Value, depth int) bool {
		if v.Referrers() == nil || depth > 4 {
			return depth <= 4
		}
		for _, ref := range *v.Referrers() {
			switch x := ref.(type) {
			case *ssa.DebugRef:
			case *ssa.Return:
				if depth > 0 {
					okDsl, detail = false, "dsl returned by "+fnKey(x.Parent())
					return false
				}
			case *ssa.Store:
				// kept in a local variable (the result preset to the input, a closure sharing it): what reads the variable uses the text
				al, isCell := x.Addr.(*ssa.Alloc)
				if !isCell || x.Val != v {
					okDsl, detail = false, "dsl used by "+ref.String()
					return false
				}
				if _, escaped := cellStores(al); escaped {
					okDsl, detail = false, "dsl kept in a variable whose address escapes: "+ref.String()
					return false
				}
				for _, ld := range cellLoads(al) {
					d := depth
					if li, ok := ld.(ssa.Instruction); ok && li.Parent() != x.Parent() {
						d = depth + 1
					}
					if !onlyParsed(ld, d) {
						return false
					}
				}
			case *ssa.ChangeType:
				if !onlyParsed(x, depth) {
					return false
				}
			case *ssa.Convert:
				if !onlyParsed(x, depth) {
					return false
				}
			case ssa.CallInstruction:
				f := x.Common().StaticCallee()
				switch {
				case f != nil && f.Pkg != nil && strings.Contains(f.Pkg.Pkg.Path(), "antlr") && (f.Name() == "NewInputStream" || f.Name() == "NewIoStream"):
				case f != nil && f.Blocks != nil && f.Pkg == w.Parser:
					for i, a := range x.Common().Args {
						if a == v && (i >= len(f.Params) || !onlyParsed(f.Params[i], depth+1)) {
							if detail == "" {
								detail = "dsl passed to " + calleeName(x)
							}
							okDsl = false
							return false
						}
					}
				default:
					okDsl, detail = false, "dsl passed to "+calleeName(x)
					return false
				}
			default:
				okDsl, detail = false, "dsl used by "+ref.String()
				return false
			}
		}
		return true
	}
	onlyParsed(fmtFn.Params[0], 0)
	if okDsl {
		r.pass(rulePos, "the raw dsl text is only parsed or returned on error", w.pos(fmtFn.Pos()), "")
	} else {
		r.fail(rulePos, "the raw dsl text is only parsed or returned on error", w.pos(fmtFn.Pos()), detail)
	}
	// grammar facts
	ws, lc := w.G4.lrule["WS"], w.G4.lrule["LINE_COMMENT"]
	if ws != nil && ws.Action == "skip" && lc != nil && strings.HasPrefix(lc.Action, "channel") {
		r.pass(rulePos, "grammar: WS -> skip, LINE_COMMENT -> hidden channel", "grammar/PacketDsl.g4", "")
	} else {
		r.fail(rulePos, "grammar: WS -> skip, LINE_COMMENT -> hidden channel", "grammar/PacketDsl.g4", "whitespace or comments reach the default token channel")
	}

	// ---- anchors are start/stop tokens ----
	const ruleAnch = "C10/anchor-shape"
	ff := collectFmtFacts(w, ctxs)
	if len(ff.badAnchor) == 0 {
		r.pass(ruleAnch, "comment queries are anchored at ctx.GetStart() (left) / ctx.GetStop() (same-line right)", "internal/parser/packet_dsl_formattor.go", fmt.Sprintf("%d left, %d right, %d brace anchors", len(ff.leftAt), len(ff.rightAt), len(ff.leftStop)))
	}
	for _, b := range ff.badAnchor {
		r.fail(ruleAnch, strings.SplitN(b, " at ", 2)[0], "", b+": a comment attached to an interior token is re-attached elsewhere on the next pass (not idempotent, layout-dependent)")
	}
	if len(ff.leftAt)+len(ff.rightAt) < 4 {
		r.fail(ruleAnch, "anchors found", "", "fewer than 4 comment anchors found: the anchor analysis lost its subjects")
	}

	// ---- emit-once ----
	const ruleOnce = "C10/emit-once"
	// readers are counted per (function, side asked): one scanner that is handed the left or the right query by its callers reads
	// both sides, like two functions that each ask one
	nq := 0
	for _, fn := range fns {
		queries := false
		sides := map[string]bool{}
		forEachInstr(fn, func(b *ssa.BasicBlock, ins ssa.Instruction) {
			if c, ok := ins.(ssa.CallInstruction); ok {
				for _, k := range hiddenQueryAt(c) {
					queries = true
					sides[k] = true
				}
			}
		})
		if !queries {
			continue
		}
		nq += len(sides)
		// every WriteString of a hidden token's text must be dominated by the miss edge of a seen-set lookup keyed by that token, and the insert must be on the same path
		tests := membershipTests(fn)
		forEachInstr(fn, func(b *ssa.BasicBlock, ins ssa.Instruction) {
			c, ok := ins.(ssa.CallInstruction)
			if !ok || c.Common().StaticCallee() == nil || !builderWriters[c.Common().StaticCallee().String()] || len(c.Common().Args) < 2 {
				return
			}
			txt, ok := c.Common().Args[1].(*ssa.Call)
			if !ok || !txt.Call.IsInvoke() || txt.Call.Method.Name() != "GetText" {
				return
			}
			tok := txt.Call.Value
			key := fmt.Sprintf("%s emits a comment", fnKey(fn))
			guarded, marked := false, false
			for _, t := range tests {
				if !sameValue(t.lookup.Index, tok) {
					continue
				}
				if edgeDominates(t.branch, 1-t.presentSucc, b) {
					guarded = true
				}
				forEachInstr(fn, func(b2 *ssa.BasicBlock, i2 ssa.Instruction) {
					if mu, ok := i2.(*ssa.MapUpdate); ok && sameValue(mu.Key, tok) && mapDesc(mu.Map) == mapDesc(t.lookup.X) && (b2.Dominates(b) || b.Dominates(b2)) {
						marked = true
					}
				})
			}
			// the seen set as a type with a test-and-set method (`if !seen.claim(t) { continue }`): the edge on which the helper
			// reported "new" is the miss edge of its lookup, and the helper has inserted the token on it
			forEachInstr(fn, func(b2 *ssa.BasicBlock, i2 ssa.Instruction) {
				c2, ok := i2.(*ssa.Call)
				if !ok || c2.Call.IsInvoke() {
					return
				}
				m, k, newSucc, ok := testAndSetEdge(c2)
				if !ok || !sameValue(k, tok) || !isTokenKeyedMap(m.Type()) {
					return
				}
				if edgeDominates(b2, newSucc, b) {
					guarded, marked = true, true
				}
			})
			switch {
			case !guarded:
				r.fail(ruleOnce, key, w.instrPos(ins), "comment text is written without a dominating not-yet-emitted test on the seen set: a comment reachable from two anchors is printed twice (and again on every further pass)")
			case !marked:
				r.fail(ruleOnce, key, w.instrPos(ins), "comment is emitted but never recorded in the seen set")
			default:
				r.pass(ruleOnce, key, w.instrPos(ins), "check-then-mark on the seen set")
			}
		})
	}
	if nq < 2 {
		r.fail(ruleOnce, "hidden-channel readers found", "", fmt.Sprintf("expected 2 readers of the hidden channel (functions x side asked), found %d", nq))
	}
	r.assume("ANTLR's lexer maps equal character sequences to equal token sequences; hidden-channel queries return the comments adjacent to a token")
}

// isLineValue: v is a GetLine() result, possibly kept in a local variable or captured by a closure.
func isLineValue(v ssa.Value, depth int) bool {
	if depth > 6 {
		return false
	}
	switch x := stripIdentity(v).(type) {
	case *ssa.Call:
		return x.Call.IsInvoke() && x.Call.Method.Name() == "GetLine"
	case *ssa.Phi:
		for _, e := range x.Edges {
			if !isLineValue(e, depth+1) {
				return false
			}
		}
		return true
	case *ssa.FreeVar:
		fn := x.Parent()
		idx := -1
		for i, fv := range fn.FreeVars {
			if fv == x {
				idx = i
			}
		}
		if idx < 0 || fn.Parent() == nil {
			return false
		}
		found, all := false, true
		forEachInstr(fn.Parent(), func(_ *ssa.BasicBlock, ins ssa.Instruction) {
			if mc, ok := ins.(*ssa.MakeClosure); ok && mc.Fn == ssa.Value(fn) && idx < len(mc.Bindings) {
				found = true
				if !isLineValue(mc.Bindings[idx], depth+1) {
					all = false
				}
			}
		})
		return found && all
	case *ssa.UnOp:
		if x.Op != token.MUL {
			return false
		}
		switch a := x.X.(type) {
		case *ssa.Alloc:
			n := 0
			for _, ref := range *a.Referrers() {
				if st, ok := ref.(*ssa.Store); ok && st.Addr == ssa.Value(a) {
					n++
					if !isLineValue(st.Val, depth+1) {
						return false
					}
				}
			}
			return n > 0
		case *ssa.FreeVar:
			// a captured variable: the enclosing function's stores decide
			return isLineValue(a, depth+1)
		}
	case *ssa.Alloc:
		n := 0
		for _, ref := range *x.Referrers() {
			if st, ok := ref.(*ssa.Store); ok && st.Addr == ssa.Value(x) {
				n++
				if !isLineValue(st.Val, depth+1) {
					return false
				}
			}
		}
		return n > 0
	}
	return false
}

// lineOnlyCompared: every use of the GetLine() result v is an (in)equality with another GetLine() result - the same-line predicate -
// directly, through a local variable, or inside a closure that captured it.
func lineOnlyCompared(v ssa.Value, depth int) bool {
	if depth > 6 || v.Referrers() == nil {
		return depth <= 6
	}
	for _, ref := range *v.Referrers() {
		switch x := ref.(type) {
		case *ssa.DebugRef:
		case *ssa.BinOp:
			if x.Op != token.EQL && x.Op != token.NEQ {
				return false
			}
			other := x.X
			if other == v {
				other = x.Y
			}
			if !isLineValue(other, 0) {
				return false
			}
		case *ssa.Phi:
			if !lineOnlyCompared(x, depth+1) {
				return false
			}
		case *ssa.Store:
			a, ok := x.Addr.(*ssa.Alloc)
			if !ok || x.Val != v {
				return false
			}
			for _, r2 := range *a.Referrers() {
				switch y := r2.(type) {
				case *ssa.Store, *ssa.DebugRef:
				case *ssa.UnOp:
					if !lineOnlyCompared(y, depth+1) {
						return false
					}
				case *ssa.MakeClosure:
					if !closureLineOnly(y, a, depth) {
						return false
					}
				default:
					return false
				}
			}
		case *ssa.MakeClosure:
			if !closureLineOnly(x, v, depth) {
				return false
			}
		default:
			return false
		}
	}
	return true
}

func closureLineOnly(mc *ssa.MakeClosure, bound ssa.Value, depth int) bool {
	fn, ok := mc.Fn.(*ssa.Function)
	if !ok {
		return false
	}
	for i, b := range mc.Bindings {
		if b != bound || i >= len(fn.FreeVars) {
			continue
		}
		fv := fn.FreeVars[i]
		if _, isPtr := bound.(*ssa.Alloc); isPtr {
			for _, r2 := range *fv.Referrers() {
				switch y := r2.(type) {
				case *ssa.DebugRef:
				case *ssa.UnOp:
					if !lineOnlyCompared(y, depth+1) {
						return false
					}
				default:
					return false
				}
			}
		} else if !lineOnlyCompared(fv, depth+1) {
			return false
		}
	}
	return true
}

// c10SameLineAnchor: the one positional predicate the formatter may use is "this hidden comment is on the line of the token the hidden
// tokens were asked for". The line it is compared with must therefore be the line of that very token - not of another token of the same
// construct (its first token, say), which differs as soon as the construct spans lines.
func c10SameLineAnchor(w *World, r *Report, fns []*ssa.Function) {
	const rule = "C10/same-line-anchor"
	qf := commentQueryFns(w)
	sameTok := func(a, b ssa.Value) bool {
		a, b = stripIdentity(a), stripIdentity(b)
		if a == b {
			return true
		}
		ca, ok1 := a.(*ssa.Call)
		cb, ok2 := b.(*ssa.Call)
		if !ok1 || !ok2 {
			return false
		}
		// the same argument-less accessor on the same receiver (ctx.GetStop() written twice)
		na, ra := callNameRecv(ca)
		nb, rb := callNameRecv(cb)
		return na != "" && na == nb && ra != nil && rb != nil && stripIdentity(ra) == stripIdentity(rb)
	}
	n := 0
	for _, fn := range fns {
		if fn.Parent() != nil {
			continue // closures are judged with their parent
		}
		// anchors: tokens the right-hand hidden queries of this function are asked for
		var anchors []ssa.Value
		forEachInstr(fn, func(b *ssa.BasicBlock, ins ssa.Instruction) {
			c, ok := ins.(ssa.CallInstruction)
			if !ok {
				return
			}
			// the query itself (method call, or a function value that may be the right-hand query)
			for _, k := range hiddenQueryAt(c) {
				if a := hiddenQueryAnchor(c); k == "right" && a != nil {
					anchors = append(anchors, a)
				}
			}
			f := c.Common().StaticCallee()
			if f == nil {
				return
			}
			for _, q := range qf[f] {
				if q.param >= len(c.Common().Args) {
					continue
				}
				// a helper that queries around its token parameter: on the right side by itself, or because this call hands it the
				// right-hand query (or hands on whatever fn was handed)
				ks, pass := q.kindsAt(fn, c.Common().Args)
				right := pass >= 0
				for _, k := range ks {
					if k == "right" {
						right = true
					}
				}
				if right {
					anchors = append(anchors, c.Common().Args[q.param])
				}
			}
		})
		if len(anchors) == 0 {
			continue
		}
		cnt := 0
		// predicate constructors: a repo function handed the anchor token whose (closure's) GetLine() is taken on that parameter
		forEachInstr(fn, func(b *ssa.BasicBlock, ins ssa.Instruction) {
			c, ok := ins.(ssa.CallInstruction)
			if !ok {
				return
			}
			h := c.Common().StaticCallee()
			if h == nil || h.Pkg != w.Parser || h.Blocks == nil || len(qf[h]) > 0 {
				return
			}
			for _, g := range append([]*ssa.Function{h}, h.AnonFuncs...) {
				forEachInstr(g, func(_ *ssa.BasicBlock, i2 ssa.Instruction) {
					call, ok := i2.(*ssa.Call)
					if !ok || !call.Call.IsInvoke() || call.Call.Method.Name() != "GetLine" {
						return
					}
					recv := stripIdentity(call.Call.Value)
					byRef := false
					if ld, ok := recv.(*ssa.UnOp); ok && ld.Op == token.MUL {
						if fv, ok := ld.X.(*ssa.FreeVar); ok {
							recv, byRef = fv, true // captured by reference: the variable's cell
						}
					}
					// a captured variable of the closure: which value of h was captured?
					if fv, ok := recv.(*ssa.FreeVar); ok && g != h {
						for j, x := range g.FreeVars {
							if x != fv {
								continue
							}
							forEachInstr(h, func(_ *ssa.BasicBlock, i3 ssa.Instruction) {
								if mc, ok := i3.(*ssa.MakeClosure); ok && mc.Fn == ssa.Value(g) && j < len(mc.Bindings) {
									recv = stripIdentity(mc.Bindings[j])
									if al, ok := recv.(*ssa.Alloc); ok && byRef {
										// the cell of a parameter that is never re-assigned
										var stored ssa.Value
										nst := 0
										for _, ref := range *al.Referrers() {
											if st, ok := ref.(*ssa.Store); ok && st.Addr == ssa.Value(al) {
												nst++
												stored = st.Val
											}
										}
										if nst == 1 {
											recv = stripIdentity(stored)
										}
									}
								}
							})
						}
					}
					p, ok := recv.(*ssa.Parameter)
					if !ok || p.Parent() != h {
						return // the comment under test (the predicate's own parameter) or something local
					}
					for idx, q := range h.Params {
						if q != p || idx >= len(c.Common().Args) {
							continue
						}
						n++
						cnt++
						key := fmt.Sprintf("%s same-line test #%d compares with the line of the token the query is anchored at", fnKey(fn), cnt)
						okA := false
						for _, a := range anchors {
							if sameTok(c.Common().Args[idx], a) {
								okA = true
							}
						}
						if okA {
							r.pass(rule, key, w.instrPos(ins), "through "+fnKey(h))
						} else {
							r.fail(rule, key, w.instrPos(ins), "the comment's line is compared (in "+fnKey(h)+") with the line of a token other than the one whose hidden tokens are examined")
						}
					}
				})
			}
		})
		for _, g := range append([]*ssa.Function{fn}, fn.AnonFuncs...) {
			forEachInstr(g, func(b *ssa.BasicBlock, ins ssa.Instruction) {
				call, ok := ins.(*ssa.Call)
				if !ok || !call.Call.IsInvoke() || call.Call.Method.Name() != "GetLine" {
					return
				}
				recv := stripIdentity(call.Call.Value)
				// a variable of the enclosing function seen from inside a closure: what the enclosing function put into it
				recv = resolveCaptured(recv, g)
				// the hidden comment itself: an element of a token slice (query result, possibly handed to a helper) or a closure parameter
				switch x := recv.(type) {
				case *ssa.UnOp:
					if _, ok := x.X.(*ssa.IndexAddr); ok {
						return
					}
				case *ssa.Parameter:
					if g != fn && x.Parent() == g {
						return // parameter of the predicate closure: the comment under test
					}
				}
				n++
				cnt++
				key := fmt.Sprintf("%s same-line test #%d compares with the line of the token the query is anchored at", fnKey(fn), cnt)
				ok = false
				for _, a := range anchors {
					if sameTok(recv, a) {
						ok = true
					}
				}
				if ok {
					r.pass(rule, key, w.instrPos(ins), "")
				} else {
					r.fail(rule, key, w.instrPos(ins), "the comment's line is compared with the line of a token other than the one whose hidden tokens are examined: whether a trailing comment stays on its line then depends on how the construct is broken over lines")
				}
			})
		}
	}
	if n == 0 {
		r.fail(rule, "same-line test found", "internal/parser/packet_dsl_formattor.go", "no GetLine() comparison next to a right-hand hidden-token query found: trailing comments cannot be kept on their line")
	}
}

func callNameRecv(c *ssa.Call) (string, ssa.Value) {
	if c.Call.IsInvoke() {
		if len(c.Call.Args) > 0 {
			return "", nil
		}
		return c.Call.Method.Name(), c.Call.Value
	}
	if f := c.Call.StaticCallee(); f != nil && f.Signature.Recv() != nil && len(c.Call.Args) == 1 {
		return f.Name(), c.Call.Args[0]
	}
	return "", nil
}

// onlyInDiagnostics: every use of v is an argument of a SyntaxError(...) report or a store into a model.SyntaxError record.
func onlyInDiagnostics(v ssa.Value) bool { return onlyInDiagnosticsD(v, 0) }

func onlyInDiagnosticsD(v ssa.Value, depth int) bool {
	refs := v.Referrers()
	if refs == nil || depth > 3 {
		return false
	}
	n := 0
	for _, ref := range *refs {
		switch x := ref.(type) {
		case *ssa.DebugRef:
			continue
		case ssa.CallInstruction:
			name := ""
			var f *ssa.Function
			if x.Common().IsInvoke() {
				name = x.Common().Method.Name()
			} else if f = x.Common().StaticCallee(); f != nil {
				name = f.Name()
			}
			if name != "SyntaxError" && name != "AddSyntaxError" {
				// a recording helper of the repo: the parameter it arrives in is itself used in diagnostics only
				if f == nil || f.Blocks == nil || theWorld == nil || f.Pkg != theWorld.Parser {
					return false
				}
				for i, a := range x.Common().Args {
					if a == v && (i >= len(f.Params) || !onlyInDiagnosticsD(f.Params[i], depth+1)) {
						return false
					}
				}
			}
			n++
		case *ssa.Store:
			fa, ok := x.Addr.(*ssa.FieldAddr)
			if !ok {
				return false
			}
			if tn, _, _, _ := fieldOf(fa); tn != "SyntaxError" {
				return false
			}
			n++
		default:
			return false
		}
	}
	return n > 0
}

// resolveCaptured: v, inside closure g, is (a load of) a captured variable: the value the enclosing function stored into that variable
// when it is assigned exactly once (a parameter or a local that is never re-assigned); v itself otherwise.
func resolveCaptured(v ssa.Value, g *ssa.Function) ssa.Value {
	if g == nil || g.Parent() == nil {
		return v
	}
	var fv *ssa.FreeVar
	byRef := false
	switch x := v.(type) {
	case *ssa.FreeVar:
		fv = x
	case *ssa.UnOp:
		if f, ok := x.X.(*ssa.FreeVar); ok && x.Op == token.MUL {
			fv, byRef = f, true
		}
	}
	if fv == nil {
		return v
	}
	out := v
	for j, x := range g.FreeVars {
		if x != fv {
			continue
		}
		forEachInstr(g.Parent(), func(_ *ssa.BasicBlock, ins ssa.Instruction) {
			mc, ok := ins.(*ssa.MakeClosure)
			if !ok || mc.Fn != ssa.Value(g) || j >= len(mc.Bindings) {
				return
			}
			b := mc.Bindings[j]
			if !byRef {
				out = stripIdentity(b)
				return
			}
			if al, ok := b.(*ssa.Alloc); ok && al.Referrers() != nil {
				var stored ssa.Value
				n := 0
				for _, ref := range *al.Referrers() {
					if st, ok := ref.(*ssa.Store); ok && st.Addr == ssa.Value(al) {
						n++
						stored = st.Val
					}
				}
				if n == 1 {
					out = stripIdentity(stored)
				}
			}
		})
	}
	return out
}
