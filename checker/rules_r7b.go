package main

import (
	"fmt"
	"go/token"
	"go/types"

	"golang.org/x/tools/go/ssa"
)

// deadByExhaustiveAccessors: blk is reached only when every alternative of a grammar rule is absent from one parse-tree node - the
// nil edges of tests `node.A() != nil`, `node.B() != nil`, ... dominate it and every alternative of the node's rule has a mandatory
// element among A, B, ... A syntactically valid tree (the error gate, C11/G) has exactly one alternative, so the block cannot run.
func (w *World) deadByExhaustiveAccessors(blk *ssa.BasicBlock, ctxs map[string]*CtxInfo) bool {
	return w.deadEdgeByExhaustiveAccessors(blk, nil, ctxs)
}

// deadEdgeByExhaustiveAccessors: the same for the edge blk -> to (to == nil: for blk itself): the test that ends blk counts when the
// edge is its "absent" edge.
func (w *World) deadEdgeByExhaustiveAccessors(blk, to *ssa.BasicBlock, ctxs map[string]*CtxInfo) bool {
	fn := blk.Parent()
	absent := map[string]map[string]bool{} // node path + ctx -> children known absent
	ctxOf := map[string]string{}
	for _, b := range fn.Blocks {
		cond := branchCond(b)
		if cond == nil {
			continue
		}
		x, nn, ok := nilTest(cond)
		if !ok {
			continue
		}
		c, ok := stripIdentity(x).(*ssa.Call)
		if !ok {
			continue
		}
		recv, ai, ok := w.accessorOf(c, ctxs)
		if !ok || !ai.Known {
			continue
		}
		onEdge := to != nil && b == blk && len(b.Succs) == 2 && b.Succs[1-nn] == to && b.Succs[nn] != to
		if !onEdge && !edgeDominates(b, 1-nn, blk) {
			continue
		}
		k := w.accessPath(recv, ctxs, 0) + "|" + ai.Ctx
		if absent[k] == nil {
			absent[k] = map[string]bool{}
		}
		absent[k][ai.What] = true
		ctxOf[k] = ai.Ctx
	}
	for k, set := range absent {
		ci := ctxs[ctxOf[k]]
		if ci == nil || ci.AltLabel != "" {
			continue
		}
		pr := w.G4.prule[ci.Rule]
		if pr == nil || len(pr.Alts) < 2 {
			continue
		}
		all := true
		for _, a := range pr.Alts {
			hit := false
			for _, e := range a.Elems {
				if e.Suffix == 0 && (e.Kind == ekToken || e.Kind == ekRule) && (set[e.Name] || (e.Label != "" && set[e.Label+"="])) {
					hit = true
				}
			}
			if !hit {
				all = false
			}
		}
		if all {
			return true
		}
	}
	return false
}

// insertedRecordsKeepMember: every record stored into the map described by mapd has a non-nil member (field index idx of the map's
// value type) - the premise under which "the entry exists" (`m[k] != T{}`) justifies dereferencing that member of a looked-up entry.
// Returns "" when it holds, else where it does not.
func (w *World) insertedRecordsKeepMember(mapd string, idx int, ctxs map[string]*CtxInfo) string {
	var nonNilVal func(v ssa.Value, from *ssa.BasicBlock, depth int, seen map[ssa.Value]bool) bool
	nonNilVal = func(v ssa.Value, from *ssa.BasicBlock, depth int, seen map[ssa.Value]bool) bool {
		if depth > 6 || seen[v] {
			return seen[v]
		}
		seen[v] = true
		switch x := v.(type) {
		case *ssa.MakeInterface:
			if _, isPtr := x.X.Type().Underlying().(*types.Pointer); isPtr {
				return nonNilVal(x.X, from, depth+1, seen)
			}
			return true
		case *ssa.Alloc:
			return true
		case *ssa.ChangeInterface:
			return nonNilVal(x.X, from, depth+1, seen)
		case *ssa.Phi:
			for i, e := range x.Edges {
				pb := x.Block().Preds[i]
				if w.deadEdgeByExhaustiveAccessors(pb, x.Block(), ctxs) || w.deadByExhaustiveSwitch(pb, ctxs) != "" {
					continue
				}
				if !nonNilVal(e, pb, depth+1, seen) {
					return false
				}
			}
			return true
		case *ssa.Const:
			return x.Value != nil
		case *ssa.Call, *ssa.Extract:
			// the result of a routine of the repository that hands back nil only where it cannot get
			var g *ssa.Function
			ri := 0
			if c, ok := x.(*ssa.Call); ok {
				g = c.Call.StaticCallee()
			} else if ex := x.(*ssa.Extract); ok || ex != nil {
				if c, ok := ex.Tuple.(*ssa.Call); ok {
					g, ri = c.Call.StaticCallee(), ex.Index
				}
			}
			if g != nil && g.Blocks != nil && w.isSubjectFunc(g) {
				good := true
				forEachInstr(g, func(b *ssa.BasicBlock, ins ssa.Instruction) {
					ret, ok := ins.(*ssa.Return)
					if !ok || ri >= len(ret.Results) || !good {
						return
					}
					if w.deadByExhaustiveAccessors(b, ctxs) || w.deadByExhaustiveSwitch(b, ctxs) != "" || w.deadByInfeasibleFlag(b, 0) {
						return
					}
					if !nonNilVal(ret.Results[ri], b, depth+1, seen) {
						good = false
					}
				})
				if good {
					return true
				}
			}
		}
		if from != nil && guardedByNil(from, v, true) {
			return true
		}
		return false
	}
	// the member of a record value v is non-nil at block `at` of fn
	var recordOK func(fn *ssa.Function, v ssa.Value, at *ssa.BasicBlock, depth int) string
	recordOK = func(fn *ssa.Function, v ssa.Value, at *ssa.BasicBlock, depth int) string {
		if depth > 4 {
			return "too deep to follow in " + fnKey(fn)
		}
		v = stripIdentity(v)
		// a dominating non-nil test of this record's member
		if v.Referrers() != nil {
			for _, ref := range *v.Referrers() {
				f, ok := ref.(*ssa.Field)
				if !ok || f.Field != idx {
					continue
				}
				if guardedByNil(at, f, true) {
					return ""
				}
			}
		}
		switch x := v.(type) {
		case *ssa.Parameter:
			pi := -1
			for i, q := range fn.Params {
				if q == x {
					pi = i
				}
			}
			n := w.CallGraph().Nodes[fn]
			if n == nil || pi < 0 {
				return "parameter of " + fnKey(fn) + " without known callers"
			}
			sites := 0
			for _, e := range n.In {
				if e.Site == nil || e.Site.Common().StaticCallee() != fn || e.Caller.Func == nil || !w.isSubjectFunc(e.Caller.Func) || pi >= len(e.Site.Common().Args) {
					continue
				}
				sites++
				if why := recordOK(e.Caller.Func, e.Site.Common().Args[pi], e.Site.Block(), depth+1); why != "" {
					return why
				}
			}
			if sites == 0 {
				return "parameter of " + fnKey(fn) + " without known callers"
			}
			return ""
		case *ssa.TypeAssert:
			return recordOK(fn, x.X, at, depth+1)
		case *ssa.Extract:
			if ta, ok := x.Tuple.(*ssa.TypeAssert); ok && x.Index == 0 {
				return recordOK(fn, ta.X, at, depth+1)
			}
		case *ssa.MakeInterface:
			return recordOK(fn, x.X, at, depth+1)
		case *ssa.UnOp:
			if x.Op != token.MUL {
				break
			}
			// a record literal: the store into its member
			if al, ok := x.X.(*ssa.Alloc); ok && al.Referrers() != nil {
				// a local that holds a whole record (result := f().(T)): a dominating non-nil test of its member, else what was stored
				var whole ssa.Value
				for _, ref := range *al.Referrers() {
					if st, ok := ref.(*ssa.Store); ok && st.Addr == ssa.Value(al) {
						whole = st.Val
					}
					if fa, ok := ref.(*ssa.FieldAddr); ok && fa.Field == idx && fa.Referrers() != nil {
						for _, r2 := range *fa.Referrers() {
							if ld, ok := r2.(*ssa.UnOp); ok && ld.Op == token.MUL && guardedByNil(at, ld, true) {
								return ""
							}
						}
					}
				}
				if whole != nil {
					return recordOK(fn, whole, at, depth+1)
				}
				set := false
				for _, ref := range *al.Referrers() {
					fa, ok := ref.(*ssa.FieldAddr)
					if !ok || fa.Field != idx || fa.Referrers() == nil {
						continue
					}
					for _, r2 := range *fa.Referrers() {
						if st, ok := r2.(*ssa.Store); ok && st.Addr == ssa.Value(fa) {
							set = true
							if !nonNilVal(st.Val, st.Block(), 0, map[ssa.Value]bool{}) {
								return fmt.Sprintf("the record built in %s (%s) gets a member that may be nil", fnKey(al.Parent()), w.instrPos(st))
							}
						}
					}
				}
				if !set {
					return fmt.Sprintf("the record built in %s (%s) leaves the member unset", fnKey(al.Parent()), w.instrPos(al))
				}
				return ""
			}
		case *ssa.Call:
			g := x.Call.StaticCallee()
			if g == nil || g.Blocks == nil || !w.isSubjectFunc(g) {
				break
			}
			bad := ""
			forEachInstr(g, func(b *ssa.BasicBlock, ins ssa.Instruction) {
				ret, ok := ins.(*ssa.Return)
				if !ok || len(ret.Results) == 0 || bad != "" {
					return
				}
				if w.deadByExhaustiveSwitch(b, ctxs) != "" || w.deadByInfeasibleFlag(b, 0) {
					return
				}
				if k, ok := ret.Results[0].(*ssa.Const); ok && k.Value == nil {
					return // a nil interface: the caller's assertion fails before anything is stored
				}
				if why := recordOK(g, ret.Results[0], b, depth+1); why != "" {
					bad = why
				}
			})
			return bad
		}
		return fmt.Sprintf("a record of unknown origin reaches the insert (%s in %s)", v.Name(), fnKey(fn))
	}
	for _, fn := range parsePhaseFuncs(w) {
		bad := ""
		forEachInstr(fn, func(b *ssa.BasicBlock, ins ssa.Instruction) {
			mu, ok := ins.(*ssa.MapUpdate)
			if !ok || bad != "" || normMapDesc(mu.Map) != mapd {
				return
			}
			if why := recordOK(fn, mu.Value, b, 0); why != "" {
				bad = why
			}
		})
		if bad != "" {
			return bad
		}
	}
	return ""
}

// */declaration-kind-is-modelled: the routine that turns a length-of, checksum, match or inline-object declaration into a field gives
// the field the attribute of that kind.
//
// The grammar has one alternative per kind of computed / structured field, the generated parser one context type per alternative, and
// the model one attribute type per kind (four rows below, the one frozen table of this rule). The generators switch on the attribute
// type: a checksum declaration whose field leaves its visitor routine as a plain number is, to all of them, a plain number - written
// from the caller's value, never calculated. "The kind is applied later by the caller" holds only for the callers that do so; the
// walk over the members of an inline object calls the per-declaration routines directly. Decided per parse-phase routine that takes
// one of the four context types and returns a field: the dynamic types the returned field's Attr can have (followed through record
// literals and helper results) are known and include the attribute type of the declaration's kind on every return.
var declKinds = map[string]string{
	"LengthFieldDeclarationContext":   "LengthFieldAttribute",
	"CheckSumFieldDeclarationContext": "CheckSumFieldAttribute",
	"MatchFieldDeclarationContext":    "MatchFieldAttribute",
	"InerObjectDeclarationContext":    "ObjectFieldAttribute",
}

func declarationKindIsModelled(w *World, r *Report, prop string, only map[string]bool) {
	rule := prop + "/declaration-kind-is-modelled"
	n := 0
	for _, fn := range parsePhaseFuncs(w) {
		if fn.Pkg != w.Parser || isGeneratorFunc(fn) || recvNamedCore(fn) == "PacketDslFormattor" {
			continue
		}
		ctxName := ""
		for _, p := range fn.Params {
			if c := grammarCtxName(p.Type()); declKinds[c] != "" {
				ctxName = c
			}
		}
		if ctxName == "" || (only != nil && !only[declKinds[ctxName]]) {
			continue
		}
		want := "*model." + declKinds[ctxName]
		// the Attr values of the fields fn returns
		var attrTypes func(v ssa.Value, depth int, seen map[ssa.Value]bool) map[string]bool
		attrTypes = func(v ssa.Value, depth int, seen map[ssa.Value]bool) map[string]bool {
			out := map[string]bool{}
			if depth > 5 || seen[v] {
				return out
			}
			seen[v] = true
			switch x := v.(type) {
			case *ssa.MakeInterface:
				return attrTypes(x.X, depth+1, seen)
			case *ssa.ChangeInterface:
				return attrTypes(x.X, depth+1, seen)
			case *ssa.Phi:
				for _, e := range x.Edges {
					for t := range attrTypes(e, depth+1, seen) {
						out[t] = true
					}
				}
				return out
			case *ssa.Const:
				return out // nil: no field
			case *ssa.Alloc:
				pt, ok := x.Type().(*types.Pointer)
				if !ok || modelTypeName(pt.Elem()) != "Field" || x.Referrers() == nil {
					out["?"] = true
					return out
				}
				set := false
				for _, ref := range *x.Referrers() {
					fa, ok := ref.(*ssa.FieldAddr)
					if !ok || fa.Referrers() == nil {
						continue
					}
					if _, f, _, _ := fieldOf(fa); f != "Attr" {
						continue
					}
					for _, r2 := range *fa.Referrers() {
						if st, ok := r2.(*ssa.Store); ok && st.Addr == ssa.Value(fa) {
							set = true
							for t := range attrValueTypes(w, st.Val, 0, map[ssa.Value]bool{}) {
								out[t] = true
							}
						}
					}
				}
				if !set {
					out["?"] = true
				}
				return out
			case *ssa.Call:
				if g := x.Call.StaticCallee(); g != nil && g.Blocks != nil && w.isSubjectFunc(g) {
					forEachInstr(g, func(_ *ssa.BasicBlock, ins ssa.Instruction) {
						if ret, ok := ins.(*ssa.Return); ok && len(ret.Results) > 0 {
							for t := range attrTypes(ret.Results[0], depth+1, seen) {
								out[t] = true
							}
						}
					})
					return out
				}
			case *ssa.TypeAssert:
				return attrTypes(x.X, depth+1, seen)
			case *ssa.Extract:
				if ta, ok := x.Tuple.(*ssa.TypeAssert); ok && x.Index == 0 {
					return attrTypes(ta.X, depth+1, seen)
				}
			}
			out["?"] = true
			return out
		}
		returnsField := false
		types_ := map[string]bool{}
		forEachInstr(fn, func(_ *ssa.BasicBlock, ins ssa.Instruction) {
			ret, ok := ins.(*ssa.Return)
			if !ok || len(ret.Results) == 0 {
				return
			}
			for t := range attrTypes(ret.Results[0], 0, map[ssa.Value]bool{}) {
				types_[t] = true
				returnsField = true
			}
		})
		if !returnsField {
			continue
		}
		n++
		key := fmt.Sprintf("%s: the field made from a %s carries a %s", fnKey(fn), ctxName, declKinds[ctxName])
		switch {
		case types_["?"]:
			r.pass(rule, key, w.pos(fn.Pos()), "not judged: the attribute of the returned field is not a value this rule can follow")
		case types_[want]:
			r.pass(rule, key, w.pos(fn.Pos()), "")
		default:
			var got []string
			for t := range types_ {
				got = append(got, t)
			}
			r.fail(rule, key, w.pos(fn.Pos()), fmt.Sprintf("the routine that models this declaration returns a field whose attribute is %v, never a %s: wherever its result enters a field list directly (the members of an inline object are visited without the attribute-applying caller) the declaration compiles as that other kind", got, declKinds[ctxName]))
		}
	}
	r.note("%s: declaration routines examined: %d", rule, n)
}

// metaDataAttrTypes: the dynamic types that are ever stored into MetaData.Attr (literals and member stores), other than copies of
// another entry's attribute.
func metaDataAttrTypes(w *World) map[string]bool {
	out := map[string]bool{}
	for _, fn := range w.srcFuncs {
		if !w.isSubjectFunc(fn) {
			continue
		}
		forEachInstr(fn, func(_ *ssa.BasicBlock, ins ssa.Instruction) {
			st, ok := ins.(*ssa.Store)
			if !ok {
				return
			}
			fa, ok := st.Addr.(*ssa.FieldAddr)
			if !ok {
				return
			}
			if tn, f, _, _ := fieldOf(fa); tn != "MetaData" || f != "Attr" {
				return
			}
			for t := range attrValueTypesNoMeta(w, st.Val, 0, map[ssa.Value]bool{}) {
				out[t] = true
			}
		})
	}
	return out
}

func isMetaDataAttrRead(v ssa.Value) bool {
	switch x := v.(type) {
	case *ssa.Field:
		tn, f, _, _ := fieldOf(x)
		return tn == "MetaData" && f == "Attr"
	case *ssa.UnOp:
		if fa, ok := x.X.(*ssa.FieldAddr); ok && x.Op == token.MUL {
			tn, f, _, _ := fieldOf(fa)
			return tn == "MetaData" && f == "Attr"
		}
	}
	return false
}

func attrValueTypesNoMeta(w *World, v ssa.Value, depth int, seen map[ssa.Value]bool) map[string]bool {
	out := map[string]bool{}
	if depth > 6 || seen[v] {
		return out
	}
	seen[v] = true
	if ph, ok := v.(*ssa.Phi); ok {
		for _, e := range ph.Edges {
			for t := range attrValueTypesNoMeta(w, e, depth+1, seen) {
				out[t] = true
			}
		}
		return out
	}
	if isMetaDataAttrRead(v) {
		return out // a copy of another entry's attribute adds no new type
	}
	for t := range w.dynTypes(v, "PacketDslVisitorImpl", 0, map[*ssa.Function]bool{}, map[ssa.Value]bool{}) {
		out[t] = true
	}
	return out
}

// attrValueTypes: the dynamic types an attribute value can have; a read of a MetaData entry's attribute has the types that are ever
// stored there.
func attrValueTypes(w *World, v ssa.Value, depth int, seen map[ssa.Value]bool) map[string]bool {
	out := map[string]bool{}
	if depth > 6 || seen[v] {
		return out
	}
	seen[v] = true
	if ph, ok := v.(*ssa.Phi); ok {
		for _, e := range ph.Edges {
			for t := range attrValueTypes(w, e, depth+1, seen) {
				out[t] = true
			}
		}
		return out
	}
	if isMetaDataAttrRead(v) {
		return metaDataAttrTypes(w)
	}
	for t := range w.dynTypes(v, "PacketDslVisitorImpl", 0, map[*ssa.Function]bool{}, map[ssa.Value]bool{}) {
		out[t] = true
	}
	return out
}

// C02|C08/kind-by-rule-not-by-text: which kind of field a written type stands for is decided by the parse tree, not by the spelling.
//
// `type: basicType | fixedString | dynamicString` - the parser has already said whether `char[]` is the dynamic string and `char[8]`
// the fixed one. A routine that decides the same from the text of the type (`HasPrefix(text, "char[")` ahead of `text == "char[]"`)
// re-implements the lexer and gets the overlap wrong: one spelling of a kind is then compiled as another kind, and the decoders of
// every target read the field with the wrong layout. A test on the text may select *within* a kind (`zchar` is the fixed string with
// NUL padding). Decided: for every branch whose condition compares the text of a type node (GetText of the type rule's contexts)
// - ==, !=, strings.HasPrefix / HasSuffix / Contains / EqualFold, a switch on the text - the kinds of attribute objects (scalar,
// fixed string, dynamic string) built behind its two edges are the same.
func kindByRuleNotByText(w *World, r *Report, prop string) {
	rule := prop + "/kind-by-rule-not-by-text"
	typeCtx := map[string]bool{"TypeContext": true, "FixedStringContext": true, "DynamicStringContext": true, "BasicTypeContext": true}
	var fromTypeText func(v ssa.Value, depth int, seen map[ssa.Value]bool) bool
	fromTypeText = func(v ssa.Value, depth int, seen map[ssa.Value]bool) bool {
		if depth > 8 || seen[v] {
			return false
		}
		seen[v] = true
		switch x := v.(type) {
		case *ssa.Call:
			cc := x.Call
			name := ""
			var recv ssa.Value
			if cc.IsInvoke() {
				name, recv = cc.Method.Name(), cc.Value
			} else if f := cc.StaticCallee(); f != nil {
				name = f.Name()
				if len(cc.Args) > 0 {
					recv = cc.Args[0]
				}
				// text helpers: the text of their string arguments
				if pk := f.Pkg; pk != nil && (pk.Pkg.Path() == "strings") {
					for _, a := range cc.Args {
						if fromTypeText(a, depth+1, seen) {
							return true
						}
					}
					return false
				}
			}
			if name == "GetText" && recv != nil && typeCtx[grammarCtxName(recv.Type())] {
				return true
			}
		case *ssa.Phi:
			for _, e := range x.Edges {
				if fromTypeText(e, depth+1, seen) {
					return true
				}
			}
		case *ssa.Slice:
			return fromTypeText(x.X, depth+1, seen)
		case *ssa.BinOp:
			return fromTypeText(x.X, depth+1, seen) || fromTypeText(x.Y, depth+1, seen)
		case *ssa.UnOp:
			if al := cellOf(x); al != nil {
				stores, _ := cellStores(al)
				for _, st := range stores {
					if fromTypeText(st.Val, depth+1, seen) {
						return true
					}
				}
			}
		case *ssa.Parameter:
			// a text handed down: the arguments at the call sites
			fn := x.Parent()
			idx := -1
			for i, q := range fn.Params {
				if q == x {
					idx = i
				}
			}
			if n := w.CallGraph().Nodes[fn]; n != nil && idx >= 0 {
				for _, e := range n.In {
					if e.Site != nil && e.Site.Common().StaticCallee() == fn && idx < len(e.Site.Common().Args) {
						if fromTypeText(e.Site.Common().Args[idx], depth+1, seen) {
							return true
						}
					}
				}
			}
		}
		return false
	}
	kindOf := func(ins ssa.Instruction) string {
		al, ok := ins.(*ssa.Alloc)
		if !ok {
			return ""
		}
		pt, ok := al.Type().(*types.Pointer)
		if !ok {
			return ""
		}
		switch n := modelTypeName(pt.Elem()); n {
		case "BasicFieldAttribute", "FixedStringFieldAttribute", "DynamicStringFieldAttribute":
			return n
		}
		return ""
	}
	n := 0
	for _, fn := range parsePhaseFuncs(w) {
		if isGeneratorFunc(fn) || recvNamedCore(fn) == "PacketDslFormattor" {
			continue
		}
		cnt := 0
		for _, b := range fn.Blocks {
			cond := branchCond(b)
			if cond == nil {
				continue
			}
			c := cond
			for {
				if u, ok := c.(*ssa.UnOp); ok && u.Op == token.NOT {
					c = u.X
					continue
				}
				break
			}
			isText := false
			switch x := c.(type) {
			case *ssa.BinOp:
				if (x.Op == token.EQL || x.Op == token.NEQ) && isStringType(x.X.Type()) {
					isText = fromTypeText(x.X, 0, map[ssa.Value]bool{}) || fromTypeText(x.Y, 0, map[ssa.Value]bool{})
				}
			case *ssa.Call:
				if f := x.Call.StaticCallee(); f != nil && f.Pkg != nil && f.Pkg.Pkg.Path() == "strings" {
					switch f.Name() {
					case "HasPrefix", "HasSuffix", "Contains", "EqualFold":
						isText = fromTypeText(x, 0, map[ssa.Value]bool{})
					}
				}
			}
			if !isText || len(b.Succs) != 2 {
				continue
			}
			sets := [2]map[string]bool{{}, {}}
			for _, bb := range fn.Blocks {
				for s := 0; s < 2; s++ {
					if edgeDominates(b, s, bb) {
						for _, ins := range bb.Instrs {
							if k := kindOf(ins); k != "" {
								sets[s][k] = true
							}
						}
					}
				}
			}
			if len(sets[0]) == 0 && len(sets[1]) == 0 {
				continue
			}
			n++
			cnt++
			key := fmt.Sprintf("%s: text test #%d of a written type selects within one kind", fnKey(fn), cnt)
			same := len(sets[0]) == len(sets[1])
			for k := range sets[0] {
				if !sets[1][k] {
					same = false
				}
			}
			if same {
				r.pass(rule, key, w.instrPos(b.Instrs[len(b.Instrs)-1]), "")
			} else {
				r.fail(rule, key, w.instrPos(b.Instrs[len(b.Instrs)-1]), fmt.Sprintf("behind one edge of a comparison of a type's text the routine builds %v, behind the other %v: the kind of the field is decided by the spelling of its type, not by the alternative of the grammar rule the parser matched - a spelling the comparison does not anticipate (`char[]` starts with `char[`) is compiled as another kind", sortedBoolKeys(sets[0]), sortedBoolKeys(sets[1])))
			}
		}
	}
	r.note("%s: text tests of written types examined: %d", rule, n)
}
