package main

// C11/N-count-bounded: a number written in the DSL does not become an allocation size unchecked.
//
// DIGITS is [0-9]+ without an upper bound. strconv.Atoi clamps what does not fit to the largest int (and reports an error the
// caller may ignore); the value then travels - through helper returns and model fields such as FixedStringFieldAttribute.Length -
// into the generators. Where it becomes the count of strings.Repeat or the size of a make(), `char[99999999999999999999] x` makes the
// compiler panic ("makeslice: len out of range") instead of printing a diagnostic. Decided by a field-based taint analysis:
//   source   the value result of strconv.Atoi / ParseInt / ParseUint in subject code;
//   carried  through conversions, arithmetic, phis, returns of repo functions, stores into struct fields (a field that ever receives
//            a tainted value taints every load of that field, anywhere);
//   cleared  by a relational comparison (<, <=, >, >=) of the value - or of the same field - against anything, that dominates the
//            store or the use (a range check; whether the bound is a sensible one is not judged);
//   sink     the count argument of strings.Repeat / bytes.Repeat, a size of make(), in subject code.

import (
	"fmt"
	"go/token"
	"go/types"
	"sort"
	"strings"

	"golang.org/x/tools/go/ssa"
)

func c11RuleN(w *World, r *Report, subjects []*ssa.Function) {
	const rule = "C11/N-count-bounded"
	inSubj := map[*ssa.Function]bool{}
	for _, f := range subjects {
		inSubj[f] = true
	}
	var fns []*ssa.Function
	for _, f := range w.srcFuncs {
		fns = append(fns, f)
	}
	tainted := map[ssa.Value]string{} // value -> origin description
	fieldTaint := map[string]string{}  // "Type.Field" -> origin
	retTaint := map[*ssa.Function]map[int]string{}
	isInt := func(t types.Type) bool {
		b, ok := t.Underlying().(*types.Basic)
		return ok && b.Info()&types.IsInteger != 0
	}
	// bounded: some relational comparison on v (or on a load of the same struct field) dominates `at`
	relational := func(op token.Token) bool {
		return op == token.LSS || op == token.LEQ || op == token.GTR || op == token.GEQ
	}
	fieldKeyOf := func(v ssa.Value) string {
		v = stripIdentity(v)
		if ld, ok := v.(*ssa.UnOp); ok && ld.Op == token.MUL {
			if fa, ok := ld.X.(*ssa.FieldAddr); ok {
				tn, f, _, _ := fieldOf(fa)
				return tn + "." + f
			}
		}
		if fv, ok := v.(*ssa.Field); ok {
			return modelTypeName(fv.X.Type()) + "." + fieldNameOf(fv.X.Type(), fv.Field)
		}
		return ""
	}
	boundedAt := func(v ssa.Value, at ssa.Instruction) bool {
		fn := at.Parent()
		fk := fieldKeyOf(v)
		ok := false
		forEachInstr(fn, func(b *ssa.BasicBlock, ins ssa.Instruction) {
			bo, isB := ins.(*ssa.BinOp)
			if !isB || !relational(bo.Op) {
				return
			}
			for _, o := range []ssa.Value{bo.X, bo.Y} {
				o = stripIdentity(o)
				if cv, isConv := o.(*ssa.Convert); isConv {
					o = stripIdentity(cv.X)
				}
				same := o == stripIdentity(v) || (fk != "" && fieldKeyOf(o) == fk)
				if !same {
					continue
				}
				// the comparison must guard `at`: it is the condition of a branch one of whose edges dominates it
				if bo.Referrers() == nil {
					continue
				}
				for _, ref := range *bo.Referrers() {
					if iff, isIf := ref.(*ssa.If); isIf {
						if edgeDominates(iff.Block(), 0, at.Block()) || edgeDominates(iff.Block(), 1, at.Block()) {
							ok = true
						}
					}
				}
			}
		})
		return ok
	}
	for changed := true; changed; {
		changed = false
		mark := func(v ssa.Value, why string) {
			if _, ok := tainted[v]; !ok {
				tainted[v] = why
				changed = true
			}
		}
		for _, fn := range fns {
			forEachInstr(fn, func(b *ssa.BasicBlock, ins ssa.Instruction) {
				switch x := ins.(type) {
				case *ssa.Extract:
					if c, ok := x.Tuple.(*ssa.Call); ok && x.Index == 0 {
						if f := c.Call.StaticCallee(); f != nil {
							switch f.String() {
							case "strconv.Atoi", "strconv.ParseInt", "strconv.ParseUint":
								mark(x, f.Name()+" at "+w.instrPos(c))
							}
							if why, ok := retTaint[f][0]; ok {
								mark(x, why)
							}
						}
					}
				case *ssa.Call:
					if f := x.Call.StaticCallee(); f != nil {
						if why, ok := retTaint[f][0]; ok && f.Signature.Results().Len() == 1 {
							mark(x, why)
						}
					}
				case *ssa.Convert:
					if why, ok := tainted[x.X]; ok && isInt(x.Type()) {
						mark(x, why)
					}
				case *ssa.ChangeType:
					if why, ok := tainted[x.X]; ok {
						mark(x, why)
					}
				case *ssa.BinOp:
					if !isInt(x.Type()) || relational(x.Op) {
						return
					}
					for _, o := range []ssa.Value{x.X, x.Y} {
						if why, ok := tainted[o]; ok {
							mark(x, why)
						}
					}
				case *ssa.Phi:
					for _, e := range x.Edges {
						if why, ok := tainted[e]; ok {
							mark(x, why)
						}
					}
				case *ssa.UnOp:
					if x.Op == token.MUL {
						if k := fieldKeyOf(x); k != "" {
							if why, ok := fieldTaint[k]; ok && isInt(x.Type()) {
								mark(x, why)
							}
						}
						// a local variable
						if al, ok := x.X.(*ssa.Alloc); ok && al.Referrers() != nil {
							for _, ref := range *al.Referrers() {
								if st, ok := ref.(*ssa.Store); ok && st.Addr == ssa.Value(al) {
									if why, ok := tainted[st.Val]; ok {
										mark(x, why)
									}
								}
							}
						}
					}
				case *ssa.Field:
					if k := fieldKeyOf(x); k != "" {
						if why, ok := fieldTaint[k]; ok && isInt(x.Type()) {
							mark(x, why)
						}
					}
				case *ssa.Store:
					why, ok := tainted[x.Val]
					if !ok {
						return
					}
					if fa, isFA := x.Addr.(*ssa.FieldAddr); isFA {
						tn, f, _, _ := fieldOf(fa)
						k := tn + "." + f
						if _, have := fieldTaint[k]; !have && !boundedAt(x.Val, x) {
							fieldTaint[k] = why + ", stored in " + k + " by " + fnKey(fn)
							changed = true
						}
					}
				case *ssa.Return:
					for i, res := range x.Results {
						if why, ok := tainted[res]; ok && !boundedAt(res, x) {
							if retTaint[fn] == nil {
								retTaint[fn] = map[int]string{}
							}
							if _, have := retTaint[fn][i]; !have {
								retTaint[fn][i] = why + ", returned by " + fnKey(fn)
								changed = true
							}
						}
					}
				}
			})
		}
	}
	// sinks
	type sink struct {
		fn   *ssa.Function
		ins  ssa.Instruction
		what string
		why  string
	}
	var sinks []sink
	nSinks := 0
	for _, fn := range fns {
		if !inSubj[fn] {
			continue
		}
		forEachInstr(fn, func(b *ssa.BasicBlock, ins ssa.Instruction) {
			switch x := ins.(type) {
			case *ssa.Call:
				f := x.Call.StaticCallee()
				if f == nil {
					return
				}
				if (f.String() == "strings.Repeat" || f.String() == "bytes.Repeat") && len(x.Call.Args) == 2 {
					nSinks++
					if why, ok := tainted[x.Call.Args[1]]; ok && !boundedAt(x.Call.Args[1], x) {
						sinks = append(sinks, sink{fn, ins, "the count of " + f.String(), why})
					}
				}
			case *ssa.MakeSlice:
				nSinks++
				for _, o := range []ssa.Value{x.Len, x.Cap} {
					if why, ok := tainted[o]; ok && !boundedAt(o, x) {
						sinks = append(sinks, sink{fn, ins, "the size of make()", why})
					}
				}
			}
		})
	}
	sort.Slice(sinks, func(i, j int) bool { return sinks[i].ins.Pos() < sinks[j].ins.Pos() })
	// one obligation per carrier (the model field - or conversion - the unchecked number travels in): the defect is the missing range
	// check on that carrier, wherever the sinks are
	carrierOf := func(why string) string {
		if i := strings.Index(why, ", stored in "); i >= 0 {
			rest := why[i+len(", stored in "):]
			if j := strings.Index(rest, " by "); j >= 0 {
				return rest[:j]
			}
		}
		return "a converted DIGITS value"
	}
	byCarrier := map[string][]sink{}
	for _, s := range sinks {
		c := carrierOf(s.why)
		byCarrier[c] = append(byCarrier[c], s)
	}
	for _, c := range sortedKeys(byCarrier) {
		ss := byCarrier[c]
		var where []string
		for _, s := range ss {
			where = append(where, fmt.Sprintf("%s in %s (%s)", s.what, fnKey(s.fn), w.instrPos(s.ins)))
		}
		r.fail(rule, c+" is range-checked before it becomes an allocation size", w.instrPos(ss[0].ins), fmt.Sprintf("a number written in the DSL (%s) reaches, with no comparison bounding it, %s: a huge DIGITS token makes the compiler panic (makeslice / Repeat count out of range) instead of reporting a diagnostic", ss[0].why, strings.Join(where, "; ")))
	}
	for k := range fieldTaint {
		if _, bad := byCarrier[k]; !bad {
			r.pass(rule, k+" is range-checked before it becomes an allocation size", "internal/parser", "carries a DSL number; reaches no allocation size")
		}
	}
	var fk []string
	for k := range fieldTaint {
		fk = append(fk, k)
	}
	sort.Strings(fk)
	r.note("%s: %d conversion-derived values, fields carrying them: %s; %d allocation sites examined", rule, len(tainted), strings.Join(fk, ", "), nSinks)
	if len(tainted) == 0 {
		r.fail(rule, "numeric conversions found", "internal/parser", "no strconv conversion of DSL text found in subject code: the rule lost its sources")
	}
}
