package main

import (
	"go/token"
	"go/types"
	"os"

	"golang.org/x/tools/go/ssa"
)

// Rule L, lookup justification "filled together" for state that is *carried*: coInserted (rules_c11.go) understands a list and a
// name map that are members of one record. Here the two travel on their own - as locals of one function, as a pair of results of
// the function that fills them, as a pair of arguments of the function that consults them - and the list may be a slice value
// or the member of a record (packet.Fields) that is passed along.
//
// m[e.Name] cannot miss when
//   - e is an element of a list L,
//   - (L, m) lead back - through parameters (at every call site), through the results of a called function (at every return) -
//     to one place where m is made and L starts empty, and where every append of a value v to L stands in one block with an
//     insert m[v.Name] = <something>,
//   - and on the way nothing removes a key from m, replaces an element of L, renames an element, or extends L without m: the
//     carriers do not escape from the functions they pass through (a record is only read, returned, or handed on together with
//     the map), and those functions contain no delete/clear on a map of m's type, no store into an element slot of a list of
//     L's type, no store to the Name of an existing element.

// coList: the list of a carried pair: the member <name> of the record rec, or a slice carried by value.
type coList struct {
	rec   ssa.Value
	name  string
	slice ssa.Value
}

func (l coList) carrier() ssa.Value {
	if l.rec != nil {
		return l.rec
	}
	return l.slice
}

// coListOf: the list a slice value stands for: a load of <rec>.<name> is that member, anything else is carried by value.
func coListOf(s ssa.Value) coList {
	s = stripIdentity(s)
	if ld, ok := s.(*ssa.UnOp); ok && ld.Op == token.MUL {
		if fa, ok := ld.X.(*ssa.FieldAddr); ok {
			if _, n, _, ok := fieldOf(fa); ok || n != "" {
				return coList{rec: stripIdentity(fa.X), name: n}
			}
		}
	}
	return coList{slice: s}
}

type coLevelKey struct {
	fn     *ssa.Function
	car, m ssa.Value
}

type coCarried struct {
	w        *World
	listType types.Type // []*Elem
	elemT    types.Type // Elem (struct)
	mapType  types.Type
	levelOK  map[coLevelKey]bool // level check passed / in progress
	debug    bool
}

// coInsertedCarried: see the head of this file.
func (w *World) coInsertedCarried(lk *ssa.Lookup) bool {
	if lk.Parent() == nil {
		return false
	}
	// the key: <elem>.Name
	kld, ok := stripIdentity(lk.Index).(*ssa.UnOp)
	if !ok || kld.Op != token.MUL {
		return false
	}
	kfa, ok := kld.X.(*ssa.FieldAddr)
	if !ok {
		return false
	}
	if _, kn, _, _ := fieldOf(kfa); kn != "Name" {
		return false
	}
	// elem: an element of a list
	eld, ok := stripIdentity(kfa.X).(*ssa.UnOp)
	if !ok || eld.Op != token.MUL {
		return false
	}
	ia, ok := eld.X.(*ssa.IndexAddr)
	if !ok {
		return false
	}
	if _, isSlice := ia.X.Type().Underlying().(*types.Slice); !isSlice {
		return false
	}
	pt, ok := kfa.X.Type().Underlying().(*types.Pointer)
	if !ok {
		return false
	}
	c := &coCarried{w: w, listType: ia.X.Type(), elemT: pt.Elem(), mapType: lk.X.Type(), levelOK: map[coLevelKey]bool{},
		debug: os.Getenv("FINLINT_DEBUG") != ""}
	return c.pair(coListOf(ia.X), stripIdentity(lk.X), lk.Parent(), 0)
}

func (c *coCarried) dbg(fn *ssa.Function, why string) bool {
	if c.debug {
		println("DBG coInsertedCarried:", fnKey(fn), why)
	}
	return false
}

// pair: (list, m) as seen in function fn is a pair that was filled together.
func (c *coCarried) pair(list coList, m ssa.Value, fn *ssa.Function, depth int) bool {
	if depth > 5 || fn == nil || fn.Blocks == nil {
		return false
	}
	if !c.level(fn, list, m) {
		return false
	}
	car := list.carrier()
	// the place where both are made
	if mk, ok := m.(*ssa.MakeMap); ok && mk.Parent() == fn {
		if list.rec != nil {
			al, ok := list.rec.(*ssa.Alloc)
			if !ok || al.Parent() != fn {
				return c.dbg(fn, "map is made here, the record is not")
			}
			if _, isStruct := al.Type().Underlying().(*types.Pointer).Elem().Underlying().(*types.Struct); !isStruct {
				return false
			}
			// level() has shown that every store to the member is an append paired with an insert; a fresh record starts empty
			return true
		}
		return c.sliceFilledWith(fn, list.slice, m)
	}
	// a pair of parameters: the pair at every call site
	if pc, ok := car.(*ssa.Parameter); ok {
		pm, ok := m.(*ssa.Parameter)
		if !ok || pc.Parent() != fn || pm.Parent() != fn {
			return c.dbg(fn, "list is a parameter, map is not")
		}
		ic, im := paramIndexP(fn, pc), paramIndexP(fn, pm)
		sites, ok := c.callSites(fn)
		if !ok || len(sites) == 0 || ic < 0 || im < 0 {
			return c.dbg(fn, "call sites not all known")
		}
		for _, s := range sites {
			args := s.Common().Args
			if ic >= len(args) || im >= len(args) {
				return false
			}
			var l2 coList
			if list.rec != nil {
				l2 = coList{rec: stripIdentity(args[ic]), name: list.name}
			} else {
				l2 = coListOf(args[ic])
			}
			if !c.pair(l2, stripIdentity(args[im]), s.Parent(), depth+1) {
				return false
			}
		}
		return true
	}
	// a pair of results of one call: the pair at every return of the callee
	if ec, ok := car.(*ssa.Extract); ok {
		em, ok := m.(*ssa.Extract)
		if !ok || em.Tuple != ec.Tuple {
			return c.dbg(fn, "list is a call result, map is not a result of the same call")
		}
		call, ok := ec.Tuple.(*ssa.Call)
		if !ok {
			return false
		}
		g := call.Call.StaticCallee()
		if g == nil || g.Blocks == nil {
			return c.dbg(fn, "results of an unknown callee")
		}
		rets := 0
		good := true
		forEachInstr(g, func(_ *ssa.BasicBlock, ins ssa.Instruction) {
			ret, ok := ins.(*ssa.Return)
			if !ok || !good {
				return
			}
			rets++
			if ec.Index >= len(ret.Results) || em.Index >= len(ret.Results) {
				good = false
				return
			}
			var l2 coList
			if list.rec != nil {
				l2 = coList{rec: stripIdentity(ret.Results[ec.Index]), name: list.name}
			} else {
				l2 = coListOf(ret.Results[ec.Index])
			}
			if !c.pair(l2, stripIdentity(ret.Results[em.Index]), g, depth+1) {
				good = false
			}
		})
		return good && rets > 0
	}
	return c.dbg(fn, "origin of the pair not understood")
}

func paramIndexP(fn *ssa.Function, p *ssa.Parameter) int {
	for i, q := range fn.Params {
		if q == p {
			return i
		}
	}
	return -1
}

// callSites: all calls of fn, provided every one of them is a plain static call in the repo's own code (fn is never used as a
// value, bound, deferred, started as a goroutine or reached through an interface).
func (c *coCarried) callSites(fn *ssa.Function) ([]ssa.CallInstruction, bool) {
	w := c.w
	if w.addressTaken(fn) {
		return nil, false
	}
	if n := w.CallGraph().Nodes[fn]; n != nil {
		for _, e := range n.In {
			if e.Site == nil {
				continue
			}
			if e.Site.Common().IsInvoke() && e.Caller.Func.Synthetic == "" && w.isSubjectFunc(e.Caller.Func) {
				return nil, false
			}
		}
	}
	var out []ssa.CallInstruction
	good := true
	for _, g := range w.srcFuncs {
		forEachInstr(g, func(_ *ssa.BasicBlock, ins ssa.Instruction) {
			switch x := ins.(type) {
			case ssa.CallInstruction:
				if x.Common().StaticCallee() != fn {
					return
				}
				if _, plain := x.(*ssa.Call); !plain {
					good = false
					return
				}
				out = append(out, x)
			case *ssa.MakeClosure:
				// a bound method value: fn is called with a receiver nobody sees
				if bf, ok := x.Fn.(*ssa.Function); ok && bf.Synthetic != "" && len(callsTo(bf, fn.String())) > 0 {
					good = false
				}
			}
		})
	}
	return out, good
}

// level: nothing in fn can break the pairing of (list, m) - see the head of this file. For a record member every store to the
// member in fn must be an append to the same member that stands with an insert into m; other writes (other records of the
// type, other values) are not understood.
func (c *coCarried) level(fn *ssa.Function, list coList, m ssa.Value) bool {
	key := coLevelKey{fn, list.carrier(), m}
	if done, seen := c.levelOK[key]; seen {
		return done
	}
	c.levelOK[key] = true // calls back into fn (recursion, the path we came by) are judged by this very check
	ok := c.level1(fn, list, m)
	c.levelOK[key] = ok
	return ok
}

func (c *coCarried) level1(fn *ssa.Function, list coList, m ssa.Value) bool {
	good := true
	fail := func(why string) {
		if good {
			c.dbg(fn, why)
		}
		good = false
	}
	forEachInstr(fn, func(b *ssa.BasicBlock, ins ssa.Instruction) {
		if !good {
			return
		}
		switch x := ins.(type) {
		case ssa.CallInstruction:
			if bi, ok := x.Common().Value.(*ssa.Builtin); ok && (bi.Name() == "delete" || bi.Name() == "clear") && len(x.Common().Args) > 0 {
				if types.Identical(x.Common().Args[0].Type(), c.mapType) {
					fail("removes keys from a map of the name map's type")
				}
			}
		case *ssa.Store:
			switch a := x.Addr.(type) {
			case *ssa.IndexAddr:
				if types.Identical(a.X.Type(), c.listType) {
					fail("replaces an element of a list of the list's type")
				}
			case *ssa.FieldAddr:
				_, n, _, _ := fieldOf(a)
				pt, isPtr := a.X.Type().Underlying().(*types.Pointer)
				if !isPtr {
					return
				}
				if n == "Name" && types.Identical(pt.Elem(), c.elemT) {
					if _, fresh := stripIdentity(a.X).(*ssa.Alloc); !fresh {
						fail("renames an element")
					}
					return
				}
				if list.rec != nil && n == list.name && types.Identical(a.X.Type(), list.rec.Type()) {
					if stripIdentity(a.X) != list.rec {
						fail("writes the list member of another record of the type")
						return
					}
					if cst, ok := x.Val.(*ssa.Const); ok && cst.IsNil() {
						return // emptied
					}
					call, ok := stripIdentity(x.Val).(*ssa.Call)
					if !ok {
						fail("list member assigned something that is not an append")
						return
					}
					v, ok := c.appendedTo(call, func(prev ssa.Value) bool {
						l := coListOf(prev)
						return l.rec == list.rec && l.name == list.name
					})
					if !ok || !c.insertedWith(call.Block(), v, m) {
						fail("list member extended without an insert into the name map")
					}
				}
			}
		}
	})
	if !good {
		return false
	}
	// the carriers stay where they can be seen
	if list.rec != nil && !c.recordStays(fn, list, m) {
		return false
	}
	return c.mapStays(fn, list, m)
}

// appendedTo: call is append(prev, v) with prev accepted by isPrev; the single value appended.
func (c *coCarried) appendedTo(call *ssa.Call, isPrev func(ssa.Value) bool) (ssa.Value, bool) {
	bi, ok := call.Call.Value.(*ssa.Builtin)
	if !ok || bi.Name() != "append" || len(call.Call.Args) != 2 || !isPrev(call.Call.Args[0]) {
		return nil, false
	}
	vals := variadicOperands(call.Call.Args[1])
	if len(vals) != 1 || vals[0] == nil {
		return nil, false
	}
	return stripIdentity(vals[0]), true
}

// insertedWith: block b holds m[v.Name] = <not the nil constant>.
func (c *coCarried) insertedWith(b *ssa.BasicBlock, v ssa.Value, m ssa.Value) bool {
	for _, ins := range b.Instrs {
		mu, ok := ins.(*ssa.MapUpdate)
		if !ok || stripIdentity(mu.Map) != m {
			continue
		}
		if cst, ok := mu.Value.(*ssa.Const); ok && cst.IsNil() {
			continue
		}
		k, ok := stripIdentity(mu.Key).(*ssa.UnOp)
		if !ok || k.Op != token.MUL {
			continue
		}
		kf, ok := k.X.(*ssa.FieldAddr)
		if !ok {
			continue
		}
		if _, n, _, _ := fieldOf(kf); n == "Name" && stripIdentity(kf.X) == v {
			return true
		}
	}
	return false
}

// sliceFilledWith: the slice value s of fn starts empty and grows only by append(s', v) that stands with an insert m[v.Name].
func (c *coCarried) sliceFilledWith(fn *ssa.Function, s ssa.Value, m ssa.Value) bool {
	seen := map[ssa.Value]bool{}
	appends := 0
	var walk func(x ssa.Value, depth int) bool
	walk = func(x ssa.Value, depth int) bool {
		x = stripIdentity(x)
		if seen[x] {
			return true
		}
		if depth > 12 {
			return false
		}
		seen[x] = true
		switch y := x.(type) {
		case *ssa.Const:
			return y.IsNil()
		case *ssa.MakeSlice:
			l, ok := y.Len.(*ssa.Const)
			return ok && l.Value != nil && l.Int64() == 0
		case *ssa.Slice:
			return walk(y.X, depth+1) // a prefix or a re-slice within the capacity: no element that was not appended
		case *ssa.Phi:
			for _, e := range y.Edges {
				if !walk(e, depth+1) {
					return false
				}
			}
			return true
		case *ssa.Call:
			var prev ssa.Value
			v, ok := c.appendedTo(y, func(p ssa.Value) bool { prev = p; return true })
			if !ok || !c.insertedWith(y.Block(), v, m) {
				return false
			}
			appends++
			return walk(prev, depth+1)
		}
		return false
	}
	if !walk(s, 0) || appends == 0 {
		return c.dbg(fn, "local list not only extended together with the map")
	}
	return true
}

// recordStays: the record is only read, returned, or handed on together with the map to a function that passes the level check
// itself; the address of the list member is only loaded from and stored to.
func (c *coCarried) recordStays(fn *ssa.Function, list coList, m ssa.Value) bool {
	var uses func(v ssa.Value, depth int) bool
	uses = func(v ssa.Value, depth int) bool {
		if v.Referrers() == nil {
			return true
		}
		for _, ref := range *v.Referrers() {
			switch x := ref.(type) {
			case *ssa.DebugRef, *ssa.Return:
			case *ssa.FieldAddr:
				if _, n, _, _ := fieldOf(x); n != list.name {
					continue
				}
				for _, r2 := range *x.Referrers() {
					switch y := r2.(type) {
					case *ssa.DebugRef:
					case *ssa.UnOp:
						if y.Op != token.MUL {
							return false
						}
					case *ssa.Store:
						if y.Addr != ssa.Value(x) {
							return false
						}
					default:
						return c.dbg(fn, "address of the list member escapes")
					}
				}
			case *ssa.MakeInterface, *ssa.ChangeType, *ssa.ChangeInterface:
				if depth > 3 || !uses(x.(ssa.Value), depth+1) {
					return false
				}
			case *ssa.Call:
				if !c.handedOn(x, list, m) {
					return c.dbg(fn, "record handed to a call without the map, or to an unknown callee")
				}
			case *ssa.BinOp:
				// compared with nil
			default:
				return c.dbg(fn, "record escapes")
			}
		}
		return true
	}
	return uses(list.carrier(), 0)
}

// handedOn: a plain static call that receives the carrier of the list and the map, each exactly once, and whose callee passes the level
// check for its parameters.
func (c *coCarried) handedOn(call *ssa.Call, list coList, m ssa.Value) bool {
	g := call.Call.StaticCallee()
	if g == nil || g.Blocks == nil || call.Call.IsInvoke() {
		return false
	}
	ic, im := -1, -1
	for i, a := range call.Call.Args {
		switch stripIdentity(a) {
		case list.carrier():
			if ic >= 0 {
				return false
			}
			ic = i
		case m:
			if im >= 0 {
				return false
			}
			im = i
		}
	}
	if ic < 0 || im < 0 || ic >= len(g.Params) || im >= len(g.Params) {
		return false
	}
	l2 := coList{name: list.name}
	if list.rec != nil {
		l2.rec = g.Params[ic]
	} else {
		l2.slice = g.Params[ic]
	}
	return c.level(g, l2, g.Params[im])
}

// mapStays: the map is only inserted into, looked up, ranged over, measured, returned, or handed on together with the list.
func (c *coCarried) mapStays(fn *ssa.Function, list coList, m ssa.Value) bool {
	if m.Referrers() == nil {
		return true
	}
	for _, ref := range *m.Referrers() {
		switch x := ref.(type) {
		case *ssa.DebugRef, *ssa.Return, *ssa.Lookup, *ssa.Range:
		case *ssa.MapUpdate:
			if x.Map != m {
				return c.dbg(fn, "name map stored into another map")
			}
		case *ssa.Call:
			if bi, ok := x.Call.Value.(*ssa.Builtin); ok && bi.Name() == "len" {
				continue
			}
			if !c.handedOn(x, list, m) {
				return c.dbg(fn, "name map handed to a call without the list, or to an unknown callee")
			}
		default:
			return c.dbg(fn, "name map escapes")
		}
	}
	return true
}
