package main

import (
	"fmt"
	"go/ast"
	"go/token"
	"go/types"
	"os"
	"path/filepath"
	"sort"
	"strings"

	"golang.org/x/tools/go/callgraph"
	"golang.org/x/tools/go/callgraph/cha"
	"golang.org/x/tools/go/callgraph/vta"
	"golang.org/x/tools/go/packages"
	"golang.org/x/tools/go/ssa"
	"golang.org/x/tools/go/ssa/ssautil"
)

const modPath = "github.com/xinchentechnote/fin-protoc"

// World is the resolved program every rule looks at.
type World struct {
	Repo      string
	Fset      *token.FileSet
	Pkgs      []*packages.Package // the repo's own packages
	ByPath    map[string]*packages.Package
	Prog      *ssa.Program
	SSA       map[string]*ssa.Package
	Model     *ssa.Package
	Parser    *ssa.Package
	Grammar   *ssa.Package
	Cmd       *ssa.Package
	G4        *Grammar
	cg        *callgraph.Graph
	useVTA    bool
	allFuncs  map[*ssa.Function]bool
	addrTaken map[*ssa.Function]bool
	boxed     map[string]bool
	flagBind  map[*ssa.Global]map[string]bool
	srcFuncs  []*ssa.Function // functions with source in repo packages (non-generated: not internal/grammar)
}

func loadWorld(repo string, useVTA bool) (*World, error) {
	abs, err := filepath.Abs(repo)
	if err != nil {
		return nil, err
	}
	env := os.Environ()
	env = append(env, "GOWORK=off", "CGO_ENABLED=1", "GOFLAGS=-mod=readonly")
	cfg := &packages.Config{
		Mode:  packages.LoadAllSyntax,
		Dir:   abs,
		Env:   env,
		Tests: false,
	}
	pkgs, err := packages.Load(cfg, "./...")
	if err != nil {
		return nil, fmt.Errorf("load: %w", err)
	}
	w := &World{Repo: abs, ByPath: map[string]*packages.Package{}, SSA: map[string]*ssa.Package{}, useVTA: useVTA}
	var errs []string
	packages.Visit(pkgs, nil, func(p *packages.Package) {
		for _, e := range p.Errors {
			errs = append(errs, p.PkgPath+": "+e.Error())
		}
	})
	if len(errs) > 0 {
		return nil, fmt.Errorf("type/load errors (%d): %s", len(errs), strings.Join(errs[:min(len(errs), 5)], "; "))
	}
	for _, p := range pkgs {
		if strings.HasPrefix(p.PkgPath, modPath) {
			w.Pkgs = append(w.Pkgs, p)
			w.ByPath[p.PkgPath] = p
		}
	}
	if len(w.Pkgs) < 4 {
		return nil, fmt.Errorf("expected >=4 repo packages, loaded %d", len(w.Pkgs))
	}
	sort.Slice(w.Pkgs, func(i, j int) bool { return w.Pkgs[i].PkgPath < w.Pkgs[j].PkgPath })
	w.Fset = pkgs[0].Fset
	prog, _ := ssautil.AllPackages(pkgs, ssa.InstantiateGenerics)
	prog.Build()
	w.Prog = prog
	for _, p := range w.Pkgs {
		sp := prog.Package(p.Types)
		if sp == nil {
			return nil, fmt.Errorf("no SSA for %s", p.PkgPath)
		}
		w.SSA[p.PkgPath] = sp
	}
	w.Model = w.SSA[modPath+"/internal/model"]
	w.Parser = w.SSA[modPath+"/internal/parser"]
	w.Grammar = w.SSA[modPath+"/internal/grammar"]
	w.Cmd = w.SSA[modPath+"/cmd"]
	if w.Model == nil || w.Parser == nil || w.Grammar == nil || w.Cmd == nil {
		return nil, fmt.Errorf("missing one of model/parser/grammar/cmd packages")
	}
	w.allFuncs = ssautil.AllFunctions(prog)
	for fn := range w.allFuncs {
		if fn.Blocks == nil {
			continue
		}
		// an instantiation of a generic function of the repo is a subject like any other function (it has no package of its own)
		if fn.Pkg == nil {
			if o := fn.Origin(); o != nil && o != fn && (o.Pkg == w.Model || o.Pkg == w.Parser || o.Pkg == w.Cmd) && fn.Synthetic != "" && strings.Contains(fn.Synthetic, "instan") {
				w.srcFuncs = append(w.srcFuncs, fn)
			}
			continue
		}
		if fn.Pkg == w.Model || fn.Pkg == w.Parser || fn.Pkg == w.Cmd {
			if fn.Synthetic != "" && fn.Parent() == nil && !strings.HasPrefix(fn.Name(), "init") {
				// wrappers/thunks: keep out of subject set
				continue
			}
			w.srcFuncs = append(w.srcFuncs, fn)
		}
	}
	sort.Slice(w.srcFuncs, func(i, j int) bool { return fnKey(w.srcFuncs[i]) < fnKey(w.srcFuncs[j]) })
	computeNoReturn(w.srcFuncs)
	g4path := filepath.Join(abs, "grammar", "PacketDsl.g4")
	g, err := parseG4File(g4path)
	if err != nil {
		return nil, fmt.Errorf("grammar: %w", err)
	}
	w.G4 = g
	theWorld = w
	return w, nil
}

// CallGraph builds (once) CHA, optionally refined by VTA.
func (w *World) CallGraph() *callgraph.Graph {
	if w.cg != nil {
		return w.cg
	}
	g := cha.CallGraph(w.Prog)
	if w.useVTA {
		g = vta.CallGraph(w.allFuncs, g)
	}
	w.cg = g
	return g
}

// fnKey is a stable, line-free name of a function: pkg-short + receiver + name (+ $n for closures).
func fnKey(fn *ssa.Function) string {
	if fn == nil {
		return "<nil>"
	}
	s := fn.String()
	s = strings.ReplaceAll(s, modPath+"/internal/", "")
	s = strings.ReplaceAll(s, modPath+"/", "")
	return s
}

func (w *World) pos(p token.Pos) string {
	if !p.IsValid() {
		return "?"
	}
	ps := w.Fset.Position(p)
	rel, err := filepath.Rel(w.Repo, ps.Filename)
	if err != nil {
		rel = ps.Filename
	}
	return fmt.Sprintf("%s:%d", rel, ps.Line)
}

func (w *World) instrPos(i ssa.Instruction) string {
	p := i.Pos()
	if !p.IsValid() {
		// fall back to the enclosing function
		if i.Parent() != nil {
			return w.pos(i.Parent().Pos()) + "(fn)"
		}
	}
	return w.pos(p)
}

// lookupFunc finds a package-level function or method by "Name" or "(Recv).Name"/"(*Recv).Name".
func lookupFunc(pkg *ssa.Package, recv, name string) *ssa.Function {
	if recv == "" {
		return pkg.Func(name)
	}
	t := pkg.Type(recv)
	if t == nil {
		return nil
	}
	nt := t.Type()
	for _, T := range []types.Type{nt, types.NewPointer(nt)} {
		ms := pkg.Prog.MethodSets.MethodSet(T)
		for i := 0; i < ms.Len(); i++ {
			if ms.At(i).Obj().Name() == name {
				fn := pkg.Prog.MethodValue(ms.At(i))
				if fn != nil && fn.Synthetic == "" {
					return fn
				}
				// wrapper for value-receiver method reached through pointer: unwrap
				if fn != nil {
					if obj, ok := ms.At(i).Obj().(*types.Func); ok {
						if f := pkg.Prog.FuncValue(obj); f != nil {
							return f
						}
					}
				}
			}
		}
	}
	return nil
}

// reachable returns the set of functions reachable from roots through the call graph,
// optionally restricted by keep (nil = all).
func (w *World) reachable(roots []*ssa.Function, keep func(*ssa.Function) bool) map[*ssa.Function]bool {
	cg := w.CallGraph()
	seen := map[*ssa.Function]bool{}
	var stack []*ssa.Function
	for _, r := range roots {
		if r != nil && !seen[r] {
			seen[r] = true
			stack = append(stack, r)
		}
	}
	for len(stack) > 0 {
		f := stack[len(stack)-1]
		stack = stack[:len(stack)-1]
		n := cg.Nodes[f]
		if n == nil {
			continue
		}
		for _, e := range n.Out {
			c := e.Callee.Func
			if c == nil || seen[c] {
				continue
			}
			if keep != nil && !keep(c) {
				continue
			}
			seen[c] = true
			stack = append(stack, c)
		}
		// closures defined inside f are reachable when f is (conservative)
		for _, an := range f.AnonFuncs {
			if !seen[an] {
				seen[an] = true
				stack = append(stack, an)
			}
		}
	}
	return seen
}

// pkgOfFunc: the package a function belongs to: its own, its enclosing function's (closures), its generic origin's (instantiations).
func pkgOfFunc(fn *ssa.Function) *ssa.Package {
	for i := 0; i < 4 && fn != nil; i++ {
		if fn.Pkg != nil {
			return fn.Pkg
		}
		if o := fn.Origin(); o != nil && o != fn {
			fn = o
			continue
		}
		fn = fn.Parent()
	}
	return nil
}

func (w *World) isRepoFunc(fn *ssa.Function) bool {
	return fn != nil && fn.Pkg != nil && (fn.Pkg == w.Model || fn.Pkg == w.Parser || fn.Pkg == w.Cmd || fn.Pkg == w.Grammar)
}

// isRepoLike: function of the repo including the generated grammar package (traversed, never a rule subject),
// wrappers and instantiations included.
func (w *World) isRepoLike(fn *ssa.Function) bool {
	if w.isSubjectFunc(fn) {
		return true
	}
	p := fn.Pkg
	if p == nil && fn.Parent() != nil {
		p = fn.Parent().Pkg
	}
	if p == nil {
		if o := fn.Origin(); o != nil {
			p = o.Pkg
		}
	}
	if p == nil && fn.Signature.Recv() != nil {
		// synthetic wrapper: decide by receiver's package
		if n := namedOf(fn.Signature.Recv().Type()); n != nil && n.Obj().Pkg() != nil {
			return strings.HasPrefix(n.Obj().Pkg().Path(), modPath)
		}
	}
	if p == nil && fn.Synthetic != "" {
		// bound-method wrappers and thunks have neither package nor receiver: decide by what they forward to
		for _, b := range fn.Blocks {
			for _, ins := range b.Instrs {
				if c, ok := ins.(ssa.CallInstruction); ok {
					if g := c.Common().StaticCallee(); g != nil && g != fn && (w.isSubjectFunc(g) || g.Pkg == w.Grammar) {
						return true
					}
				}
			}
		}
	}
	return p != nil && p == w.Grammar
}

func (w *World) subjectsOnly(m map[*ssa.Function]bool) map[*ssa.Function]bool {
	out := map[*ssa.Function]bool{}
	for f := range m {
		if w.isSubjectFunc(f) && f.Blocks != nil {
			out[f] = true
		}
	}
	return out
}

// compileReach: subject functions reachable from cmd.Compile (model visitor only; the formatter is not reachable from compile).
func (w *World) compileReach() map[*ssa.Function]bool {
	root := w.Cmd.Func("Compile")
	return w.subjectsOnly(w.reachable([]*ssa.Function{root}, func(f *ssa.Function) bool {
		return w.isRepoLike(f) && recvNamedCore(f) != "PacketDslFormattor"
	}))
}

func recvNamedCore(f *ssa.Function) string {
	if f.Signature.Recv() == nil {
		if f.Parent() != nil {
			return recvNamedCore(f.Parent())
		}
		return ""
	}
	if n := namedOf(f.Signature.Recv().Type()); n != nil {
		return n.Obj().Name()
	}
	return ""
}

// isSubjectFunc: repo function that is not ANTLR-generated code.
func (w *World) isSubjectFunc(fn *ssa.Function) bool {
	if fn == nil {
		return false
	}
	p := fn.Pkg
	if p == nil && fn.Parent() != nil {
		p = fn.Parent().Pkg
	}
	if p == nil {
		// instantiated generic / wrapper: decide by origin
		if o := fn.Origin(); o != nil {
			p = o.Pkg
		}
	}
	return p != nil && (p == w.Model || p == w.Parser || p == w.Cmd)
}

// generator descriptors (frozen table; liveness-checked by callers).
type genDesc struct {
	Lang string
	Type string // struct type name in internal/parser
	Ctor string
}

var generators = []genDesc{
	{"go", "GoGenerator", "NewGoGenerator"},
	{"rust", "RustGenerator", "NewRustGenerator"},
	{"java", "JavaGenerator", "NewJavaGenerator"},
	{"python", "PythonGenerator", "NewPythonGenerator"},
	{"cpp", "CppGenerator", "NewCppGenerator"},
	{"lua", "LuaWspGenerator", "NewLuaWspGenerator"},
}

func (w *World) generateFuncs() (map[string]*ssa.Function, error) {
	out := map[string]*ssa.Function{}
	for _, g := range generators {
		fn := lookupFunc(w.Parser, g.Type, "Generate")
		if fn == nil {
			return nil, fmt.Errorf("anchor unresolved: (%s).Generate", g.Type)
		}
		out[g.Lang] = fn
	}
	return out, nil
}

// staticCallee returns the statically known callee of a call instruction (function, method, or closure), else nil.
func staticCallee(c ssa.CallInstruction) *ssa.Function {
	return c.Common().StaticCallee()
}

// calleeName gives "pkgpath.Name" or "(recv).Name" for static callees and "iface.Method" for invoke calls.
func calleeName(c ssa.CallInstruction) string {
	cc := c.Common()
	if cc.IsInvoke() {
		return "invoke:" + types.TypeString(cc.Value.Type(), nil) + "." + cc.Method.Name()
	}
	if f := cc.StaticCallee(); f != nil {
		return f.String()
	}
	if b, ok := cc.Value.(*ssa.Builtin); ok {
		return "builtin:" + b.Name()
	}
	return "dynamic"
}

// namedOf strips pointers and returns the named type, or nil.
func namedOf(t types.Type) *types.Named {
	for {
		switch tt := t.(type) {
		case *types.Pointer:
			t = tt.Elem()
			continue
		case *types.Named:
			return tt
		case *types.Alias:
			t = types.Unalias(tt)
			continue
		}
		return nil
	}
}

func typeIs(t types.Type, pkgPath, name string) bool {
	n := namedOf(t)
	if n == nil || n.Obj() == nil || n.Obj().Pkg() == nil {
		return false
	}
	return n.Obj().Pkg().Path() == pkgPath && n.Obj().Name() == name
}

func isModelType(t types.Type) bool {
	n := namedOf(t)
	return n != nil && n.Obj() != nil && n.Obj().Pkg() != nil && n.Obj().Pkg().Path() == modPath+"/internal/model"
}

func modelTypeName(t types.Type) string {
	n := namedOf(t)
	if n == nil || n.Obj() == nil || n.Obj().Pkg() == nil || n.Obj().Pkg().Path() != modPath+"/internal/model" {
		return ""
	}
	return n.Obj().Name()
}

// fieldName returns the struct type name and field name addressed by a FieldAddr/Field instruction.
func fieldOf(v ssa.Value) (typeName string, field string, pkgPath string, ok bool) {
	var st *types.Struct
	var idx int
	var xt types.Type
	switch i := v.(type) {
	case *ssa.FieldAddr:
		xt = i.X.Type()
		pt, isP := xt.Underlying().(*types.Pointer)
		if !isP {
			return
		}
		st, _ = pt.Elem().Underlying().(*types.Struct)
		idx = i.Field
		xt = pt.Elem()
	case *ssa.Field:
		xt = i.X.Type()
		st, _ = xt.Underlying().(*types.Struct)
		idx = i.Field
	default:
		return
	}
	if st == nil {
		return
	}
	n := namedOf(xt)
	if n != nil && n.Obj() != nil {
		typeName = n.Obj().Name()
		if n.Obj().Pkg() != nil {
			pkgPath = n.Obj().Pkg().Path()
		}
	}
	return typeName, st.Field(idx).Name(), pkgPath, true
}

// fileOf returns the *ast.File and package containing pos.
func (w *World) fileOf(pos token.Pos) (*ast.File, *packages.Package) {
	for _, p := range w.Pkgs {
		for _, f := range p.Syntax {
			if f.FileStart <= pos && pos <= f.FileEnd {
				return f, p
			}
		}
	}
	return nil, nil
}

func min(a, b int) int {
	if a < b {
		return a
	}
	return b
}

func sortedKeys[M ~map[string]V, V any](m M) []string {
	ks := make([]string, 0, len(m))
	for k := range m {
		ks = append(ks, k)
	}
	sort.Strings(ks)
	return ks
}
