package main

import (
	"go/token"
	"go/types"
	"strings"

	"golang.org/x/tools/go/ssa"
)

// ------------------------------------------------------------------------------------------------
// Kind tables: a package-level `map[reflect.Type]F` whose keys are reflect.TypeOf(&model.<Kind>FieldAttribute{}) and which is
// consulted with reflect.TypeOf(<field>.Attr) is a type switch on the field's kind written as data. The comma-ok of the lookup is a
// kind test (kinds that have a row / kinds that have none); a call of the row found enters the row's function with the field
// committed to the kinds under which that function is registered - whatever the row's function is handed (the field itself, a record
// with the field in it, pieces of it).
// ------------------------------------------------------------------------------------------------

type kindTable struct {
	rows  map[*ssa.Function]uint8 // function behind a row value (thunks and bound-method wrappers unwrapped) -> kinds it is registered for
	kinds uint8                   // kinds that have a row
	exact bool                    // every key and every row value was understood
}

var kindTableMemo = map[*ssa.Global]*kindTable{}

// reflectTypeOfArg: v is reflect.TypeOf(x): x without its interface wrapping.
func reflectTypeOfArg(v ssa.Value) ssa.Value {
	c, ok := stripIdentity(v).(*ssa.Call)
	if !ok || c.Call.StaticCallee() == nil || c.Call.StaticCallee().String() != "reflect.TypeOf" || len(c.Call.Args) != 1 {
		return nil
	}
	return stripIdentity(c.Call.Args[0])
}

// unwrapSynthetic: the declared function behind a thunk (method expression T.m) or a bound-method wrapper (method value x.m).
func unwrapSynthetic(f *ssa.Function) *ssa.Function {
	if f == nil || f.Synthetic == "" || f.Pkg != nil {
		return f
	}
	if !strings.HasPrefix(f.Synthetic, "bound method wrapper") && !strings.HasPrefix(f.Synthetic, "thunk") && !strings.HasPrefix(f.Synthetic, "wrapper") {
		return f
	}
	var tgt *ssa.Function
	n := 0
	forEachInstr(f, func(_ *ssa.BasicBlock, ins ssa.Instruction) {
		if c, ok := ins.(ssa.CallInstruction); ok {
			n++
			if g := c.Common().StaticCallee(); g != nil {
				tgt = g
			}
		}
	})
	if tgt != nil && n == 1 {
		return tgt
	}
	return f
}

// kindTableOf: the rows of the table kept in global g (nil: g is not a kind table).
func kindTableOf(g *ssa.Global) *kindTable {
	if kt, ok := kindTableMemo[g]; ok {
		return kt
	}
	kindTableMemo[g] = nil
	if theWorld == nil {
		return nil
	}
	mt, ok := g.Type().(*types.Pointer).Elem().Underlying().(*types.Map)
	if !ok || mt.Key().String() != "reflect.Type" {
		return nil
	}
	// the maps that live in g: map literals stored into it, and g itself when rows are added through it
	isTable := func(mp ssa.Value) bool {
		switch x := stripIdentity(mp).(type) {
		case *ssa.MakeMap:
			if x.Referrers() == nil {
				return false
			}
			for _, ref := range *x.Referrers() {
				if st, ok := ref.(*ssa.Store); ok && st.Addr == ssa.Value(g) && st.Val == ssa.Value(x) {
					return true
				}
			}
		case *ssa.UnOp:
			return x.Op == token.MUL && x.X == ssa.Value(g)
		}
		return false
	}
	kt := &kindTable{rows: map[*ssa.Function]uint8{}, exact: true}
	n := 0
	for _, f := range theWorld.allFuncsInRepo() {
		forEachInstr(f, func(_ *ssa.BasicBlock, ins ssa.Instruction) {
			mu, ok := ins.(*ssa.MapUpdate)
			if !ok || !isTable(mu.Map) {
				return
			}
			n++
			k, known := -1, false
			if a := reflectTypeOfArg(mu.Key); a != nil {
				if p, isPtr := a.Type().(*types.Pointer); isPtr {
					k, known = func() (int, bool) { k, ok := kindTypes[modelTypeName(p.Elem())]; return k, ok }()
				}
			}
			if !known {
				kt.exact = false
				return
			}
			kt.kinds |= 1 << k
			tgts := closureTargets(mu.Value, 0, map[ssa.Value]bool{})
			if len(tgts) == 0 {
				kt.exact = false
			}
			for _, t := range tgts {
				kt.rows[unwrapSynthetic(t)] |= 1 << k
			}
		})
	}
	if n == 0 || kt.kinds == 0 {
		return nil
	}
	kindTableMemo[g] = kt
	return kt
}

// kindLookup: lk consults a kind table with reflect.TypeOf(f.Attr): the table and f.
func kindLookup(lk *ssa.Lookup) (*kindTable, ssa.Value) {
	ld, ok := stripIdentity(lk.X).(*ssa.UnOp)
	if !ok || ld.Op != token.MUL {
		return nil, nil
	}
	g, ok := ld.X.(*ssa.Global)
	if !ok {
		return nil, nil
	}
	a, ok := reflectTypeOfArg(lk.Index).(*ssa.UnOp)
	if !ok || a.Op != token.MUL {
		return nil, nil
	}
	fa, ok := a.X.(*ssa.FieldAddr)
	if !ok || !isFieldPtr(fa.X.Type()) {
		return nil, nil
	}
	if _, fname, _, _ := fieldOf(fa); fname != "Attr" {
		return nil, nil
	}
	kt := kindTableOf(g)
	if kt == nil {
		return nil, nil
	}
	return kt, fa.X
}

// kindLookupTest: cond is the ok of a comma-ok lookup in a kind table: the field tested and the kinds that have a row.
func kindLookupTest(cond ssa.Value) (f ssa.Value, rows uint8, exact bool) {
	ex, ok := cond.(*ssa.Extract)
	if !ok || ex.Index != 1 {
		return nil, 0, false
	}
	lk, ok := ex.Tuple.(*ssa.Lookup)
	if !ok || !lk.CommaOk {
		return nil, 0, false
	}
	kt, fv := kindLookup(lk)
	if kt == nil {
		return nil, 0, false
	}
	return fv, kt.kinds, kt.exact
}

// dispatchTarget: one function a call of a kind-table row may enter.
type dispatchTarget struct {
	fn    *ssa.Function
	kinds uint8 // the kinds the function is registered for
	off   int   // parameter i of fn receives argument i-off of the call (a bound-method wrapper supplies the receiver itself)
}

// dispatchTargets: c calls the row found by a kind lookup: the functions it may enter and the field whose kind selected the row.
func dispatchTargets(c ssa.CallInstruction) ([]dispatchTarget, ssa.Value) {
	cc := c.Common()
	if cc.IsInvoke() || cc.StaticCallee() != nil {
		return nil, nil
	}
	var lk *ssa.Lookup
	switch x := stripIdentity(cc.Value).(type) {
	case *ssa.Extract:
		if l, ok := x.Tuple.(*ssa.Lookup); ok && x.Index == 0 {
			lk = l
		}
	case *ssa.Lookup:
		lk = x
	}
	if lk == nil {
		return nil, nil
	}
	kt, fv := kindLookup(lk)
	if kt == nil {
		return nil, nil
	}
	var out []dispatchTarget
	for fn, ks := range kt.rows {
		if !kt.exact {
			ks = allKinds
		}
		out = append(out, dispatchTarget{fn: fn, kinds: ks, off: len(fn.Params) - len(cc.Args)})
	}
	sortDispatch(out)
	return out, fv
}

func sortDispatch(ts []dispatchTarget) {
	for i := 1; i < len(ts); i++ {
		for j := i; j > 0 && fnKey(ts[j].fn) < fnKey(ts[j-1].fn); j-- {
			ts[j], ts[j-1] = ts[j-1], ts[j]
		}
	}
}
