package main

import (
	"fmt"
	"go/constant"
	"go/token"
	"go/types"
	"sort"
	"strings"

	"golang.org/x/tools/go/ssa"
)

// ---------- C04: length-of ----------

func wireLength(w *World, wc *wireCtx, r *Report) {
	const ruleLink = "C04/linking"
	// (1) somewhere in the parse phase the target field receives LenAttr = the length field's attribute, under a name comparison
	// with the declared target (the routine is found by what it does, not by its name)
	lenAttrStore, lenOfStore, targetStore := false, false, false
	cmpOK := false
	kindDependent := ""
	var vpd *ssa.Function
	for _, pf := range parsePhaseFuncs(w) {
		pf := pf
		var cd *cdInfo
		forEachInstr(pf, func(b *ssa.BasicBlock, ins ssa.Instruction) {
			st, ok := ins.(*ssa.Store)
			if !ok {
				return
			}
			fa, ok := st.Addr.(*ssa.FieldAddr)
			if !ok {
				return
			}
			tn, f, _, _ := fieldOf(fa)
			switch tn + "." + f {
			case "Field.LenAttr":
				v := stripIdentity(st.Val)
				if ld, ok := v.(*ssa.UnOp); ok && ld.Op == token.MUL {
					if fa2, ok := ld.X.(*ssa.FieldAddr); ok {
						if _, f2, _, _ := fieldOf(fa2); f2 == "Attr" {
							lenAttrStore = true
							vpd = pf
							if cd == nil {
								cd = computeCD(pf)
							}
							// the link does not depend on what kind of field the target is (an early `continue` in a kind-specific branch
							// above the link would make it so)
							for _, d := range cd.allCtrl(b) {
								cond := branchCond(d.Branch)
								if cond == nil {
									continue
								}
								if tf, _ := fieldTest(cond); tf != nil {
									kindDependent = w.instrPos(d.Branch.Instrs[len(d.Branch.Instrs)-1])
								}
								if mentionsField(cond, "IsIner", 0) || mentionsField(cond, "RefPacket", 0) {
									kindDependent = w.instrPos(d.Branch.Instrs[len(d.Branch.Instrs)-1])
								}
							}
							if cd == nil {
								cd = computeCD(pf)
							}
							// control dependent on a comparison of names through TragetField
							for _, d := range cd.allCtrl(b) {
								if cond := branchCond(d.Branch); cond != nil && mentionsField(cond, "TragetField", 0) && mentionsField(cond, "Name", 0) {
									cmpOK = true
								}
							}
						}
					}
				}
				if al, ok := v.(*ssa.Alloc); ok && modelTypeName(al.Type().(*types.Pointer).Elem()) == "LengthOfAttribute" {
					lenOfStore = true
				}
			case "LengthFieldAttribute.TragetField":
				// resolved target: a found lookup result
				if ex, ok := stripIdentity(st.Val).(*ssa.Extract); ok {
					if lk, ok := ex.Tuple.(*ssa.Lookup); ok && lk.CommaOk {
						for _, t := range membershipTests(pf) {
							if t.lookup == lk && edgeDominates(t.branch, t.presentSucc, b) {
								targetStore = true
							}
						}
					}
				}
				// ... or the entry found by a resolver helper (returns (entry, found) of its lookup), stored under the found edge
				if foundLookupValue(pf, st.Val, b) != nil {
					targetStore = true
				}
			}
		})
	}
	if vpd == nil {
		vpd = lookupFunc(w.Parser, "PacketDslVisitorImpl", "VisitPacketDefinition")
	}
	posOf := ""
	if vpd != nil {
		posOf = w.pos(vpd.Pos())
	}
	chk := func(ok bool, key, detail string) {
		if ok {
			r.pass(ruleLink, key, posOf, "")
		} else {
			r.fail(ruleLink, key, posOf, detail)
		}
	}
	chk(lenAttrStore, "target field receives the length field's attribute as LenAttr", "no parse-phase routine stores the length field's attribute into the target's LenAttr: no generator will back-patch")
	chk(cmpOK, "the target is selected by comparing names with the declared @lengthOf target", "the LenAttr store is not controlled by a comparison of a field name with TragetField.Name")
	chk(kindDependent == "", "the target is linked whatever kind of field it is", "whether the target receives LenAttr depends on a test of the target's own kind (branch at "+kindDependent+"): a target of the other kind is never back-patched and the length stays 0")
	chk(lenOfStore, "the length field is marked with a LengthOfAttribute", "the length field itself no longer receives a LengthOfAttribute")
	chk(targetStore, "the length field's target is the declared field, found by a checked lookup", "TragetField is not assigned from a checked (found) lookup of the declared name")
	// both spellings take the target's name from the attribute's `from` label: in each of the two contexts that can hold a
	// lengthOfAttribute, the node obtained from the LengthOfAttribute() accessor reaches a GetFrom() call (directly, or as an argument of
	// a parser helper that reads it)
	ctxs := w.ctxTable()
	var reachesFrom func(v ssa.Value, depth int) bool
	reachesFrom = func(v ssa.Value, depth int) bool {
		if v == nil || v.Referrers() == nil || depth > 5 {
			return false
		}
		for _, ref := range *v.Referrers() {
			switch x := ref.(type) {
			case *ssa.Call:
				if recv, ai, ok := w.accessorOf(x, ctxs); ok && ai.Name == "GetFrom" && stripIdentity(recv) == stripIdentity(v) {
					return true
				}
				if f := x.Call.StaticCallee(); f != nil && f.Blocks != nil && f.Pkg == w.Parser {
					for i, a := range x.Call.Args {
						if a == v && i < len(f.Params) && reachesFrom(f.Params[i], depth+1) {
							return true
						}
					}
				}
			case *ssa.Phi, *ssa.MakeInterface, *ssa.ChangeInterface, *ssa.ChangeType, *ssa.TypeAssert:
				if reachesFrom(x.(ssa.Value), depth+1) {
					return true
				}
			case *ssa.Store:
				if al, ok := x.Addr.(*ssa.Alloc); ok && x.Val == v && al.Referrers() != nil {
					for _, r2 := range *al.Referrers() {
						if ld, ok := r2.(*ssa.UnOp); ok && ld.Op == token.MUL && reachesFrom(ld, depth+1) {
							return true
						}
					}
				}
			}
		}
		return false
	}
	fromIn := map[string]bool{}
	for _, fn := range parsePhaseFuncs(w) {
		forEachInstr(fn, func(b *ssa.BasicBlock, ins ssa.Instruction) {
			c, ok := ins.(*ssa.Call)
			if !ok {
				return
			}
			if _, ai, ok := w.accessorOf(c, ctxs); ok && ai.Name == "LengthOfAttribute" && reachesFrom(c, 0) {
				fromIn[ai.Ctx] = true
			}
		})
	}
	nFrom := len(fromIn)
	chk(nFrom >= 2, "inline and prefixed @lengthOf both read the attribute's target name", fmt.Sprintf("expected the lengthOfAttribute node of both spellings (field attribute, length field declaration) to have its `from` label read, found that for %d context(s): %v", nFrom, sortedBoolKeys(fromIn)))

	// (2) cells
	const ruleCell = "C04/placeholder-and-backpatch"
	var cs []cellResult
	nTarget := map[string]int{}
	for _, l := range codecLangs {
		for _, dir := range []string{"enc", "dec"} {
			for _, c := range wc.cells[l+"/"+dir] {
				if c.u.K == kLength || c.u.Target {
					cs = append(cs, c)
					if c.u.Target && c.sites > 0 {
						nTarget[l]++
					}
				}
			}
		}
	}
	reportCells(r, ruleCell, cs)
	for _, l := range codecLangs {
		if nTarget[l] == 0 {
			r.fail(ruleCell, l+"/enc: a back-patch is emitted under the LenAttr test", "", "no emission site of the "+l+" encoder is guarded by `field.LenAttr.(*LengthFieldAttribute)`: the length field keeps its placeholder value")
		}
	}
	r.floor(ruleCell, 15)
}

// wirePairDedup: every seen-set over match pairs found under a generator is judged by what the function emits with the filtered pairs:
// an emitter of per-key text (decode arms, dispatch tables) needs one entry per key, an emitter of per-packet text (Rust enum variants,
// encode arms, imports) one per packet. onlyRole restricts the judged emitters ("" = all).
func wirePairDedup(w *World, wc *wireCtx, r *Report, ruleDedup string, onlyRole string) {
	// ---- dedup keys ----
	// every seen-set over match pairs found under a generator is judged by the role of the function it filters for:
	// decode emitters need one entry per key; Rust's enum declaration and encode arms need one entry per packet.
	nSets := 0
	for _, ga := range anchorTable {
		for _, fn := range wc.anchors[ga.Lang]["own"] {
			if roleOf(fn) == "test" || (onlyRole != "" && roleOf(fn) != onlyRole) {
				continue
			}
			keys := dedupKeys(w, fn, 0, map[*ssa.Function]bool{})
			if len(keys) == 0 {
				continue
			}
			// what does this function emit with the filtered pairs?
			var usesKey, usesVal bool
			for _, st := range wc.m.sitesOf(fn) {
				pf := pairUse(wc, st)
				if pf["Key"] {
					usesKey = true
				}
				if pf["Value"] {
					usesVal = true
				}
			}
			want := ""
			why := ""
			switch {
			case usesKey:
				want, why = "Key", "it emits one entry per key: several keys may map to one packet and each needs its entry"
			case usesVal:
				want, why = "Value", "it emits one entry per packet (enum variant / encode arm / import): a repeated entry does not compile"
			default:
				continue
			}
			nSets++
			key := fmt.Sprintf("%s: %s filters pairs by %s only", ga.Lang, fnKey(fn), want)
			var bad []string
			for k := range keys {
				if k != want {
					bad = append(bad, k)
				}
			}
			sort.Strings(bad)
			if len(bad) > 0 {
				r.fail(ruleDedup, key, w.pos(fn.Pos()), fmt.Sprintf("pairs reaching this emitter are de-duplicated by MatchPair.%s, but %s", strings.Join(bad, ","), why))
			} else {
				r.pass(ruleDedup, key, w.pos(fn.Pos()), why)
			}
		}
	}
	// Rust: the enum and the encoder must de-duplicate by packet at all
	for _, fn := range wc.anchors["rust"]["own"] {
		if onlyRole != "" {
			break
		}
		if roleOf(fn) == "test" {
			continue
		}
		var usesKey, usesVal, inPairLoop bool
		loops := pairLoopBlocks(fn)
		for _, st := range wc.m.sitesOf(fn) {
			pf := pairUse(wc, st)
			if pf["Key"] {
				usesKey = true
			}
			if pf["Value"] {
				usesVal = true
				// per-pair text: the piece is emitted inside this function's own loop over match pairs (a caller that merely embeds
				// what such an emitter returned, or a selector returning pair.Value, emits nothing per pair itself)
				if loops[st.instr.Block()] {
					inPairLoop = true
				}
			}
		}
		if !inPairLoop || usesKey {
			continue
		}
		keys := dedupKeys(w, fn, 0, map[*ssa.Function]bool{})
		key := fmt.Sprintf("rust: %s emits one entry per packet", fnKey(fn))
		if keys["Value"] {
			r.pass(ruleDedup, key, w.pos(fn.Pos()), "pairs de-duplicated by MatchPair.Value")
		} else if usesVal {
			r.fail(ruleDedup, key, w.pos(fn.Pos()), "emits per-packet text (enum variant / match arm / use line) for every pair without de-duplicating by packet: two keys mapping to one packet repeat the entry, which rustc rejects")
		}
	}
	if nSets < 2 && onlyRole == "" {
		r.fail(ruleDedup, "seen-sets over match pairs found", "", fmt.Sprintf("expected the Rust emitters' seen-sets, found %d", nSets))
	}

}

func mentionsField(v ssa.Value, name string, depth int) bool {
	if depth > 8 || v == nil {
		return false
	}
	switch x := v.(type) {
	case *ssa.FieldAddr:
		if _, f, _, _ := fieldOf(x); f == name {
			return true
		}
		return mentionsField(x.X, name, depth+1)
	case *ssa.UnOp:
		return mentionsField(x.X, name, depth+1)
	case *ssa.BinOp:
		return mentionsField(x.X, name, depth+1) || mentionsField(x.Y, name, depth+1)
	case *ssa.Extract:
		return mentionsField(x.Tuple, name, depth+1)
	case *ssa.TypeAssert:
		return mentionsField(x.X, name, depth+1)
	case *ssa.Phi:
		for _, e := range x.Edges {
			if mentionsField(e, name, depth+1) {
				return true
			}
		}
	}
	return false
}

// ---------- C05: match ----------

func wireMatch(w *World, wc *wireCtx, r *Report) {
	ctxs := w.ctxTable()
	const ruleExp = "C05/pair-expansion"
	vmf := lookupFunc(w.Parser, "PacketDslVisitorImpl", "VisitMatchFieldDeclaration")
	vmp := lookupFunc(w.Parser, "PacketDslVisitorImpl", "VisitMatchPair")
	if vmf == nil || vmp == nil {
		r.fatal("anchor unresolved: VisitMatchFieldDeclaration / VisitMatchPair")
		return
	}
	// every matchPair child contributes: loop over AllMatchPair(), append of the visit result, no early exit
	usesAll, appends := false, false
	forEachInstr(vmf, func(b *ssa.BasicBlock, ins ssa.Instruction) {
		c, ok := ins.(*ssa.Call)
		if !ok {
			return
		}
		if _, ai, ok := w.accessorOf(c, ctxs); ok && ai.Ctx == "MatchFieldDeclarationContext" && ai.Name == "AllMatchPair" {
			usesAll = true
		}
		if bi, ok := c.Call.Value.(*ssa.Builtin); ok && bi.Name() == "append" {
			if sl, ok := c.Type().Underlying().(*types.Slice); ok && modelTypeName(sl.Elem()) == "MatchPair" {
				appends = true
			}
		}
	})
	if !appends {
		// the pairs are collected by a helper the visitor hands them to (a table builder with an add method)
		seenF := map[*ssa.Function]bool{vmf: true}
		work := []*ssa.Function{vmf}
		for i := 0; i < len(work) && i < 12; i++ {
			forEachInstr(work[i], func(_ *ssa.BasicBlock, ins ssa.Instruction) {
				c, ok := ins.(ssa.CallInstruction)
				if !ok {
					return
				}
				if cv, isCall := ins.(*ssa.Call); isCall && work[i] != vmf {
					if bi, ok := cv.Call.Value.(*ssa.Builtin); ok && bi.Name() == "append" {
						if sl, ok := cv.Type().Underlying().(*types.Slice); ok && modelTypeName(sl.Elem()) == "MatchPair" {
							appends = true
						}
					}
				}
				for _, g := range calleesOfAll(c) {
					if g != nil && g.Blocks != nil && pkgOfFunc(g) == w.Parser && !seenF[g] && !strings.HasPrefix(g.Name(), "Visit") {
						seenF[g] = true
						work = append(work, g)
					}
				}
			})
		}
	}
	early := loopHasEarlyExit(vmf)
	if usesAll && appends && !early {
		r.pass(ruleExp, "every matchPair child contributes its pairs", w.pos(vmf.Pos()), "")
	} else {
		r.fail(ruleExp, "every matchPair child contributes its pairs", w.pos(vmf.Pos()), fmt.Sprintf("AllMatchPair()=%v append=%v early-exit-from-loop=%v", usesAll, appends, early))
	}
	// VisitMatchPair: Value from IDENTIFIER, Key from a DIGITS/STRING terminal; list walk handles both token kinds
	okVal, okKey := true, true
	nLit := 0
	// the visitor method and the helpers it builds pairs with
	pairFns := []*ssa.Function{vmp}
	{
		seen := map[*ssa.Function]bool{vmp: true}
		for i := 0; i < len(pairFns); i++ {
			for _, a := range pairFns[i].AnonFuncs {
				if !seen[a] {
					seen[a] = true
					pairFns = append(pairFns, a)
				}
			}
			forEachInstr(pairFns[i], func(_ *ssa.BasicBlock, ins ssa.Instruction) {
				if c, ok := ins.(ssa.CallInstruction); ok {
					if g := c.Common().StaticCallee(); g != nil && g.Pkg == w.Parser && !seen[g] && !strings.HasPrefix(g.Name(), "Visit") && g.Blocks != nil {
						seen[g] = true
						pairFns = append(pairFns, g)
					}
				}
			})
		}
	}
	for _, pf := range pairFns {
		forEachInstr(pf, func(b *ssa.BasicBlock, ins ssa.Instruction) {
			st, ok := ins.(*ssa.Store)
			if !ok {
				return
			}
			fa, ok := st.Addr.(*ssa.FieldAddr)
			if !ok {
				return
			}
			tn, f, _, _ := fieldOf(fa)
			if tn != "MatchPair" {
				return
			}
			switch f {
			case "Value":
				nLit++
				if !textOfAccessor(w, st.Val, ctxs, map[string]bool{"IDENTIFIER": true}, 0) {
					okVal = false
				}
			case "Key":
				if !textOfAccessor(w, st.Val, ctxs, map[string]bool{"DIGITS": true, "STRING": true, "<terminal>": true}, 0) {
					okKey = false
				}
			}
		})
	}
	if nLit >= 1 && okVal {
		r.pass(ruleExp, "each pair's packet is the matchPair's IDENTIFIER", w.pos(vmp.Pos()), "")
	} else {
		r.fail(ruleExp, "each pair's packet is the matchPair's IDENTIFIER", w.pos(vmp.Pos()), fmt.Sprintf("MatchPair.Value is not always the text of ctx.IDENTIFIER() (%d literals)", nLit))
	}
	if okKey {
		r.pass(ruleExp, "each pair's key is the text of one DIGITS/STRING token", w.pos(vmp.Pos()), "")
	} else {
		r.fail(ruleExp, "each pair's key is the text of one DIGITS/STRING token", w.pos(vmp.Pos()), "MatchPair.Key is taken from something other than a single key token (e.g. split raw text)")
	}
	// list walk covers both token kinds
	digits, strs := tokenTypeConst(w, "PacketDslParserDIGITS"), tokenTypeConst(w, "PacketDslParserSTRING")
	seenD, seenS, usesAllD, usesAllS := false, false, false, false
	for _, pf := range pairFns {
		forEachInstr(pf, func(b *ssa.BasicBlock, ins ssa.Instruction) {
			if bo, ok := ins.(*ssa.BinOp); ok && (bo.Op == token.EQL || bo.Op == token.NEQ) && k64(bo) {
				for _, side := range []ssa.Value{bo.X, bo.Y} {
					if k, ok := side.(*ssa.Const); ok && k.Value != nil && k.Value.Kind() == constant.Int {
						if k.Int64() == digits {
							seenD = true
						}
						if k.Int64() == strs {
							seenS = true
						}
					}
				}
			}
			if c, ok := ins.(*ssa.Call); ok {
				if _, ai, ok := w.accessorOf(c, ctxs); ok && ai.Ctx == "ListContext" {
					if ai.Name == "AllDIGITS" {
						usesAllD = true
					}
					if ai.Name == "AllSTRING" {
						usesAllS = true
					}
				}
			}
		})
	}
	if (seenD && seenS) || (usesAllD && usesAllS) {
		r.pass(ruleExp, "a key list contributes its numeric and its string keys", w.pos(vmp.Pos()), "")
	} else {
		r.fail(ruleExp, "a key list contributes its numeric and its string keys", w.pos(vmp.Pos()), fmt.Sprintf("list expansion handles DIGITS=%v STRING=%v", seenD || usesAllD, seenS || usesAllS))
	}

	// ---- dispatch completeness ----
	const ruleDisp = "C05/dispatch-table"
	for _, ga := range anchorTable {
		found := false
		pos := ""
		where := ""
		for _, fn := range wc.anchors[ga.Lang]["own"] {
			if roleOf(fn) == "test" {
				continue
			}
			for _, s := range wc.m.sitesOf(fn) {
				d, _ := wc.m.siteDeps(s, nil)
				if d&sPK != 0 && d&sPV != 0 {
					found = true
					pos = w.instrPos(s.instr)
					where = fnKey(fn)
				}
			}
		}
		key := fmt.Sprintf("%s: the dispatch table is emitted from the key and the packet of every pair", ga.Lang)
		if found {
			r.pass(ruleDisp, key, pos, where)
		} else {
			r.fail(ruleDisp, key, pos, "no emission of this generator depends on both MatchPair.Key and MatchPair.Value of a pair: the table the decoder consults is not the DSL's table")
		}
	}
	r.floor(ruleDisp, 6)

	wirePairDedup(w, wc, r, "C05/pair-dedup", "")

	// ---- decoders consult the key field ----
	var cs []cellResult
	for _, ga := range anchorTable {
		for _, c := range wc.cells[ga.Lang+"/dec"] {
			if c.u.K == kMatch {
				cs = append(cs, c)
			}
		}
	}
	reportCells(r, "C05/decoder-uses-key-field", cs)
	r.floor("C05/decoder-uses-key-field", 6)
}

// dedupKeys: the MatchPair fields used as keys of seen-sets (local maps that are both looked up and updated) in fn and in the helpers that produce/filter the pair slice it iterates.
func dedupKeys(w *World, fn *ssa.Function, depth int, seen map[*ssa.Function]bool) map[string]bool {
	return dedupKeysB(w, fn, depth, seen, nil)
}

// pairFieldReturned: h is a selector function func(MatchPair) string returning one member of its argument.
func pairFieldReturned(h *ssa.Function) string {
	if h == nil || h.Blocks == nil || len(h.Params) == 0 {
		return ""
	}
	out := ""
	for _, b := range h.Blocks {
		ret, ok := b.Instrs[len(b.Instrs)-1].(*ssa.Return)
		if !ok || len(ret.Results) != 1 {
			continue
		}
		f := pairFieldOf(ret.Results[0])
		if f == "" || (out != "" && out != f) {
			return ""
		}
		out = f
	}
	return out
}

func dedupKeysB(w *World, fn *ssa.Function, depth int, seen map[*ssa.Function]bool, fbind map[*ssa.Parameter]*ssa.Function) map[string]bool {
	return dedupKeysE(w, fn, depth, seen, fbind, nil)
}

// pairProvenance: what is known, inside a helper, about the values its call site handed in: the function bound to a function-typed
// parameter (a selector), and the MatchPair members the elements of a slice parameter are copies of (a list of values that were
// selected from pairs before the helper sees them, e.g. the packet names collected from the pairs of every match field).
type pairProvenance struct {
	fbind map[*ssa.Parameter]*ssa.Function
	ebind map[*ssa.Parameter]map[string]bool
}

// valueFields: the MatchPair members v is an unchanged copy of: a member read, an element of a list of such copies, or what a
// selector function (static, a closure, or bound to a parameter) returns for such a value - one of the members of the pair it is
// given, or its argument as it is. Anything computed otherwise yields nothing.
func (pp pairProvenance) valueFields(v ssa.Value, depth int, seen map[ssa.Value]bool) map[string]bool {
	out := map[string]bool{}
	v = stripIdentity(v)
	if v == nil || depth > 8 || seen[v] {
		return out
	}
	seen[v] = true
	defer delete(seen, v)
	if f := pairFieldOf(v); f != "" {
		out[f] = true
		return out
	}
	switch x := v.(type) {
	case *ssa.Phi:
		for _, e := range x.Edges {
			for f := range pp.valueFields(e, depth+1, seen) {
				out[f] = true
			}
		}
	case *ssa.UnOp:
		if ia, ok := x.X.(*ssa.IndexAddr); ok && x.Op == token.MUL {
			return pp.elemFields(ia.X, depth+1, seen)
		}
	case *ssa.Call:
		if x.Call.IsInvoke() {
			return out
		}
		var sel *ssa.Function
		if p, isParam := stripIdentity(x.Call.Value).(*ssa.Parameter); isParam {
			sel = pp.fbind[p]
		} else {
			sel = calleeOf(x)
		}
		if sel == nil || sel.Blocks == nil || len(sel.Params) != len(x.Call.Args) {
			return out
		}
		for _, b := range sel.Blocks {
			ret, ok := b.Instrs[len(b.Instrs)-1].(*ssa.Return)
			if !ok {
				continue
			}
			if len(ret.Results) != 1 {
				return map[string]bool{}
			}
			res := stripIdentity(ret.Results[0])
			if f := pairFieldOf(res); f != "" {
				// a member of the selector's own argument
				if root := paramBehind(valueRoot(res)); root != nil && root.Parent() == sel {
					out[f] = true
					continue
				}
				return map[string]bool{}
			}
			idx := -1
			for i, q := range sel.Params {
				if ssa.Value(q) == res {
					idx = i
				}
			}
			if idx < 0 {
				return map[string]bool{} // computed: not a selection
			}
			got := pp.valueFields(x.Call.Args[idx], depth+1, seen)
			if len(got) == 0 {
				return map[string]bool{}
			}
			for f := range got {
				out[f] = true
			}
		}
	}
	return out
}

// paramBehind: v is a parameter, or the local cell a parameter is copied into at entry (go/ssa keeps a struct parameter whose
// members are selected in such a cell) and that nothing else is stored into.
func paramBehind(v ssa.Value) *ssa.Parameter {
	switch x := v.(type) {
	case *ssa.Parameter:
		return x
	case *ssa.Alloc:
		if x.Referrers() == nil {
			return nil
		}
		var p *ssa.Parameter
		for _, ref := range *x.Referrers() {
			if st, ok := ref.(*ssa.Store); ok && st.Addr == ssa.Value(x) {
				q, isP := st.Val.(*ssa.Parameter)
				if !isP || p != nil {
					return nil
				}
				p = q
			}
		}
		return p
	}
	return nil
}

// elemFields: the MatchPair members the elements of the slice s are copies of: elements appended one by one (or in bulk from
// another such list) to a local list, a reslice, a list kept in a variable, or a slice parameter whose call site was looked at.
func (pp pairProvenance) elemFields(s ssa.Value, depth int, seen map[ssa.Value]bool) map[string]bool {
	out := map[string]bool{}
	s = stripIdentity(s)
	if s == nil || depth > 8 || seen[s] {
		return out
	}
	seen[s] = true
	defer delete(seen, s)
	add := func(m map[string]bool) {
		for f := range m {
			out[f] = true
		}
	}
	switch x := s.(type) {
	case *ssa.Parameter:
		add(pp.ebind[x])
	case *ssa.Phi:
		for _, e := range x.Edges {
			add(pp.elemFields(e, depth+1, seen))
		}
	case *ssa.Slice:
		add(pp.elemFields(x.X, depth+1, seen))
	case *ssa.UnOp:
		if al, ok := x.X.(*ssa.Alloc); ok && x.Op == token.MUL && al.Referrers() != nil {
			for _, ref := range *al.Referrers() {
				if st, ok := ref.(*ssa.Store); ok && st.Addr == ssa.Value(al) {
					add(pp.elemFields(st.Val, depth+1, seen))
				}
			}
		}
	case *ssa.Call:
		bi, ok := x.Call.Value.(*ssa.Builtin)
		if !ok || bi.Name() != "append" || len(x.Call.Args) != 2 {
			return out
		}
		add(pp.elemFields(x.Call.Args[0], depth+1, seen))
		if sl, ok := x.Call.Args[1].(*ssa.Slice); ok {
			if al, ok := sl.X.(*ssa.Alloc); ok && al.Referrers() != nil {
				// append(list, a, b): the values put into the argument array
				if _, isArr := al.Type().(*types.Pointer).Elem().Underlying().(*types.Array); isArr {
					for _, ref := range *al.Referrers() {
						ia, ok := ref.(*ssa.IndexAddr)
						if !ok || ia.Referrers() == nil {
							continue
						}
						for _, r2 := range *ia.Referrers() {
							if st, ok := r2.(*ssa.Store); ok && st.Addr == ssa.Value(ia) {
								add(pp.valueFields(st.Val, depth+1, seen))
							}
						}
					}
					return out
				}
			}
		}
		add(pp.elemFields(x.Call.Args[1], depth+1, seen))
	}
	return out
}

func dedupKeysE(w *World, fn *ssa.Function, depth int, seen map[*ssa.Function]bool, fbind map[*ssa.Parameter]*ssa.Function, ebind map[*ssa.Parameter]map[string]bool) map[string]bool {
	out := map[string]bool{}
	if depth > 3 || fn.Blocks == nil {
		return out
	}
	if seen[fn] && len(fbind) == 0 && len(ebind) == 0 {
		return out
	}
	pp := pairProvenance{fbind, ebind}
	seen[fn] = true
	forEachInstr(fn, func(b *ssa.BasicBlock, ins ssa.Instruction) {
		switch x := ins.(type) {
		case *ssa.MapUpdate:
			if _, fresh := valueRoot(x.Map).(*ssa.MakeMap); !fresh {
				return
			}
			kf := pairFieldOf(x.Key)
			if kf == "" {
				// the key is what a selector function handed in (or a local closure) extracts from the pair: seen[by(pair)]
				if kc, ok := stripIdentity(x.Key).(*ssa.Call); ok && !kc.Call.IsInvoke() {
					var sel *ssa.Function
					if p, isParam := stripIdentity(kc.Call.Value).(*ssa.Parameter); isParam {
						sel = fbind[p]
					} else {
						sel = calleeOf(kc)
					}
					if len(kc.Call.Args) == 1 && pairFieldOf(kc.Call.Args[0]) == "" {
						if _, isPair := kc.Call.Args[0].Type().Underlying().(*types.Struct); isPair || modelTypeName(kc.Call.Args[0].Type()) == "MatchPair" {
							kf = pairFieldReturned(sel)
						}
					}
				}
			}
			kfs := map[string]bool{}
			if kf != "" {
				kfs[kf] = true
			} else {
				// the set is kept over values that were selected from the pairs earlier (a list of packet names collected from the
				// pairs, handed to a helper that drops repeated elements): the key is a copy of those members
				kfs = pp.valueFields(x.Key, 0, map[ssa.Value]bool{})
			}
			for f := range kfs {
				// it is a seen-set only if the same map is also looked up
				mm := valueRoot(x.Map)
				for _, ref := range *mm.(*ssa.MakeMap).Referrers() {
					if _, ok := ref.(*ssa.Lookup); ok {
						out[f] = true
					}
				}
			}
		case *ssa.Call:
			g := x.Call.StaticCallee()
			if g == nil || !w.isSubjectFunc(g) {
				return
			}
			// helper that takes or returns []MatchPair (or the match attribute itself)
			rel := false
			for _, p := range g.Params {
				if sl, ok := p.Type().Underlying().(*types.Slice); ok && modelTypeName(sl.Elem()) == "MatchPair" {
					rel = true
				}
				if modelTypeName(p.Type()) == "MatchFieldAttribute" {
					rel = true
				}
			}
			if roleOf(g) == "enc" || roleOf(g) == "dec" || roleOf(g) == "test" {
				rel = false // another emitter: judged on its own
			}
			if res := g.Signature.Results(); res.Len() == 1 {
				if sl, ok := res.At(0).Type().Underlying().(*types.Slice); ok && modelTypeName(sl.Elem()) == "MatchPair" {
					rel = true
				}
			}
			if res := g.Signature.Results(); !rel && res.Len() == 1 && roleOf(g) == "" && g.Pkg == w.Parser {
				if _, isSlice := res.At(0).Type().Underlying().(*types.Slice); isSlice && readsPairFields(g, 0, map[*ssa.Function]bool{}) {
					rel = true // e.g. a helper returning the unique packet names of a match field
				}
			}
			// a helper that is handed a list of values selected from pairs (not the pairs themselves): the members its elements are
			// copies of travel with the parameter. Generic helpers are instantiated per element type, so the parameter's type says
			// nothing about pairs there; what the call site passes does.
			eb := map[*ssa.Parameter]map[string]bool{}
			if r := roleOf(g); r != "enc" && r != "dec" && r != "test" {
				for i, a := range x.Call.Args {
					if i >= len(g.Params) {
						break
					}
					if _, isSlice := a.Type().Underlying().(*types.Slice); !isSlice {
						continue
					}
					if ef := pp.elemFields(a, 0, map[ssa.Value]bool{}); len(ef) > 0 {
						eb[g.Params[i]] = ef
						rel = true
					}
				}
			}
			if rel {
				// function values handed to the helper (a selector deciding what "the same pair" means)
				fb := map[*ssa.Parameter]*ssa.Function{}
				for i, a := range x.Call.Args {
					if i >= len(g.Params) {
						break
					}
					if _, isSig := g.Params[i].Type().Underlying().(*types.Signature); !isSig {
						continue
					}
					switch av := stripIdentity(a).(type) {
					case *ssa.Function:
						fb[g.Params[i]] = av
					case *ssa.MakeClosure:
						if f2, ok := av.Fn.(*ssa.Function); ok {
							fb[g.Params[i]] = f2
						}
					case *ssa.Parameter:
						if h := fbind[av]; h != nil {
							fb[g.Params[i]] = h
						}
					}
				}
				for k := range dedupKeysE(w, g, depth+1, seen, fb, eb) {
					out[k] = true
				}
			}
		}
	})
	return out
}

// pairFieldsEmitted: the MatchPair fields whose value becomes part of the emitted text v (followed through formatting calls and
// string helpers inside the function; what a helper reads for its own bookkeeping does not count).
func pairFieldsEmitted(v ssa.Value) map[string]bool {
	out := map[string]bool{}
	seen := map[ssa.Value]bool{}
	var walk func(v ssa.Value, d int)
	walk = func(v ssa.Value, d int) {
		if v == nil || seen[v] || d > 40 {
			return
		}
		seen[v] = true
		switch x := v.(type) {
		case *ssa.Field:
			if tn, f, _, _ := fieldOf(x); tn == "MatchPair" {
				out[f] = true
				return
			}
			walk(x.X, d+1)
		case *ssa.UnOp:
			if fa, ok := x.X.(*ssa.FieldAddr); ok {
				if tn, f, _, _ := fieldOf(fa); tn == "MatchPair" {
					out[f] = true
					return
				}
			}
			walk(x.X, d+1)
		case *ssa.Phi:
			for _, e := range x.Edges {
				walk(e, d+1)
			}
		case *ssa.BinOp:
			walk(x.X, d+1)
			walk(x.Y, d+1)
		case *ssa.MakeInterface:
			walk(x.X, d+1)
		case *ssa.ChangeType:
			walk(x.X, d+1)
		case *ssa.Convert:
			walk(x.X, d+1)
		case *ssa.Slice:
			walk(x.X, d+1)
		case *ssa.Extract:
			walk(x.Tuple, d+1)
		case *ssa.Call:
			for _, a := range x.Call.Args {
				walk(a, d+1)
			}
		case *ssa.Alloc:
			// varargs array / local: what is stored into it
			if x.Referrers() == nil {
				return
			}
			for _, ref := range *x.Referrers() {
				switch y := ref.(type) {
				case *ssa.Store:
					if y.Addr == ssa.Value(x) {
						walk(y.Val, d+1)
					}
				case *ssa.IndexAddr:
					for _, r2 := range *y.Referrers() {
						if st, ok := r2.(*ssa.Store); ok && st.Addr == ssa.Value(y) {
							walk(st.Val, d+1)
						}
					}
				}
			}
		}
	}
	walk(v, 0)
	return out
}

// pairUse: which MatchPair fields the text emitted at a site is made from. Field reads visible in the function decide; only when the
// pairs are consumed entirely inside helpers (e.g. a helper returning the unique packet names) does the helpers' dependence decide.
func pairUse(wc *wireCtx, s site) map[string]bool {
	pf := pairFieldsEmitted(s.val)
	if len(pf) > 0 {
		return pf
	}
	d, _ := wc.m.siteDeps(s, nil)
	if d&sPK != 0 {
		pf["Key"] = true
	}
	if d&sPV != 0 {
		pf["Value"] = true
	}
	return pf
}

// readsPairFields: the function (or a repo function it calls) loads a field of a MatchPair.
func readsPairFields(fn *ssa.Function, depth int, seen map[*ssa.Function]bool) bool {
	if depth > 3 || seen[fn] || fn.Blocks == nil {
		return false
	}
	seen[fn] = true
	hit := false
	forEachInstr(fn, func(_ *ssa.BasicBlock, ins ssa.Instruction) {
		switch x := ins.(type) {
		case *ssa.Field:
			if tn, _, _, _ := fieldOf(x); tn == "MatchPair" {
				hit = true
			}
		case *ssa.FieldAddr:
			if tn, _, _, _ := fieldOf(x); tn == "MatchPair" {
				hit = true
			}
		case ssa.CallInstruction:
			if g := x.Common().StaticCallee(); g != nil && g.Pkg == fn.Pkg && !hit {
				if readsPairFields(g, depth+1, seen) {
					hit = true
				}
			}
		}
	})
	return hit
}

func pairFieldOf(v ssa.Value) string {
	v = stripIdentity(v)
	switch x := v.(type) {
	case *ssa.Field:
		if tn, f, _, _ := fieldOf(x); tn == "MatchPair" {
			return f
		}
	case *ssa.UnOp:
		if fa, ok := x.X.(*ssa.FieldAddr); ok {
			if tn, f, _, _ := fieldOf(fa); tn == "MatchPair" {
				return f
			}
		}
	case *ssa.Phi:
		for _, e := range x.Edges {
			if f := pairFieldOf(e); f != "" {
				return f
			}
		}
	}
	return ""
}

func loopHasEarlyExit(fn *ssa.Function) bool {
	// a return or a jump out of a rangeindex loop body other than through the loop header
	for _, b := range fn.Blocks {
		if b.Comment != "rangeindex.loop" {
			continue
		}
		loop := naturalLoop(b)
		for lb := range loop {
			for _, s := range lb.Succs {
				if !loop[s] && lb != b {
					return true
				}
			}
			for _, ins := range lb.Instrs {
				if _, ok := ins.(*ssa.Return); ok {
					return true
				}
			}
		}
	}
	return false
}

// textOfAccessor: v is GetText() of the named token accessor of a grammar context (or of a terminal node when "<terminal>" is allowed).
// textOfRecordMember: every value stored, anywhere in the parser package, into member idx of the (non-model) record type t is such a
// token text.
func textOfRecordMember(w *World, t types.Type, idx int, ctxs map[string]*CtxInfo, allowed map[string]bool, depth int) bool {
	if p, ok := t.Underlying().(*types.Pointer); ok {
		t = p.Elem()
	}
	n := namedOf(t)
	if n == nil || n.Obj().Pkg() == nil || n.Obj().Pkg().Path() != parserPath {
		return false
	}
	stores, good := 0, true
	for fn := range w.allFuncs {
		if pkgOfFunc(fn) != w.Parser || fn.Blocks == nil {
			continue
		}
		forEachInstr(fn, func(_ *ssa.BasicBlock, ins ssa.Instruction) {
			st, ok := ins.(*ssa.Store)
			if !ok {
				return
			}
			fa, ok := st.Addr.(*ssa.FieldAddr)
			if !ok || fa.Field != idx {
				return
			}
			ft := fa.X.Type()
			if p, ok := ft.Underlying().(*types.Pointer); ok {
				ft = p.Elem()
			}
			if n2 := namedOf(ft); n2 == nil || n2.Obj() != n.Obj() {
				return
			}
			stores++
			if !textOfAccessor(w, st.Val, ctxs, allowed, depth+1) {
				good = false
			}
		})
	}
	return stores > 0 && good
}

func textOfAccessor(w *World, v ssa.Value, ctxs map[string]*CtxInfo, allowed map[string]bool, depth int) bool {
	if depth > 6 {
		return false
	}
	v = stripIdentity(v)
	switch x := v.(type) {
	case *ssa.Parameter:
		// handed in: every call site in the program text passes such a text
		fn := x.Parent()
		n := w.CallGraph().Nodes[fn]
		if fn == nil || n == nil {
			return false
		}
		idx := -1
		for i, q := range fn.Params {
			if q == x {
				idx = i
			}
		}
		real := 0
		for _, e := range n.In {
			if e.Caller.Func.Synthetic != "" {
				continue
			}
			real++
			if e.Site == nil || e.Site.Common().IsInvoke() || idx < 0 || idx >= len(e.Site.Common().Args) {
				return false
			}
			if !textOfAccessor(w, e.Site.Common().Args[idx], ctxs, allowed, depth+1) {
				return false
			}
		}
		return real > 0
	case *ssa.FreeVar:
		// captured by a closure: what the enclosing function bound
		g := x.Parent()
		if g == nil || g.Parent() == nil {
			return false
		}
		idx := -1
		for j, fv := range g.FreeVars {
			if fv == x {
				idx = j
			}
		}
		n, good := 0, true
		forEachInstr(g.Parent(), func(_ *ssa.BasicBlock, ins ssa.Instruction) {
			mc, ok := ins.(*ssa.MakeClosure)
			if !ok || mc.Fn != ssa.Value(g) || idx < 0 || idx >= len(mc.Bindings) {
				return
			}
			b := mc.Bindings[idx]
			if al, ok := b.(*ssa.Alloc); ok && al.Referrers() != nil {
				for _, ref := range *al.Referrers() {
					if st, ok := ref.(*ssa.Store); ok && st.Addr == ssa.Value(al) {
						n++
						if !textOfAccessor(w, st.Val, ctxs, allowed, depth+1) {
							good = false
						}
					}
				}
				return
			}
			n++
			if !textOfAccessor(w, b, ctxs, allowed, depth+1) {
				good = false
			}
		})
		return n > 0 && good
	case *ssa.UnOp:
		if x.Op == token.MUL {
			if fv, ok := x.X.(*ssa.FreeVar); ok {
				return textOfAccessor(w, fv, ctxs, allowed, depth+1)
			}
			// a member of a record of the parser's own that carries the text (keyToken.text): every value stored into that member
			if fa, ok := x.X.(*ssa.FieldAddr); ok {
				return textOfRecordMember(w, fa.X.Type(), fa.Field, ctxs, allowed, depth)
			}
		}
		return false
	case *ssa.Field:
		return textOfRecordMember(w, x.X.Type(), x.Field, ctxs, allowed, depth)
	case *ssa.Const:
		// the zero text of a declaration that has no key token at all (not derivable from the grammar): not a token, not a rewrite
		if s, ok := constString(x); ok && s == "" && depth > 0 {
			return true
		}
		return false
	case *ssa.Phi:
		for _, e := range x.Edges {
			if s, isConst := constString(e); isConst && s == "" {
				continue
			}
			if !textOfAccessor(w, e, ctxs, allowed, depth+1) {
				return false
			}
		}
		return true
	case *ssa.Call:
		name := ""
		var recv ssa.Value
		if x.Call.IsInvoke() {
			name, recv = x.Call.Method.Name(), x.Call.Value
		} else if f := x.Call.StaticCallee(); f != nil && len(x.Call.Args) > 0 {
			name, recv = f.Name(), x.Call.Args[0]
		}
		if name != "GetText" || recv == nil {
			return false
		}
		recv = stripIdentity(recv)
		if rc, ok := recv.(*ssa.Call); ok {
			if _, ai, ok := w.accessorOf(rc, ctxs); ok && ai.Known {
				return allowed[strings.TrimSuffix(ai.What, "*")]
			}
		}
		// a terminal node obtained by walking children / All*() slices
		ts := types.TypeString(recv.Type(), shortQual)
		if allowed["<terminal>"] && strings.HasSuffix(ts, "antlr.TerminalNode") {
			return true
		}
		if strings.HasSuffix(ts, "antlr.TerminalNode") {
			// element of AllDIGITS()/AllSTRING()
			if ld, ok := recv.(*ssa.UnOp); ok {
				if ia, ok := ld.X.(*ssa.IndexAddr); ok {
					if rc, ok := ia.X.(*ssa.Call); ok {
						if _, ai, ok := w.accessorOf(rc, ctxs); ok {
							return allowed[strings.TrimSuffix(ai.What, "*")]
						}
					}
				}
			}
		}
	}
	return false
}

func tokenTypeConst(w *World, name string) int64 {
	if c := w.Grammar.Const(name); c != nil && c.Value != nil {
		return c.Value.Int64()
	}
	return -1
}

// ---------- C15: Lua size sources ----------

func wireLuaSizes(wc *wireCtx, r *Report) {
	const rule = "C15/size-source-consistency"
	n := 0
	for _, fn := range wc.anchors["lua"]["dec"] {
		for _, u := range feasibleUnits() {
			var kinds = map[string]bool{}
			sites := 0
			for _, s := range wc.m.sitesOf(fn) {
				st, f := wc.m.stateAt(fn, s.instr.Block())
				if f == nil || st.isTop() || !st.admits(u) {
					continue
				}
				d, _ := wc.m.siteDeps(s, &u)
				if d&sFL != 0 {
					kinds["FixedString.Length"] = true
				}
				if d&sTBL != 0 {
					switch {
					case d&sAP != 0:
						kinds["table[ArrayPrefixLenType]"] = true
					case d&sSP != 0:
						kinds["table[StringPrefixLenType]"] = true
					case d&sTY != 0:
						kinds["table[field type]"] = true
					}
				}
				sites++
			}
			if sites == 0 || len(kinds) == 0 {
				continue
			}
			n++
			key := fmt.Sprintf("%s %s takes sizes from one source", fnKey(fn), u)
			if len(kinds) == 1 {
				r.pass(rule, key, wc.m.w.pos(fn.Pos()), sortedBoolKeys(kinds)[0])
			} else {
				r.fail(rule, key, wc.m.w.pos(fn.Pos()), "the emitted range and advance for this cell take sizes from different sources ("+strings.Join(sortedBoolKeys(kinds), ", ")+"): the attributed byte range cannot be the field's true range")
			}
		}
	}
	if n < 5 {
		r.fail(rule, "size-bearing Lua cells found", "", fmt.Sprintf("expected >= 5 Lua cells that take a size from a source, found %d", n))
	}
}

// k64: one operand is an integer constant (guards Const.Int64 against string constants).
func k64(bo *ssa.BinOp) bool {
	for _, side := range []ssa.Value{bo.X, bo.Y} {
		if k, ok := side.(*ssa.Const); ok && k.Value != nil && k.Value.Kind() == constant.Int {
			return true
		}
	}
	return false
}

// pairLoopBlocks: the blocks of fn that lie inside a loop over a []MatchPair.
func pairLoopBlocks(fn *ssa.Function) map[*ssa.BasicBlock]bool {
	out := map[*ssa.BasicBlock]bool{}
	forEachInstr(fn, func(_ *ssa.BasicBlock, ins ssa.Instruction) {
		ia, ok := ins.(*ssa.IndexAddr)
		if !ok {
			return
		}
		sl, ok := ia.X.Type().Underlying().(*types.Slice)
		if !ok || modelTypeName(sl.Elem()) != "MatchPair" {
			return
		}
		var hdr *ssa.BasicBlock
		switch ix := ia.Index.(type) {
		case *ssa.BinOp:
			if phi, ok := ix.X.(*ssa.Phi); ok {
				hdr = phi.Block()
			}
		case *ssa.Phi:
			hdr = ix.Block()
		}
		if hdr == nil {
			return
		}
		for b := range naturalLoop(hdr) {
			out[b] = true
		}
	})
	return out
}
