package main

// */comment-ends-its-line: nothing is appended to a line after a line comment.
//
// A LINE_COMMENT runs to the end of its line. If the formatter appends the text of a token - a comma, a brace, a keyword - directly
// behind the text of a comment, with no line break in between, that token becomes part of the comment: the declaration it belongs
// to changes or no longer parses (C09: content; C10: the second formatting pass sees another token sequence).
//
// Decided by an abstract interpretation of the strings the formatter builds. Every string value gets a shape: how it may start
// (empty / line break / comment / other text) and how it may end (empty / line breaks only / comment / comment + line break / other /
// other + line break). Comment text originates only from GetText() of a hidden-channel token (found by value flow from the
// GetHiddenTokensTo* queries); constants are classified exactly; concatenations, fmt.Sprintf formats, strings.Trim*/ReplaceAll/Repeat,
// builder writes, helper functions (summaries of their returns, parameters bound to the union of their call sites) are interpreted;
// anything else is "unknown text without comment" that may start with a line break (so it can never be blamed).
// A finding needs: a piece Y that definitely starts with other text (never empty, never a line break), appended
//   (a) in the same expression (x + y, adjacent Sprintf verbs/literals) to a piece whose shape may end in a comment, or
//   (b) to a builder, where walking backwards from the write - along forward control flow only, past writes that may be empty, not
//       through an edge on which the candidate piece was tested to be empty - reaches a write whose piece may end in a comment.
// Cross-iteration sequences (the last write of one loop iteration followed by the first of the next) are not judged.

import (
	"fmt"
	"go/constant"
	"go/token"
	"go/types"
	"sort"
	"strings"

	"golang.org/x/tools/go/ssa"
)

const (
	sE uint8 = 1 << iota // may be empty (or blanks only)
	sN                   // may start with a line break
	sC                   // may start with a comment
	sO                   // may start with other text
)
const (
	eE  uint8 = 1 << iota // empty
	eN                    // line breaks only
	eC0                   // ends inside a comment
	eC1                   // comment, then line break
	eO0                   // other text
	eO1                   // other text, then line break
)

type sshape struct {
	start, end uint8
	ml         bool // may contain a line break that is part of a token's own text (multi-line documentation string)
}

var shapeUnknown = sshape{sE | sN | sO, eE | eN | eO0 | eO1, false}
var shapeOther = sshape{sO, eO0, false}
var shapeEmpty = sshape{sE, eE, false}

func (a sshape) union(b sshape) sshape { return sshape{a.start | b.start, a.end | b.end, a.ml || b.ml} }
func (a sshape) bottom() bool         { return a.start == 0 && a.end == 0 }

func addNL(end uint8) uint8 {
	var out uint8
	if end&(eE|eN) != 0 {
		out |= eN
	}
	if end&(eC0|eC1) != 0 {
		out |= eC1
	}
	if end&(eO0|eO1) != 0 {
		out |= eO1
	}
	return out
}

func shapeConcat(a, b sshape) sshape {
	if a.bottom() || b.bottom() {
		return sshape{}
	}
	var out sshape
	out.start = a.start &^ sE
	if a.start&sE != 0 {
		out.start |= b.start
	}
	if b.end&eE != 0 {
		out.end |= a.end
	}
	if b.end&eN != 0 {
		out.end |= addNL(a.end)
	}
	out.end |= b.end &^ (eE | eN)
	out.ml = a.ml || b.ml
	return out
}

func constShape(s string) sshape {
	t := strings.TrimLeft(s, " \t")
	if t == "" {
		return shapeEmpty
	}
	var sh sshape
	switch {
	case t[0] == '\n' || t[0] == '\r':
		sh.start = sN
	case strings.HasPrefix(t, "//"):
		sh.start = sC
	default:
		sh.start = sO
	}
	body := strings.TrimRight(s, " \t")
	nl := strings.HasSuffix(body, "\n")
	body = strings.TrimRight(body, " \t\r\n")
	if body == "" {
		sh.end = eN
		return sh
	}
	last := body
	if i := strings.LastIndexByte(body, '\n'); i >= 0 {
		last = body[i+1:]
	}
	cmt := strings.Contains(last, "//")
	switch {
	case cmt && nl:
		sh.end = eC1
	case cmt:
		sh.end = eC0
	case nl:
		sh.end = eO1
	default:
		sh.end = eO0
	}
	return sh
}

type fmtState struct {
	w        *World
	cf       *cmtFlow
	hidden   map[ssa.Value]bool // values that are hidden-channel tokens
	memo     map[string]*fctx
	order    []*fctx
	builders map[*ssa.Function][]*ssa.Alloc
	mlSinks  map[*ssa.Call]bool
	changed  bool
}

// textMaySpanLines: recv.GetText() may contain a line break inside a token (recv: a terminal obtained through the accessor of a
// lexer rule that admits line breaks, or a rule context whose subtree contains such a token; terminals of unknown kind count).
func (fs *fmtState) textMaySpanLines(recv ssa.Value) bool {
	g := fs.w.G4
	if g == nil {
		return false
	}
	recv = stripIdentity(recv)
	if ctx := grammarCtxName(recv.Type()); ctx != "" {
		if ci := fs.w.ctxTable()[ctx]; ci != nil {
			return g.RuleAdmitsLineBreak(ci.Rule)
		}
		return true
	}
	if c, ok := recv.(*ssa.Call); ok {
		name := ""
		if c.Call.IsInvoke() {
			name = c.Call.Method.Name()
		} else if f := c.Call.StaticCallee(); f != nil {
			name = f.Name()
		}
		if g.lrule[name] != nil {
			return g.AdmitsLineBreak(name)
		}
		// label accessors (GetName(), GetFrom() ...) return the token of a labelled child
		if strings.HasPrefix(name, "Get") && len(c.Call.Args)+boolToInt(c.Call.IsInvoke()) >= 1 {
			var holder ssa.Value
			if c.Call.IsInvoke() {
				holder = c.Call.Value
			} else if len(c.Call.Args) > 0 {
				holder = c.Call.Args[0]
			}
			if holder != nil {
				if ctx := grammarCtxName(holder.Type()); ctx != "" {
					if ci := fs.w.ctxTable()[ctx]; ci != nil {
						lbl := strings.TrimPrefix(name, "Get")
						for l, child := range ci.Labels {
							if strings.EqualFold(l, lbl) {
								if ci.IsTok[child] {
									return g.AdmitsLineBreak(child)
								}
								return g.RuleAdmitsLineBreak(child)
							}
						}
					}
				}
			}
		}
	}
	return false
}

func boolToInt(b bool) int {
	if b {
		return 1
	}
	return 0
}

// fctx: one function analysed for one combination of string-argument shapes (helpers such as "take the comments, each followed by
// <terminator>" behave differently per call site).
type fctx struct {
	fs     *fmtState
	fn     *ssa.Function
	args   []sshape
	shapes map[ssa.Value]sshape
	bstate map[ssa.Instruction]sshape // builder content at a String() call
	ret    sshape
	dirty  bool
}

func (fs *fmtState) analyze(fn *ssa.Function, args []sshape) *fctx {
	key := fmt.Sprintf("%p", fn)
	for i, p := range fn.Params {
		if isStringType(p.Type()) && i < len(args) {
			key += fmt.Sprintf("|%d:%d.%d.%t", i, args[i].start, args[i].end, args[i].ml)
		}
	}
	if c, ok := fs.memo[key]; ok {
		return c
	}
	c := &fctx{fs: fs, fn: fn, args: args, shapes: map[ssa.Value]sshape{}, bstate: map[ssa.Instruction]sshape{}}
	fs.memo[key] = c
	fs.order = append(fs.order, c)
	fs.changed = true
	c.run()
	return c
}

func (c *fctx) run() {
	fn := c.fn
	for i, p := range fn.Params {
		if isStringType(p.Type()) {
			if i < len(c.args) && !c.args[i].bottom() {
				c.shapes[p] = c.args[i]
			} else {
				c.shapes[p] = shapeUnknown
			}
		} else if isIfaceType(p.Type()) {
			c.shapes[p] = shapeUnknown
		}
	}
	for _, fv := range fn.FreeVars {
		c.shapes[fv] = shapeUnknown
	}
	for iter := 0; iter < 40; iter++ {
		c.dirty = false
		forEachInstr(fn, func(_ *ssa.BasicBlock, ins ssa.Instruction) { c.eval(ins) })
		for _, al := range c.fs.builders[fn] {
			c.builderFlow(al)
		}
		if !c.dirty {
			break
		}
	}
	var r sshape
	for _, b := range fn.Blocks {
		if ret, ok := b.Instrs[len(b.Instrs)-1].(*ssa.Return); ok && len(ret.Results) > 0 {
			r = r.union(c.get(ret.Results[0]))
		}
	}
	if r != c.ret {
		c.ret = c.ret.union(r)
		c.fs.changed = true
	}
}

func isBuilderAlloc(v ssa.Value) (*ssa.Alloc, bool) {
	al, ok := valueRoot(v).(*ssa.Alloc)
	if !ok {
		return nil, false
	}
	if strings.HasSuffix(types.TypeString(al.Type(), nil), "strings.Builder") {
		return al, true
	}
	return nil, false
}

func (fs *fctx) get(v ssa.Value) sshape {
	if v == nil {
		return shapeUnknown
	}
	if k, ok := v.(*ssa.Const); ok {
		if k.Value != nil && k.Value.Kind() == constant.String {
			return constShape(constant.StringVal(k.Value))
		}
		return shapeUnknown
	}
	return fs.shapes[v]
}

func (fs *fctx) set(v ssa.Value, s sshape) {
	old := fs.shapes[v]
	n := old.union(s)
	if n != old {
		fs.shapes[v] = n
		fs.dirty = true
	}
}

func trimRightShape(s sshape) sshape {
	var out sshape
	out.ml = s.ml
	out.start = s.start
	if s.end&eN != 0 {
		out.start |= sE
		out.start &^= 0 // an all-line-break string becomes empty
	}
	if s.start&sN != 0 && s.end&eN != 0 {
		// may have been line breaks only
		out.start |= sE
	}
	if s.end&(eE|eN) != 0 {
		out.end |= eE
	}
	if s.end&(eC0|eC1) != 0 {
		out.end |= eC0
	}
	if s.end&(eO0|eO1) != 0 {
		out.end |= eO0
	}
	return out
}

func trimLeftShape(s sshape) sshape {
	out := sshape{s.start &^ sN, s.end, s.ml}
	if s.start&sN != 0 {
		out.start |= sE | sC | sO // whatever follows the leading line breaks
		if s.end&(eC0|eC1) == 0 {
			out.start &^= sC
		}
	}
	return out
}

// sprintfPieces splits a format into literal pieces and verbs.
type fmtPiece struct {
	lit     string
	operand int // -1 for literals
	verb    byte
}

func splitFormat(format string) []fmtPiece {
	var out []fmtPiece
	vs := scanVerbs(format)
	pos := 0
	for _, v := range vs {
		if v.start > pos {
			out = append(out, fmtPiece{strings.ReplaceAll(format[pos:v.start], "%%", "%"), -1, 0})
		}
		out = append(out, fmtPiece{"", v.operand, v.verb})
		pos = v.end
	}
	if pos < len(format) {
		out = append(out, fmtPiece{strings.ReplaceAll(format[pos:], "%%", "%"), -1, 0})
	}
	return out
}

func (fs *fctx) pieceShapes(format string, ops []ssa.Value) []sshape {
	var out []sshape
	for _, p := range splitFormat(format) {
		switch {
		case p.operand < 0:
			out = append(out, constShape(p.lit))
		case (p.verb == 's' || p.verb == 'v') && p.operand < len(ops) && ops[p.operand] != nil:
			out = append(out, fs.operandShape(ops[p.operand]))
		default:
			out = append(out, shapeOther) // %d, %t, %q ...: never empty, no line structure
		}
	}
	return out
}

func (fs *fctx) operandShape(v ssa.Value) sshape {
	v = stripIdentity(v)
	if mi, ok := v.(*ssa.MakeInterface); ok {
		v = stripIdentity(mi.X)
	}
	if !isStringType(v.Type()) {
		if _, isIface := v.Type().Underlying().(*types.Interface); !isIface {
			return shapeOther
		}
	}
	s := fs.get(v)
	return s
}

func isBlankCutset(v ssa.Value, needNL bool) bool {
	k, ok := v.(*ssa.Const)
	if !ok || k.Value == nil || k.Value.Kind() != constant.String {
		return false
	}
	s := constant.StringVal(k.Value)
	if s == "" {
		return false
	}
	hasNL := false
	for _, c := range s {
		switch c {
		case '\n', '\r':
			hasNL = true
		case ' ', '\t':
		default:
			return false
		}
	}
	return hasNL || !needNL
}

// eval computes the shape of one instruction's value from its operands' current shapes.
func (fs *fctx) eval(ins ssa.Instruction) {
	fn := fs.fn
	_ = fn
	v, ok := ins.(ssa.Value)
	if !ok {
		return
	}
	switch x := ins.(type) {
	case *ssa.BinOp:
		if x.Op == token.ADD && isStringType(x.Type()) {
			fs.set(x, shapeConcat(fs.get(x.X), fs.get(x.Y)))
		}
	case *ssa.Phi:
		if isStringType(x.Type()) || isIfaceType(x.Type()) {
			var s sshape
			for _, e := range x.Edges {
				s = s.union(fs.get(e))
			}
			fs.set(x, s)
		}
	case *ssa.TypeAssert:
		if isStringType(x.AssertedType) {
			fs.set(x, fs.get(x.X))
		}
	case *ssa.Extract:
		if ta, ok := x.Tuple.(*ssa.TypeAssert); ok && x.Index == 0 && isStringType(ta.AssertedType) {
			fs.set(x, fs.get(ta.X).union(shapeEmpty))
		} else if isStringType(x.Type()) {
			fs.set(x, shapeUnknown)
		}
	case *ssa.MakeInterface:
		if isStringType(x.X.Type()) {
			fs.set(x, fs.get(x.X))
		}
	case *ssa.ChangeInterface:
		fs.set(x, fs.get(x.X))
	case *ssa.ChangeType:
		if isStringType(x.Type()) {
			fs.set(x, fs.get(x.X))
		}
	case *ssa.Convert:
		if isStringType(x.Type()) {
			fs.set(x, shapeUnknown)
		}
	case *ssa.UnOp:
		if x.Op == token.MUL && isStringType(x.Type()) {
			// a string variable kept in a cell: union of what is stored there
			if al, ok := x.X.(*ssa.Alloc); ok && al.Referrers() != nil {
				var s sshape
				for _, ref := range *al.Referrers() {
					if st, ok := ref.(*ssa.Store); ok && st.Addr == ssa.Value(al) {
						s = s.union(fs.get(st.Val))
					}
				}
				if !s.bottom() {
					fs.set(x, s)
					return
				}
			}
			if fv, ok := x.X.(*ssa.FreeVar); ok {
				fs.set(x, fs.get(fv))
				return
			}
			fs.set(x, shapeUnknown)
		}
	case *ssa.Lookup, *ssa.Index, *ssa.Slice, *ssa.Field:
		if isStringType(v.Type()) {
			fs.set(v, shapeUnknown)
		}
	case *ssa.Call:
		fs.evalCall(x)
	}
}

func isIfaceType(t types.Type) bool {
	i, ok := t.Underlying().(*types.Interface)
	return ok && i.NumMethods() == 0
}

func (fs *fctx) evalCall(c *ssa.Call) {
	if !isStringType(c.Type()) && !isIfaceType(c.Type()) {
		return
	}
	cc := c.Common()
	if cc.IsInvoke() {
		if cc.Method.Name() == "GetText" {
			if fs.fs.hidden[stripIdentity(cc.Value)] {
				fs.set(c, sshape{sC, eC0, false})
			} else {
				sh := shapeOther
				sh.ml = fs.fs.textMaySpanLines(cc.Value)
				fs.set(c, sh)
			}
			return
		}
		if isStringType(c.Type()) {
			fs.set(c, shapeUnknown)
		}
		return
	}
	f := cc.StaticCallee()
	if f == nil {
		if t := closureTarget(cc.Value, 0); t != nil && fs.fs.cf.inFns[t] {
			f = t
		} else {
			fs.set(c, shapeUnknown)
			return
		}
	}
	switch f.String() {
	case "fmt.Sprintf":
		if k, ok := cc.Args[0].(*ssa.Const); ok && k.Value != nil && k.Value.Kind() == constant.String && len(cc.Args) > 1 {
			s := shapeEmpty
			for _, p := range fs.pieceShapes(constant.StringVal(k.Value), variadicOperands(cc.Args[1])) {
				if p.bottom() {
					return // operands not evaluated yet
				}
				s = shapeConcat(s, p)
			}
			fs.set(c, s)
			return
		}
		if k, ok := cc.Args[0].(*ssa.Const); ok && k.Value != nil && k.Value.Kind() == constant.String {
			fs.set(c, constShape(constant.StringVal(k.Value)))
			return
		}
		fs.set(c, shapeUnknown)
		return
	case "strings.TrimRight", "strings.TrimSuffix":
		if isBlankCutset(cc.Args[1], true) {
			if s := fs.get(cc.Args[0]); !s.bottom() {
				fs.set(c, trimRightShape(s))
			}
			return
		}
		fs.set(c, shapeUnknown.union(fs.get(cc.Args[0])))
		return
	case "strings.TrimLeft", "strings.TrimPrefix":
		if isBlankCutset(cc.Args[1], false) {
			if s := fs.get(cc.Args[0]); !s.bottom() {
				fs.set(c, trimLeftShape(s))
			}
			return
		}
		fs.set(c, shapeUnknown.union(fs.get(cc.Args[0])))
		return
	case "strings.TrimSpace":
		if s := fs.get(cc.Args[0]); !s.bottom() {
			fs.set(c, trimLeftShape(trimRightShape(s)))
		}
		return
	case "strings.Repeat":
		if k, ok := cc.Args[0].(*ssa.Const); ok && k.Value != nil && k.Value.Kind() == constant.String {
			s := constShape(constant.StringVal(k.Value))
			fs.set(c, s.union(shapeEmpty))
			return
		}
		fs.set(c, shapeUnknown)
		return
	case "strings.ReplaceAll":
		// s with every line break replaced by "line break + blanks": line structure unchanged
		if k, ok := cc.Args[1].(*ssa.Const); ok && k.Value != nil && k.Value.Kind() == constant.String && constant.StringVal(k.Value) == "\n" {
			n := fs.get(cc.Args[2])
			if n.bottom() {
				return
			}
			if x := fs.get(cc.Args[0]); x.ml {
				if n.start&sN == 0 && n.end&(eN|eC1|eO1) == 0 {
					// every line break is replaced by text without one: the result is a single line (a protected form of the text)
					x.ml = false
					fs.set(c, sshape{x.start &^ sN, eE | eO0 | (x.end & eC0), false})
					return
				}
				fs.fs.mlSinks[c] = true
			}
			if n.start == sN && n.end&^(eN) == 0 {
				if s := fs.get(cc.Args[0]); !s.bottom() {
					fs.set(c, s)
				}
				return
			}
		}
		fs.set(c, shapeUnknown.union(sshape{0, fs.get(cc.Args[0]).end & (eC0 | eC1), fs.get(cc.Args[0]).ml}))
		return
	case "strings.Split", "strings.SplitN", "strings.SplitAfter", "strings.Fields", "strings.Lines":
		if x := fs.get(cc.Args[0]); x.ml {
			fs.fs.mlSinks[c] = true
		}
		return
	case "(*strings.Builder).String":
		if s, ok := fs.bstate[c]; ok {
			fs.set(c, s)
		}
		return
	}
	if fs.fs.cf.inFns[f] && f.Blocks != nil {
		args := make([]sshape, len(f.Params))
		for i := range f.Params {
			if i < len(cc.Args) && isStringType(f.Params[i].Type()) {
				args[i] = fs.get(cc.Args[i])
				if args[i].bottom() {
					return // argument not evaluated yet
				}
			}
		}
		sub := fs.fs.analyze(f, args)
		if !sub.ret.bottom() {
			fs.set(c, sub.ret)
		}
		return
	}
	fs.set(c, shapeUnknown)
}

type bwrite struct {
	ins    ssa.Instruction
	pieces []sshape
	vals   []ssa.Value // the SSA value of each piece (nil for literals)
}

// builderWrites: the appends to builder al inside fn, in instruction order per block.
func (fs *fctx) builderWrite(ins ssa.Instruction, al *ssa.Alloc) (bwrite, bool) {
	c, ok := ins.(ssa.CallInstruction)
	if !ok {
		return bwrite{}, false
	}
	cc := c.Common()
	f := cc.StaticCallee()
	if f == nil || len(cc.Args) == 0 {
		return bwrite{}, false
	}
	if a, ok := isBuilderAlloc(cc.Args[0]); !ok || a != al {
		return bwrite{}, false
	}
	switch f.String() {
	case "(*strings.Builder).WriteString":
		return bwrite{ins, []sshape{fs.get(cc.Args[1])}, []ssa.Value{cc.Args[1]}}, true
	case "(*strings.Builder).WriteByte", "(*strings.Builder).WriteRune":
		if k, ok := cc.Args[1].(*ssa.Const); ok && k.Value != nil {
			if n, ok := constant.Int64Val(constant.ToInt(k.Value)); ok {
				return bwrite{ins, []sshape{constShape(string(rune(n)))}, []ssa.Value{nil}}, true
			}
		}
		return bwrite{ins, []sshape{shapeUnknown}, []ssa.Value{nil}}, true
	case "(*strings.Builder).Write":
		return bwrite{ins, []sshape{shapeUnknown}, []ssa.Value{nil}}, true
	case "fmt.Fprintf":
		if k, ok := cc.Args[1].(*ssa.Const); ok && k.Value != nil && k.Value.Kind() == constant.String {
			var ops []ssa.Value
			if len(cc.Args) > 2 {
				ops = variadicOperands(cc.Args[2])
			}
			bw := bwrite{ins: ins}
			for _, p := range splitFormat(constant.StringVal(k.Value)) {
				if p.operand < 0 {
					bw.pieces = append(bw.pieces, constShape(p.lit))
					bw.vals = append(bw.vals, nil)
				} else if (p.verb == 's' || p.verb == 'v') && p.operand < len(ops) && ops[p.operand] != nil {
					bw.pieces = append(bw.pieces, fs.operandShape(ops[p.operand]))
					bw.vals = append(bw.vals, ops[p.operand])
				} else {
					bw.pieces = append(bw.pieces, shapeOther)
					bw.vals = append(bw.vals, nil)
				}
			}
			return bw, true
		}
		return bwrite{ins, []sshape{shapeUnknown}, []ssa.Value{nil}}, true
	case "fmt.Fprint", "fmt.Fprintln":
		return bwrite{ins, []sshape{shapeUnknown}, []ssa.Value{nil}}, true
	}
	return bwrite{}, false
}

func (bw bwrite) total() sshape {
	s := shapeEmpty
	for _, p := range bw.pieces {
		if p.bottom() {
			return sshape{}
		}
		s = shapeConcat(s, p)
	}
	return s
}

// emptinessTest: cond, having value val, says that string value x is empty (isEmpty) or not.
func emptinessTest(cond ssa.Value, val bool) (x ssa.Value, isEmpty bool, ok bool) {
	for {
		if u, isU := cond.(*ssa.UnOp); isU && u.Op == token.NOT {
			cond = u.X
			val = !val
			continue
		}
		break
	}
	b, isB := cond.(*ssa.BinOp)
	if !isB {
		return nil, false, false
	}
	for i, pair := range [][2]ssa.Value{{b.X, b.Y}, {b.Y, b.X}} {
		k, isK := pair[1].(*ssa.Const)
		if !isK || k.Value == nil {
			continue
		}
		op := b.Op
		if i == 1 {
			switch op {
			case token.LSS:
				op = token.GTR
			case token.GTR:
				op = token.LSS
			case token.LEQ:
				op = token.GEQ
			case token.GEQ:
				op = token.LEQ
			}
		}
		if k.Value.Kind() == constant.String && constant.StringVal(k.Value) == "" && isStringType(pair[0].Type()) {
			switch op {
			case token.EQL:
				return stripIdentity(pair[0]), val, true
			case token.NEQ:
				return stripIdentity(pair[0]), !val, true
			}
		}
		if k.Value.Kind() == constant.Int {
			n, _ := constant.Int64Val(k.Value)
			if call, isC := stripIdentity(pair[0]).(*ssa.Call); isC {
				if bi, isBi := call.Call.Value.(*ssa.Builtin); isBi && bi.Name() == "len" && len(call.Call.Args) == 1 && isStringType(call.Call.Args[0].Type()) {
					var emptyWhenTrue, known bool
					switch {
					case op == token.EQL && n == 0, op == token.LEQ && n == 0, op == token.LSS && n == 1:
						emptyWhenTrue, known = true, true
					case op == token.NEQ && n == 0, op == token.GTR && n == 0, op == token.GEQ && n == 1:
						emptyWhenTrue, known = false, true
					}
					if known {
						return stripIdentity(call.Call.Args[0]), emptyWhenTrue == val, true
					}
				}
			}
		}
	}
	return nil, false, false
}

// builderFlow computes the content shape of builder al at every String() call (forward may-dataflow).
func (fs *fctx) builderFlow(al *ssa.Alloc) {
	fn := fs.fn
	type st struct {
		cur     sshape
		prev    sshape
		last    ssa.Value
		lastShp sshape
		reached bool
	}
	in := make([]st, len(fn.Blocks))
	in[al.Block().Index] = st{cur: shapeEmpty, reached: true}
	join := func(a, b st) st {
		if !a.reached {
			return b
		}
		if !b.reached {
			return a
		}
		out := st{cur: a.cur.union(b.cur), reached: true}
		if a.last != nil && a.last == b.last {
			out.last, out.prev, out.lastShp = a.last, a.prev.union(b.prev), a.lastShp.union(b.lastShp)
		}
		return out
	}
	for iter := 0; iter < 64; iter++ {
		ch := false
		for _, b := range fn.Blocks {
			s := in[b.Index]
			if !s.reached {
				continue
			}
			started := b != al.Block()
			for _, ins := range b.Instrs {
				if ins == ssa.Instruction(al) {
					started = true
					s = st{cur: shapeEmpty, reached: true}
					continue
				}
				if !started {
					continue
				}
				if bw, ok := fs.builderWrite(ins, al); ok {
					t := bw.total()
					if t.bottom() {
						continue
					}
					s.prev = s.cur
					s.cur = shapeConcat(s.cur, t)
					s.last, s.lastShp = nil, t
					if len(bw.vals) == 1 && bw.vals[0] != nil {
						s.last = stripIdentity(bw.vals[0])
					}
					continue
				}
				if c, ok := ins.(*ssa.Call); ok {
					if f := c.Call.StaticCallee(); f != nil && len(c.Call.Args) > 0 {
						if a, ok := isBuilderAlloc(c.Call.Args[0]); ok && a == al {
							switch f.String() {
							case "(*strings.Builder).String":
								old, had := fs.bstate[c]
								n := old.union(s.cur)
								if !had || n != old {
									fs.bstate[c] = n
									fs.dirty = true
								}
							case "(*strings.Builder).Reset":
								s = st{cur: shapeEmpty, reached: true}
							case "(*strings.Builder).Len", "(*strings.Builder).Grow", "(*strings.Builder).Cap":
							}
						}
					}
				}
			}
			cond := branchCond(b)
			for si, succ := range b.Succs {
				out := s
				if cond != nil && len(b.Succs) == 2 && b.Succs[0] != b.Succs[1] && s.last != nil {
					if x, isEmpty, ok := emptinessTest(cond, si == 0); ok && x == s.last {
						if isEmpty {
							out.cur = s.prev
						} else {
							ne := sshape{s.lastShp.start &^ sE, s.lastShp.end &^ eE, s.lastShp.ml}
							if !ne.bottom() {
								out.cur = shapeConcat(s.prev, ne)
							}
						}
					}
				}
				j := join(in[succ.Index], out)
				if j != in[succ.Index] {
					in[succ.Index] = j
					ch = true
				}
			}
		}
		if !ch {
			break
		}
	}
}

func fmtCommentEndsLine(w *World, r *Report, prop string) {
	rule := prop + "/comment-ends-its-line"
	cf := newCmtFlow(w)
	fs := &fmtState{w: w, cf: cf, hidden: map[ssa.Value]bool{}, memo: map[string]*fctx{}, builders: map[*ssa.Function][]*ssa.Alloc{}, mlSinks: map[*ssa.Call]bool{}}
	// hidden-channel tokens
	var seeds []ssa.Value
	for _, fn := range cf.fns {
		forEachInstr(fn, func(_ *ssa.BasicBlock, ins ssa.Instruction) {
			if c, ok := ins.(*ssa.Call); ok && isHiddenQueryCall(c) {
				seeds = append(seeds, c)
			}
		})
	}
	lists := cf.flowFrom(seeds)
	for e := range cf.flowFrom(elementsOf(lists)) {
		fs.hidden[stripIdentity(e)] = true
	}
	if len(fs.hidden) == 0 {
		r.fail(rule, "hidden tokens found", "internal/parser/packet_dsl_formattor.go", "no value of the formatter is an element of a hidden-channel query: comments cannot be followed")
		return
	}
	for _, fn := range cf.fns {
		forEachInstr(fn, func(_ *ssa.BasicBlock, ins ssa.Instruction) {
			al, ok := ins.(*ssa.Alloc)
			if !ok || !strings.HasSuffix(types.TypeString(al.Type(), nil), "strings.Builder") {
				return
			}
			fs.builders[fn] = append(fs.builders[fn], al)
		})
	}
	// roots: formatter functions nobody in the formatter calls (entry points, visitor methods reached through Accept); every other
	// function is analysed once per combination of string-argument shapes at its call sites
	for _, fn := range cf.fns {
		if len(cf.sites[fn]) == 0 && fn.Parent() == nil {
			fs.analyze(fn, make([]sshape, len(fn.Params)))
		}
	}
	for iter := 0; iter < 30; iter++ {
		fs.changed = false
		for i := 0; i < len(fs.order); i++ {
			fs.order[i].run()
		}
		if !fs.changed {
			break
		}
	}
	// functions never reached from a root (closures, helpers only stored in tables): analysed with unknown arguments
	for _, fn := range cf.fns {
		seen := false
		for _, c := range fs.order {
			if c.fn == fn {
				seen = true
			}
		}
		if !seen {
			fs.analyze(fn, make([]sshape, len(fn.Params)))
		}
	}
	for iter := 0; iter < 30; iter++ {
		fs.changed = false
		for i := 0; i < len(fs.order); i++ {
			fs.order[i].run()
		}
		if !fs.changed {
			break
		}
	}

	// ---- findings ----
	type finding struct {
		fn   *ssa.Function
		ins  ssa.Instruction
		what string
	}
	var finds []finding
	dedup := map[string]bool{}
	add := func(fn *ssa.Function, ins ssa.Instruction, what string) {
		k := fmt.Sprintf("%p|%s", ins, what)
		if !dedup[k] {
			dedup[k] = true
			finds = append(finds, finding{fn, ins, what})
		}
	}
	describe := func(v ssa.Value) string {
		if v == nil {
			return "literal text"
		}
		v = stripIdentity(v)
		if k, ok := v.(*ssa.Const); ok && k.Value != nil && k.Value.Kind() == constant.String {
			return fmt.Sprintf("%q", constant.StringVal(k.Value))
		}
		if c, ok := v.(*ssa.Call); ok {
			return "the result of " + calleeName(c)
		}
		if ta, ok := v.(*ssa.TypeAssert); ok {
			if c, ok := ta.X.(*ssa.Call); ok {
				return "the result of " + calleeName(c)
			}
		}
		if p, ok := v.(*ssa.Parameter); ok {
			return "parameter " + p.Name()
		}
		return "a value"
	}
	definiteOther := func(s sshape) bool { return s.start == sO }
	nChecked := 0
	sawComment := false
	for _, cx := range fs.order {
		fn := cx.fn
		for _, sh := range cx.shapes {
			if sh.end&(eC0|eC1) != 0 {
				sawComment = true
			}
		}
		// (a) same expression
		forEachInstr(fn, func(_ *ssa.BasicBlock, ins ssa.Instruction) {
			switch x := ins.(type) {
			case *ssa.BinOp:
				if x.Op == token.ADD && isStringType(x.Type()) {
					nChecked++
					if cx.get(x.X).end&eC0 != 0 && definiteOther(cx.get(x.Y)) {
						add(fn, ins, fmt.Sprintf("%s is concatenated directly behind %s, which may end in a line comment", describe(x.Y), describe(x.X)))
					}
				}
			case *ssa.Call:
				if f := x.Call.StaticCallee(); f != nil && f.String() == "fmt.Sprintf" && len(x.Call.Args) > 1 {
					if k, ok := x.Call.Args[0].(*ssa.Const); ok && k.Value != nil && k.Value.Kind() == constant.String {
						ps := cx.pieceShapes(constant.StringVal(k.Value), variadicOperands(x.Call.Args[1]))
						acc := shapeEmpty
						for _, p := range ps {
							nChecked++
							if p.bottom() {
								break
							}
							if acc.end&eC0 != 0 && definiteOther(p) {
								add(fn, ins, fmt.Sprintf("in the format %q a piece that may end in a line comment is followed on the same line by other text", constant.StringVal(k.Value)))
								break
							}
							acc = shapeConcat(acc, p)
						}
					}
				}
			}
		})
		// (b) builder writes
		for _, al := range fs.builders[fn] {
			type wr struct {
				bw  bwrite
				idx int // position in block
			}
			perBlock := map[*ssa.BasicBlock][]wr{}
			for _, b := range fn.Blocks {
				for i, ins := range b.Instrs {
					if bw, ok := cx.builderWrite(ins, al); ok {
						perBlock[b] = append(perBlock[b], wr{bw, i})
					}
				}
			}
			for _, b := range fn.Blocks {
				for wi, y := range perBlock[b] {
					// inside one write (Fprintf pieces)
					acc := shapeEmpty
					innerBad := false
					for _, p := range y.bw.pieces {
						if p.bottom() {
							break
						}
						if acc.end&eC0 != 0 && definiteOther(p) {
							innerBad = true
						}
						acc = shapeConcat(acc, p)
					}
					if innerBad {
						add(fn, y.bw.ins, "within one formatted write a piece that may end in a line comment is followed on the same line by other text")
					}
					if len(y.bw.pieces) == 0 || !definiteOther(y.bw.total()) {
						continue
					}
					nChecked++
					// walk backwards
					type node struct {
						b       *ssa.BasicBlock
						from    int // index into perBlock[b] to start scanning backwards from (exclusive)
						empties map[ssa.Value]bool
					}
					seen := map[*ssa.BasicBlock]bool{}
					stack := []node{{b, wi, map[ssa.Value]bool{}}}
					var culprit *bwrite
					for len(stack) > 0 && culprit == nil {
						nd := stack[len(stack)-1]
						stack = stack[:len(stack)-1]
						blocked := false
						ws := perBlock[nd.b]
						for k := nd.from - 1; k >= 0; k-- {
							x := ws[k]
							t := x.bw.total()
							if t.bottom() {
								blocked = true
								break
							}
							knownEmpty := len(x.bw.vals) == 1 && x.bw.vals[0] != nil && nd.empties[stripIdentity(x.bw.vals[0])]
							if t.end&eC0 != 0 && !knownEmpty {
								c := x.bw
								culprit = &c
								break
							}
							if t.start&sE == 0 {
								blocked = true // a definite write in between decides the state
								break
							}
						}
						if culprit != nil || blocked {
							continue
						}
						if nd.b == al.Block() {
							continue // the builder's own allocation ends the walk
						}
						for _, p := range nd.b.Preds {
							if nd.b.Dominates(p) {
								continue // back edge: previous iteration, not judged
							}
							if seen[p] {
								continue
							}
							seen[p] = true
							em := map[ssa.Value]bool{}
							for k, v := range nd.empties {
								em[k] = v
							}
							if cond := branchCond(p); cond != nil && len(p.Succs) == 2 && p.Succs[0] != p.Succs[1] {
								for si, s := range p.Succs {
									if s == nd.b {
										if x, isEmpty, ok := emptinessTest(cond, si == 0); ok && isEmpty {
											em[x] = true
										}
									}
								}
							}
							stack = append(stack, node{p, len(perBlock[p]), em})
						}
					}
					if culprit != nil {
						add(fn, y.bw.ins, fmt.Sprintf("%s is appended to the builder directly behind %s (written at %s), which may end in a line comment", describe(firstVal(y.bw)), describe(firstVal(*culprit)), w.instrPos(culprit.ins)))
					}
				}
			}
		}
	}
	sort.Slice(finds, func(i, j int) bool {
		if finds[i].ins.Pos() != finds[j].ins.Pos() {
			return finds[i].ins.Pos() < finds[j].ins.Pos()
		}
		return finds[i].what < finds[j].what
	})
	cnt := map[string]int{}
	for _, f := range finds {
		cnt[fnKey(f.fn)]++
		r.fail(rule, fmt.Sprintf("%s: no token text directly behind a comment #%d", fnKey(f.fn), cnt[fnKey(f.fn)]), w.instrPos(f.ins), f.what+": the token becomes part of the comment")
	}
	for _, fn := range cf.fns {
		if cnt[fnKey(fn)] == 0 && (len(fs.builders[fn]) > 0 || fn.Signature.Results().Len() > 0) {
			r.pass(rule, fnKey(fn)+": no token text directly behind a comment", w.pos(fn.Pos()), "")
		}
	}
	// ---- line breaks inside a token's text are not rewritten ----
	ruleML := prop + "/multi-line-token-text-untouched"
	var sinks []*ssa.Call
	for c := range fs.mlSinks {
		sinks = append(sinks, c)
	}
	sort.Slice(sinks, func(i, j int) bool { return sinks[i].Pos() < sinks[j].Pos() })
	bySinkFn := map[string]*ssa.Call{}
	for _, c := range sinks {
		k := fnKey(c.Parent())
		if bySinkFn[k] == nil {
			bySinkFn[k] = c
		}
	}
	var mlTokens []string
	for _, lr := range w.G4.LRules {
		if lr.Action == "" && w.G4.AdmitsLineBreak(lr.Name) {
			mlTokens = append(mlTokens, lr.Name)
		}
	}
	keyML := "token text that may span lines keeps its line breaks as written"
	if len(bySinkFn) > 0 {
		var where []string
		for _, k := range sortedKeys(bySinkFn) {
			where = append(where, fmt.Sprintf("%s in %s (%s)", calleeName(bySinkFn[k]), k, w.instrPos(bySinkFn[k])))
		}
		r.fail(ruleML, keyML, w.instrPos(bySinkFn[sortedKeys(bySinkFn)[0]]), "text that may contain a token spanning several lines ("+strings.Join(mlTokens, ", ")+") reaches, on its line breaks, "+strings.Join(where, "; ")+": the continuation lines of the token are re-indented, i.e. the token's text changes - and changes again on every further pass")
	} else {
		r.pass(ruleML, keyML, "internal/parser/packet_dsl_formattor.go", strings.Join(mlTokens, ", "))
	}
	r.note("%s: %d hidden-token values, %d function contexts, %d concatenations / writes judged", rule, len(fs.hidden), len(fs.order), nChecked)
	if !sawComment {
		r.fail(rule, "comment text followed", "internal/parser/packet_dsl_formattor.go", "no string value of the formatter was found to contain comment text: the abstraction lost its subject")
	}
}

func firstVal(bw bwrite) ssa.Value {
	for _, v := range bw.vals {
		if v != nil {
			return v
		}
	}
	return nil
}
