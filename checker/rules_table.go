package main

// Tables: lists of records written as one composite literal - a package-level variable (`var setters = []setter{{Key, func...}, ...}`)
// or a local of the function that walks it (`rows := []struct{...}{{Key, func...}, ...}`, the rows' functions then being closures
// over the function's other locals) - and walked by a loop that uses the members of the current row. A table is named by the
// variable that holds it: the *ssa.Global, or for a local literal the *ssa.Alloc of its backing array. A rule that reasons about "the key looked up" and "the function called" has
// to see each row on its own: row i pairs the i-th key with the i-th function. The helpers here recover the rows from the package
// initialiser and recognise a member of the current row inside the loop, so a rule can evaluate the loop body once per row.

import (
	"go/constant"
	"go/token"
	"go/types"
	"strings"

	"golang.org/x/tools/go/ssa"
)

type tableRow map[int]ssa.Value // member index -> the value the literal gives it

var tableRowsMemo = map[ssa.Value][]tableRow{}

// tableRows: the rows of a table: a package-level slice/array of records that is assigned once, by the package initialiser, from a
// literal, and whose elements are never written afterwards; or the backing array of a local literal of records that is only
// walked. nil when t is not of that kind.
func (w *World) tableRows(t ssa.Value) []tableRow {
	if rows, ok := tableRowsMemo[t]; ok {
		return rows
	}
	tableRowsMemo[t] = nil
	var g *ssa.Global
	switch x := t.(type) {
	case *ssa.Global:
		g = x
	case *ssa.Alloc:
		rows := localTableRows(x)
		tableRowsMemo[t] = rows
		return rows
	default:
		return nil
	}
	if g == nil || g.Pkg == nil {
		return nil
	}
	et := g.Type().(*types.Pointer).Elem().Underlying()
	var elem types.Type
	switch t := et.(type) {
	case *types.Slice:
		elem = t.Elem()
	case *types.Array:
		elem = t.Elem()
	default:
		return nil
	}
	if _, ok := elem.Underlying().(*types.Struct); !ok {
		return nil
	}
	initFn := g.Pkg.Func("init")
	if initFn == nil {
		return nil
	}
	// written only by the initialiser; elements never stored to elsewhere
	var base ssa.Value
	okG := true
	for fn := range w.allFuncs {
		if fn.Blocks == nil || pkgOfFunc(fn) != g.Pkg {
			continue
		}
		forEachInstr(fn, func(_ *ssa.BasicBlock, ins ssa.Instruction) {
			switch x := ins.(type) {
			case *ssa.Store:
				if x.Addr == ssa.Value(g) {
					if fn != initFn || base != nil {
						okG = false
						return
					}
					if sl, ok := stripIdentity(x.Val).(*ssa.Slice); ok {
						base = sl.X
					} else {
						okG = false
					}
				}
				// a write into an element outside the initialiser
				if fn != initFn {
					addr := x.Addr
					if fa, ok := addr.(*ssa.FieldAddr); ok {
						addr = fa.X
					}
					if ia, ok := addr.(*ssa.IndexAddr); ok && loadsGlobal(ia.X, g) {
						okG = false
					}
				}
			}
		})
	}
	if !okG {
		return nil
	}
	if _, isArr := et.(*types.Array); isArr {
		base = g
	}
	if base == nil {
		return nil
	}
	rowsByIdx := map[int64]tableRow{}
	max := int64(-1)
	fill := func(row tableRow, rec ssa.Value) {
		if rec.Referrers() == nil {
			return
		}
		for _, ref := range *rec.Referrers() {
			fa, ok := ref.(*ssa.FieldAddr)
			if !ok || fa.Referrers() == nil {
				continue
			}
			for _, r2 := range *fa.Referrers() {
				if st, ok := r2.(*ssa.Store); ok && st.Addr == ssa.Value(fa) {
					row[fa.Field] = stripIdentity(st.Val)
				}
			}
		}
	}
	forEachInstr(initFn, func(_ *ssa.BasicBlock, ins ssa.Instruction) {
		ia, ok := ins.(*ssa.IndexAddr)
		if !ok || ia.X != base {
			return
		}
		k, ok := ia.Index.(*ssa.Const)
		if !ok || k.Value == nil {
			okG = false
			return
		}
		row := rowsByIdx[k.Int64()]
		if row == nil {
			row = tableRow{}
			rowsByIdx[k.Int64()] = row
		}
		if k.Int64() > max {
			max = k.Int64()
		}
		fill(row, ia)
		// the record built in a local and copied into the slot
		for _, ref := range *ia.Referrers() {
			if st, ok := ref.(*ssa.Store); ok && st.Addr == ssa.Value(ia) {
				if ld, ok := stripIdentity(st.Val).(*ssa.UnOp); ok && ld.Op == token.MUL {
					fill(row, ld.X)
				}
			}
		}
	})
	if !okG || max < 0 {
		return nil
	}
	rows := make([]tableRow, max+1)
	for i := range rows {
		rows[i] = rowsByIdx[int64(i)]
		if rows[i] == nil {
			rows[i] = tableRow{}
		}
	}
	tableRowsMemo[g] = rows
	return rows
}

// localTableRows: al is the backing array of a local literal of records (`rows := []T{{..}, {..}}`, or a local array literal): every
// element is filled exactly once, at a constant index, in the block that makes the array (in place or from a record literal copied
// into the slot), and afterwards the array - directly, or through the slice `al[:]`, kept in a variable that is assigned only that -
// is only measured and indexed, its elements only read (as a whole or member by member). No alias exists through which a row could
// be changed or replaced: the rows are what the literal says. nil otherwise.
func localTableRows(al *ssa.Alloc) []tableRow {
	pt, ok := al.Type().Underlying().(*types.Pointer)
	if !ok {
		return nil
	}
	arr, ok := pt.Elem().Underlying().(*types.Array)
	if !ok {
		return nil
	}
	if _, isRec := arr.Elem().Underlying().(*types.Struct); !isRec {
		return nil
	}
	okAll := true
	rowsByIdx := map[int64]tableRow{}
	setMember := func(row tableRow, field int, val ssa.Value, st *ssa.Store) {
		if _, dup := row[field]; dup || st.Block() != al.Block() {
			okAll = false
			return
		}
		row[field] = stripIdentity(val)
	}
	// fillFrom: the member stores into the record at rec (the slot itself, or the literal that is copied into it)
	fillFrom := func(row tableRow, rec ssa.Value, slot bool) {
		for _, ref := range refsOf(rec) {
			switch x := ref.(type) {
			case *ssa.DebugRef:
			case *ssa.FieldAddr:
				for _, r2 := range refsOf(x) {
					switch y := r2.(type) {
					case *ssa.DebugRef:
					case *ssa.Store:
						if y.Addr != ssa.Value(x) {
							okAll = false
							continue
						}
						setMember(row, x.Field, y.Val, y)
					case *ssa.UnOp:
						if y.Op != token.MUL {
							okAll = false
						}
					default:
						okAll = false
					}
				}
			case *ssa.UnOp: // the literal is loaded to be copied into the slot
				if x.Op != token.MUL || slot {
					okAll = false
				}
			case *ssa.Store:
				if !slot || x.Addr != rec {
					okAll = false
				}
			default:
				okAll = false
			}
		}
	}
	// readOnlyElem: the element at ia is only read
	readOnlyElem := func(ia *ssa.IndexAddr) {
		for _, ref := range refsOf(ia) {
			switch x := ref.(type) {
			case *ssa.DebugRef:
			case *ssa.UnOp:
				if x.Op != token.MUL {
					okAll = false
				}
			case *ssa.FieldAddr:
				for _, r2 := range refsOf(x) {
					switch y := r2.(type) {
					case *ssa.DebugRef:
					case *ssa.UnOp:
						if y.Op != token.MUL {
							okAll = false
						}
					default:
						okAll = false
					}
				}
			default:
				okAll = false
			}
		}
	}
	var walked func(base ssa.Value, depth int)
	walked = func(base ssa.Value, depth int) {
		if depth > 3 {
			okAll = false
			return
		}
		for _, ref := range refsOf(base) {
			switch x := ref.(type) {
			case *ssa.DebugRef:
			case *ssa.IndexAddr:
				if x.X != base {
					okAll = false
					continue
				}
				written := false
				for _, r2 := range refsOf(x) {
					switch y := r2.(type) {
					case *ssa.Store:
						written = true
					case *ssa.FieldAddr:
						for _, r3 := range refsOf(y) {
							if _, isSt := r3.(*ssa.Store); isSt {
								written = true
							}
						}
					}
				}
				if !written {
					readOnlyElem(x)
					continue
				}
				// a slot of the literal
				k, isK := x.Index.(*ssa.Const)
				if base != ssa.Value(al) || !isK || k.Value == nil || k.Value.Kind() != constant.Int {
					okAll = false
					continue
				}
				row := rowsByIdx[k.Int64()]
				if row == nil {
					row = tableRow{}
					rowsByIdx[k.Int64()] = row
				}
				nWhole := 0
				for _, r2 := range refsOf(x) {
					if st, isSt := r2.(*ssa.Store); isSt {
						ld, isLd := st.Val.(*ssa.UnOp)
						if st.Addr != ssa.Value(x) || !isLd || ld.Op != token.MUL || st.Block() != al.Block() {
							okAll = false
							continue
						}
						lit, isLit := ld.X.(*ssa.Alloc)
						if !isLit || len(refsOf(ld)) != 1 {
							okAll = false
							continue
						}
						nWhole++
						fillFrom(row, lit, false)
					}
				}
				if nWhole > 1 {
					okAll = false
				}
				fillFrom(row, x, true)
			case *ssa.Slice:
				if x.X != base || x.Low != nil || x.High != nil || x.Max != nil {
					okAll = false
					continue
				}
				walked(x, depth+1)
			case *ssa.Call:
				if b, isB := x.Call.Value.(*ssa.Builtin); !isB || (b.Name() != "len" && b.Name() != "cap") {
					okAll = false
				}
			case *ssa.Store:
				// the slice kept in a local variable that is assigned nothing else and only read
				cell, isCell := x.Addr.(*ssa.Alloc)
				if !isCell || x.Val != base || base == ssa.Value(al) {
					okAll = false
					continue
				}
				for _, r2 := range refsOf(cell) {
					switch y := r2.(type) {
					case *ssa.DebugRef:
					case *ssa.Store:
						if y != x {
							okAll = false
						}
					case *ssa.UnOp:
						if y.Op != token.MUL {
							okAll = false
							continue
						}
						walked(y, depth+1)
					default:
						okAll = false
					}
				}
			default:
				okAll = false
			}
		}
	}
	walked(al, 0)
	if !okAll || len(rowsByIdx) == 0 || int64(len(rowsByIdx)) != arr.Len() {
		return nil
	}
	rows := make([]tableRow, arr.Len())
	for i := range rows {
		rows[i] = rowsByIdx[int64(i)]
		if rows[i] == nil {
			return nil
		}
	}
	return rows
}

// localTableOf: base is a local table as a loop indexes it: the backing array itself, the slice `array[:]`, or a load of the local
// variable that slice was assigned to. The array, or nil.
func localTableOf(base ssa.Value) *ssa.Alloc {
	base = stripIdentity(base)
	for i := 0; i < 3; i++ {
		switch x := base.(type) {
		case *ssa.Alloc:
			if pt, ok := x.Type().Underlying().(*types.Pointer); ok {
				if _, isArr := pt.Elem().Underlying().(*types.Array); isArr {
					return x
				}
			}
			return nil
		case *ssa.Slice:
			base = x.X
		case *ssa.UnOp:
			cell, isCell := x.X.(*ssa.Alloc)
			if x.Op != token.MUL || !isCell {
				return nil
			}
			var only ssa.Value
			for _, ref := range refsOf(cell) {
				if st, isSt := ref.(*ssa.Store); isSt && st.Addr == ssa.Value(cell) {
					if only != nil {
						return nil
					}
					only = st.Val
				}
			}
			if only == nil {
				return nil
			}
			base = only
		default:
			return nil
		}
	}
	return nil
}

func loadsGlobal(v ssa.Value, g *ssa.Global) bool {
	v = stripIdentity(v)
	if v == ssa.Value(g) {
		return true
	}
	ld, ok := v.(*ssa.UnOp)
	return ok && ld.Op == token.MUL && ld.X == ssa.Value(g)
}

// rowMemberOf: v is a member of "the current row" of a table: t[i].m read through the element's address or through a copy of the
// element. Returns the table and the member index.
func (w *World) rowMemberOf(v ssa.Value) (ssa.Value, int, bool) {
	v = stripIdentity(v)
	var elemAddr ssa.Value
	field := -1
	switch x := v.(type) {
	case *ssa.Field:
		if ld, ok := stripIdentity(x.X).(*ssa.UnOp); ok && ld.Op == token.MUL {
			elemAddr, field = ld.X, x.Field
		}
	case *ssa.UnOp:
		if fa, ok := x.X.(*ssa.FieldAddr); ok && x.Op == token.MUL {
			elemAddr, field = fa.X, fa.Field
			// a copy of the element kept in a variable that is assigned once
			if al, ok := elemAddr.(*ssa.Alloc); ok {
				if src := recordCopySource(al); src != nil {
					elemAddr = src
				}
			}
		}
	}
	ia, ok := elemAddr.(*ssa.IndexAddr)
	if !ok {
		return nil, 0, false
	}
	base := stripIdentity(ia.X)
	var g *ssa.Global
	if gg, ok := base.(*ssa.Global); ok {
		g = gg
	} else if ld, ok := base.(*ssa.UnOp); ok && ld.Op == token.MUL {
		g, _ = ld.X.(*ssa.Global)
	}
	if g == nil {
		if al := localTableOf(ia.X); al != nil && w.tableRows(al) != nil {
			return al, field, true
		}
		return nil, 0, false
	}
	if w.tableRows(g) == nil {
		return nil, 0, false
	}
	return g, field, true
}

// tablesWalkedBy: the tables whose current-row members fn reads.
func (w *World) tablesWalkedBy(fn *ssa.Function) []ssa.Value {
	var out []ssa.Value
	seen := map[ssa.Value]bool{}
	forEachInstr(fn, func(_ *ssa.BasicBlock, ins ssa.Instruction) {
		v, ok := ins.(ssa.Value)
		if !ok {
			return
		}
		if g, _, ok := w.rowMemberOf(v); ok && !seen[g] {
			seen[g] = true
			out = append(out, g)
		}
	})
	return out
}

// rowEnv: the row each table is at while a rule evaluates a loop body row by row.
type rowEnv map[ssa.Value]int

// resolveRow: v with a current-row member replaced by what the row's literal gives that member.
func (w *World) resolveRow(v ssa.Value, env rowEnv) ssa.Value {
	if len(env) == 0 || v == nil {
		return v
	}
	if g, f, ok := w.rowMemberOf(v); ok {
		if i, have := env[g]; have {
			if rv := w.tableRows(g)[i][f]; rv != nil {
				return rv
			}
		}
	}
	return v
}

// columnOf: every value the rows give to the member v reads (nil when v is not a row member).
func (w *World) columnOf(v ssa.Value) []ssa.Value {
	g, f, ok := w.rowMemberOf(v)
	if !ok {
		return nil
	}
	var out []ssa.Value
	for _, row := range w.tableRows(g) {
		if rv := row[f]; rv != nil {
			out = append(out, rv)
		}
	}
	return out
}

// recordCopySource: al is a local record that is assigned once, as a whole, from *src, and otherwise only read member by member:
// src. nil otherwise.
func recordCopySource(al *ssa.Alloc) ssa.Value {
	if al.Referrers() == nil {
		return nil
	}
	var src ssa.Value
	n := 0
	for _, ref := range *al.Referrers() {
		switch x := ref.(type) {
		case *ssa.Store:
			if x.Addr != ssa.Value(al) {
				return nil
			}
			n++
			if ld, ok := stripIdentity(x.Val).(*ssa.UnOp); ok && ld.Op == token.MUL {
				src = ld.X
			}
		case *ssa.FieldAddr:
			if x.Referrers() != nil {
				for _, r2 := range *x.Referrers() {
					switch r2.(type) {
					case *ssa.UnOp, *ssa.DebugRef:
					default:
						return nil
					}
				}
			}
		case *ssa.UnOp, *ssa.DebugRef:
		default:
			return nil
		}
	}
	if n != 1 {
		return nil
	}
	return src
}

// ---- finding a row by its key ----

// A table of rows that is searched by key is the record form of a map: `func find(k) (row, bool)` walks the whole table, compares
// the key member of the current row with k and returns (that row, true) on the first hit, (zero, false) after the loop. A rule that
// understands `v, ok := m[k]` understands `row, ok := find(k)` the same way: the boolean is the membership test, a member of the
// row that is returned is the member of the row whose key is k.

type rowLookup struct {
	fn       *ssa.Function
	g        *ssa.Global
	keyField int // the member compared with the key
	param    int // the parameter that is the key
	rowRes   int // the result that is the row found (-1: the function only answers whether there is one)
	okRes    int // the boolean result
}

var rowLookupMemo = map[*ssa.Function]*rowLookup{}

// rowElemOf: v reads member `field` of the element at `ia` of a table (through the element's address or a copy of the element);
// with field -1: v is the whole element (a load of it, of its copy, or its address).
func (w *World) rowElemOf(v ssa.Value) (ia *ssa.IndexAddr, field int, ok bool) {
	v = stripIdentity(v)
	var elemAddr ssa.Value
	field = -1
	switch x := v.(type) {
	case *ssa.IndexAddr:
		elemAddr = x
	case *ssa.Field:
		if ld, isLd := stripIdentity(x.X).(*ssa.UnOp); isLd && ld.Op == token.MUL {
			elemAddr, field = ld.X, x.Field
		}
	case *ssa.UnOp:
		if x.Op != token.MUL {
			return nil, 0, false
		}
		if fa, isFA := x.X.(*ssa.FieldAddr); isFA {
			elemAddr, field = fa.X, fa.Field
		} else {
			elemAddr = x.X
		}
	}
	if al, isAl := elemAddr.(*ssa.Alloc); isAl {
		if src := recordCopySource(al); src != nil {
			elemAddr = src
		}
	}
	ia, ok = elemAddr.(*ssa.IndexAddr)
	if !ok {
		return nil, 0, false
	}
	if g := tableOfElem(ia); g == nil || w.tableRows(g) == nil {
		return nil, 0, false
	}
	return ia, field, true
}

func tableOfElem(ia *ssa.IndexAddr) *ssa.Global {
	base := stripIdentity(ia.X)
	if g, ok := base.(*ssa.Global); ok {
		return g
	}
	if ld, ok := base.(*ssa.UnOp); ok && ld.Op == token.MUL {
		g, _ := ld.X.(*ssa.Global)
		return g
	}
	return nil
}

// walksWholeList: the index of ia runs over every element of the list: the index of a `range` loop, or of
// `for i := 0; i < len(list); i++`.
func walksWholeList(ia *ssa.IndexAddr) bool {
	isInt := func(v ssa.Value, k int64) bool {
		c, ok := v.(*ssa.Const)
		return ok && c.Value != nil && c.Value.Kind() == constant.Int && c.Int64() == k
	}
	var phi *ssa.Phi
	first := int64(0)
	switch ix := ia.Index.(type) {
	case *ssa.BinOp: // range: index = phi + 1, phi starts at -1
		p, ok := ix.X.(*ssa.Phi)
		if !ok || ix.Op != token.ADD || !isInt(ix.Y, 1) {
			return false
		}
		phi, first = p, -1
	case *ssa.Phi:
		phi = ix
	default:
		return false
	}
	// the counter starts before the first element and is only ever advanced by one
	starts := false
	for _, e := range phi.Edges {
		switch {
		case isInt(e, first):
			starts = true
		case first == -1 && e == ia.Index:
		default:
			bo, ok := e.(*ssa.BinOp)
			if first != 0 || !ok || bo.Op != token.ADD || bo.X != ssa.Value(phi) || !isInt(bo.Y, 1) {
				return false
			}
		}
	}
	if !starts {
		return false
	}
	// the loop is left only when the counter reaches len(list)
	cond, ok := branchCond(phi.Block()).(*ssa.BinOp)
	if !ok || cond.Op != token.LSS || cond.X != ia.Index {
		return false
	}
	ln, ok := cond.Y.(*ssa.Call)
	if !ok || len(ln.Call.Args) != 1 {
		return false
	}
	if b, isB := ln.Call.Value.(*ssa.Builtin); !isB || b.Name() != "len" {
		return false
	}
	if g := tableOfElem(ia); ln.Call.Args[0] != ia.X && (g == nil || !loadsGlobal(ln.Call.Args[0], g)) {
		return false
	}
	return edgeDominates(phi.Block(), 0, ia.Block())
}

// rowLookupOf: fn finds a row of a table by its key (see above). nil when it is not of that shape.
func (w *World) rowLookupOf(fn *ssa.Function) *rowLookup {
	if fn == nil || fn.Blocks == nil {
		return nil
	}
	if lk, ok := rowLookupMemo[fn]; ok {
		return lk
	}
	rowLookupMemo[fn] = nil
	if lk := w.rowLookupByIndexSearch(fn); lk != nil {
		rowLookupMemo[fn] = lk
		return lk
	}
	res := fn.Signature.Results()
	okRes := -1
	for i := 0; i < res.Len(); i++ {
		if types.Identical(res.At(i).Type().Underlying(), types.Typ[types.Bool]) {
			if okRes >= 0 {
				return nil
			}
			okRes = i
		}
	}
	if okRes < 0 || res.Len() > 2 {
		return nil
	}
	// the one comparison of a row's member with a parameter
	var eq *ssa.BinOp
	var ia *ssa.IndexAddr
	keyField, param := -1, -1
	bad := false
	forEachInstr(fn, func(_ *ssa.BasicBlock, ins ssa.Instruction) {
		bo, isBo := ins.(*ssa.BinOp)
		if !isBo || (bo.Op != token.EQL && bo.Op != token.NEQ) {
			return
		}
		for _, pair := range [][2]ssa.Value{{bo.X, bo.Y}, {bo.Y, bo.X}} {
			p, isP := stripIdentity(pair[1]).(*ssa.Parameter)
			if !isP {
				continue
			}
			a, f, isRow := w.rowElemOf(pair[0])
			if !isRow || f < 0 {
				continue
			}
			if eq != nil {
				bad = true
				return
			}
			eq, ia, keyField = bo, a, f
			for i, q := range fn.Params {
				if q == p {
					param = i
				}
			}
		}
	})
	if bad || eq == nil || param < 0 || eq.Referrers() == nil || !walksWholeList(ia) {
		return nil
	}
	var iff *ssa.If
	for _, ref := range *eq.Referrers() {
		switch x := ref.(type) {
		case *ssa.If:
			iff = x
		case *ssa.DebugRef:
		default:
			return nil // the outcome is combined with something else
		}
	}
	if iff == nil {
		return nil
	}
	hit := 0
	if eq.Op == token.NEQ {
		hit = 1
	}
	// the block the hit edge leads to, through plain jumps
	hitBlk := iff.Block().Succs[hit]
	for i := 0; i < 4 && len(hitBlk.Instrs) == 1 && len(hitBlk.Succs) == 1; i++ {
		hitBlk = hitBlk.Succs[0]
	}
	rowRes := -1
	if res.Len() == 2 {
		rowRes = 1 - okRes
	}
	nHit, nMiss := 0, 0
	for _, b := range fn.Blocks {
		ret, isRet := b.Instrs[len(b.Instrs)-1].(*ssa.Return)
		if !isRet {
			continue
		}
		if len(ret.Results) != res.Len() {
			return nil
		}
		k, isConst := ret.Results[okRes].(*ssa.Const)
		if !isConst || k.Value == nil || k.Value.Kind() != constant.Bool {
			return nil
		}
		if constant.BoolVal(k.Value) {
			// found: straight from the hit edge, with the row that was compared
			if b != hitBlk || !edgeDominates(iff.Block(), hit, b) {
				return nil
			}
			if rowRes >= 0 {
				if a, f, isRow := w.rowElemOf(ret.Results[rowRes]); !isRow || f >= 0 || a != ia {
					return nil
				}
			}
			nHit++
		} else {
			if edgeDominates(iff.Block(), hit, b) {
				return nil
			}
			if rowRes >= 0 {
				if _, isC := ret.Results[rowRes].(*ssa.Const); !isC {
					return nil
				}
			}
			nMiss++
		}
	}
	if nHit != 1 || nMiss == 0 {
		return nil
	}
	lk := &rowLookup{fn: fn, g: tableOfElem(ia), keyField: keyField, param: param, rowRes: rowRes, okRes: okRes}
	rowLookupMemo[fn] = lk
	return lk
}

// keyPredicateOf: pred is a function value `func(row) bool { return row.key == k }` made inside fn, where k is a parameter of fn
// (captured by the closure, never written): the member compared and the index of the parameter.
func (w *World) keyPredicateOf(fn *ssa.Function, pred ssa.Value) (keyField, param int, ok bool) {
	mc, isMC := stripIdentity(pred).(*ssa.MakeClosure)
	if !isMC {
		return 0, 0, false
	}
	g, isFn := mc.Fn.(*ssa.Function)
	if !isFn || g.Blocks == nil || len(g.Params) != 1 || g.Signature.Results().Len() != 1 {
		return 0, 0, false
	}
	// the one result: member of the parameter == captured key
	var rets []*ssa.Return
	forEachInstr(g, func(_ *ssa.BasicBlock, ins ssa.Instruction) {
		if r, isRet := ins.(*ssa.Return); isRet {
			rets = append(rets, r)
		}
	})
	if len(rets) != 1 {
		return 0, 0, false
	}
	bo, isBo := stripIdentity(rets[0].Results[0]).(*ssa.BinOp)
	if !isBo || bo.Op != token.EQL {
		return 0, 0, false
	}
	// member `f` of the row the predicate is handed (by value, through its local copy, or by address)
	memberOfParam := func(v ssa.Value) (int, bool) {
		switch x := stripIdentity(v).(type) {
		case *ssa.Field:
			if stripIdentity(x.X) == ssa.Value(g.Params[0]) {
				return x.Field, true
			}
		case *ssa.UnOp:
			fa, isFA := x.X.(*ssa.FieldAddr)
			if x.Op != token.MUL || !isFA {
				return 0, false
			}
			base := stripIdentity(fa.X)
			if al, isAl := base.(*ssa.Alloc); isAl {
				if val := recordAssignedOnce(al); val != nil {
					base = stripIdentity(val)
				}
			}
			if base == ssa.Value(g.Params[0]) {
				return fa.Field, true
			}
		}
		return 0, false
	}
	// a parameter of fn seen from inside the closure
	outerParam := func(v ssa.Value) (int, bool) {
		ld, isLd := stripIdentity(v).(*ssa.UnOp)
		if !isLd || ld.Op != token.MUL {
			return 0, false
		}
		fv, isFV := ld.X.(*ssa.FreeVar)
		if !isFV || fv.Referrers() == nil {
			return 0, false
		}
		for _, ref := range *fv.Referrers() {
			switch ref.(type) {
			case *ssa.UnOp, *ssa.DebugRef:
			default:
				return 0, false
			}
		}
		for i, q := range g.FreeVars {
			if q != fv || i >= len(mc.Bindings) {
				continue
			}
			cell, isAl := mc.Bindings[i].(*ssa.Alloc)
			if !isAl || cell.Referrers() == nil {
				return 0, false
			}
			var only ssa.Value
			n := 0
			for _, ref := range *cell.Referrers() {
				if st, isSt := ref.(*ssa.Store); isSt && st.Addr == ssa.Value(cell) {
					n++
					only = st.Val
				}
			}
			p, isP := only.(*ssa.Parameter)
			if n != 1 || !isP || p.Parent() != fn {
				return 0, false
			}
			for j, fp := range fn.Params {
				if fp == p {
					return j, true
				}
			}
		}
		return 0, false
	}
	for _, pair := range [][2]ssa.Value{{bo.X, bo.Y}, {bo.Y, bo.X}} {
		f, isM := memberOfParam(pair[0])
		j, isK := outerParam(pair[1])
		if isM && isK {
			return f, j, true
		}
	}
	return 0, 0, false
}

// rowLookupByIndexSearch: the row lookup written with the library's search: `i := slices.IndexFunc(table, func(row) bool { return
// row.key == k })`, then (the row at i, true) where i is a position and (zero, false) where it is not.
func (w *World) rowLookupByIndexSearch(fn *ssa.Function) *rowLookup {
	res := fn.Signature.Results()
	okRes := -1
	for i := 0; i < res.Len(); i++ {
		if types.Identical(res.At(i).Type().Underlying(), types.Typ[types.Bool]) {
			if okRes >= 0 {
				return nil
			}
			okRes = i
		}
	}
	if okRes < 0 || res.Len() > 2 {
		return nil
	}
	var search *ssa.Call
	n := 0
	forEachInstr(fn, func(_ *ssa.BasicBlock, ins ssa.Instruction) {
		c, isCall := ins.(*ssa.Call)
		if !isCall || len(c.Call.Args) != 2 {
			return
		}
		if g := c.Call.StaticCallee(); g != nil && strings.HasPrefix(g.String(), "slices.IndexFunc") {
			search = c
			n++
		}
	})
	if n != 1 || search.Referrers() == nil {
		return nil
	}
	var g *ssa.Global
	if ld, isLd := stripIdentity(search.Call.Args[0]).(*ssa.UnOp); isLd && ld.Op == token.MUL {
		g, _ = ld.X.(*ssa.Global)
	}
	if g == nil || w.tableRows(g) == nil {
		return nil
	}
	keyField, param, ok := w.keyPredicateOf(fn, search.Call.Args[1])
	if !ok {
		return nil
	}
	// the one test "i is a position": i >= 0, i != -1, ... and its negations
	var iff *ssa.If
	hit := -1
	for _, ref := range *search.Referrers() {
		switch x := ref.(type) {
		case *ssa.BinOp:
			k, isK := x.Y.(*ssa.Const)
			if x.X != ssa.Value(search) || !isK || k.Value == nil || k.Value.Kind() != constant.Int || x.Referrers() == nil {
				return nil
			}
			h := -1
			switch kv := k.Int64(); {
			case x.Op == token.GEQ && kv == 0, x.Op == token.GTR && kv == -1, x.Op == token.NEQ && kv == -1:
				h = 0
			case x.Op == token.LSS && kv == 0, x.Op == token.LEQ && kv == -1, x.Op == token.EQL && kv == -1:
				h = 1
			default:
				return nil
			}
			for _, r2 := range *x.Referrers() {
				switch y := r2.(type) {
				case *ssa.If:
					if iff != nil {
						return nil
					}
					iff, hit = y, h
				case *ssa.DebugRef:
				default:
					return nil
				}
			}
		case *ssa.IndexAddr, *ssa.DebugRef:
		default:
			return nil
		}
	}
	if iff == nil {
		return nil
	}
	rowRes := -1
	if res.Len() == 2 {
		rowRes = 1 - okRes
	}
	nHit, nMiss := 0, 0
	for _, b := range fn.Blocks {
		ret, isRet := b.Instrs[len(b.Instrs)-1].(*ssa.Return)
		if !isRet {
			continue
		}
		if len(ret.Results) != res.Len() {
			return nil
		}
		k, isConst := ret.Results[okRes].(*ssa.Const)
		if !isConst || k.Value == nil || k.Value.Kind() != constant.Bool {
			return nil
		}
		if constant.BoolVal(k.Value) {
			if !edgeDominates(iff.Block(), hit, b) {
				return nil
			}
			if rowRes >= 0 {
				a, f, isRow := w.rowElemOf(ret.Results[rowRes])
				if !isRow || f >= 0 || a.Index != ssa.Value(search) || tableOfElem(a) != g {
					return nil
				}
			}
			nHit++
		} else {
			if edgeDominates(iff.Block(), hit, b) {
				return nil
			}
			if rowRes >= 0 {
				if _, isC := ret.Results[rowRes].(*ssa.Const); !isC {
					return nil
				}
			}
			nMiss++
		}
	}
	if nHit != 1 || nMiss == 0 {
		return nil
	}
	return &rowLookup{fn: fn, g: g, keyField: keyField, param: param, rowRes: rowRes, okRes: okRes}
}

// foundRow: what a call site of a row lookup holds.
type foundRow struct {
	call *ssa.Call
	lk   *rowLookup
}

// foundRowMember: v reads member `field` of the row a keyed lookup has returned (`spec, ok := find(name)` ... `spec.allowed`),
// through the extracted result or the variable it was assigned to (assigned once, read member by member).
func (w *World) foundRowMember(v ssa.Value) (fr foundRow, field int, ok bool) {
	v = stripIdentity(v)
	var rec ssa.Value
	switch x := v.(type) {
	case *ssa.Field:
		rec, field = stripIdentity(x.X), x.Field
		if ld, isLd := rec.(*ssa.UnOp); isLd && ld.Op == token.MUL {
			if al, isAl := ld.X.(*ssa.Alloc); isAl {
				rec = recordAssignedOnce(al)
			}
		}
	case *ssa.UnOp:
		fa, isFA := x.X.(*ssa.FieldAddr)
		if x.Op != token.MUL || !isFA {
			return fr, 0, false
		}
		field = fa.Field
		switch base := stripIdentity(fa.X).(type) {
		case *ssa.Alloc:
			rec = recordAssignedOnce(base)
		default:
			rec = base // a pointer to the row
		}
	}
	if rec == nil {
		return fr, 0, false
	}
	ex, isEx := stripIdentity(rec).(*ssa.Extract)
	if !isEx {
		return fr, 0, false
	}
	call, isCall := ex.Tuple.(*ssa.Call)
	if !isCall {
		return fr, 0, false
	}
	lk := w.rowLookupOf(call.Call.StaticCallee())
	if lk == nil || lk.rowRes != ex.Index {
		return fr, 0, false
	}
	return foundRow{call, lk}, field, true
}

// recordAssignedOnce: al is a local record that is assigned once, as a whole, and otherwise only read (member by member or as a
// whole): the value it was assigned. nil otherwise.
func recordAssignedOnce(al *ssa.Alloc) ssa.Value {
	if al.Referrers() == nil {
		return nil
	}
	var val ssa.Value
	n := 0
	for _, ref := range *al.Referrers() {
		switch x := ref.(type) {
		case *ssa.Store:
			if x.Addr != ssa.Value(al) {
				return nil
			}
			n++
			val = x.Val
		case *ssa.FieldAddr:
			if x.Referrers() != nil {
				for _, r2 := range *x.Referrers() {
					switch r2.(type) {
					case *ssa.UnOp, *ssa.DebugRef:
					default:
						return nil
					}
				}
			}
		case *ssa.UnOp, *ssa.DebugRef:
		default:
			return nil
		}
	}
	if n != 1 {
		return nil
	}
	return val
}

// rowLookupTest: a branch on the boolean a keyed row lookup returns.
type rowLookupTest struct {
	found       foundRow
	branch      *ssa.BasicBlock
	presentSucc int
}

// rowLookupTests: the branches of fn that ask whether a key has a row in a table (the record form of membershipTests).
func (w *World) rowLookupTests(fn *ssa.Function) []rowLookupTest {
	var out []rowLookupTest
	for _, b := range fn.Blocks {
		c := branchCond(b)
		if c == nil {
			continue
		}
		neg := false
		for {
			if u, ok := c.(*ssa.UnOp); ok && u.Op == token.NOT {
				neg, c = !neg, u.X
				continue
			}
			break
		}
		ex, ok := c.(*ssa.Extract)
		if !ok {
			continue
		}
		call, ok := ex.Tuple.(*ssa.Call)
		if !ok {
			continue
		}
		lk := w.rowLookupOf(call.Call.StaticCallee())
		if lk == nil || lk.okRes != ex.Index {
			continue
		}
		s := 0
		if neg {
			s = 1
		}
		out = append(out, rowLookupTest{foundRow{call, lk}, b, s})
	}
	return out
}

// rowKeyArg: the key a call of a row lookup is given.
func (fr foundRow) keyArg() ssa.Value {
	if fr.lk.param < len(fr.call.Call.Args) {
		return fr.call.Call.Args[fr.lk.param]
	}
	return nil
}

// listConstsOf: the string constants of a list value written as a literal, directly (`[]string{"a", "b"}`), or kept in a
// package-level variable that only its initialiser assigns (`var booleans = []string{..}`); ok is false when v is neither (nil: an
// empty list).
func (w *World) listConstsOf(v ssa.Value) (out []string, ok bool) {
	v = stripIdentity(v)
	if isNilConst(v) {
		return nil, true
	}
	if ld, isLd := v.(*ssa.UnOp); isLd && ld.Op == token.MUL {
		g, isG := ld.X.(*ssa.Global)
		if !isG || g.Pkg == nil {
			return nil, false
		}
		// assigned once, by the initialiser
		var val ssa.Value
		n := 0
		for fn := range w.allFuncs {
			if fn.Blocks == nil || pkgOfFunc(fn) != g.Pkg {
				continue
			}
			forEachInstr(fn, func(_ *ssa.BasicBlock, ins ssa.Instruction) {
				switch x := ins.(type) {
				case *ssa.Store:
					if x.Addr == ssa.Value(g) {
						n++
						if fn == g.Pkg.Func("init") {
							val = x.Val
						}
					}
					if ia, isIA := x.Addr.(*ssa.IndexAddr); isIA && loadsGlobal(ia.X, g) {
						n += 2
					}
				}
			})
		}
		if n != 1 || val == nil {
			return nil, false
		}
		v = stripIdentity(val)
	}
	ops := variadicOperands(v)
	if ops == nil {
		return nil, false
	}
	for _, e := range ops {
		s, isS := constString(e)
		if e == nil || !isS {
			return nil, false
		}
		out = append(out, s)
	}
	return out, true
}

// keyedListTable: the record form of a package-level `map[string][]string`: a table of the model package that is searched by a
// string key member (rowLookupOf) and whose rows carry one list of strings.
type keyedListTable struct {
	g         *ssa.Global
	keyField  int
	listField int
}

func (w *World) keyedListTables() []keyedListTable {
	var out []keyedListTable
	seen := map[*ssa.Global]bool{}
	for _, fn := range w.srcFuncs {
		if fn.Pkg != w.Model {
			continue
		}
		lk := w.rowLookupOf(fn)
		if lk == nil || seen[lk.g] {
			continue
		}
		t := lk.g.Type().(*types.Pointer).Elem().Underlying()
		var elem types.Type
		switch x := t.(type) {
		case *types.Slice:
			elem = x.Elem()
		case *types.Array:
			elem = x.Elem()
		}
		st, ok := elem.Underlying().(*types.Struct)
		if !ok || lk.keyField >= st.NumFields() || !isStringType(st.Field(lk.keyField).Type()) {
			continue
		}
		listField, n := -1, 0
		for i := 0; i < st.NumFields(); i++ {
			if sl, isSl := st.Field(i).Type().Underlying().(*types.Slice); isSl && isStringType(sl.Elem()) {
				listField = i
				n++
			}
		}
		if n != 1 {
			continue
		}
		seen[lk.g] = true
		out = append(out, keyedListTable{lk.g, lk.keyField, listField})
	}
	return out
}

// listOfFoundRow: v is the list member of the row a keyed lookup in a keyedListTable has returned: the lookup's call site.
func (w *World) listOfFoundRow(v ssa.Value) (foundRow, bool) {
	fr, f, ok := w.foundRowMember(v)
	if !ok {
		return fr, false
	}
	for _, t := range w.keyedListTables() {
		if t.g == fr.lk.g && t.listField == f {
			return fr, true
		}
	}
	return fr, false
}

// foundRowWithList: v is the row (or its address) a keyed lookup in a keyedListTable has returned, and pred is a predicate about
// that table's list member of the record it is handed (predicateList): the lookup's call site.
func (w *World) foundRowWithList(v ssa.Value, pred *ssa.Function) (foundRow, bool) {
	var fr foundRow
	_, field, ok := predicateList(pred)
	if !ok || field < 0 {
		return fr, false
	}
	rec := stripIdentity(v)
	if ld, isLd := rec.(*ssa.UnOp); isLd && ld.Op == token.MUL {
		if al, isAl := ld.X.(*ssa.Alloc); isAl {
			if val := recordAssignedOnce(al); val != nil {
				rec = stripIdentity(val)
			}
		}
	}
	ex, isEx := rec.(*ssa.Extract)
	if !isEx {
		return fr, false
	}
	call, isCall := ex.Tuple.(*ssa.Call)
	if !isCall {
		return fr, false
	}
	lk := w.rowLookupOf(call.Call.StaticCallee())
	if lk == nil || lk.rowRes != ex.Index {
		return fr, false
	}
	for _, t := range w.keyedListTables() {
		if t.g == lk.g && t.listField == field {
			return foundRow{call, lk}, true
		}
	}
	return fr, false
}

// isListOfRow: v reads the list member of the row that lookup has returned.
func (w *World) isListOfRow(v ssa.Value, row foundRow) bool {
	fr, ok := w.listOfFoundRow(v)
	return ok && fr.call == row.call
}

// sameFoundRowList: a and b read the list member of the row the same lookup has returned.
func (w *World) sameFoundRowList(a, b ssa.Value) bool {
	fa, okA := w.listOfFoundRow(a)
	fb, okB := w.listOfFoundRow(b)
	return okA && okB && fa.call == fb.call
}

// ---- a package-level record that holds defaults ----

var globalRecordMemo = map[*ssa.Global]map[int]ssa.Value{}

// globalRecordInit: g is a package-level record (`var defaultPadding = Padding{PadChar: "' '"}`) that the package initialiser
// assigns once, from a literal, and that nothing writes or takes the address of afterwards: what the literal gives each member (a
// member it does not mention is absent: it holds the zero value of its type). ok is false when g is not of that kind.
func (w *World) globalRecordInit(g *ssa.Global) (members map[int]ssa.Value, ok bool) {
	if m, have := globalRecordMemo[g]; have {
		return m, m != nil
	}
	globalRecordMemo[g] = nil
	if g.Pkg == nil {
		return nil, false
	}
	if _, isStruct := g.Type().(*types.Pointer).Elem().Underlying().(*types.Struct); !isStruct {
		return nil, false
	}
	initFn := g.Pkg.Func("init")
	members = map[int]ssa.Value{}
	good := true
	wholeStores := 0
	fillFrom := func(rec ssa.Value) {
		if rec.Referrers() == nil {
			return
		}
		for _, ref := range *rec.Referrers() {
			fa, isFA := ref.(*ssa.FieldAddr)
			if !isFA || fa.Referrers() == nil {
				continue
			}
			for _, r2 := range *fa.Referrers() {
				if st, isSt := r2.(*ssa.Store); isSt && st.Addr == ssa.Value(fa) {
					if _, dup := members[fa.Field]; dup {
						good = false
					}
					members[fa.Field] = stripIdentity(st.Val)
				}
			}
		}
	}
	for fn := range w.allFuncs {
		if fn.Blocks == nil || !good {
			continue
		}
		if g.Object() != nil && !g.Object().Exported() && pkgOfFunc(fn) != g.Pkg {
			continue
		}
		forEachInstr(fn, func(_ *ssa.BasicBlock, ins ssa.Instruction) {
			uses := false
			for _, op := range ins.Operands(nil) {
				if op != nil && *op == ssa.Value(g) {
					uses = true
				}
			}
			if !uses {
				return
			}
			switch x := ins.(type) {
			case *ssa.UnOp:
				if x.Op != token.MUL {
					good = false
				}
			case *ssa.DebugRef:
			case *ssa.Store:
				if x.Addr != ssa.Value(g) || fn != initFn {
					good = false
					return
				}
				wholeStores++
				switch v := stripIdentity(x.Val).(type) {
				case *ssa.UnOp:
					al, isAl := v.X.(*ssa.Alloc)
					if v.Op != token.MUL || !isAl || recordCopyOnlyRead(al, x) == false {
						good = false
						return
					}
					fillFrom(al)
				case *ssa.Const: // the zero record
				default:
					good = false
				}
			case *ssa.FieldAddr:
				// a member of the variable: read anywhere, written only by the initialiser
				if x.Referrers() == nil {
					return
				}
				for _, r2 := range *x.Referrers() {
					switch y := r2.(type) {
					case *ssa.UnOp, *ssa.DebugRef:
					case *ssa.Store:
						if y.Addr != ssa.Value(x) || fn != initFn {
							good = false
							return
						}
						if _, dup := members[x.Field]; dup {
							good = false
						}
						members[x.Field] = stripIdentity(y.Val)
					default:
						good = false
					}
				}
			default:
				good = false
			}
		})
	}
	if !good || wholeStores > 1 {
		return nil, false
	}
	globalRecordMemo[g] = members
	return members, true
}

// recordCopyOnlyRead: the literal record al is only filled member by member and then copied by the store `copy`.
func recordCopyOnlyRead(al *ssa.Alloc, copy *ssa.Store) bool {
	if al.Referrers() == nil {
		return false
	}
	for _, ref := range *al.Referrers() {
		switch x := ref.(type) {
		case *ssa.FieldAddr:
			if x.Referrers() != nil {
				for _, r2 := range *x.Referrers() {
					if st, isSt := r2.(*ssa.Store); !isSt || st.Addr != ssa.Value(x) {
						if _, isDbg := r2.(*ssa.DebugRef); !isDbg {
							return false
						}
					}
				}
			}
		case *ssa.UnOp:
			if stripIdentity(copy.Val) != ssa.Value(x) {
				return false
			}
		case *ssa.DebugRef:
		default:
			return false
		}
	}
	return true
}
