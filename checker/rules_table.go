package main

// Tables: package-level lists of records written as one composite literal (`var setters = []setter{{Key, func...}, ...}`) and walked
// by a loop that uses the members of the current row. A rule that reasons about "the key looked up" and "the function called" has
// to see each row on its own: row i pairs the i-th key with the i-th function. The helpers here recover the rows from the package
// initialiser and recognise a member of the current row inside the loop, so a rule can evaluate the loop body once per row.

import (
	"go/token"
	"go/types"

	"golang.org/x/tools/go/ssa"
)

type tableRow map[int]ssa.Value // member index -> the value the literal gives it

var tableRowsMemo = map[*ssa.Global][]tableRow{}

// tableRows: the rows of a package-level slice/array of records that is assigned once, by the package initialiser, from a literal,
// and whose elements are never written afterwards. nil when the variable is not of that kind.
func (w *World) tableRows(g *ssa.Global) []tableRow {
	if rows, ok := tableRowsMemo[g]; ok {
		return rows
	}
	tableRowsMemo[g] = nil
	if g.Pkg == nil {
		return nil
	}
	et := g.Type().(*types.Pointer).Elem().Underlying()
	var elem types.Type
	switch t := et.(type) {
	case *types.Slice:
		elem = t.Elem()
	case *types.Array:
		elem = t.Elem()
	default:
		return nil
	}
	if _, ok := elem.Underlying().(*types.Struct); !ok {
		return nil
	}
	initFn := g.Pkg.Func("init")
	if initFn == nil {
		return nil
	}
	// written only by the initialiser; elements never stored to elsewhere
	var base ssa.Value
	okG := true
	for fn := range w.allFuncs {
		if fn.Blocks == nil || pkgOfFunc(fn) != g.Pkg {
			continue
		}
		forEachInstr(fn, func(_ *ssa.BasicBlock, ins ssa.Instruction) {
			switch x := ins.(type) {
			case *ssa.Store:
				if x.Addr == ssa.Value(g) {
					if fn != initFn || base != nil {
						okG = false
						return
					}
					if sl, ok := stripIdentity(x.Val).(*ssa.Slice); ok {
						base = sl.X
					} else {
						okG = false
					}
				}
				// a write into an element outside the initialiser
				if fn != initFn {
					addr := x.Addr
					if fa, ok := addr.(*ssa.FieldAddr); ok {
						addr = fa.X
					}
					if ia, ok := addr.(*ssa.IndexAddr); ok && loadsGlobal(ia.X, g) {
						okG = false
					}
				}
			}
		})
	}
	if !okG {
		return nil
	}
	if _, isArr := et.(*types.Array); isArr {
		base = g
	}
	if base == nil {
		return nil
	}
	rowsByIdx := map[int64]tableRow{}
	max := int64(-1)
	fill := func(row tableRow, rec ssa.Value) {
		if rec.Referrers() == nil {
			return
		}
		for _, ref := range *rec.Referrers() {
			fa, ok := ref.(*ssa.FieldAddr)
			if !ok || fa.Referrers() == nil {
				continue
			}
			for _, r2 := range *fa.Referrers() {
				if st, ok := r2.(*ssa.Store); ok && st.Addr == ssa.Value(fa) {
					row[fa.Field] = stripIdentity(st.Val)
				}
			}
		}
	}
	forEachInstr(initFn, func(_ *ssa.BasicBlock, ins ssa.Instruction) {
		ia, ok := ins.(*ssa.IndexAddr)
		if !ok || ia.X != base {
			return
		}
		k, ok := ia.Index.(*ssa.Const)
		if !ok || k.Value == nil {
			okG = false
			return
		}
		row := rowsByIdx[k.Int64()]
		if row == nil {
			row = tableRow{}
			rowsByIdx[k.Int64()] = row
		}
		if k.Int64() > max {
			max = k.Int64()
		}
		fill(row, ia)
		// the record built in a local and copied into the slot
		for _, ref := range *ia.Referrers() {
			if st, ok := ref.(*ssa.Store); ok && st.Addr == ssa.Value(ia) {
				if ld, ok := stripIdentity(st.Val).(*ssa.UnOp); ok && ld.Op == token.MUL {
					fill(row, ld.X)
				}
			}
		}
	})
	if !okG || max < 0 {
		return nil
	}
	rows := make([]tableRow, max+1)
	for i := range rows {
		rows[i] = rowsByIdx[int64(i)]
		if rows[i] == nil {
			rows[i] = tableRow{}
		}
	}
	tableRowsMemo[g] = rows
	return rows
}

func loadsGlobal(v ssa.Value, g *ssa.Global) bool {
	v = stripIdentity(v)
	if v == ssa.Value(g) {
		return true
	}
	ld, ok := v.(*ssa.UnOp)
	return ok && ld.Op == token.MUL && ld.X == ssa.Value(g)
}

// rowMemberOf: v is a member of "the current row" of a table: t[i].m read through the element's address or through a copy of the
// element. Returns the table and the member index.
func (w *World) rowMemberOf(v ssa.Value) (*ssa.Global, int, bool) {
	v = stripIdentity(v)
	var elemAddr ssa.Value
	field := -1
	switch x := v.(type) {
	case *ssa.Field:
		if ld, ok := stripIdentity(x.X).(*ssa.UnOp); ok && ld.Op == token.MUL {
			elemAddr, field = ld.X, x.Field
		}
	case *ssa.UnOp:
		if fa, ok := x.X.(*ssa.FieldAddr); ok && x.Op == token.MUL {
			elemAddr, field = fa.X, fa.Field
			// a copy of the element kept in a variable that is assigned once
			if al, ok := elemAddr.(*ssa.Alloc); ok {
				if src := recordCopySource(al); src != nil {
					elemAddr = src
				}
			}
		}
	}
	ia, ok := elemAddr.(*ssa.IndexAddr)
	if !ok {
		return nil, 0, false
	}
	base := stripIdentity(ia.X)
	var g *ssa.Global
	if gg, ok := base.(*ssa.Global); ok {
		g = gg
	} else if ld, ok := base.(*ssa.UnOp); ok && ld.Op == token.MUL {
		g, _ = ld.X.(*ssa.Global)
	}
	if g == nil || w.tableRows(g) == nil {
		return nil, 0, false
	}
	return g, field, true
}

// tablesWalkedBy: the tables whose current-row members fn reads.
func (w *World) tablesWalkedBy(fn *ssa.Function) []*ssa.Global {
	var out []*ssa.Global
	seen := map[*ssa.Global]bool{}
	forEachInstr(fn, func(_ *ssa.BasicBlock, ins ssa.Instruction) {
		v, ok := ins.(ssa.Value)
		if !ok {
			return
		}
		if g, _, ok := w.rowMemberOf(v); ok && !seen[g] {
			seen[g] = true
			out = append(out, g)
		}
	})
	return out
}

// rowEnv: the row each table is at while a rule evaluates a loop body row by row.
type rowEnv map[*ssa.Global]int

// resolveRow: v with a current-row member replaced by what the row's literal gives that member.
func (w *World) resolveRow(v ssa.Value, env rowEnv) ssa.Value {
	if len(env) == 0 || v == nil {
		return v
	}
	if g, f, ok := w.rowMemberOf(v); ok {
		if i, have := env[g]; have {
			if rv := w.tableRows(g)[i][f]; rv != nil {
				return rv
			}
		}
	}
	return v
}

// columnOf: every value the rows give to the member v reads (nil when v is not a row member).
func (w *World) columnOf(v ssa.Value) []ssa.Value {
	g, f, ok := w.rowMemberOf(v)
	if !ok {
		return nil
	}
	var out []ssa.Value
	for _, row := range w.tableRows(g) {
		if rv := row[f]; rv != nil {
			out = append(out, rv)
		}
	}
	return out
}

// recordCopySource: al is a local record that is assigned once, as a whole, from *src, and otherwise only read member by member:
// src. nil otherwise.
func recordCopySource(al *ssa.Alloc) ssa.Value {
	if al.Referrers() == nil {
		return nil
	}
	var src ssa.Value
	n := 0
	for _, ref := range *al.Referrers() {
		switch x := ref.(type) {
		case *ssa.Store:
			if x.Addr != ssa.Value(al) {
				return nil
			}
			n++
			if ld, ok := stripIdentity(x.Val).(*ssa.UnOp); ok && ld.Op == token.MUL {
				src = ld.X
			}
		case *ssa.FieldAddr:
			if x.Referrers() != nil {
				for _, r2 := range *x.Referrers() {
					switch r2.(type) {
					case *ssa.UnOp, *ssa.DebugRef:
					default:
						return nil
					}
				}
			}
		case *ssa.UnOp, *ssa.DebugRef:
		default:
			return nil
		}
	}
	if n != 1 {
		return nil
	}
	return src
}
