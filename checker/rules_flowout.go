package main

// flowsToResult: a may-flow from a value to what its function hands back - a returned value, or something written through a
// parameter (a builder the caller passed in). The propagation is deliberately generous (every instruction that has a reached operand
// and yields a non-boolean value is reached; a store reaches the variable, record or builder it writes into; closures are followed
// through their captured variables): the rule that uses it asks "is this text dropped on the floor", and only the absence of any
// way out answers that.

import (
	"fmt"
	"go/token"
	"go/types"
	"os"
	"strings"

	"golang.org/x/tools/go/ssa"
)

func flowsToResult(fn *ssa.Function, src ssa.Value) bool {
	fns := append([]*ssa.Function{fn}, fn.AnonFuncs...)
	for _, a := range fn.AnonFuncs {
		fns = append(fns, a.AnonFuncs...)
	}
	reached := map[ssa.Value]bool{src: true}
	roots := map[ssa.Value]bool{}
	// the object behind a value: a pointer seen through assertions and interface conversions is the same object
	objBase := func(v ssa.Value) ssa.Value {
		for i := 0; i < 16; i++ {
			switch x := v.(type) {
			case *ssa.TypeAssert:
				v = x.X
			case *ssa.MakeInterface:
				v = x.X
			case *ssa.ChangeInterface:
				v = x.X
			case *ssa.ChangeType:
				v = x.X
			case *ssa.Extract:
				if ta, ok := x.Tuple.(*ssa.TypeAssert); ok {
					v = ta.X
				} else {
					return v
				}
			default:
				return v
			}
		}
		return v
	}
	rootOf := func(addr ssa.Value) ssa.Value {
		rt := objBase(valueRoot(objBase(addr)))
		// a pointer kept in a variable that a closure captures: the object is the one the variable was given
		for i := 0; i < 4; i++ {
			al, ok := rt.(*ssa.Alloc)
			if !ok {
				if fv, isFV := rt.(*ssa.FreeVar); isFV {
					al = cellOfAddr(fv)
				}
				if al == nil {
					break
				}
			}
			if _, holdsPtr := al.Type().(*types.Pointer).Elem().Underlying().(*types.Pointer); !holdsPtr {
				break
			}
			st, esc := cellStores(al)
			if esc || len(st) != 1 {
				break
			}
			rt = objBase(valueRoot(objBase(st[0].Val)))
		}
		if fv, ok := rt.(*ssa.FreeVar); ok {
			if al := cellOfAddr(fv); al != nil {
				return al
			}
		}
		return rt
	}
	isBool := func(t types.Type) bool {
		b, ok := t.Underlying().(*types.Basic)
		return ok && b.Kind() == types.Bool
	}
	// localCallee: the closure of fn that a call enters, when it is one
	inFns := map[*ssa.Function]bool{}
	for _, g := range fns[1:] {
		inFns[g] = true
	}
	calleeMemo := map[ssa.CallInstruction]*ssa.Function{}
	localCallee := func(c ssa.CallInstruction) *ssa.Function {
		if len(inFns) == 0 || c.Common().IsInvoke() {
			return nil
		}
		g, done := calleeMemo[c]
		if !done {
			if g = c.Common().StaticCallee(); g == nil {
				if _, isB := c.Common().Value.(*ssa.Builtin); !isB {
					g = calleeOf(c)
				}
			}
			calleeMemo[c] = g
		}
		if g != nil && inFns[g] {
			return g
		}
		return nil
	}
	delivered := false
	for changed := true; changed && !delivered; {
		changed = false
		mark := func(v ssa.Value) {
			if v != nil && !reached[v] {
				reached[v] = true
				changed = true
			}
		}
		markRoot := func(rt ssa.Value) {
			if rt == nil || roots[rt] {
				return
			}
			roots[rt] = true
			changed = true
			if p, ok := rt.(*ssa.Parameter); ok && p.Parent() == fn {
				if _, isPtr := p.Type().Underlying().(*types.Pointer); isPtr {
					delivered = true // written through a parameter: the caller's builder / record
				}
			}
		}
		for _, g := range fns {
			for _, b := range g.Blocks {
				for _, ins := range b.Instrs {
					hit := false
					for _, op := range ins.Operands(nil) {
						if *op == nil {
							continue
						}
						if reached[*op] {
							hit = true
						}
						// a pointer to (or into) an object that was written into
						switch (*op).Type().Underlying().(type) {
						case *types.Pointer, *types.Interface:
							if len(roots) > 0 && roots[rootOf(*op)] {
								hit = true
							}
						}
					}
					switch x := ins.(type) {
					case *ssa.Store:
						carries := reached[x.Val]
						switch x.Val.Type().Underlying().(type) {
						case *types.Pointer, *types.Interface:
							if len(roots) > 0 && roots[rootOf(x.Val)] {
								carries = true // a pointer to an object that was written into
							}
						}
						if carries {
							markRoot(rootOf(x.Addr))
						}
						continue
					case *ssa.MapUpdate:
						if reached[x.Value] || reached[x.Key] {
							markRoot(rootOf(x.Map))
							mark(x.Map)
						}
						continue
					case *ssa.Return:
						if g == fn {
							for _, res := range x.Results {
								// the object handed back is one that was written into
								switch objBase(res).Type().Underlying().(type) {
								case *types.Pointer, *types.Interface:
									if roots[rootOf(res)] {
										hit = true
									}
								}
							}
						}
						if hit && g == fn {
							delivered = true
						}
						if hit && g != fn {
							// a closure that returns the text: the closure's calls yield it; approximated by reaching the closure value
							for _, pf := range fns {
								for _, pb := range pf.Blocks {
									for _, pi := range pb.Instrs {
										if mc, ok := pi.(*ssa.MakeClosure); ok && mc.Fn == ssa.Value(g) {
											mark(mc)
										}
									}
								}
							}
						}
						continue
					case *ssa.UnOp:
						if x.Op == token.MUL && roots[rootOf(x.X)] {
							mark(x)
						}
					case *ssa.MakeClosure:
						for _, bnd := range x.Bindings {
							if roots[rootOf(bnd)] || reached[bnd] {
								mark(x)
							}
						}
					case *ssa.Slice, *ssa.IndexAddr, *ssa.FieldAddr:
						// addresses into a reached variable: loads through them are handled by the root test above
					case ssa.CallInstruction:
						// a method that writes into its receiver (builder.WriteString(text)): the receiver's variable is reached
						cc := x.Common()
						// a call of one of the function's own closures (directly, or through the variable that holds it): what is passed
						// for a parameter is what the closure's body works on
						if g := localCallee(x); g != nil {
							for i, a := range cc.Args {
								if i >= len(g.Params) {
									break
								}
								carries := reached[a]
								switch a.Type().Underlying().(type) {
								case *types.Pointer, *types.Interface:
									if len(roots) > 0 && roots[rootOf(a)] {
										carries = true
									}
								}
								if carries {
									mark(g.Params[i])
								}
							}
						}
						if hit && !cc.IsInvoke() && len(cc.Args) > 0 {
							if _, isPtr := cc.Args[0].Type().Underlying().(*types.Pointer); isPtr && !reached[cc.Args[0]] {
								for _, a := range cc.Args[1:] {
									if reached[a] {
										markRoot(rootOf(cc.Args[0]))
									}
								}
							}
						}
						// a call on a reached variable (builder.String())
						for _, a := range cc.Args {
							if _, isPtr := a.Type().Underlying().(*types.Pointer); isPtr && roots[rootOf(a)] {
								hit = true
							}
						}
					}
					if v, ok := ins.(ssa.Value); ok && hit && !isBool(v.Type()) {
						mark(v)
					}
					if v, ok := ins.(ssa.Value); ok {
						// a variadic argument list / array literal built from reached elements
						if sl, ok := v.(*ssa.Slice); ok && roots[rootOf(sl.X)] {
							mark(v)
						}
					}
				}
			}
		}
	}
	if dbg := os.Getenv("FINLINT_DEBUG_FLOW"); dbg != "" && strings.Contains(fn.String(), dbg) {
		fmt.Fprintf(os.Stderr, "FLOW %s src=%s (%s) delivered=%v\n", fn.Name(), src.Name(), src.String(), delivered)
		for rt := range roots {
			fmt.Fprintf(os.Stderr, "   root %s = %s\n", rt.Name(), rt.String())
		}
		for v := range reached {
			fmt.Fprintf(os.Stderr, "   reached %s = %s\n", v.Name(), v.String())
		}
	}
	return delivered
}

// keywordPresenceFlows: the accessor's result is tested for nil, and on the edge where the token is present a constant that spells
// the keyword can reach the function's result.
func keywordPresenceFlows(fn *ssa.Function, call ssa.Value, lit string) bool {
	lit = strings.Trim(lit, "'")
	if lit == "" {
		return false
	}
	return presenceConstFlows(fn, call, func(k *ssa.Const) bool {
		s, ok := constString(k)
		return ok && strings.Contains(s, lit)
	})
}

// presenceConstFlows: the accessor's result is tested for nil, and on the edge where the part is present a constant accepted by
// match can reach the function's result.
func presenceConstFlows(fn *ssa.Function, call ssa.Value, match func(*ssa.Const) bool) bool {
	for _, bb := range fn.Blocks {
		cond := branchCond(bb)
		if cond == nil {
			continue
		}
		v, nn, ok := nilTest(cond)
		if !ok || stripIdentity(v) != call {
			continue
		}
		for _, b := range fn.Blocks {
			for _, ins := range b.Instrs {
				for i, op := range ins.Operands(nil) {
					if *op == nil {
						continue
					}
					k, isConst := (*op).(*ssa.Const)
					if !isConst {
						continue
					}
					if !match(k) {
						continue
					}
					under := edgeDominates(bb, nn, b)
					if phi, isPhi := ins.(*ssa.Phi); isPhi && i < len(phi.Block().Preds) {
						p := phi.Block().Preds[i]
						under = edgeDominates(bb, nn, p) || (p == bb && bb.Succs[nn] == phi.Block())
					}
					if under && flowsToResult(fn, k) {
						return true
					}
				}
			}
		}
	}
	return false
}
