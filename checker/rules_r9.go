package main

// Rules written for round 9 of the seeded changes.

import (
	"fmt"
	"go/token"
	"go/types"
	"sort"
	"strings"

	"golang.org/x/tools/go/ssa"
)

// modelFieldOfAddr: v addresses (or loads) member F of a record type T of the model package: "T.F".
func modelFieldOfAddr(v ssa.Value) string {
	v = stripIdentity(v)
	if u, ok := v.(*ssa.UnOp); ok && u.Op == token.MUL {
		v = u.X
	}
	tn, f, pkg, ok := fieldOf(v)
	if !ok || !strings.HasSuffix(pkg, "/internal/model") {
		return ""
	}
	return tn + "." + f
}

type modelEffects struct {
	appends   map[*ssa.Function]string          // appends to a list member of the model (transitively): "T.F"
	mapWrites map[*ssa.Function]map[string]bool // inserts into a map member of the model (transitively)
	mapReads  map[*ssa.Function]map[string]bool // looks up in a map member of the model (transitively)
}

// modelEffectSummary: which functions of the model / parser packages extend a list of the model or insert into / look up in a table
// of the model, directly or through static calls and known closures.
func (w *World) modelEffectSummary() *modelEffects {
	me := &modelEffects{appends: map[*ssa.Function]string{}, mapWrites: map[*ssa.Function]map[string]bool{}, mapReads: map[*ssa.Function]map[string]bool{}}
	add := func(m map[*ssa.Function]map[string]bool, fn *ssa.Function, k string) bool {
		if m[fn] == nil {
			m[fn] = map[string]bool{}
		}
		if m[fn][k] {
			return false
		}
		m[fn][k] = true
		return true
	}
	var fns []*ssa.Function
	for _, fn := range w.srcFuncs {
		p := pkgOfFunc(fn)
		if p != w.Model && p != w.Parser {
			continue
		}
		fns = append(fns, fn)
		forEachInstr(fn, func(_ *ssa.BasicBlock, ins ssa.Instruction) {
			switch x := ins.(type) {
			case *ssa.Store:
				c, ok := x.Val.(*ssa.Call)
				if !ok {
					return
				}
				if bi, ok := c.Call.Value.(*ssa.Builtin); !ok || bi.Name() != "append" {
					return
				}
				if k := modelFieldOfAddr(x.Addr); k != "" {
					if _, isSl := x.Val.Type().Underlying().(*types.Slice); isSl && me.appends[fn] == "" {
						me.appends[fn] = k
					}
				}
			case *ssa.MapUpdate:
				if k := modelFieldOfAddr(x.Map); k != "" {
					add(me.mapWrites, fn, k)
				}
			case *ssa.Lookup:
				if _, isMap := x.X.Type().Underlying().(*types.Map); isMap {
					if k := modelFieldOfAddr(x.X); k != "" {
						add(me.mapReads, fn, k)
					}
				}
			}
		})
	}
	for changed := true; changed; {
		changed = false
		for _, fn := range fns {
			forEachInstr(fn, func(_ *ssa.BasicBlock, ins ssa.Instruction) {
				c, ok := ins.(ssa.CallInstruction)
				if !ok {
					return
				}
				f := c.Common().StaticCallee()
				if f == nil && !c.Common().IsInvoke() {
					f = closureTarget(c.Common().Value, 0)
				}
				if f == nil || f == fn {
					return
				}
				if a := me.appends[f]; a != "" && me.appends[fn] == "" {
					me.appends[fn] = a
					changed = true
				}
				for k := range me.mapWrites[f] {
					if add(me.mapWrites, fn, k) {
						changed = true
					}
				}
				for k := range me.mapReads[f] {
					if add(me.mapReads, fn, k) {
						changed = true
					}
				}
			})
		}
	}
	return me
}

// mapLoopModelEffects (C13/map-order): inside a range over a map
//   - a call that extends a list of the model (the diagnostics, the packets, a field list) leaves the list in iteration order;
//   - a table of the model that is looked up in the loop and inserted into by the loop (other than the ranged map itself) makes
//     what an iteration finds depend on the iterations before it (aliases of aliases resolved in one pass over a map).
func mapLoopModelEffects(w *World, fn *ssa.Function, lp rangeLoop, me *modelEffects) []string {
	var bad []string
	ranged := modelFieldOfAddr(lp.Range.X)
	reads, writes := map[string]string{}, map[string]string{}
	for _, b := range fn.Blocks {
		if !lp.Blocks[b] {
			continue
		}
		for _, ins := range b.Instrs {
			switch x := ins.(type) {
			case *ssa.Lookup:
				if _, isMap := x.X.Type().Underlying().(*types.Map); isMap {
					if k := modelFieldOfAddr(x.X); k != "" && reads[k] == "" {
						reads[k] = w.instrPos(ins)
					}
				}
			case *ssa.MapUpdate:
				if k := modelFieldOfAddr(x.Map); k != "" && writes[k] == "" {
					writes[k] = w.instrPos(ins)
				}
			case ssa.CallInstruction:
				f := x.Common().StaticCallee()
				if f == nil && !x.Common().IsInvoke() {
					f = closureTarget(x.Common().Value, 0)
				}
				if f == nil {
					continue
				}
				if a := me.appends[f]; a != "" {
					bad = append(bad, fmt.Sprintf("call to %s, which appends to the list %s of the model: the list ends up in iteration order (at %s)", fnKey(f), a, w.instrPos(ins)))
				}
				for k := range me.mapReads[f] {
					if reads[k] == "" {
						reads[k] = w.instrPos(ins)
					}
				}
				for k := range me.mapWrites[f] {
					if writes[k] == "" {
						writes[k] = w.instrPos(ins)
					}
				}
			}
		}
	}
	var ks []string
	for k := range reads {
		ks = append(ks, k)
	}
	sort.Strings(ks)
	for _, k := range ks {
		if k == ranged || writes[k] == "" {
			continue
		}
		bad = append(bad, fmt.Sprintf("the table %s is looked up (at %s) and inserted into (at %s) inside the loop: what one iteration finds depends on which iterations ran before it", k, reads[k], writes[k]))
	}
	return uniqStrings(bad)
}

// foreignNameKey (C13/map-order): the key of a map insert inside a range over a map is the name of *another* declared entity the
// element refers to (its key field, the packet it names) - reached from the element through a pointer member whose target is a
// Field or a Packet. Two elements can refer to the same entity; which of them keeps the slot then depends on the iteration order.
func foreignNameKey(w *World, lp rangeLoop, key ssa.Value, taint map[ssa.Value]bool) string {
	v := stripIdentity(key)
	for i := 0; i < 12 && v != nil; i++ {
		switch x := v.(type) {
		case *ssa.UnOp:
			if x.Op != token.MUL {
				return ""
			}
			v = stripIdentity(x.X)
		case *ssa.FieldAddr:
			base := stripIdentity(x.X)
			// the record whose member is read: was the pointer to it loaded from a pointer member of another record?
			if ld, ok := base.(*ssa.UnOp); ok && ld.Op == token.MUL {
				if fa, ok := stripIdentity(ld.X).(*ssa.FieldAddr); ok && taint[ld] {
					tn, f, pkg, ok := fieldOf(fa)
					if ok && strings.HasSuffix(pkg, "/internal/model") {
						if pt, isPtr := ld.Type().Underlying().(*types.Pointer); isPtr {
							if n := modelTypeName(pt.Elem()); n == "Field" || n == "Packet" {
								return tn + "." + f
							}
						}
					}
				}
			}
			v = base
		case *ssa.TypeAssert:
			v = stripIdentity(x.X)
		case *ssa.Extract:
			return ""
		default:
			return ""
		}
	}
	return ""
}

func mapLoopForeignKeys(w *World, fn *ssa.Function, lp rangeLoop) []string {
	var bad []string
	taint := iterTaint(fn, lp.Next)
	for _, b := range fn.Blocks {
		if !lp.Blocks[b] {
			continue
		}
		for _, ins := range b.Instrs {
			mu, ok := ins.(*ssa.MapUpdate)
			if !ok || !definedOutsideLoop(lp, mu.Map) || !taint[mu.Key] {
				continue
			}
			if via := foreignNameKey(w, lp, mu.Key, taint); via != "" {
				bad = append(bad, fmt.Sprintf("map insert under the name of another entity the element refers to (through %s): two elements can refer to the same one, and which of them keeps the slot depends on the iteration order (at %s)", via, w.instrPos(ins)))
			}
		}
	}
	return bad
}
