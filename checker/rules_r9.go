package main

// Rules written for round 9 of the seeded changes.

import (
	"fmt"
	"go/token"
	"go/types"
	"sort"
	"strings"

	"golang.org/x/tools/go/ssa"
)

// modelFieldOfAddr: v addresses (or loads) member F of a record type T of the model package: "T.F".
func modelFieldOfAddr(v ssa.Value) string {
	v = stripIdentity(v)
	if u, ok := v.(*ssa.UnOp); ok && u.Op == token.MUL {
		v = u.X
	}
	tn, f, pkg, ok := fieldOf(v)
	if !ok || !strings.HasSuffix(pkg, "/internal/model") {
		return ""
	}
	return tn + "." + f
}

type modelEffects struct {
	appends   map[*ssa.Function]string          // appends to a list member of the model (transitively): "T.F"
	mapWrites map[*ssa.Function]map[string]bool // inserts into a map member of the model (transitively)
	mapReads  map[*ssa.Function]map[string]bool // looks up in a map member of the model (transitively)
}

// modelEffectSummary: which functions of the model / parser packages extend a list of the model or insert into / look up in a table
// of the model, directly or through static calls and known closures.
func (w *World) modelEffectSummary() *modelEffects {
	me := &modelEffects{appends: map[*ssa.Function]string{}, mapWrites: map[*ssa.Function]map[string]bool{}, mapReads: map[*ssa.Function]map[string]bool{}}
	add := func(m map[*ssa.Function]map[string]bool, fn *ssa.Function, k string) bool {
		if m[fn] == nil {
			m[fn] = map[string]bool{}
		}
		if m[fn][k] {
			return false
		}
		m[fn][k] = true
		return true
	}
	var fns []*ssa.Function
	for _, fn := range w.srcFuncs {
		p := pkgOfFunc(fn)
		if p != w.Model && p != w.Parser {
			continue
		}
		fns = append(fns, fn)
		forEachInstr(fn, func(_ *ssa.BasicBlock, ins ssa.Instruction) {
			switch x := ins.(type) {
			case *ssa.Store:
				c, ok := x.Val.(*ssa.Call)
				if !ok {
					return
				}
				if bi, ok := c.Call.Value.(*ssa.Builtin); !ok || bi.Name() != "append" {
					return
				}
				if k := modelFieldOfAddr(x.Addr); k != "" {
					if _, isSl := x.Val.Type().Underlying().(*types.Slice); isSl && me.appends[fn] == "" {
						me.appends[fn] = k
					}
				}
			case *ssa.MapUpdate:
				if k := modelFieldOfAddr(x.Map); k != "" {
					add(me.mapWrites, fn, k)
				}
			case *ssa.Lookup:
				if _, isMap := x.X.Type().Underlying().(*types.Map); isMap {
					if k := modelFieldOfAddr(x.X); k != "" {
						add(me.mapReads, fn, k)
					}
				}
			}
		})
	}
	for changed := true; changed; {
		changed = false
		for _, fn := range fns {
			forEachInstr(fn, func(_ *ssa.BasicBlock, ins ssa.Instruction) {
				c, ok := ins.(ssa.CallInstruction)
				if !ok {
					return
				}
				f := c.Common().StaticCallee()
				if f == nil && !c.Common().IsInvoke() {
					f = closureTarget(c.Common().Value, 0)
				}
				if f == nil || f == fn {
					return
				}
				if a := me.appends[f]; a != "" && me.appends[fn] == "" {
					me.appends[fn] = a
					changed = true
				}
				for k := range me.mapWrites[f] {
					if add(me.mapWrites, fn, k) {
						changed = true
					}
				}
				for k := range me.mapReads[f] {
					if add(me.mapReads, fn, k) {
						changed = true
					}
				}
			})
		}
	}
	return me
}

// mapLoopModelEffects (C13/map-order): inside a range over a map
//   - a call that extends a list of the model (the diagnostics, the packets, a field list) leaves the list in iteration order;
//   - a table of the model that is looked up in the loop and inserted into by the loop (other than the ranged map itself) makes
//     what an iteration finds depend on the iterations before it (aliases of aliases resolved in one pass over a map).
func mapLoopModelEffects(w *World, fn *ssa.Function, lp rangeLoop, me *modelEffects) []string {
	var bad []string
	ranged := modelFieldOfAddr(lp.Range.X)
	reads, writes := map[string]string{}, map[string]string{}
	for _, b := range fn.Blocks {
		if !lp.Blocks[b] {
			continue
		}
		for _, ins := range b.Instrs {
			switch x := ins.(type) {
			case *ssa.Lookup:
				if _, isMap := x.X.Type().Underlying().(*types.Map); isMap {
					if k := modelFieldOfAddr(x.X); k != "" && reads[k] == "" {
						reads[k] = w.instrPos(ins)
					}
				}
			case *ssa.MapUpdate:
				if k := modelFieldOfAddr(x.Map); k != "" && writes[k] == "" {
					writes[k] = w.instrPos(ins)
				}
			case ssa.CallInstruction:
				f := x.Common().StaticCallee()
				if f == nil && !x.Common().IsInvoke() {
					f = closureTarget(x.Common().Value, 0)
				}
				if f == nil {
					continue
				}
				if a := me.appends[f]; a != "" {
					bad = append(bad, fmt.Sprintf("call to %s, which appends to the list %s of the model: the list ends up in iteration order (at %s)", fnKey(f), a, w.instrPos(ins)))
				}
				for k := range me.mapReads[f] {
					if reads[k] == "" {
						reads[k] = w.instrPos(ins)
					}
				}
				for k := range me.mapWrites[f] {
					if writes[k] == "" {
						writes[k] = w.instrPos(ins)
					}
				}
			}
		}
	}
	var ks []string
	for k := range reads {
		ks = append(ks, k)
	}
	sort.Strings(ks)
	for _, k := range ks {
		if k == ranged || writes[k] == "" {
			continue
		}
		bad = append(bad, fmt.Sprintf("the table %s is looked up (at %s) and inserted into (at %s) inside the loop: what one iteration finds depends on which iterations ran before it", k, reads[k], writes[k]))
	}
	return uniqStrings(bad)
}

// foreignNameKey (C13/map-order): the key of a map insert inside a range over a map is the name of *another* declared entity the
// element refers to (its key field, the packet it names) - reached from the element through a pointer member whose target is a
// Field or a Packet. Two elements can refer to the same entity; which of them keeps the slot then depends on the iteration order.
func foreignNameKey(w *World, lp rangeLoop, key ssa.Value, taint map[ssa.Value]bool) string {
	v := stripIdentity(key)
	for i := 0; i < 12 && v != nil; i++ {
		switch x := v.(type) {
		case *ssa.UnOp:
			if x.Op != token.MUL {
				return ""
			}
			v = stripIdentity(x.X)
		case *ssa.FieldAddr:
			base := stripIdentity(x.X)
			// the record whose member is read: was the pointer to it loaded from a pointer member of another record?
			if ld, ok := base.(*ssa.UnOp); ok && ld.Op == token.MUL {
				if fa, ok := stripIdentity(ld.X).(*ssa.FieldAddr); ok && taint[ld] {
					tn, f, pkg, ok := fieldOf(fa)
					if ok && strings.HasSuffix(pkg, "/internal/model") {
						if pt, isPtr := ld.Type().Underlying().(*types.Pointer); isPtr {
							if n := modelTypeName(pt.Elem()); n == "Field" || n == "Packet" {
								return tn + "." + f
							}
						}
					}
				}
			}
			v = base
		case *ssa.TypeAssert:
			v = stripIdentity(x.X)
		case *ssa.Extract:
			return ""
		default:
			return ""
		}
	}
	return ""
}

func mapLoopForeignKeys(w *World, fn *ssa.Function, lp rangeLoop) []string {
	var bad []string
	taint := iterTaint(fn, lp.Next)
	for _, b := range fn.Blocks {
		if !lp.Blocks[b] {
			continue
		}
		for _, ins := range b.Instrs {
			mu, ok := ins.(*ssa.MapUpdate)
			if !ok || !definedOutsideLoop(lp, mu.Map) || !taint[mu.Key] {
				continue
			}
			if via := foreignNameKey(w, lp, mu.Key, taint); via != "" {
				bad = append(bad, fmt.Sprintf("map insert under the name of another entity the element refers to (through %s): two elements can refer to the same one, and which of them keeps the slot depends on the iteration order (at %s)", via, w.instrPos(ins)))
			}
		}
	}
	return bad
}

// C16/format-cli "the formatter is the only judge of the input": between the command line (or the C export) and
// parser.FormatPacketDsl nothing else parses the input. A second verdict - the compiler's ParseFile in front of `format -f`, "to
// report broken files the way compile does" - makes the entry point refuse (or decorate) texts the library function formats: the
// model visitor knows diagnostics the formatter does not (duplicate names, undeclared references, option values).
func c16FormatOnlyJudge(w *World, r *Report) {
	const rule = "C16/format-cli"
	target := w.Parser.Func("FormatPacketDsl")
	if target == nil {
		return
	}
	reachesParse := func(g *ssa.Function) bool {
		for f := range w.reachable([]*ssa.Function{g}, func(f *ssa.Function) bool { return w.isRepoLike(f) }) {
			if f.Name() == "Packet" && f.Signature.Recv() != nil && strings.Contains(f.Signature.Recv().Type().String(), "PacketDslParser") {
				return true
			}
		}
		return false
	}
	inCmd := func(f *ssa.Function) bool { return f != nil && pkgOfFunc(f) == w.Cmd && f.Blocks != nil }
	for _, run := range w.findCmdFuncCalling(parserPath + ".FormatPacketDsl") {
		// the entry point above run: the function stored in a cobra.Command, or the exported function itself
		top := run
		for depth := 0; depth < 4 && runFieldOf(w, top) == ""; depth++ {
			var callers []*ssa.Function
			for _, g := range w.srcFuncs {
				if !inCmd(g) {
					continue
				}
				forEachInstr(g, func(_ *ssa.BasicBlock, ins ssa.Instruction) {
					if c, ok := ins.(ssa.CallInstruction); ok && c.Common().StaticCallee() == top {
						callers = append(callers, g)
					}
				})
			}
			if len(callers) != 1 || callers[0] == top {
				break
			}
			top = callers[0]
		}
		unit := map[*ssa.Function]bool{}
		var order []*ssa.Function
		var visit func(f *ssa.Function)
		visit = func(f *ssa.Function) {
			if unit[f] || !inCmd(f) {
				return
			}
			unit[f] = true
			order = append(order, f)
			for _, a := range f.AnonFuncs {
				visit(a)
			}
			forEachInstr(f, func(_ *ssa.BasicBlock, ins ssa.Instruction) {
				if c, ok := ins.(ssa.CallInstruction); ok {
					g := c.Common().StaticCallee()
					if g == nil && !c.Common().IsInvoke() {
						g = closureTarget(c.Common().Value, 0)
					}
					if g != nil {
						visit(g)
					}
				}
			})
		}
		visit(top)
		var bad []string
		n := 0
		for _, f := range order {
			forEachInstr(f, func(_ *ssa.BasicBlock, ins ssa.Instruction) {
				c, ok := ins.(ssa.CallInstruction)
				if !ok {
					return
				}
				g := c.Common().StaticCallee()
				if g == nil || g == target || !w.isSubjectFunc(g) || pkgOfFunc(g) == w.Cmd {
					return
				}
				n++
				if reachesParse(g) {
					bad = append(bad, fmt.Sprintf("%s calls %s at %s", fnKey(f), fnKey(g), w.instrPos(ins)))
				}
			})
		}
		key := "the formatter is the only judge of the input (" + fnKey(top) + ")"
		if len(bad) > 0 {
			r.fail(rule, key, w.pos(top.Pos()), "on the way to FormatPacketDsl the input is parsed a second time by something else: the entry point can refuse (or report on) a text the library function formats - "+strings.Join(bad, "; "))
		} else {
			r.pass(rule, key, w.pos(top.Pos()), fmt.Sprintf("%d function(s) in the entry point's unit, %d call(s) into the library besides FormatPacketDsl, none parses", len(order), n))
		}
	}
}

// */field-text-independent-of-siblings (C01, C02, C03, C06): inside an emitter's loop over Packet.Fields, text made from the current
// member (its type, its algorithm, its name) is not emitted under a boolean that an earlier iteration has set. A "declared already"
// flag around `auto service = ...get<ByteBuf, T>("ALG")` emits the look-up of the first checksum member only; the second is
// calculated with the first one's algorithm and width. Constant text under such a flag (separators) is the normal use and passes.
func fieldTextIndependentOfSiblings(w *World, r *Report, prop string) {
	rule := prop + "/field-text-independent-of-siblings"
	n := 0
	var fns []*ssa.Function
	for _, fn := range w.srcFuncs {
		if isGeneratorFunc(fn) && fn.Blocks != nil {
			fns = append(fns, fn)
		}
	}
	sort.Slice(fns, func(i, j int) bool { return fnKey(fns[i]) < fnKey(fns[j]) })
	for _, fn := range fns {
		for li, loop := range fieldLoops(fn) {
			// the current member and everything made from it
			taint := map[ssa.Value]bool{}
			var work []ssa.Value
			push := func(v ssa.Value) {
				if v != nil && !taint[v] {
					taint[v] = true
					work = append(work, v)
				}
			}
			forEachInstr(fn, func(b *ssa.BasicBlock, ins ssa.Instruction) {
				ia, ok := ins.(*ssa.IndexAddr)
				if !ok || !loop.blocks[b] {
					return
				}
				if ld, ok := stripIdentity(ia.X).(*ssa.UnOp); ok {
					if fa, ok := ld.X.(*ssa.FieldAddr); ok {
						if tn, f, _, _ := fieldOf(fa); tn == "Packet" && f == "Fields" {
							push(ia)
						}
					}
				}
			})
			for len(work) > 0 {
				v := work[len(work)-1]
				work = work[:len(work)-1]
				if v.Referrers() == nil {
					continue
				}
				for _, ref := range *v.Referrers() {
					if !loop.blocks[ref.Block()] {
						continue
					}
					switch x := ref.(type) {
					case *ssa.Store:
						if x.Val == v {
							push(valueRoot(x.Addr))
							push(x.Addr)
						}
					case *ssa.If, *ssa.Return, *ssa.MapUpdate, *ssa.DebugRef:
					case ssa.Value:
						if ph, ok := x.(*ssa.Phi); ok && ph.Block() == loop.header {
							continue
						}
						push(x)
					}
				}
			}
			for _, ins := range loop.header.Instrs {
				phi, ok := ins.(*ssa.Phi)
				if !ok {
					break
				}
				if bt, ok := phi.Type().Underlying().(*types.Basic); !ok || bt.Kind() != types.Bool {
					continue
				}
				carried := false
				for i, e := range phi.Edges {
					if loop.blocks[loop.header.Preds[i]] && e != ssa.Value(phi) {
						carried = true
					}
				}
				if !carried {
					continue
				}
				n++
				name := phi.Comment
				if name == "" {
					name = "a flag"
				}
				key := fmt.Sprintf("%s: field loop #%d emits nothing made from the current member under a flag set by an earlier member", fnKey(fn), li+1)
				bad := ""
				for _, b := range fn.Blocks {
					if !loop.blocks[b] {
						continue
					}
					cond := branchCond(b)
					if cond == nil {
						continue
					}
					c := cond
					if u, ok := c.(*ssa.UnOp); ok && u.Op == token.NOT {
						c = u.X
					}
					if c != ssa.Value(phi) {
						continue
					}
					for s := 0; s < 2 && bad == ""; s++ {
						for _, d := range fn.Blocks {
							if !loop.blocks[d] || !edgeDominates(b, s, d) {
								continue
							}
							for _, di := range d.Instrs {
								call, ok := di.(*ssa.Call)
								if !ok {
									continue
								}
								emits := isStringType(call.Type())
								if f := call.Call.StaticCallee(); f != nil && (builderWriters[f.String()] || fprintFuncs[f.String()]) {
									emits = true
								}
								if !emits {
									continue
								}
								for _, a := range call.Call.Args {
									if taint[a] || taint[valueRoot(a)] {
										bad = fmt.Sprintf("%s (carried around the loop at %s) decides at %s whether text made from the current member is emitted (%s at %s): what is emitted for a member depends on the members declared before it", name, w.instrPos(phi), w.instrPos(b.Instrs[len(b.Instrs)-1]), calleeName(call), w.instrPos(call))
									}
								}
							}
						}
					}
				}
				if bad == "" {
					r.pass(rule, key+" ("+name+")", w.instrPos(phi), "")
				} else {
					r.fail(rule, key+" ("+name+")", w.instrPos(phi), bad)
				}
			}
		}
	}
	r.note("%s: %d loop-carried flags in loops over Packet.Fields", rule, n)
}

// */metadata-by-type-not-by-name (C01, C04, C06, C08): the MetaData table maps *type* names to attributes. Looking it up under the
// *name* of a member is right only for a declaration that has no type of its own (`BodyLen @lengthOf(Body),` - the grammar's
// `type? name=IDENTIFIER`): where a type is written, it decides the width. A lookup keyed by the name token that is not confined to
// the "no type written" edge gives `u16 BodyLen @lengthOf(Body)` the width of an unrelated entry that happens to be called BodyLen -
// and the prefixed spelling `@lengthOf(Body) u16 BodyLen` another one.
func metadataByTypeNotByName(w *World, r *Report, prop string) {
	rule := prop + "/metadata-by-type-not-by-name"
	hasTypeChild := func(t types.Type) bool {
		ms := types.NewMethodSet(t)
		for i := 0; i < ms.Len(); i++ {
			if ms.At(i).Obj().Name() == "Type_" {
				return true
			}
		}
		return false
	}
	methodCall := func(v ssa.Value) (name string, recv ssa.Value) {
		c, ok := stripIdentity(v).(*ssa.Call)
		if !ok {
			return "", nil
		}
		if c.Call.IsInvoke() {
			return c.Call.Method.Name(), c.Call.Value
		}
		if f := c.Call.StaticCallee(); f != nil && f.Signature.Recv() != nil && len(c.Call.Args) > 0 {
			return f.Name(), c.Call.Args[0]
		}
		return "", nil
	}
	noTypeEdge := func(blk *ssa.BasicBlock) bool {
		for _, b := range blk.Parent().Blocks {
			cond := branchCond(b)
			if cond == nil {
				continue
			}
			x, nn, ok := nilTest(cond)
			if !ok {
				continue
			}
			if !edgeDominates(b, 1-nn, blk) {
				continue
			}
			if m, _ := methodCall(x); m == "Type_" {
				return true
			}
			// the tested value is a parameter that every call site binds to the declaration's type child
			if pa, isP := stripIdentity(x).(*ssa.Parameter); isP {
				fn := pa.Parent()
				idx := -1
				for i, q := range fn.Params {
					if q == pa {
						idx = i
					}
				}
				sites, all := 0, true
				for _, g := range theWorld.srcFuncs {
					forEachInstr(g, func(_ *ssa.BasicBlock, ins ssa.Instruction) {
						c, ok := ins.(ssa.CallInstruction)
						if !ok || c.Common().StaticCallee() != fn || idx >= len(c.Common().Args) {
							return
						}
						sites++
						if m, _ := methodCall(c.Common().Args[idx]); m != "Type_" {
							all = false
						}
					})
				}
				if sites > 0 && all {
					return true
				}
			}
		}
		return false
	}
	type origin struct {
		fn   *ssa.Function
		what string
		ok   bool
		pos  string
	}
	subj := map[*ssa.Function]bool{}
	for _, fn := range parsePhaseFuncs(w) {
		subj[fn] = true
	}
	var originsOf func(v ssa.Value, at *ssa.BasicBlock, depth int, seen map[ssa.Value]bool) []origin
	originsOf = func(v ssa.Value, at *ssa.BasicBlock, depth int, seen map[ssa.Value]bool) []origin {
		v = stripIdentity(v)
		if depth > 4 || seen[v] {
			return nil
		}
		seen[v] = true
		switch x := v.(type) {
		case *ssa.Phi:
			var out []origin
			for _, e := range x.Edges {
				out = append(out, originsOf(e, at, depth, seen)...)
			}
			return out
		case *ssa.Parameter:
			fn := x.Parent()
			idx := -1
			for i, p := range fn.Params {
				if p == x {
					idx = i
				}
			}
			var out []origin
			for g := range subj {
				forEachInstr(g, func(b *ssa.BasicBlock, ins ssa.Instruction) {
					c, ok := ins.(ssa.CallInstruction)
					if !ok || c.Common().StaticCallee() != fn || idx >= len(c.Common().Args) {
						return
					}
					out = append(out, originsOf(c.Common().Args[idx], b, depth+1, seen)...)
				})
			}
			return out
		case *ssa.UnOp:
			if x.Op == token.MUL {
				if tn, f, pkg, ok := fieldOf(x.X); ok && strings.HasSuffix(pkg, "/internal/model") && tn == "Field" && f == "Name" {
					return []origin{{at.Parent(), "Field.Name", noTypeEdge(at), w.instrPos(x)}}
				}
			}
		case *ssa.Call:
			if m, recv := methodCall(x); m == "GetText" {
				if m2, recv2 := methodCall(recv); m2 == "GetName" && recv2 != nil && hasTypeChild(recv2.Type()) {
					return []origin{{at.Parent(), "the name token of a declaration that may carry a type", noTypeEdge(at), w.instrPos(x)}}
				}
			}
		}
		return nil
	}
	n := 0
	for _, fn := range parsePhaseFuncs(w) {
		forEachInstr(fn, func(b *ssa.BasicBlock, ins ssa.Instruction) {
			lk, ok := ins.(*ssa.Lookup)
			if !ok || modelFieldOfAddr(lk.X) != "BinaryModel.MetaDataMap" {
				return
			}
			for _, o := range originsOf(lk.Index, b, 0, map[ssa.Value]bool{}) {
				if !o.ok && noTypeEdge(b) {
					o.ok = true // the guard sits in the helper that holds the look-up
				}
				if !o.ok && usesConfined(lk, noTypeEdge, o.fn) {
					o.ok = true // the table is asked first, the answer is used only where no type is written
				}
				if want := map[string]string{"C04": "LengthFieldAttribute", "C06": "CheckSumFieldAttribute"}[prop]; want != "" {
					builds := false
					forEachInstr(o.fn, func(_ *ssa.BasicBlock, i2 ssa.Instruction) {
						if al, ok := i2.(*ssa.Alloc); ok && modelTypeName(al.Type().(*types.Pointer).Elem()) == want {
							builds = true
						}
					})
					if !builds {
						continue
					}
				}
				n++
				key := fnKey(o.fn) + ": the MetaData table is consulted under a member's name only where no type is written"
				if o.ok {
					r.pass(rule, key, o.pos, o.what)
				} else {
					r.fail(rule, key, o.pos, "the MetaData table is looked up (at "+w.instrPos(lk)+") under "+o.what+" on a path that is not the \"no type written\" edge: a type written in the declaration loses to an unrelated MetaData entry of the member's name, and the two spellings of an attribute (in front of / behind the member) compile differently")
				}
			}
		})
	}
	r.note("%s: %d name-keyed lookups in the MetaData table", rule, n)
}

// mentionsFieldThroughLen: mentionsField, also through len() / cap() of the member.
func mentionsFieldThroughLen(v ssa.Value, name string, depth int) bool {
	if depth > 8 || v == nil {
		return false
	}
	switch x := v.(type) {
	case *ssa.Call:
		if bi, ok := x.Call.Value.(*ssa.Builtin); ok && (bi.Name() == "len" || bi.Name() == "cap") && len(x.Call.Args) == 1 {
			return mentionsFieldThroughLen(x.Call.Args[0], name, depth+1)
		}
		return false
	case *ssa.BinOp:
		return mentionsFieldThroughLen(x.X, name, depth+1) || mentionsFieldThroughLen(x.Y, name, depth+1)
	case *ssa.UnOp:
		return mentionsFieldThroughLen(x.X, name, depth+1)
	}
	return mentionsField(v, name, depth)
}

// C11|C12/resolver-descends-into-inline-objects: the pass that resolves the packet a member names (a checked look-up in the packet
// table whose miss edge records a diagnostic) also looks at the members of inline objects: somewhere in its unit the field list of an
// object attribute's packet (`attr.RefPacket.Fields`) is read. The visitor may store an unchecked look-up first (a forward reference
// is nil then) because this pass comes after it - for every member the pass reaches. Without the descent, `Leg { Undeclared x, }`
// is accepted and every generator dereferences the nil link.
func resolverDescendsIntoInline(w *World, r *Report, prop string) {
	rule := prop + "/resolver-descends-into-inline-objects"
	var resolvers []*ssa.Function
	for _, fn := range parsePhaseFuncs(w) {
		isRes := false
		forEachInstr(fn, func(b *ssa.BasicBlock, ins ssa.Instruction) {
			lk, ok := ins.(*ssa.Lookup)
			if !ok || !lk.CommaOk || modelFieldOfAddr(lk.X) != "BinaryModel.PacketsMap" {
				return
			}
			// keyed by the packet name of an object attribute
			if !mentionsField(lk.Index, "PacketName", 0) {
				return
			}
			var okFlag ssa.Value
			if lk.Referrers() != nil {
				for _, ref := range *lk.Referrers() {
					if e, isE := ref.(*ssa.Extract); isE && e.Index == 1 {
						okFlag = e
					}
				}
			}
			if okFlag == nil {
				return
			}
			for _, bb := range fn.Blocks {
				c := branchCond(bb)
				if c == nil {
					continue
				}
				miss := -1
				if sameValue(c, okFlag) {
					miss = 1
				} else if u, isU := c.(*ssa.UnOp); isU && u.Op == token.NOT && sameValue(u.X, okFlag) {
					miss = 0
				}
				if miss < 0 {
					continue
				}
				for _, d := range fn.Blocks {
					if !edgeDominates(bb, miss, d) {
						continue
					}
					for _, di := range d.Instrs {
						if isAddSyntaxError(di) {
							isRes = true
						}
					}
				}
			}
		})
		if isRes {
			resolvers = append(resolvers, fn)
		}
	}
	if len(resolvers) == 0 {
		r.pass(rule, "a resolving pass over object members", "internal/model/model.go", "no routine resolves object members by a checked look-up with a diagnostic on the miss edge: judged by C12/resolution")
		return
	}
	for _, res := range resolvers {
		// the unit of the pass: the resolver, what it calls, and what its callers call (a walker that hands it each member)
		roots := []*ssa.Function{res}
		top := res
		for top.Parent() != nil {
			top = top.Parent()
			roots = append(roots, top)
		}
		if n := w.CallGraph().Nodes[top]; n != nil {
			for _, e := range n.In {
				if c := e.Caller.Func; c != nil && w.isSubjectFunc(c) && pkgOfFunc(c) != w.Cmd {
					// a caller that is a closure (the body of a range-over-func loop, a callback handed to a walker) stands for the
					// function it is written in
					for ; c != nil; c = c.Parent() {
						roots = append(roots, c)
					}
				}
			}
		}
		unit := w.subjectsOnly(w.reachable(roots, func(f *ssa.Function) bool { return w.isSubjectFunc(f) && !isGeneratorFunc(f) }))
		for _, f := range roots {
			unit[f] = true
		}
		descends := ""
		for _, fn := range sortedFuncs(unit) {
			if recvNamedCore(fn) == "PacketDslVisitorImpl" || recvNamedCore(fn) == "PacketDslFormattor" {
				continue // the tree walk builds the inline object; it is not the resolving pass
			}
			forEachInstr(fn, func(_ *ssa.BasicBlock, ins ssa.Instruction) {
				fa, ok := ins.(*ssa.FieldAddr)
				if !ok || descends != "" {
					return
				}
				if tn, f, _, _ := fieldOf(fa); tn != "Packet" || f != "Fields" {
					return
				}
				if mentionsField(fa.X, "RefPacket", 0) {
					descends = fnKey(fn) + " at " + w.instrPos(fa)
				}
			})
		}
		key := fnKey(res) + ": the pass that resolves object members reaches the members of inline objects"
		if descends != "" {
			r.pass(rule, key, w.pos(res.Pos()), "reads RefPacket.Fields in "+descends)
		} else {
			r.fail(rule, key, w.pos(res.Pos()), "nothing in the unit of this pass reads the field list of an object attribute's packet (RefPacket.Fields): the members of inline objects are never resolved or checked - an undeclared (or later declared) packet named inside an inline object stays a nil link that every generator dereferences")
		}
	}
}


// usesConfined: every use of what a look-up yields - followed through its components, copies, and the results of the helper that
// performs it, to the helper's call sites - other than passing it on, comparing it or branching on it lies in a block for which
// guarded holds. At least one such use must exist.
func usesConfined(lk ssa.Value, guarded func(*ssa.BasicBlock) bool, onlyIn *ssa.Function) bool {
	seen := map[ssa.Value]bool{}
	work := []ssa.Value{lk}
	real, ok := 0, true
	for len(work) > 0 && ok {
		v := work[len(work)-1]
		work = work[:len(work)-1]
		if seen[v] || v.Referrers() == nil {
			continue
		}
		seen[v] = true
		for _, ref := range *v.Referrers() {
			switch x := ref.(type) {
			case *ssa.DebugRef, *ssa.If:
			case *ssa.Extract:
				work = append(work, x)
			case *ssa.Phi:
				work = append(work, x)
			case *ssa.Store:
				// a record spilled to a local: its later loads stand for it
				if al, isAl := x.Addr.(*ssa.Alloc); isAl && x.Val == v && !al.Heap {
					work = append(work, al)
				} else if x.Addr == v {
					// the spill itself
				} else {
					real++
					if !guarded(x.Block()) {
						ok = false
					}
				}
			case *ssa.UnOp:
				if x.Op == token.MUL {
					work = append(work, x)
				} else {
					real++
					if !guarded(x.Block()) {
						ok = false
					}
				}
			case *ssa.FieldAddr:
				work = append(work, x)
			case *ssa.Field:
				work = append(work, x)
			case *ssa.MakeInterface:
				work = append(work, x)
			case *ssa.ChangeInterface:
				work = append(work, x)
			case *ssa.ChangeType:
				work = append(work, x)
			case *ssa.BinOp:
				if x.Op == token.EQL || x.Op == token.NEQ {
					continue
				}
				real++
				if !guarded(x.Block()) {
					ok = false
				}
			case *ssa.Return:
				fn := x.Parent()
				for i, res := range x.Results {
					if res != v {
						continue
					}
					for _, g := range theWorld.srcFuncs {
						if onlyIn != nil && g != onlyIn && fn.Parent() == nil && x.Parent() == lk.(ssa.Instruction).Parent() {
							continue // the call sites that hand in the name under judgement
						}
						forEachInstr(g, func(_ *ssa.BasicBlock, ins ssa.Instruction) {
							c, isC := ins.(*ssa.Call)
							if !isC || c.Call.StaticCallee() != fn {
								return
							}
							if len(x.Results) == 1 {
								work = append(work, c)
							} else if c.Referrers() != nil {
								for _, e := range *c.Referrers() {
									if ex, isE := e.(*ssa.Extract); isE && ex.Index == i {
										work = append(work, ex)
									}
								}
							}
						})
					}
				}
			default:
				real++
				if !guarded(ref.Block()) {
					ok = false
				}
			}
		}
	}
	return ok && real > 0
}

// C09/token-text-not-substituted: in the formatter's unit (its visitor methods and the parser-package helpers they call) the text of
// a token is never replaced by another constant under a test of that very text (`if pad == "'\\x00'" { pad = "'\x00'" }`): the
// formatter prints what the author wrote; decoding a spelling is the compiler's business. A helper shared with the model visitor that
// decodes the pad character makes the formatter print a raw NUL, which the lexer does not accept back.
func c09TokenTextNotSubstituted(w *World, r *Report, prop string) {
	rule := prop + "/token-text-not-substituted"
	cf := newCmtFlow(w)
	set := cf.flowFrom(tokenTextSeeds(cf))
	n := 0
	for _, fn := range cf.fns {
		bad := ""
		forEachInstr(fn, func(b *ssa.BasicBlock, ins ssa.Instruction) {
			phi, ok := ins.(*ssa.Phi)
			if !ok || !isStringType(phi.Type()) || bad != "" {
				return
			}
			hasText := false
			for _, e := range phi.Edges {
				if set[e] {
					hasText = true
				}
			}
			if !hasText {
				return
			}
			n++
			for i, e := range phi.Edges {
				k, isK := e.(*ssa.Const)
				if !isK || k.Value == nil {
					continue
				}
				pred := b.Preds[i]
				for _, tb := range fn.Blocks {
					cond, isB := branchCond(tb).(*ssa.BinOp)
					if !isB || (cond.Op != token.EQL && cond.Op != token.NEQ) {
						continue
					}
					var txt ssa.Value
					var lit *ssa.Const
					if c, ok := cond.Y.(*ssa.Const); ok && set[cond.X] {
						txt, lit = cond.X, c
					} else if c, ok := cond.X.(*ssa.Const); ok && set[cond.Y] {
						txt, lit = cond.Y, c
					}
					if txt == nil || lit.Value == nil || lit.Value.ExactString() == k.Value.ExactString() {
						continue
					}
					succ := 0
					if cond.Op == token.NEQ {
						succ = 1
					}
					if pred == tb && tb.Succs[succ] == b || edgeDominates(tb, succ, pred) {
						bad = fmt.Sprintf("the token text is replaced by the constant %s where it equals %s (at %s)", k.Value.ExactString(), lit.Value.ExactString(), w.instrPos(phi))
					}
				}
			}
		})
		if fn.Parent() != nil {
			continue
		}
		key := fnKey(fn) + ": the text of a token is passed on as written"
		if bad != "" {
			r.fail(rule, key, w.pos(fn.Pos()), bad+": the formatter prints another spelling than the author wrote - a decoded escape (a raw NUL) is not a token the lexer accepts back, and the second pass differs from the first")
		}
	}
	r.pass(rule, "token text merged with constants is not a substitution", "internal/parser/packet_dsl_formattor.go", fmt.Sprintf("%d joins of token text with other values examined", n))
}
