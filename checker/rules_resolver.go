package main

import (
	"go/constant"
	"go/token"
	"go/types"

	"golang.org/x/tools/go/ssa"
)

// Checked lookups that live in a helper (a method of a record that carries the name table, a closure over the table, a plain
// function that is handed the table): the lookup, its membership test, the diagnostic on a miss and the use of the found entry may
// be split between the helper and its call sites. The helpers below put the pieces together again:
//
//   - resolverOf:        the helper returns (entry, found) of one lookup - its call sites branch on `found`
//   - callMemberships:   those branches, in the shape of membershipTests
//   - foundLookupValue:  "this value is the entry of a lookup that is known to have hit" for a lookup here or in a resolver
//   - lookupKeyBindings: the key of a lookup that is a parameter of the helper, as written at the call sites
//   - missDiagnosed:     the miss edge (in the helper, or at the call site of a resolver) reaches a diagnostic
//   - resultBranches:    the branches of a caller on one result of a call

// resolverInfo: fn returns, at result okIdx, whether `lookup` found its key and, at result vIdx, the entry it found.
type resolverInfo struct {
	fn          *ssa.Function
	lookup      *ssa.Lookup
	vIdx, okIdx int
}

var resolverCache = map[*ssa.Function]*resolverInfo{}

// lookupEntryOf: v is the entry read by a map lookup (component 0 of a comma-ok lookup, or the plain lookup itself).
func lookupEntryOf(v ssa.Value) *ssa.Lookup {
	switch x := stripIdentity(v).(type) {
	case *ssa.Extract:
		if lk, ok := x.Tuple.(*ssa.Lookup); ok && lk.CommaOk && x.Index == 0 {
			if _, isMap := lk.X.Type().Underlying().(*types.Map); isMap {
				return lk
			}
		}
	case *ssa.Lookup:
		if _, isMap := x.X.Type().Underlying().(*types.Map); isMap && !x.CommaOk {
			return x
		}
	}
	return nil
}

func constBoolValue(v ssa.Value) (val bool, ok bool) {
	c, isC := v.(*ssa.Const)
	if !isC || c.Value == nil || c.Value.Kind() != constant.Bool {
		return false, false
	}
	return constant.BoolVal(c.Value), true
}

// presentEdgeDominates: blk is only reached over the "key found" edge of a membership test on lk.
func presentEdgeDominates(fn *ssa.Function, lk *ssa.Lookup, blk *ssa.BasicBlock) bool {
	for _, t := range membershipTests(fn) {
		if t.lookup == lk && edgeDominates(t.branch, t.presentSucc, blk) {
			return true
		}
	}
	return false
}

// resolverOf: fn has a result pair (entry, found) such that on every return either found is the constant false, or found is the
// comma-ok of one map lookup and entry its value, or found is the constant true on a path that took the key-found edge of the
// membership test on that lookup and entry is the lookup's value. nil when fn is no such function.
func resolverOf(fn *ssa.Function) *resolverInfo {
	if fn == nil || len(fn.Blocks) == 0 {
		return nil
	}
	if ri, done := resolverCache[fn]; done {
		return ri
	}
	resolverCache[fn] = nil
	res := fn.Signature.Results()
	if res.Len() < 2 {
		if ri := entryResolverOf(fn); ri != nil {
			resolverCache[fn] = ri
			return ri
		}
		return nil
	}
	// the returns, a return of phis split into one virtual return per incoming edge
	type ret struct {
		vals []ssa.Value
		from *ssa.BasicBlock
	}
	var rets []ret
	for _, b := range fn.Blocks {
		r, ok := b.Instrs[len(b.Instrs)-1].(*ssa.Return)
		if !ok || len(r.Results) != res.Len() {
			continue
		}
		hasPhi := false
		for _, v := range r.Results {
			if p, ok := v.(*ssa.Phi); ok && p.Block() == b {
				hasPhi = true
			}
		}
		if !hasPhi {
			rets = append(rets, ret{r.Results, b})
			continue
		}
		for i, pred := range b.Preds {
			vals := make([]ssa.Value, len(r.Results))
			for j, v := range r.Results {
				if p, ok := v.(*ssa.Phi); ok && p.Block() == b {
					vals[j] = p.Edges[i]
				} else {
					vals[j] = v
				}
			}
			rets = append(rets, ret{vals, pred})
		}
	}
	if len(rets) == 0 {
		return nil
	}
	for okIdx := 0; okIdx < res.Len(); okIdx++ {
		if !isBoolType(res.At(okIdx).Type()) {
			continue
		}
		for vIdx := 0; vIdx < res.Len(); vIdx++ {
			if vIdx == okIdx {
				continue
			}
			var lk *ssa.Lookup
			good := true
			for _, r := range rets {
				okv := r.vals[okIdx]
				if c, isC := constBoolValue(okv); isC && !c {
					continue // a miss: the entry is not looked at
				}
				l := lookupEntryOf(r.vals[vIdx])
				if l == nil || (lk != nil && l != lk) {
					good = false
					break
				}
				if c, isC := constBoolValue(okv); isC && c {
					if !presentEdgeDominates(fn, l, r.from) {
						good = false
						break
					}
				} else if ex, isEx := okv.(*ssa.Extract); !isEx || ex.Tuple != ssa.Value(l) || ex.Index != 1 {
					good = false
					break
				}
				lk = l
			}
			if good && lk != nil {
				ri := &resolverInfo{fn: fn, lookup: lk, vIdx: vIdx, okIdx: okIdx}
				resolverCache[fn] = ri
				return ri
			}
		}
	}
	return nil
}

// entryResolverOf: fn has one result and every return hands out the entry of one plain lookup `m[key]` in a map whose entries can
// be nil (pointers, interfaces, slices, maps, functions): "not there" is the nil entry, and the call sites ask `entry != nil` where a
// comma-ok resolver's call sites ask `found`. okIdx is -1 for such a resolver. (A map that holds a nil entry under a declared name
// answers "not there" for it - the stricter reading: what the call site goes on with under its found edge is a non-nil entry.)
func entryResolverOf(fn *ssa.Function) *resolverInfo {
	if fn.Signature.Results().Len() != 1 {
		return nil
	}
	var lk *ssa.Lookup
	for _, b := range fn.Blocks {
		r, ok := b.Instrs[len(b.Instrs)-1].(*ssa.Return)
		if !ok {
			continue
		}
		if len(r.Results) != 1 {
			return nil
		}
		vals := []ssa.Value{r.Results[0]}
		if p, ok := r.Results[0].(*ssa.Phi); ok && p.Block() == b {
			vals = p.Edges
		}
		for _, v := range vals {
			if isNilConst(v) {
				continue // an explicit "not there"
			}
			l, ok := stripIdentity(v).(*ssa.Lookup)
			if !ok || l.CommaOk || (lk != nil && l != lk) {
				return nil
			}
			mt, isMap := l.X.Type().Underlying().(*types.Map)
			if !isMap || !nilableType(mt.Elem()) {
				return nil
			}
			lk = l
		}
	}
	if lk == nil {
		return nil
	}
	return &resolverInfo{fn: fn, lookup: lk, vIdx: 0, okIdx: -1}
}

func nilableType(t types.Type) bool {
	switch t.Underlying().(type) {
	case *types.Pointer, *types.Interface, *types.Slice, *types.Map, *types.Signature, *types.Chan:
		return true
	}
	return false
}

// foundBranches: the branches of call's function on "the resolver found its key": on the found-result of a comma-ok resolver, on
// `entry != nil` / `entry == nil` for an entry resolver.
func (ri *resolverInfo) foundBranches(call ssa.CallInstruction) []resultBranch {
	if ri.okIdx >= 0 {
		return resultBranches(call, ri.okIdx)
	}
	cv, ok := call.(*ssa.Call)
	if !ok || cv.Parent() == nil {
		return nil
	}
	var out []resultBranch
	for _, b := range cv.Parent().Blocks {
		cond := branchCond(b)
		if cond == nil {
			continue
		}
		neg := false
		c := cond
		for {
			if u, ok := c.(*ssa.UnOp); ok && u.Op == token.NOT {
				neg = !neg
				c = u.X
				continue
			}
			break
		}
		bo, ok := c.(*ssa.BinOp)
		if !ok || (bo.Op != token.NEQ && bo.Op != token.EQL) {
			continue
		}
		var other ssa.Value
		switch {
		case stripIdentity(bo.X) == ssa.Value(cv):
			other = bo.Y
		case stripIdentity(bo.Y) == ssa.Value(cv):
			other = bo.X
		default:
			continue
		}
		if !isNilConst(other) {
			continue
		}
		foundOnTrue := bo.Op == token.NEQ
		if neg {
			foundOnTrue = !foundOnTrue
		}
		s := 1
		if foundOnTrue {
			s = 0
		}
		out = append(out, resultBranch{b, s})
	}
	return out
}

// soleCallee: the one function a call enters (static callee, method behind a method value, closure), nil for interface calls and
// for function values with several possible targets.
func soleCallee(c ssa.CallInstruction) *ssa.Function {
	fs := calleesOfAll(c)
	if len(fs) != 1 {
		return nil
	}
	return fs[0]
}

// resultBranch: a branch of the caller on one (boolean) result of a call.
type resultBranch struct {
	branch   *ssa.BasicBlock
	trueSucc int // the successor taken when the result is true
}

// resultBranches: the branches of call's function on result idx of call (the call itself when it has a single result).
func resultBranches(call ssa.CallInstruction, idx int) []resultBranch {
	cv, ok := call.(*ssa.Call)
	if !ok || cv.Parent() == nil {
		return nil
	}
	single := cv.Call.Signature().Results().Len() == 1
	var out []resultBranch
	for _, b := range cv.Parent().Blocks {
		cond := branchCond(b)
		if cond == nil {
			continue
		}
		neg := false
		c := cond
		for {
			if u, ok := c.(*ssa.UnOp); ok && u.Op == token.NOT {
				neg = !neg
				c = u.X
				continue
			}
			break
		}
		hit := false
		if single {
			hit = c == ssa.Value(cv)
		} else if ex, ok := c.(*ssa.Extract); ok {
			hit = ex.Tuple == ssa.Value(cv) && ex.Index == idx
		}
		if !hit {
			continue
		}
		s := 0
		if neg {
			s = 1
		}
		out = append(out, resultBranch{b, s})
	}
	return out
}

// callMembership: a test "key present" made on the found-result of a call to a resolver.
type callMembership struct {
	call        *ssa.Call
	info        *resolverInfo
	branch      *ssa.BasicBlock
	presentSucc int
}

func callMemberships(fn *ssa.Function) []callMembership {
	var out []callMembership
	forEachInstr(fn, func(_ *ssa.BasicBlock, ins ssa.Instruction) {
		c, ok := ins.(*ssa.Call)
		if !ok || c.Call.IsInvoke() {
			return
		}
		ri := resolverOf(soleCallee(c))
		if ri == nil {
			return
		}
		for _, rb := range ri.foundBranches(c) {
			out = append(out, callMembership{c, ri, rb.branch, rb.trueSucc})
		}
	})
	return out
}

// foundLookupValue: v, used in block b of fn, is the entry of a map lookup and b is only reached when the key was found: the lookup
// is in fn and b is dominated by the key-found edge of its membership test, or the lookup is in a resolver that fn calls and b is
// dominated by the true edge of a branch on the resolver's found-result. Returns the lookup (of fn or of the resolver), else nil.
func foundLookupValue(fn *ssa.Function, v ssa.Value, b *ssa.BasicBlock) *ssa.Lookup {
	switch x := stripIdentity(v).(type) {
	case *ssa.Call:
		// the entry an entry resolver handed out, under the `entry != nil` edge
		for _, cm := range callMemberships(fn) {
			if cm.call == x && cm.info.okIdx < 0 && edgeDominates(cm.branch, cm.presentSucc, b) {
				return cm.info.lookup
			}
		}
		return nil
	case *ssa.Lookup:
		// the entry of a plain lookup, under the `m[k] != nil` edge
		if !x.CommaOk && presentEdgeDominates(fn, x, b) {
			return x
		}
		return nil
	}
	ex, ok := stripIdentity(v).(*ssa.Extract)
	if !ok {
		return nil
	}
	switch t := ex.Tuple.(type) {
	case *ssa.Lookup:
		if !t.CommaOk {
			return nil
		}
		if presentEdgeDominates(fn, t, b) {
			return t
		}
	case *ssa.Call:
		for _, cm := range callMemberships(fn) {
			if cm.call == t && cm.info.okIdx >= 0 && ex.Index == cm.info.vIdx && edgeDominates(cm.branch, cm.presentSucc, b) {
				return cm.info.lookup
			}
		}
	}
	return nil
}

// edgeReachesDiag: some block that is only reached over the edge from -> from.Succs[succ] records a diagnostic.
func edgeReachesDiag(from *ssa.BasicBlock, succ int) bool {
	if theWorld != nil {
		// ... or returns the complaint that every caller records when it is not empty
		for _, bb := range theWorld.diagnosticBlocks(from.Parent()) {
			if edgeDominates(from, succ, bb) {
				return true
			}
		}
		return false
	}
	for _, bb := range from.Parent().Blocks {
		if !edgeDominates(from, succ, bb) {
			continue
		}
		for _, ins := range bb.Instrs {
			if isAddSyntaxError(ins) {
				return true
			}
		}
	}
	return false
}

// keyBinding: the key of a lookup as the program text names it. For a lookup keyed by a parameter of its function the key is what
// a call site passes (site = the call that enters the lookup's function, key = the argument, followed through further parameters).
type keyBinding struct {
	key  ssa.Value
	site *ssa.Call // nil: the key is written in the lookup's own function
}


// callSitesIn: the calls in the given functions that enter fn (and nothing else).
func callSitesIn(fn *ssa.Function, in []*ssa.Function) []*ssa.Call {
	var out []*ssa.Call
	for _, caller := range in {
		forEachInstr(caller, func(_ *ssa.BasicBlock, ins ssa.Instruction) {
			c, ok := ins.(*ssa.Call)
			if !ok || c.Call.IsInvoke() {
				return
			}
			if soleCallee(c) == fn && len(c.Call.Args) == len(fn.Params) {
				out = append(out, c)
			}
		})
	}
	return out
}

// lookupKeyBindings: the keys lk is performed with. A key that is not a parameter of lk's function binds to itself.
func lookupKeyBindings(lk *ssa.Lookup, phase []*ssa.Function) []keyBinding {
	fn := lk.Parent()
	pi := paramIndexOf(fn, lk.Index)
	if pi < 0 {
		return []keyBinding{{lk.Index, nil}}
	}
	var out []keyBinding
	// direct: the call that enters lk's function; holder: the function in which arg is written
	var bind func(direct *ssa.Call, holder *ssa.Function, arg ssa.Value, depth int)
	bind = func(direct *ssa.Call, holder *ssa.Function, arg ssa.Value, depth int) {
		if i := paramIndexOf(holder, arg); i >= 0 && depth < 3 {
			// the holder is handed the name itself: its callers write it
			if sites := callSitesIn(holder, phase); len(sites) > 0 {
				for _, s2 := range sites {
					bind(direct, s2.Parent(), s2.Call.Args[i], depth+1)
				}
				return
			}
		}
		out = append(out, keyBinding{arg, direct})
	}
	for _, s := range callSitesIn(fn, phase) {
		bind(s, s.Parent(), s.Call.Args[pi], 0)
	}
	return out
}

// missDiagnosed: what happens when lk misses, for the use of lk that kb describes. tested: the program branches on the presence of
// the key (in lk's function, or at the call site on the found-result of a resolver); checked: a miss edge of such a branch records
// a diagnostic.
func missDiagnosed(lk *ssa.Lookup, kb keyBinding) (tested, checked bool) {
	fn := lk.Parent()
	for _, t := range membershipTests(fn) {
		if t.lookup != lk {
			continue
		}
		tested = true
		if edgeReachesDiag(t.branch, 1-t.presentSucc) {
			checked = true
		}
	}
	if kb.site != nil {
		if ri := resolverOf(fn); ri != nil && ri.lookup == lk {
			for _, rb := range ri.foundBranches(kb.site) {
				tested = true
				if edgeReachesDiag(rb.branch, 1-rb.trueSucc) {
					checked = true
				}
			}
		}
	}
	return tested, checked
}

// presentEdgeResult: every path that leaves fn over the key-found edge of the membership test t returns one boolean constant at
// one result position (the function "answers" a duplicate instead of reporting it). ok is false when there is no such result.
func presentEdgeResult(fn *ssa.Function, t membership) (idx int, val bool, ok bool) {
	nres := fn.Signature.Results().Len()
	if nres == 0 {
		return 0, false, false
	}
	var rets []*ssa.Return
	for _, b := range fn.Blocks {
		r, isRet := b.Instrs[len(b.Instrs)-1].(*ssa.Return)
		if !isRet {
			continue
		}
		if edgeDominates(t.branch, t.presentSucc, b) {
			rets = append(rets, r)
			continue
		}
		// a return that both edges reach: the answer must be a phi whose edges from the key-found side are the constant - not
		// followed; such a function is not recognised
		if blockReachableFrom(t.branch.Succs[t.presentSucc], b) {
			return 0, false, false
		}
	}
	if len(rets) == 0 {
		return 0, false, false
	}
	for i := 0; i < nres; i++ {
		if !isBoolType(fn.Signature.Results().At(i).Type()) {
			continue
		}
		first, isC := constBoolValue(rets[0].Results[i])
		if !isC {
			continue
		}
		same := true
		for _, r := range rets[1:] {
			if c, isC := constBoolValue(r.Results[i]); !isC || c != first {
				same = false
			}
		}
		if same {
			return i, first, true
		}
	}
	return 0, false, false
}

func blockReachableFrom(from, to *ssa.BasicBlock) bool {
	seen := map[*ssa.BasicBlock]bool{}
	stack := []*ssa.BasicBlock{from}
	for len(stack) > 0 {
		b := stack[len(stack)-1]
		stack = stack[:len(stack)-1]
		if seen[b] {
			continue
		}
		seen[b] = true
		if b == to {
			return true
		}
		stack = append(stack, b.Succs...)
	}
	return false
}

// duplicateAnsweredAndReported: the membership test t of fn (a "declare"/"accept" helper) answers an already-present key with a
// boolean constant, and every call site of fn in the parse phase branches on that answer and records a diagnostic on the
// already-present side. Returns "" when that is not so.
func duplicateAnsweredAndReported(fn *ssa.Function, t membership, phase []*ssa.Function) string {
	idx, val, ok := presentEdgeResult(fn, t)
	if !ok {
		return ""
	}
	sites := callSitesIn(fn, phase)
	if len(sites) == 0 {
		return ""
	}
	for _, s := range sites {
		reported := false
		for _, rb := range resultBranches(s, idx) {
			succ := rb.trueSucc
			if !val {
				succ = 1 - succ
			}
			if edgeReachesDiag(rb.branch, succ) {
				reported = true
			}
		}
		if !reported {
			return ""
		}
	}
	return "the helper answers a name that is taken; every call site reports it"
}
