package main

// C09/comment-delivery: the functions that query the hidden channel must hand the text of every line comment on.
//
// Structural part decided here (a necessary condition of "retains every comment"):
//   D1  every hidden-token query (GetHiddenTokensToLeft/Right) of the formatter feeds a list whose elements' GetText() is used;
//   D2  the place where an element's text is taken is not dominated - in its own function, through predicate helpers, and at
//       every call site when the element / list is a parameter - by a branch edge on which the element is known *not* to be a
//       comment token of the grammar, or on which the list is known to be nil / empty.
// Only facts with a definite polarity count; a condition the evaluator does not understand is ignored (no finding).

import (
	"fmt"
	"go/constant"
	"go/token"
	"go/types"
	"sort"
	"strings"

	"golang.org/x/tools/go/ssa"
)

type cmtFlow struct {
	w     *World
	fns   []*ssa.Function
	inFns map[*ssa.Function]bool
	// call sites of formatter functions (static callees and closures made in formatter functions)
	sites map[*ssa.Function][]ssa.CallInstruction
}

func newCmtFlow(w *World) *cmtFlow {
	cf := &cmtFlow{w: w, inFns: map[*ssa.Function]bool{}, sites: map[*ssa.Function][]ssa.CallInstruction{}}
	var add func(fn *ssa.Function)
	add = func(fn *ssa.Function) {
		if cf.inFns[fn] {
			return
		}
		cf.inFns[fn] = true
		cf.fns = append(cf.fns, fn)
		for _, a := range fn.AnonFuncs {
			add(a)
		}
	}
	for _, fn := range formatterFuncs(w) {
		add(fn)
	}
	// helper functions of the parser package called from formatter functions (free functions are not always in the reach set)
	changed := true
	for changed {
		changed = false
		for _, fn := range append([]*ssa.Function(nil), cf.fns...) {
			forEachInstr(fn, func(_ *ssa.BasicBlock, ins ssa.Instruction) {
				c, ok := ins.(ssa.CallInstruction)
				if !ok {
					return
				}
				for _, g := range cf.calleesOf(c) {
					if g.Pkg == w.Parser && g.Blocks != nil && !cf.inFns[g] {
						add(g)
						changed = true
					}
				}
			})
		}
	}
	for _, fn := range cf.fns {
		forEachInstr(fn, func(_ *ssa.BasicBlock, ins ssa.Instruction) {
			c, ok := ins.(ssa.CallInstruction)
			if !ok {
				return
			}
			for _, g := range cf.calleesOf(c) {
				cf.sites[g] = append(cf.sites[g], c)
			}
		})
	}
	return cf
}

// calleesOf: static callee, or the functions a called function value may be (closure literal, function constant, phi of those,
// result of a constructor function returning closures, parameter bound at the call sites - one level).
func (cf *cmtFlow) calleesOf(c ssa.CallInstruction) []*ssa.Function {
	if f := c.Common().StaticCallee(); f != nil {
		return []*ssa.Function{f}
	}
	if c.Common().IsInvoke() {
		return nil
	}
	return cf.funcValues(c.Common().Value, 0)
}

func (cf *cmtFlow) funcValues(v ssa.Value, depth int) []*ssa.Function {
	if depth > 4 {
		return nil
	}
	switch x := stripIdentity(v).(type) {
	case *ssa.Function:
		return []*ssa.Function{x}
	case *ssa.MakeClosure:
		if f, ok := x.Fn.(*ssa.Function); ok {
			return []*ssa.Function{f}
		}
	case *ssa.Phi:
		var out []*ssa.Function
		for _, e := range x.Edges {
			out = append(out, cf.funcValues(e, depth+1)...)
		}
		return out
	case *ssa.Call:
		// constructor function: what it returns
		var out []*ssa.Function
		for _, g := range cf.calleesOf(x) {
			for _, b := range g.Blocks {
				if ret, ok := b.Instrs[len(b.Instrs)-1].(*ssa.Return); ok && len(ret.Results) == 1 {
					out = append(out, cf.funcValues(ret.Results[0], depth+1)...)
				}
			}
		}
		return out
	case *ssa.UnOp:
		// a package-level function variable: what the repo stores into it (a method expression, a closure, a function)
		if g, ok := x.X.(*ssa.Global); ok && x.Op == token.MUL {
			var out []*ssa.Function
			vals, _ := globalStoredValues(g)
			for _, sv := range vals {
				out = append(out, cf.funcValues(sv, depth+1)...)
			}
			return out
		}
	case *ssa.Parameter:
		fn := x.Parent()
		idx := -1
		for i, p := range fn.Params {
			if p == x {
				idx = i
			}
		}
		var out []*ssa.Function
		if idx >= 0 {
			for _, s := range cf.sites[fn] {
				if a := argFor(s, fn, idx); a != nil {
					out = append(out, cf.funcValues(a, depth+1)...)
				}
			}
			if out == nil && cf.sites[fn] == nil {
				// sites not computed yet (construction phase): scan the formatter functions known so far
				for _, g := range cf.fns {
					forEachInstr(g, func(_ *ssa.BasicBlock, ins ssa.Instruction) {
						c, ok := ins.(ssa.CallInstruction)
						if !ok || c.Common().StaticCallee() != fn {
							return
						}
						if a := argFor(c, fn, idx); a != nil {
							out = append(out, cf.funcValues(a, depth+1)...)
						}
					})
				}
			}
		}
		return out
	}
	return nil
}

// argFor: the argument bound to parameter idx of fn at call c (receiver included in both numberings).
func argFor(c ssa.CallInstruction, fn *ssa.Function, idx int) ssa.Value {
	args := c.Common().Args
	if idx < len(args) {
		return args[idx]
	}
	return nil
}

// flowFrom: the values (lists or elements) that a seed value reaches by identity: phis, slices, returns to call sites,
// arguments to parameters, captured variables.
func (cf *cmtFlow) flowFrom(seeds []ssa.Value) map[ssa.Value]bool {
	set := map[ssa.Value]bool{}
	var work []ssa.Value
	push := func(v ssa.Value) {
		if v != nil && !set[v] {
			set[v] = true
			work = append(work, v)
		}
	}
	for _, s := range seeds {
		push(s)
	}
	for len(work) > 0 {
		v := work[len(work)-1]
		work = work[:len(work)-1]
		refs := v.Referrers()
		if refs == nil {
			continue
		}
		for _, ref := range *refs {
			switch x := ref.(type) {
			case *ssa.Phi:
				push(x)
			case *ssa.Slice:
				if x.X == v {
					push(x)
				}
			case *ssa.ChangeType:
				push(x)
			case *ssa.MakeInterface:
				push(x)
			case *ssa.TypeAssert:
				push(x)
			case *ssa.Extract:
				push(x)
			case *ssa.Return:
				fn := x.Parent()
				for i, res := range x.Results {
					if res != v {
						continue
					}
					for _, s := range cf.sites[fn] {
						cv, ok := s.(*ssa.Call)
						if !ok {
							continue
						}
						if len(x.Results) == 1 {
							push(cv)
						} else if rr := cv.Referrers(); rr != nil {
							for _, e := range *rr {
								if ex, ok := e.(*ssa.Extract); ok && ex.Index == i {
									push(ex)
								}
							}
						}
					}
				}
			case *ssa.MakeClosure:
				if f, ok := x.Fn.(*ssa.Function); ok {
					for j, b := range x.Bindings {
						if b == v && j < len(f.FreeVars) {
							push(f.FreeVars[j])
						}
					}
				}
			case *ssa.Store:
				// a local cell (captured by reference or spilled): its loads
				if x.Val == v {
					if al, ok := x.Addr.(*ssa.Alloc); ok {
						push(al)
					}
				}
			case *ssa.UnOp:
				if x.Op == token.MUL && x.X == v {
					if _, ok := v.(*ssa.Alloc); ok {
						push(x)
					}
					if _, ok := v.(*ssa.FreeVar); ok {
						push(x)
					}
				}
			case ssa.CallInstruction:
				for _, g := range cf.calleesOf(x) {
					if !cf.inFns[g] {
						continue
					}
					for i, a := range x.Common().Args {
						if a == v && i < len(g.Params) {
							push(g.Params[i])
						}
					}
				}
			}
		}
	}
	return set
}

// elementsOf: values that are elements of one of the lists (indexed loads, range-over-slice loads).
func elementsOf(lists map[ssa.Value]bool) []ssa.Value {
	var out []ssa.Value
	for l := range lists {
		refs := l.Referrers()
		if refs == nil {
			continue
		}
		for _, ref := range *refs {
			ia, ok := ref.(*ssa.IndexAddr)
			if !ok || ia.X != l {
				if ix, ok := ref.(*ssa.Index); ok && ix.X == l {
					out = append(out, ix)
				}
				continue
			}
			if rr := ia.Referrers(); rr != nil {
				for _, e := range *rr {
					if ld, ok := e.(*ssa.UnOp); ok && ld.Op == token.MUL {
						out = append(out, ld)
					}
				}
			}
		}
	}
	return out
}

// hiddenTokenTypes: constant values of the token types the grammar sends to the hidden channel.
func (cf *cmtFlow) hiddenTokenTypes() map[int64]string {
	out := map[int64]string{}
	if cf.w.G4 == nil || cf.w.Grammar == nil {
		return out
	}
	for _, lr := range cf.w.G4.LRules {
		if !strings.Contains(lr.Action, "channel") {
			continue
		}
		for name, m := range cf.w.Grammar.Members {
			nc, ok := m.(*ssa.NamedConst)
			if !ok || !strings.HasSuffix(name, lr.Name) {
				continue
			}
			pre := strings.TrimSuffix(name, lr.Name)
			if !strings.HasSuffix(pre, "Parser") && !strings.HasSuffix(pre, "Lexer") {
				continue
			}
			if v, ok := constant.Int64Val(nc.Value.Value); ok {
				out[v] = lr.Name
			}
		}
	}
	return out
}

type cmtAtom struct {
	kind string    // "comment" (element is a hidden-channel comment token) | "empty" (list is nil or empty)
	v    ssa.Value // element or list
}

// atomOf: does cond, taken as true, state the atom (pos=true) or its negation (pos=false)?
func (cf *cmtFlow) atomOf(cond ssa.Value, a cmtAtom, hidden map[int64]string) (pos bool, ok bool) {
	b, isBin := cond.(*ssa.BinOp)
	if !isBin {
		return false, false
	}
	same := func(x ssa.Value) bool { return stripIdentity(x) == stripIdentity(a.v) }
	switch a.kind {
	case "comment":
		if b.Op != token.EQL && b.Op != token.NEQ {
			return false, false
		}
		for _, pair := range [][2]ssa.Value{{b.X, b.Y}, {b.Y, b.X}} {
			call, ok1 := stripIdentity(pair[0]).(*ssa.Call)
			k, ok2 := pair[1].(*ssa.Const)
			if !ok1 || !ok2 || k.Value == nil || !call.Call.IsInvoke() || call.Call.Method.Name() != "GetTokenType" || !same(call.Call.Value) {
				continue
			}
			kv, okv := constant.Int64Val(constant.ToInt(k.Value))
			if !okv {
				continue
			}
			if _, isHidden := hidden[kv]; !isHidden {
				// compared with a token type that never sits on the hidden channel: equality means "not a comment"
				if len(hidden) == 0 {
					return false, false
				}
				if b.Op == token.EQL {
					return false, true
				}
				return false, false
			}
			if len(hidden) == 1 {
				return b.Op == token.EQL, true
			}
			if b.Op == token.EQL {
				return true, true // is one of the comment kinds
			}
			return false, false // not this kind: may be another hidden kind
		}
	case "empty":
		// l == nil, l != nil, len(l) ==/!=/>/<=/</>= 0|1
		for i, pair := range [][2]ssa.Value{{b.X, b.Y}, {b.Y, b.X}} {
			k, isK := pair[1].(*ssa.Const)
			if !isK {
				continue
			}
			x := stripIdentity(pair[0])
			op := b.Op
			if i == 1 {
				// constant on the left: mirror the operator
				switch op {
				case token.LSS:
					op = token.GTR
				case token.GTR:
					op = token.LSS
				case token.LEQ:
					op = token.GEQ
				case token.GEQ:
					op = token.LEQ
				}
			}
			if k.IsNil() && same(x) {
				if op == token.EQL {
					return true, true
				}
				if op == token.NEQ {
					return false, true
				}
			}
			if call, ok := x.(*ssa.Call); ok {
				if bi, ok := call.Call.Value.(*ssa.Builtin); ok && bi.Name() == "len" && len(call.Call.Args) == 1 && same(call.Call.Args[0]) && k.Value != nil {
					n, okn := constant.Int64Val(constant.ToInt(k.Value))
					if !okn {
						continue
					}
					switch {
					case op == token.EQL && n == 0, op == token.LEQ && n == 0, op == token.LSS && n == 1:
						return true, true
					case op == token.NEQ && n == 0, op == token.GTR && n == 0, op == token.GEQ && n == 1:
						return false, true
					}
				}
			}
		}
	}
	return false, false
}

// forces: does "cond == val" imply the atom has polarity want? (evaluated in cond's function)
func (cf *cmtFlow) forces(cond ssa.Value, val bool, a cmtAtom, want bool, hidden map[int64]string, depth int) bool {
	if depth > 6 {
		return false
	}
	switch x := cond.(type) {
	case *ssa.UnOp:
		if x.Op == token.NOT {
			return cf.forces(x.X, !val, a, want, hidden, depth+1)
		}
	case *ssa.BinOp:
		if pos, ok := cf.atomOf(x, a, hidden); ok {
			// cond true states the atom with polarity pos
			if val {
				return pos == want
			}
			// cond false states the opposite - only for two-valued atoms
			if a.kind == "empty" || len(hidden) == 1 {
				return pos != want
			}
			return false
		}
	case *ssa.Phi:
		// short-circuit form: the phi has value val only along edges whose incoming value can be val
		any := false
		for i, e := range x.Edges {
			if k, ok := e.(*ssa.Const); ok && k.Value != nil && k.Value.Kind() == constant.Bool {
				if constant.BoolVal(k.Value) != val {
					continue // this edge cannot produce val
				}
				// constant val: the predecessor's path conditions decide
				any = true
				if !cf.forcedAt(x.Block().Preds[i], a, want, hidden, depth+1, false) {
					return false
				}
				continue
			}
			any = true
			if cf.forces(e, val, a, want, hidden, depth+1) {
				continue
			}
			if !cf.forcedAt(x.Block().Preds[i], a, want, hidden, depth+1, false) {
				return false
			}
		}
		return any
	case *ssa.Call:
		// predicate helper handed the atom's value
		for _, g := range cf.calleesOf(x) {
			if !cf.inFns[g] || g.Blocks == nil {
				return false
			}
		}
		gs := cf.calleesOf(x)
		if len(gs) == 0 {
			return false
		}
		for _, g := range gs {
			idx := -1
			for i, arg := range x.Call.Args {
				if stripIdentity(arg) == stripIdentity(a.v) && i < len(g.Params) {
					idx = i
				}
			}
			var av ssa.Value
			if idx >= 0 {
				av = g.Params[idx]
			} else {
				// captured by the closure?
				if mc, ok := stripIdentity(x.Call.Value).(*ssa.MakeClosure); ok {
					for j, bnd := range mc.Bindings {
						if stripIdentity(bnd) == stripIdentity(a.v) && j < len(g.FreeVars) {
							av = g.FreeVars[j]
						}
					}
				}
			}
			if av == nil {
				return false
			}
			inner := cmtAtom{a.kind, av}
			any := false
			for _, blk := range g.Blocks {
				ret, ok := blk.Instrs[len(blk.Instrs)-1].(*ssa.Return)
				if !ok || len(ret.Results) != 1 {
					continue
				}
				rv := ret.Results[0]
				if k, ok := rv.(*ssa.Const); ok && k.Value != nil && k.Value.Kind() == constant.Bool {
					if constant.BoolVal(k.Value) != val {
						continue
					}
					any = true
					if !cf.forcedAt(blk, inner, want, hidden, depth+1, false) {
						return false
					}
					continue
				}
				any = true
				if cf.forces(rv, val, inner, want, hidden, depth+1) || cf.forcedAt(blk, inner, want, hidden, depth+1, false) {
					continue
				}
				return false
			}
			if !any {
				return false
			}
		}
		return true
	}
	return false
}

// forcedAt: is blk dominated by branch edges that force the atom to polarity want? With up, parameters are followed to every
// call site (forced only if forced at all of them).
func (cf *cmtFlow) forcedAt(blk *ssa.BasicBlock, a cmtAtom, want bool, hidden map[int64]string, depth int, up bool) bool {
	if depth > 6 {
		return false
	}
	fn := blk.Parent()
	for _, b := range fn.Blocks {
		cond := branchCond(b)
		if cond == nil || b == blk && false {
			continue
		}
		for succ := 0; succ < 2; succ++ {
			if !edgeDominates(b, succ, blk) {
				continue
			}
			if cf.forces(cond, succ == 0, a, want, hidden, depth+1) {
				return true
			}
		}
	}
	if !up {
		return false
	}
	// the atom's value is a parameter / captured variable: look at the call sites
	var idx = -1
	if p, ok := stripIdentity(a.v).(*ssa.Parameter); ok && p.Parent() == fn {
		for i, q := range fn.Params {
			if q == p {
				idx = i
			}
		}
	}
	sites := cf.sites[fn]
	if len(sites) == 0 {
		return false
	}
	for _, s := range sites {
		var outer ssa.Value
		if idx >= 0 {
			outer = argFor(s, fn, idx)
		}
		if outer == nil {
			// the atom's value is local to fn: the call site cannot talk about it, but for "empty" of a list derived from a
			// parameter see flow; nothing known
			return false
		}
		if !cf.forcedAt(s.Block(), cmtAtom{a.kind, outer}, want, hidden, depth+1, true) {
			return false
		}
	}
	return true
}

func c09CommentDelivery(w *World, r *Report) {
	const rule = "C09/comment-delivery"
	cf := newCmtFlow(w)
	hidden := cf.hiddenTokenTypes()
	// seeds: hidden-token queries
	type seed struct {
		call *ssa.Call
		fn   *ssa.Function
	}
	var seeds []seed
	for _, fn := range cf.fns {
		forEachInstr(fn, func(_ *ssa.BasicBlock, ins ssa.Instruction) {
			// written as a method call, or made through a function value that can only be one of the two queries
			if c, ok := ins.(*ssa.Call); ok && isHiddenQueryCall(c) {
				seeds = append(seeds, seed{c, fn})
			}
		})
	}
	sort.Slice(seeds, func(i, j int) bool { return seeds[i].call.Pos() < seeds[j].call.Pos() })
	if len(seeds) == 0 {
		r.fail(rule, "hidden-token queries found", "internal/parser/packet_dsl_formattor.go", "the formatter never queries the hidden channel: comments cannot be retained")
		return
	}
	type siteInfo struct {
		call *ssa.Call
		elem ssa.Value
		list ssa.Value
	}
	judged := map[*ssa.Call]bool{}
	cnt := map[string]int{}
	allElems := map[ssa.Value]bool{}
	defer func() { c09MarkedIsEmitted(w, r, cf, allElems) }()
	for _, sd := range seeds {
		cnt[fnKey(sd.fn)]++
		key := fmt.Sprintf("%s hidden-token query #%d: the text of the comments found is handed on", fnKey(sd.fn), cnt[fnKey(sd.fn)])
		lists := cf.flowFrom([]ssa.Value{sd.call})
		var sites []siteInfo
		for l := range lists {
			els := elementsOf(map[ssa.Value]bool{l: true})
			elems := cf.flowFrom(els)
			for e := range elems {
				allElems[e] = true
				refs := e.Referrers()
				if refs == nil {
					continue
				}
				for _, ref := range *refs {
					c, ok := ref.(*ssa.Call)
					if !ok || !c.Call.IsInvoke() || c.Call.Method.Name() != "GetText" || c.Call.Value != e {
						continue
					}
					used := false
					if rr := c.Referrers(); rr != nil {
						for _, u := range *rr {
							if _, dbg := u.(*ssa.DebugRef); !dbg {
								used = true
							}
						}
					}
					if used {
						sites = append(sites, siteInfo{c, e, l})
					}
				}
			}
		}
		if len(sites) == 0 {
			r.fail(rule, key, w.instrPos(sd.call), "no GetText() of an element of the queried token list is used anywhere: the comments around this token are dropped")
			continue
		}
		r.pass(rule, key, w.instrPos(sd.call), fmt.Sprintf("%d text site(s)", len(sites)))
		sort.Slice(sites, func(i, j int) bool { return sites[i].call.Pos() < sites[j].call.Pos() })
		for _, s := range sites {
			if judged[s.call] {
				continue
			}
			judged[s.call] = true
			sfn := s.call.Parent()
			k2 := fmt.Sprintf("%s takes the comment text where the hidden token is a comment and the list is not empty", fnKey(sfn))
			blk := s.call.Block()
			// the element as seen in the site's function
			switch {
			case len(hidden) > 0 && cf.forcedAt(blk, cmtAtom{"comment", s.elem}, false, hidden, 0, true):
				r.fail(rule, k2, w.instrPos(s.call), "the text is taken only on paths where the token is known not to be a comment token ("+strings.Join(hiddenNames(hidden), ",")+"): every comment is dropped")
			case listInFn(s.list, sfn) && cf.forcedAt(blk, cmtAtom{"empty", s.list}, true, hidden, 0, true):
				r.fail(rule, k2, w.instrPos(s.call), "the text is taken only on paths where the queried list is known to be nil/empty: every comment is dropped")
			default:
				r.pass(rule, k2, w.instrPos(s.call), "")
			}
		}
	}
}

func hiddenNames(h map[int64]string) []string {
	var out []string
	for _, n := range h {
		out = append(out, n)
	}
	sort.Strings(out)
	return out
}

// listInFn: the list value belongs to fn (so that dominance questions about it make sense there).
func listInFn(l ssa.Value, fn *ssa.Function) bool {
	switch x := l.(type) {
	case *ssa.Parameter:
		return x.Parent() == fn
	case ssa.Instruction:
		return x.Parent() == fn
	}
	return false
}

// ---- D3: a comment that is recorded as emitted is emitted ----
//
// The formatter keeps a set of the comment tokens it has already printed (a comment is reachable from the token before and the
// token after it). Recording a token there *without* printing its text deletes the comment: every later query skips it.
// Decided: from every instruction that records a hidden token in a map keyed by tokens (directly, or by calling a helper that does -
// a bool helper that records only on the paths where it returns true counts on the true edge of its result), every path to the end
// of the iteration / function passes a place where that token's text is taken (GetText() used, or a helper that takes it).

type cmtSummaries struct {
	marks    map[*ssa.Function]map[int]bool // parameter indices recorded in a token-keyed map
	onlyTrue map[*ssa.Function]bool         // ... and only on paths that return true
	texts    map[*ssa.Function]map[int]bool // parameter indices whose GetText() is taken
}

func isTokenKeyedMap(t types.Type) bool {
	m, ok := t.Underlying().(*types.Map)
	if !ok {
		return false
	}
	return strings.HasSuffix(types.TypeString(m.Key(), nil), "antlr/v4.Token")
}

func (cf *cmtFlow) summaries() *cmtSummaries {
	cs := &cmtSummaries{map[*ssa.Function]map[int]bool{}, map[*ssa.Function]bool{}, map[*ssa.Function]map[int]bool{}}
	paramIdx := func(fn *ssa.Function, v ssa.Value) int {
		v = stripIdentity(v)
		for i, p := range fn.Params {
			if ssa.Value(p) == v {
				return i
			}
		}
		return -1
	}
	for changed := true; changed; {
		changed = false
		for _, fn := range cf.fns {
			forEachInstr(fn, func(_ *ssa.BasicBlock, ins ssa.Instruction) {
				switch x := ins.(type) {
				case *ssa.MapUpdate:
					if isTokenKeyedMap(x.Map.Type()) {
						if i := paramIdx(fn, x.Key); i >= 0 && !cs.marks[fn][i] {
							if cs.marks[fn] == nil {
								cs.marks[fn] = map[int]bool{}
							}
							cs.marks[fn][i] = true
							changed = true
						}
					}
				case *ssa.Call:
					if x.Call.IsInvoke() && x.Call.Method.Name() == "GetText" {
						if i := paramIdx(fn, x.Call.Value); i >= 0 && !cs.texts[fn][i] && hasRealUse(x) {
							if cs.texts[fn] == nil {
								cs.texts[fn] = map[int]bool{}
							}
							cs.texts[fn][i] = true
							changed = true
						}
						return
					}
					for _, g := range cf.calleesOf(x) {
						for j, a := range x.Call.Args {
							i := paramIdx(fn, a)
							if i < 0 {
								continue
							}
							if cs.marks[g][j] && !cs.marks[fn][i] {
								if cs.marks[fn] == nil {
									cs.marks[fn] = map[int]bool{}
								}
								cs.marks[fn][i] = true
								changed = true
							}
							if cs.texts[g][j] && !cs.texts[fn][i] {
								if cs.texts[fn] == nil {
									cs.texts[fn] = map[int]bool{}
								}
								cs.texts[fn][i] = true
								changed = true
							}
						}
					}
				}
			})
		}
	}
	// onlyTrue: a single bool result, and every return reachable from a recording instruction returns the constant true
	for fn := range cs.marks {
		res := fn.Signature.Results()
		if res.Len() != 1 {
			continue
		}
		if b, ok := res.At(0).Type().Underlying().(*types.Basic); !ok || b.Kind() != types.Bool {
			continue
		}
		ok := true
		forEachInstr(fn, func(_ *ssa.BasicBlock, ins ssa.Instruction) {
			if !cf.isMark(ins, cs, nil) {
				return
			}
			for _, b := range fn.Blocks {
				ret, isRet := b.Instrs[len(b.Instrs)-1].(*ssa.Return)
				if !isRet {
					continue
				}
				if ins.Block() != b && !blockReachable(ins.Block(), b) {
					continue
				}
				k, isK := ret.Results[0].(*ssa.Const)
				if !isK || k.Value == nil || k.Value.Kind() != constant.Bool || !constant.BoolVal(k.Value) {
					ok = false
				}
			}
		})
		if ok {
			cs.onlyTrue[fn] = true
		}
	}
	return cs
}

func hasRealUse(v ssa.Value) bool {
	refs := v.Referrers()
	if refs == nil {
		return false
	}
	for _, r := range *refs {
		if _, dbg := r.(*ssa.DebugRef); !dbg {
			return true
		}
	}
	return false
}

func blockReachable(from, to *ssa.BasicBlock) bool {
	seen := map[*ssa.BasicBlock]bool{}
	stack := append([]*ssa.BasicBlock(nil), from.Succs...)
	for len(stack) > 0 {
		b := stack[len(stack)-1]
		stack = stack[:len(stack)-1]
		if seen[b] {
			continue
		}
		seen[b] = true
		if b == to {
			return true
		}
		stack = append(stack, b.Succs...)
	}
	return false
}

// isMark: ins records token e (nil: any token) as emitted.
func (cf *cmtFlow) isMark(ins ssa.Instruction, cs *cmtSummaries, e ssa.Value) bool {
	switch x := ins.(type) {
	case *ssa.MapUpdate:
		return isTokenKeyedMap(x.Map.Type()) && (e == nil || stripIdentity(x.Key) == stripIdentity(e))
	case *ssa.Call:
		for _, g := range cf.calleesOf(x) {
			for j, a := range x.Call.Args {
				if cs.marks[g][j] && (e == nil || stripIdentity(a) == stripIdentity(e)) {
					return true
				}
			}
		}
	}
	return false
}

func (cf *cmtFlow) isTextOf(ins ssa.Instruction, cs *cmtSummaries, e ssa.Value) bool {
	c, ok := ins.(*ssa.Call)
	if !ok {
		return false
	}
	if c.Call.IsInvoke() && c.Call.Method.Name() == "GetText" {
		return stripIdentity(c.Call.Value) == stripIdentity(e) && hasRealUse(c)
	}
	for _, g := range cf.calleesOf(c) {
		for j, a := range c.Call.Args {
			if cs.texts[g][j] && stripIdentity(a) == stripIdentity(e) {
				return true
			}
		}
	}
	return false
}

func c09MarkedIsEmitted(w *World, r *Report, cf *cmtFlow, elems map[ssa.Value]bool) {
	const rule = "C09/comment-delivery"
	cs := cf.summaries()
	type key struct {
		fn *ssa.Function
	}
	cnt := map[string]int{}
	var vals []ssa.Value
	for e := range elems {
		vals = append(vals, e)
	}
	sort.Slice(vals, func(i, j int) bool { return vals[i].Pos() < vals[j].Pos() })
	judged := map[ssa.Instruction]bool{}
	for _, e := range vals {
		var fn *ssa.Function
		switch x := e.(type) {
		case *ssa.Parameter:
			fn = x.Parent()
		case ssa.Instruction:
			fn = x.Parent()
		}
		if fn == nil || fn.Blocks == nil {
			continue
		}
		// where the iteration over this element ends: the block that defines it is entered again, or the function returns
		var defBlock *ssa.BasicBlock
		if ins, ok := e.(ssa.Instruction); ok {
			defBlock = ins.Block()
		}
		forEachInstr(fn, func(b *ssa.BasicBlock, ins ssa.Instruction) {
			if judged[ins] || !cf.isMark(ins, cs, e) {
				return
			}
			judged[ins] = true
			if p, isParam := e.(*ssa.Parameter); isParam {
				// the recording happens for a parameter: the obligation is the callers' unless the text is taken here as well
				idx := -1
				for i, q := range fn.Params {
					if q == p {
						idx = i
					}
				}
				if !cs.texts[fn][idx] {
					return
				}
			}
			cnt[fnKey(fn)]++
			k := fmt.Sprintf("%s records a comment as emitted #%d: its text is taken on every path that follows", fnKey(fn), cnt[fnKey(fn)])
			// start points
			starts := []*ssa.BasicBlock{}
			inBlockTail := true
			if c, isCall := ins.(*ssa.Call); isCall {
				only := false
				for _, g := range cf.calleesOf(c) {
					if cs.onlyTrue[g] {
						only = true
					}
				}
				if only {
					if iff, ok := b.Instrs[len(b.Instrs)-1].(*ssa.If); ok {
						cond := iff.Cond
						neg := false
						for {
							if u, ok := cond.(*ssa.UnOp); ok && u.Op == token.NOT {
								cond = u.X
								neg = !neg
								continue
							}
							break
						}
						if cond == ssa.Value(c) {
							inBlockTail = false
							if neg {
								starts = append(starts, b.Succs[1])
							} else {
								starts = append(starts, b.Succs[0])
							}
						}
					}
				}
			}
			// text taken before the recording in the same block / a dominating block counts as well
			before := false
			forEachInstr(fn, func(b2 *ssa.BasicBlock, i2 ssa.Instruction) {
				if cf.isTextOf(i2, cs, e) && instrDominates(i2, ins) {
					before = true
				}
			})
			if before {
				r.pass(rule, k, w.instrPos(ins), "text taken before the token is recorded")
				return
			}
			textIn := func(blk *ssa.BasicBlock, from int) bool {
				for i := from; i < len(blk.Instrs); i++ {
					if cf.isTextOf(blk.Instrs[i], cs, e) {
						return true
					}
				}
				return false
			}
			if inBlockTail {
				pos := 0
				for i, x := range b.Instrs {
					if x == ins {
						pos = i + 1
					}
				}
				if textIn(b, pos) {
					r.pass(rule, k, w.instrPos(ins), "")
					return
				}
				starts = append(starts, b.Succs...)
				if len(b.Succs) == 0 {
					r.fail(rule, k, w.instrPos(ins), "the token is recorded as emitted and the function returns without taking its text: the comment is deleted")
					return
				}
			}
			seen := map[*ssa.BasicBlock]bool{}
			lost := ""
			stack := starts
			for len(stack) > 0 && lost == "" {
				x := stack[len(stack)-1]
				stack = stack[:len(stack)-1]
				if seen[x] {
					continue
				}
				seen[x] = true
				if x == defBlock {
					lost = "the next iteration starts"
					break
				}
				if textIn(x, 0) {
					continue
				}
				if _, isRet := x.Instrs[len(x.Instrs)-1].(*ssa.Return); isRet {
					lost = "the function returns"
					break
				}
				stack = append(stack, x.Succs...)
			}
			if lost == "" {
				r.pass(rule, k, w.instrPos(ins), "")
			} else {
				r.fail(rule, k, w.instrPos(ins), "after the token was recorded as emitted there is a path on which "+lost+" without its text having been taken: the comment is deleted (every later query skips a recorded token)")
			}
		})
	}
}
