package main

// C09/present-child-printed: the formatter asks, construct by construct, whether an optional part is there (`if ctx.X() != nil`,
// `case attr.LengthOfAttribute() != nil:`) and prints it on the edge where it is. content-coverage shows that the part is printed
// *somewhere*; this rule ties the printing to the question: from the edge on which the part is known to be present, a read of that
// same part whose text can reach the function's result is reachable - or the text of the enclosing construct is taken whole there,
// or, for a keyword, its spelling is written there. A presence test with an empty arm behind it prints nothing for what the author
// wrote.

import (
	"fmt"
	"go/constant"
	"go/token"
	"go/types"
	"strings"

	"golang.org/x/tools/go/ssa"
)

func c09PresentChildPrinted(w *World, r *Report, ctxs map[string]*CtxInfo) {
	presentChildUsed(w, r, ctxs, "C09/present-child-printed", formatterFuncs(w), nil, false, "prints", "the text the function returns", "the formatter sees the part and prints nothing for it")
}

// C07/present-child-modelled: the same question asked of the model visitor - where it finds an optional part of a declaration
// present (a field name after the type, an explicit type in front of a length field, a pad character), something read from that part
// reaches the model (what the routine returns or writes through the visitor). Documentation strings are exempt: by C08 they carry no
// meaning for the generated code.
func c07PresentChildModelled(w *World, r *Report, ctxs map[string]*CtxInfo) {
	var fns []*ssa.Function
	for _, fn := range parsePhaseFuncs(w) {
		if fn.Pkg == w.Parser && recvNamedCore(fn) == "PacketDslVisitorImpl" {
			fns = append(fns, fn)
		}
	}
	presentChildUsed(w, r, ctxs, "C07/present-child-modelled", fns, map[string]bool{"STRING_LITERAL": true}, true, "models", "the model", "the declaration is compiled as if the part had not been written")
}

func presentChildUsed(w *World, r *Report, ctxs map[string]*CtxInfo, rule string, fns []*ssa.Function, exempt map[string]bool, flags bool, verb, sink, consequence string) {
	n := 0
	for _, fn := range fns {
		// a presence question whose answer decides nothing (`if ctx.X() != nil { }`): the arm that dealt with the part is gone
		forEachInstr(fn, func(_ *ssa.BasicBlock, ins ssa.Instruction) {
			bo, ok := ins.(*ssa.BinOp)
			if !ok || (bo.Op != token.NEQ && bo.Op != token.EQL) {
				return
			}
			var other ssa.Value
			switch {
			case isNilConst(bo.Y):
				other = bo.X
			case isNilConst(bo.X):
				other = bo.Y
			default:
				return
			}
			call, ok := stripIdentity(other).(*ssa.Call)
			if !ok {
				return
			}
			_, ai, ok := w.accessorOf(call, ctxs)
			if !ok || !ai.Known || ai.What == "stop token" || ai.What == "start token" {
				return
			}
			used := false
			if bo.Referrers() != nil {
				for _, ref := range *bo.Referrers() {
					if _, isDbg := ref.(*ssa.DebugRef); !isDbg {
						used = true
					}
				}
			}
			if used {
				return
			}
			child := strings.TrimSuffix(strings.TrimSuffix(ai.What, "="), "*")
			if ci := ctxs[ai.Ctx]; ci != nil && strings.HasSuffix(ai.What, "=") {
				child = ci.Labels[child]
			}
			if exempt[child] {
				return
			}
			r.fail(rule, fmt.Sprintf("%s %s %s.%s where it finds it present (the question is asked)", fnKey(fn), verb, ai.Ctx, child), w.instrPos(bo), fmt.Sprintf("the routine asks whether %s of %s is present and does nothing with the answer: %s", child, ai.Ctx, consequence))
		})
		// a case for a kind of child (`case *gen.XContext:`) whose arm is empty: the test decides nothing and the node is not used
		forEachInstr(fn, func(_ *ssa.BasicBlock, ins ssa.Instruction) {
			ta, ok := ins.(*ssa.TypeAssert)
			if !ok || !ta.CommaOk || ta.Referrers() == nil {
				return
			}
			cn := grammarCtxName(ta.AssertedType)
			if cn == "" {
				return
			}
			decides, valueUsed := false, false
			for _, ref := range *ta.Referrers() {
				ex, ok := ref.(*ssa.Extract)
				if !ok || ex.Referrers() == nil {
					continue
				}
				for _, r2 := range *ex.Referrers() {
					if _, isDbg := r2.(*ssa.DebugRef); isDbg {
						continue
					}
					if ex.Index == 0 {
						valueUsed = true
						continue
					}
					if iff, ok := r2.(*ssa.If); ok {
						if b := iff.Block(); len(b.Succs) == 2 && !sameDestination(b, b.Succs[0], b.Succs[1]) {
							decides = true
						}
					} else {
						decides = true
					}
				}
			}
			if decides || valueUsed {
				return
			}
			r.fail(rule, fmt.Sprintf("%s %s a child of kind %s where it finds one (a case exists)", fnKey(fn), verb, cn), w.instrPos(ta), fmt.Sprintf("the routine tests a child for being a %s and does nothing on either outcome: %s", cn, consequence))
		})
		counts := map[string]int{}
		for _, bb := range fn.Blocks {
			cond := branchCond(bb)
			if cond == nil {
				continue
			}
			v, nn, ok := nilTest(cond)
			if !ok {
				continue
			}
			call, ok := stripIdentity(v).(*ssa.Call)
			if !ok {
				continue
			}
			recv, ai, ok := w.accessorOf(call, ctxs)
			if !ok || !ai.Known || strings.HasSuffix(ai.What, "*") || ai.What == "stop token" || ai.What == "start token" {
				continue
			}
			ci := ctxs[ai.Ctx]
			if ci == nil {
				continue
			}
			child := strings.TrimSuffix(ai.What, "=")
			if strings.HasSuffix(ai.What, "=") {
				child = ci.Labels[child]
			}
			if _, known := ci.Children[child]; !known || !w.G4.contentChild(ci, child) {
				continue
			}
			lr := w.G4.lrule[child]
			if lr != nil && ci.IsTok[child] && isPunctLiteral(lr.Literals) {
				continue
			}
			if exempt[child] {
				continue
			}
			n++
			kb := fmt.Sprintf("%s %s %s.%s where it finds it present", fnKey(fn), verb, ai.Ctx, child)
			counts[kb]++
			key := kb
			if counts[kb] > 1 {
				key = fmt.Sprintf("%s #%d", kb, counts[kb])
			}
			start := bb.Succs[nn]
			printed := false
			if lr != nil && ci.IsTok[child] && len(lr.Literals) == 1 && keywordPresenceFlows(fn, call, lr.Literals[0]) {
				printed = true
			}
			if !printed && flags {
				// the model keeps presence as a flag: the outcome of the test itself, or `true` on the present edge, reaches the model
				if bo, ok := cond.(*ssa.BinOp); ok && flowsToResult(fn, bo) {
					printed = true
				}
				if !printed && presenceConstFlows(fn, call, func(k *ssa.Const) bool {
					return k.Value != nil && k.Value.Kind() == constant.Bool && constant.BoolVal(k.Value)
				}) {
					printed = true
				}
			}
			if !printed && flags {
				// presence selects what is built: something created on the present edge (an attribute object of the part's kind)
				// reaches the model
				for _, b2 := range fn.Blocks {
					if printed || !edgeDominates(bb, nn, b2) {
						continue
					}
					for _, ins := range b2.Instrs {
						switch x := ins.(type) {
						case *ssa.Alloc:
							if x.Heap && flowsToResult(fn, x) {
								printed = true
							}
						}
					}
				}
			}
			uses := func(ins ssa.Instruction) bool {
				c2, ok := ins.(*ssa.Call)
				if !ok {
					return false
				}
				// the same part read again (from the same node), its text on the way out
				if r2, a2, ok := w.accessorOf(c2, ctxs); ok && a2.Known && a2.Ctx == ai.Ctx && a2.What == ai.What && (sameValue(r2, recv) || sameNodePath(w, ctxs, r2, recv)) {
					return flowsToResult(fn, c2)
				}
				// the node (or the part) handed to a routine of the repository, which deals with it
				if g := c2.Call.StaticCallee(); g != nil && g.Blocks != nil && w.isSubjectFunc(g) && flags {
					for _, a := range c2.Call.Args {
						if grammarCtxName(a.Type()) == "" {
							continue
						}
						if sameValue(a, recv) || sameNodePath(w, ctxs, a, recv) || sameValue(a, call) || sameNodePath(w, ctxs, a, call) {
							return true
						}
					}
				}
				// the whole construct's text
				if c2.Call.IsInvoke() && c2.Call.Method.Name() == "GetText" && (sameValue(c2.Call.Value, recv) || sameNodePath(w, ctxs, c2.Call.Value, recv)) {
					return flowsToResult(fn, c2)
				}
				return false
			}
			if !printed {
				printed = blockReachesForward(start, uses)
			}
			if !printed {
				// read before the question was asked (the whole text taken first, then adjusted by what is present)
				forEachInstr(fn, func(b2 *ssa.BasicBlock, ins ssa.Instruction) {
					if !printed && b2.Dominates(bb) && uses(ins) {
						printed = true
					}
				})
			}
			// the tested value itself is what is printed (x := ctx.X(); if x != nil { ... x.GetText() ... })
			if !printed && flowsToResult(fn, call) {
				printed = true
			}
			if printed {
				r.pass(rule, key, w.instrPos(bb.Instrs[len(bb.Instrs)-1]), "")
			} else {
				r.fail(rule, key, w.instrPos(bb.Instrs[len(bb.Instrs)-1]), fmt.Sprintf("on the edge where %s of %s is present nothing read from it can reach %s: %s", child, ai.Ctx, sink, consequence))
			}
		}
	}
	if n == 0 {
		r.fail(rule, "presence tests found", "internal/parser", "no presence test of an optional grammar child found in the routines examined")
	}
}

// sameNodePath: two values are the same grammar node reached by the same chain of accessors from the same start.
func sameNodePath(w *World, ctxs map[string]*CtxInfo, a, b ssa.Value) bool {
	for i := 0; i < 6; i++ {
		a, b = stripIdentity(a), stripIdentity(b)
		if a == b || sameCellValue(a, b) {
			return true
		}
		ca, ok1 := a.(*ssa.Call)
		cb, ok2 := b.(*ssa.Call)
		if !ok1 || !ok2 {
			return false
		}
		ra, aa, ok1 := w.accessorOf(ca, ctxs)
		rb, ab, ok2 := w.accessorOf(cb, ctxs)
		if !ok1 || !ok2 || !aa.Known || !ab.Known || aa.Ctx != ab.Ctx || aa.What != ab.What || strings.HasSuffix(aa.What, "*") {
			return false
		}
		a, b = ra, rb
	}
	return false
}

// skipEmptyBlocks: the first block at or after b that does something (blocks holding nothing but a jump are passed over).
func skipEmptyBlocks(b *ssa.BasicBlock) *ssa.BasicBlock {
	for i := 0; i < 8; i++ {
		if len(b.Instrs) != 1 {
			return b
		}
		if _, ok := b.Instrs[0].(*ssa.Jump); !ok || len(b.Succs) != 1 {
			return b
		}
		b = b.Succs[0]
	}
	return b
}

// sameDestination: control leaving through a and through b arrives, past blocks that hold nothing but a jump, at the same block with
// the same values for every variable merged there (the phis of that block do not tell the two ways apart).
func sameDestination(from *ssa.BasicBlock, a, b *ssa.BasicBlock) bool {
	arrive := func(p, x *ssa.BasicBlock) (pred, dest *ssa.BasicBlock) {
		for i := 0; i < 8; i++ {
			if len(x.Instrs) != 1 || len(x.Succs) != 1 {
				return p, x
			}
			if _, ok := x.Instrs[0].(*ssa.Jump); !ok {
				return p, x
			}
			p, x = x, x.Succs[0]
		}
		return p, x
	}
	pa, da := arrive(from, a)
	pb, db := arrive(from, b)
	if da != db {
		return false
	}
	ia, ib := -1, -1
	for i, p := range da.Preds {
		if p == pa && ia < 0 {
			ia = i
		}
		if p == pb {
			ib = i
		}
	}
	if ia < 0 || ib < 0 {
		return false
	}
	for _, ins := range da.Instrs {
		phi, ok := ins.(*ssa.Phi)
		if !ok {
			break
		}
		if phi.Edges[ia] != phi.Edges[ib] {
			return false
		}
	}
	return true
}

// C08/repeat-is-modelled: `repeat` in front of a field means the same whatever the field's type is written as - a scalar, a packet, a
// MetaData entry. Every routine of the model visitor that holds a node of a grammar context with a REPEAT child and hands back a
// field built for that node makes the field's IsRepeat depend on that node's REPEAT(): some store into IsRepeat of the returned
// object takes a value derived from REPEAT(), or sits under a test of it. A return path that builds the field without it (an early
// return for "the type is a MetaData entry") models `repeat ClOrdID,` as a single value.
//
// Where the store sits is not part of the property: it may be in the routine itself, or in a routine of the repository that is
// given the field (or produces the returned field) together with the node or with a value made from the node's REPEAT() - the store
// is then looked for in that routine, with its parameters standing for the node / the keyword (repeatCk.carries). A return that
// hands the node on to a routine that is examined on its own (or that cannot be resolved) leaves the obligation with that routine;
// a hand-over to a plain helper is followed. A routine that leaves the keyword to its callers is in order when every call site in
// the repository completes the field it gets back from the REPEAT() of the node it passed (repeatCk.completedByCallers).
func c08RepeatIsModelled(w *World, r *Report, ctxs map[string]*CtxInfo) {
	const rule = "C08/repeat-is-modelled"
	n := 0
	k := &repeatCk{w: w, ctxs: ctxs}
	objBase := fieldObjBase
	// the nodes with a REPEAT child a routine holds: parameters and the bindings of a type switch
	type node struct {
		v     ssa.Value
		ctx   string
		scope *ssa.BasicBlock // the block from which the node is known (entry for a parameter, the ok arm for a binding)
		edge  *ssa.BasicBlock // for a binding: the branch block whose ok edge opens the scope
	}
	hasRepeat := func(t types.Type) string {
		cn := grammarCtxName(t)
		if ci := ctxs[cn]; ci != nil {
			if _, ok := ci.Children["REPEAT"]; ok {
				return cn
			}
		}
		return ""
	}
	var examined []*ssa.Function
	nodesOf := map[*ssa.Function][]node{}
	for _, fn := range parsePhaseFuncs(w) {
		if fn.Pkg != w.Parser || recvNamedCore(fn) != "PacketDslVisitorImpl" {
			continue
		}
		var nodes []node
		for _, p := range fn.Params {
			if cn := hasRepeat(p.Type()); cn != "" {
				nodes = append(nodes, node{p, cn, fn.Blocks[0], nil})
			}
		}
		forEachInstr(fn, func(b *ssa.BasicBlock, ins ssa.Instruction) {
			ta, ok := ins.(*ssa.TypeAssert)
			if !ok || ta.Referrers() == nil {
				return
			}
			cn := hasRepeat(ta.AssertedType)
			if cn == "" {
				return
			}
			if !ta.CommaOk {
				nodes = append(nodes, node{ta, cn, b, nil})
				return
			}
			var val, okv *ssa.Extract
			for _, ref := range *ta.Referrers() {
				if ex, ok := ref.(*ssa.Extract); ok {
					if ex.Index == 0 {
						val = ex
					} else {
						okv = ex
					}
				}
			}
			if val == nil || okv == nil || okv.Referrers() == nil {
				return
			}
			for _, ref := range *okv.Referrers() {
				if iff, ok := ref.(*ssa.If); ok {
					nodes = append(nodes, node{val, cn, iff.Block().Succs[0], iff.Block()})
				}
			}
		})
		examined = append(examined, fn)
		nodesOf[fn] = nodes
	}
	// the routine deals with nodes of this context itself (and is examined for them)
	examinedFor := func(g *ssa.Function, ctx string) bool {
		for _, nd := range nodesOf[g] {
			if nd.ctx == ctx {
				return true
			}
		}
		return false
	}
	for _, fn := range examined {
		cnt := 0
		for _, nd := range nodesOf[fn] {
			for _, b := range fn.Blocks {
				ret, ok := b.Instrs[len(b.Instrs)-1].(*ssa.Return)
				if !ok || len(ret.Results) != 1 {
					continue
				}
				inScope := nd.scope.Dominates(b)
				if nd.edge != nil {
					inScope = edgeDominates(nd.edge, 0, b)
				}
				if !inScope {
					continue
				}
				obj := objBase(ret.Results[0])
				if k, isConst := obj.(*ssa.Const); isConst && (k.IsNil() || k.Value != nil) {
					continue // nothing (or an error text) is handed back
				}
				// handed on: the returned value is what a routine that was given the node produced
				if c, ok := obj.(*ssa.Call); ok {
					passes := false
					for _, a := range c.Call.Args {
						if sameValue(a, nd.v) || sameCellValue(a, nd.v) || objBase(a) == objBase(nd.v) {
							passes = true
						}
					}
					if passes {
						// the obligation goes with the node to a routine that is examined on its own, or out of sight; a plain helper
						// of the repository is looked into instead
						follow := false
						if gs := calleesOfAll(c); len(gs) > 0 {
							follow = true
							for _, g := range gs {
								if g == nil || g.Blocks == nil || !w.isSubjectFunc(g) || examinedFor(g, nd.ctx) {
									follow = false
								}
							}
						}
						if !follow {
							continue
						}
					}
				}
				isField := func(t types.Type) bool { return modelTypeName(t) == "Field" }
				if !isField(obj.Type()) {
					if c, ok := obj.(*ssa.Call); !ok || !isStringType(c.Type()) && c.Type().String() != "interface{}" && c.Type().String() != "any" {
						if _, isAlloc := obj.(*ssa.Alloc); !isAlloc {
							continue
						}
					}
					if al, isAlloc := obj.(*ssa.Alloc); isAlloc && !isField(al.Type()) {
						continue
					}
				}
				n++
				cnt++
				key := fmt.Sprintf("%s: the field handed back for a %s #%d carries its `repeat`", fnKey(fn), nd.ctx, cnt)
				good := k.carries(fn, obj, []ssa.Value{nd.v}, nil, false, 0)
				if !good {
					// left to the callers: every call site completes the field it gets back
					if p, isParam := nd.v.(*ssa.Parameter); isParam {
						for i, q := range fn.Params {
							if q == p && k.completedByCallers(fn, i, 0) {
								good = true
							}
						}
					}
				}
				if good {
					r.pass(rule, key, w.instrPos(ret), "")
				} else {
					r.fail(rule, key, w.instrPos(ret), "the field returned here is built for a node that can carry `repeat`, and nothing stored into its IsRepeat depends on that node's REPEAT(): on this path `repeat X` is modelled as a single X")
				}
			}
		}
	}
	if n == 0 {
		r.fail(rule, "fields built for repeatable nodes found", "internal/parser/packet_dsl_parser.go", "no routine of the model visitor hands back a field for a grammar node that has a REPEAT child")
	}
}

// fieldObjBase: the object behind a returned / passed field value (interface wrapping and type assertions taken off).
func fieldObjBase(v ssa.Value) ssa.Value {
	for i := 0; i < 16; i++ {
		switch x := v.(type) {
		case *ssa.TypeAssert:
			v = x.X
		case *ssa.MakeInterface:
			v = x.X
		case *ssa.ChangeInterface:
			v = x.X
		case *ssa.ChangeType:
			v = x.X
		case *ssa.Extract:
			if ta, ok := x.Tuple.(*ssa.TypeAssert); ok {
				v = ta.X
			} else {
				return v
			}
		default:
			return v
		}
	}
	return v
}

// repeatCk decides whether a field object gets an IsRepeat that depends on the REPEAT() of a grammar node, across the routines of
// the repository the object and the keyword travel through.
type repeatCk struct {
	w    *World
	ctxs map[string]*CtxInfo
}

// reads: the REPEAT() calls in fn whose receiver is one of the nodes.
func (k *repeatCk) reads(fn *ssa.Function, nodes []ssa.Value) []ssa.Value {
	var out []ssa.Value
	if len(nodes) == 0 {
		return nil
	}
	forEachInstr(fn, func(_ *ssa.BasicBlock, ins ssa.Instruction) {
		c, ok := ins.(*ssa.Call)
		if !ok {
			return
		}
		recv, ai, ok := k.w.accessorOf(c, k.ctxs)
		if !ok || !ai.Known || ai.What != "REPEAT" {
			return
		}
		for _, nd := range nodes {
			if sameValue(recv, nd) || sameCellValue(recv, nd) {
				out = append(out, c)
				return
			}
		}
	})
	return out
}

// madeFrom: the value is computed from one of src.
func (k *repeatCk) madeFrom(v ssa.Value, src []ssa.Value) bool {
	seen := map[ssa.Value]bool{}
	var walk func(x ssa.Value, d int) bool
	walk = func(x ssa.Value, d int) bool {
		if x == nil || d > 8 || seen[x] {
			return false
		}
		seen[x] = true
		for _, s := range src {
			if x == s {
				return true
			}
		}
		if y := stripIdentity(x); y != x {
			return walk(y, d+1)
		}
		if in, ok := x.(ssa.Instruction); ok {
			for _, op := range in.Operands(nil) {
				if *op != nil && walk(*op, d+1) {
					return true
				}
			}
		}
		return false
	}
	return walk(v, 0)
}

// underTestOf: the block is reached only over an edge of a nil test of one of src; the block that makes the test.
func (k *repeatCk) underTestOf(fn *ssa.Function, at *ssa.BasicBlock, src []ssa.Value) *ssa.BasicBlock {
	for _, bb := range fn.Blocks {
		cond := branchCond(bb)
		if cond == nil {
			continue
		}
		if tv, _, ok := nilTest(cond); ok {
			for _, s := range src {
				if stripIdentity(tv) == s && (edgeDominates(bb, 0, at) || edgeDominates(bb, 1, at)) {
					return bb
				}
			}
		}
	}
	return nil
}

// carries: some store into IsRepeat of obj depends on the keyword - on a REPEAT() read from one of nodes, or on one of src (values
// already known to be made from it; always: whatever is done here happens under a test of it). The store is in fn, or in a routine
// that fn gives obj to, or gets obj from, together with a node or a value made from the keyword.
func (k *repeatCk) carries(fn *ssa.Function, obj ssa.Value, nodes, src []ssa.Value, always bool, depth int) bool {
	return len(k.carriesAt(fn, obj, nodes, src, always, depth, false)) > 0
}

// carriesAt: where in fn that happens - the blocks of the stores / calls that do it, for one that sits under a test of the keyword
// the block that makes the test (all of them when all is set, else the first).
func (k *repeatCk) carriesAt(fn *ssa.Function, obj ssa.Value, nodes, src []ssa.Value, always bool, depth int, all bool) []*ssa.BasicBlock {
	if depth > 4 || fn == nil || fn.Blocks == nil {
		return nil
	}
	obj = fieldObjBase(obj)
	src = append(src[:len(src):len(src)], k.reads(fn, nodes)...)
	same := func(v ssa.Value) bool {
		b := fieldObjBase(v)
		return b == obj || sameCellValue(b, obj)
	}
	isNode := func(v ssa.Value) bool {
		for _, nd := range nodes {
			if sameValue(v, nd) || sameCellValue(v, nd) || fieldObjBase(v) == fieldObjBase(nd) {
				return true
			}
		}
		return false
	}
	var at []*ssa.BasicBlock
	forEachInstr(fn, func(sb *ssa.BasicBlock, ins ssa.Instruction) {
		if len(at) > 0 && !all {
			return
		}
		switch x := ins.(type) {
		case *ssa.Store:
			fa, ok := x.Addr.(*ssa.FieldAddr)
			if !ok {
				return
			}
			if tn, fname, _, _ := fieldOf(fa); tn != "Field" || fname != "IsRepeat" {
				return
			}
			if !same(fa.X) {
				return
			}
			if always || k.madeFrom(x.Val, src) {
				at = append(at, sb)
			} else if tb := k.underTestOf(fn, sb, src); tb != nil {
				at = append(at, tb)
			}
		case *ssa.Call:
			args := x.Call.Args
			if x.Call.IsInvoke() {
				return
			}
			isResult := ssa.Value(x) == obj
			objArg := -1
			for i, a := range args {
				if same(a) {
					objArg = i
				}
			}
			if !isResult && objArg < 0 {
				return
			}
			callees := calleesOfAll(x)
			if len(callees) == 0 {
				return
			}
			tb := k.underTestOf(fn, sb, src)
			under := always || tb != nil
			for _, g := range callees {
				if g == nil || g.Blocks == nil || !k.w.isSubjectFunc(g) {
					return
				}
				off := len(g.Params) - len(args) // a method value: the receiver is bound, not passed
				if off < 0 || off > 1 {
					return
				}
				var gn, gs []ssa.Value
				for i, a := range args {
					if i == objArg {
						continue
					}
					if isNode(a) {
						gn = append(gn, g.Params[i+off])
					} else if k.madeFrom(a, src) {
						gs = append(gs, g.Params[i+off])
					}
				}
				if !under && len(gn) == 0 && len(gs) == 0 {
					return
				}
				ok := objArg >= 0 && k.carries(g, g.Params[objArg+off], gn, gs, under, depth+1)
				if !ok && isResult {
					ok = k.returnsCarry(g, gn, gs, under, depth+1)
				}
				if !ok {
					return
				}
			}
			if tb != nil {
				at = append(at, tb)
			} else {
				at = append(at, sb)
			}
		}
	})
	return at
}

// returnsCarry: every field g hands back carries the keyword (g's parameters nodes / src standing for the node / the keyword).
func (k *repeatCk) returnsCarry(g *ssa.Function, nodes, src []ssa.Value, always bool, depth int) bool {
	if depth > 4 || g == nil || g.Blocks == nil {
		return false
	}
	n := 0
	for _, b := range g.Blocks {
		ret, ok := b.Instrs[len(b.Instrs)-1].(*ssa.Return)
		if !ok {
			continue
		}
		if len(ret.Results) == 0 {
			return false
		}
		robj := fieldObjBase(ret.Results[0])
		if c, isConst := robj.(*ssa.Const); isConst && c.IsNil() {
			continue
		}
		if !k.carries(g, robj, nodes, src, always, depth) {
			return false
		}
		n++
	}
	return n > 0
}

// completedByCallers: fn hands back a field for the node in its parameter idx and leaves `repeat` to its callers: every call site
// in the repository (there is one, and none is out of sight) completes the field it gets back from the REPEAT() of the node it
// passed - itself or, handing the field on unchanged, through its own callers.
func (k *repeatCk) completedByCallers(fn *ssa.Function, idx int, depth int) bool {
	if depth > 2 {
		return false
	}
	cgn := k.w.CallGraph().Nodes[fn]
	if cgn == nil {
		return false
	}
	real := 0
	for _, e := range cgn.In {
		if e.Caller.Func.Synthetic != "" {
			continue // pointer-receiver wrappers and bound-method thunks: not call sites of the program text
		}
		real++
		site, ok := e.Site.(*ssa.Call)
		if !ok || site.Call.IsInvoke() || site.Call.StaticCallee() != fn || idx >= len(site.Call.Args) {
			return false
		}
		cf := e.Caller.Func
		// the field as it came back is not handed out on a way that goes round the completion
		var bare []*ssa.BasicBlock
		for _, b := range cf.Blocks {
			if ret, ok := b.Instrs[len(b.Instrs)-1].(*ssa.Return); ok && len(ret.Results) == 1 && fieldObjBase(ret.Results[0]) == ssa.Value(site) {
				bare = append(bare, b)
			}
		}
		if at := k.carriesAt(cf, site, []ssa.Value{site.Call.Args[idx]}, nil, false, 0, true); len(at) > 0 {
			covered := true
			for _, b := range bare {
				dom := false
				for _, a := range at {
					if a.Dominates(b) {
						dom = true
					}
				}
				if !dom {
					covered = false
				}
			}
			if covered {
				continue
			}
			return false
		}
		// handed back unchanged by a routine that got the node from its own caller
		up := false
		if p, isParam := stripIdentity(site.Call.Args[idx]).(*ssa.Parameter); isParam && p.Parent() == cf {
			if len(bare) > 0 {
				for i, q := range cf.Params {
					if q == p && k.completedByCallers(cf, i, depth+1) {
						up = true
					}
				}
			}
		}
		if !up {
			return false
		}
	}
	return real > 0
}
