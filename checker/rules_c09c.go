package main

// C09/present-child-printed: the formatter asks, construct by construct, whether an optional part is there (`if ctx.X() != nil`,
// `case attr.LengthOfAttribute() != nil:`) and prints it on the edge where it is. content-coverage shows that the part is printed
// *somewhere*; this rule ties the printing to the question: from the edge on which the part is known to be present, a read of that
// same part whose text can reach the function's result is reachable - or the text of the enclosing construct is taken whole there,
// or, for a keyword, its spelling is written there. A presence test with an empty arm behind it prints nothing for what the author
// wrote.

import (
	"fmt"
	"strings"

	"golang.org/x/tools/go/ssa"
)

func c09PresentChildPrinted(w *World, r *Report, ctxs map[string]*CtxInfo) {
	const rule = "C09/present-child-printed"
	n := 0
	for _, fn := range formatterFuncs(w) {
		counts := map[string]int{}
		for _, bb := range fn.Blocks {
			cond := branchCond(bb)
			if cond == nil {
				continue
			}
			v, nn, ok := nilTest(cond)
			if !ok {
				continue
			}
			call, ok := stripIdentity(v).(*ssa.Call)
			if !ok {
				continue
			}
			recv, ai, ok := w.accessorOf(call, ctxs)
			if !ok || !ai.Known || strings.HasSuffix(ai.What, "*") || ai.What == "stop token" || ai.What == "start token" {
				continue
			}
			ci := ctxs[ai.Ctx]
			if ci == nil {
				continue
			}
			child := strings.TrimSuffix(ai.What, "=")
			if strings.HasSuffix(ai.What, "=") {
				child = ci.Labels[child]
			}
			if _, known := ci.Children[child]; !known || !w.G4.contentChild(ci, child) {
				continue
			}
			lr := w.G4.lrule[child]
			if lr != nil && ci.IsTok[child] && isPunctLiteral(lr.Literals) {
				continue
			}
			n++
			kb := fmt.Sprintf("%s prints %s.%s where it finds it present", fnKey(fn), ai.Ctx, child)
			counts[kb]++
			key := kb
			if counts[kb] > 1 {
				key = fmt.Sprintf("%s #%d", kb, counts[kb])
			}
			start := bb.Succs[nn]
			printed := false
			if lr != nil && ci.IsTok[child] && len(lr.Literals) == 1 && keywordPresenceFlows(fn, call, lr.Literals[0]) {
				printed = true
			}
			if !printed {
				printed = blockReachesForward(start, func(ins ssa.Instruction) bool {
					c2, ok := ins.(*ssa.Call)
					if !ok {
						return false
					}
					// the same part read again (from the same node), its text on the way out
					if r2, a2, ok := w.accessorOf(c2, ctxs); ok && a2.Known && a2.Ctx == ai.Ctx && a2.What == ai.What && sameValue(r2, recv) {
						return flowsToResult(fn, c2)
					}
					// the whole construct's text
					if c2.Call.IsInvoke() && c2.Call.Method.Name() == "GetText" && sameValue(c2.Call.Value, recv) {
						return flowsToResult(fn, c2)
					}
					return false
				})
			}
			// the tested value itself is what is printed (x := ctx.X(); if x != nil { ... x.GetText() ... })
			if !printed && flowsToResult(fn, call) {
				printed = true
			}
			if printed {
				r.pass(rule, key, w.instrPos(bb.Instrs[len(bb.Instrs)-1]), "")
			} else {
				r.fail(rule, key, w.instrPos(bb.Instrs[len(bb.Instrs)-1]), fmt.Sprintf("on the edge where %s of %s is present nothing read from it can reach the text the function returns: the formatter sees the part and prints nothing for it", child, ai.Ctx))
			}
		}
	}
	if n == 0 {
		r.fail(rule, "presence tests found", "internal/parser/packet_dsl_formattor.go", "no presence test of an optional grammar child found in the formatter")
	}
}
