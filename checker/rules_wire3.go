package main

// */one-byte-has-no-endian-variant
//
// The target runtimes name their endian-specific accessors after the scalar type (bytes::BufMut::put_u16_le,
// byteorder::LittleEndian::write_u32, ...). One-byte types have no such variants in any of them - there is no put_u8_le,
// no ByteOrder::write_u8 - so an emitter that composes "<endianness flavour> + <type name>" into one identifier must not do so
// for a field whose type may be a one-byte scalar. Decided from the generator's own source:
//   site     a format string (or string concatenation) in which a %s verb and an endianness-flavoured word (le, be, LittleEndian,
//            BigEndian) are parts of the same identifier path, the verb's operand being a field's type name (Field.GetType(), directly
//            or through a string parameter bound at the call sites);
//   demand   on every path to the site the type name is known not to be a one-byte scalar: the field's kind state excludes the
//            scalar kinds, or comparisons of the same type name with "u8"/"i8" (if/switch, either polarity, also a test of the
//            type table's Size) exclude each of them (a forward must-analysis over branch edges).
// What it does not decide: whether the composed name exists in the runtime for the remaining types.

import (
	"fmt"
	"go/constant"
	"go/token"
	"go/types"
	"math/bits"
	"regexp"
	"sort"
	"strconv"
	"strings"

	"golang.org/x/tools/go/ssa"
)

var oneByteNames = []string{"u8", "i8"}

const oneByteAll = 3

func oneByteBit(s string) int {
	for i, n := range oneByteNames {
		if n == s {
			return 1 << i
		}
	}
	return 0
}

type fmtVerb struct {
	start, end int // [start,end) of the verb in the format
	verb       byte
	operand    int
}

func scanVerbs(format string) []fmtVerb {
	var out []fmtVerb
	n := 0
	for i := 0; i < len(format); i++ {
		if format[i] != '%' {
			continue
		}
		j := i + 1
		for j < len(format) && strings.IndexByte("+-# 0123456789.[]*", format[j]) >= 0 {
			j++
		}
		if j >= len(format) {
			break
		}
		if format[j] == '%' {
			i = j
			continue
		}
		out = append(out, fmtVerb{i, j + 1, format[j], n})
		n++
		i = j
	}
	return out
}

var identPathChar = func(c byte) bool {
	return c == '_' || c == ':' || (c >= '0' && c <= '9') || (c >= 'a' && c <= 'z') || (c >= 'A' && c <= 'Z')
}

var endianWordRE = regexp.MustCompile(`(?i)^(le|be|littleendian|bigendian)$`)

// endianFlavouredIdent: the identifier path around format[start:end) (the verb) contains an endianness word.
func endianFlavouredIdent(format string, start, end int) (string, bool) {
	i := start
	for i > 0 && identPathChar(format[i-1]) {
		i--
	}
	j := end
	for j < len(format) && identPathChar(format[j]) {
		j++
	}
	ident := format[i:start] + "\x00" + format[end:j]
	return strings.ReplaceAll(ident, "\x00", "<type>"), endianWords(format[i:start]) || endianWords(format[end:j])
}

func endianWords(s string) bool {
	for _, w := range strings.FieldsFunc(s, func(r rune) bool { return r == '_' || r == ':' }) {
		if endianWordRE.MatchString(w) {
			return true
		}
	}
	// camel-case suffix/prefix forms: writeU16LE is not composed with %s in this code base; only word forms are recognised
	return false
}

// typeNameCarrier: v is a field's type name. Returns the key identifying "the same field" (the pointer/value the receiver was
// taken from) or the string parameter that carries the name.
func typeNameCarrier(v ssa.Value) (key ssa.Value, param *ssa.Parameter, ok bool) {
	v = stripIdentity(v)
	switch x := v.(type) {
	case *ssa.Call:
		f := x.Call.StaticCallee()
		if f == nil {
			return nil, nil, false
		}
		if f.Name() == "GetType" && f.Signature.Recv() != nil && modelTypeName(f.Signature.Recv().Type()) == "Field" && len(x.Call.Args) == 1 {
			a := stripIdentity(x.Call.Args[0])
			if ld, ok := a.(*ssa.UnOp); ok && ld.Op == token.MUL {
				a = stripIdentity(ld.X)
			}
			return a, nil, true
		}
		if (f.String() == "strings.ToUpper" || f.String() == "strings.ToLower" || f.String() == "strings.TrimSpace") && len(x.Call.Args) == 1 {
			return typeNameCarrier(x.Call.Args[0])
		}
	case *ssa.Parameter:
		if bt, ok := x.Type().Underlying().(*types.Basic); ok && bt.Info()&types.IsString != 0 {
			return nil, x, true
		}
	}
	return nil, nil, false
}

// sameCarrier: x denotes the same type name as (key|param).
func sameCarrier(x ssa.Value, key ssa.Value, param *ssa.Parameter) bool {
	x = stripIdentity(x)
	if param != nil {
		return x == ssa.Value(param)
	}
	k2, _, ok := typeNameCarrier(x)
	if !ok || k2 == nil {
		return false
	}
	return sameAccessPath(k2, key, 0)
}

// sameAccessPath: two values denote the same storage path (identical value, or the same field chain from the same root).
func sameAccessPath(a, b ssa.Value, depth int) bool {
	a, b = stripIdentity(a), stripIdentity(b)
	if a == b {
		return true
	}
	if depth > 4 {
		return false
	}
	switch x := a.(type) {
	case *ssa.FieldAddr:
		y, ok := b.(*ssa.FieldAddr)
		return ok && x.Field == y.Field && sameAccessPath(x.X, y.X, depth+1)
	case *ssa.Field:
		y, ok := b.(*ssa.Field)
		return ok && x.Field == y.Field && sameAccessPath(x.X, y.X, depth+1)
	case *ssa.UnOp:
		y, ok := b.(*ssa.UnOp)
		return ok && x.Op == y.Op && x.Op == token.MUL && sameAccessPath(x.X, y.X, depth+1)
	}
	return false
}

// edgeExcludes: which one-byte names are excluded when cond has value val.
func edgeExcludes(cond ssa.Value, val bool, key ssa.Value, param *ssa.Parameter) int {
	switch x := cond.(type) {
	case *ssa.UnOp:
		if x.Op == token.NOT {
			return edgeExcludes(x.X, !val, key, param)
		}
	case *ssa.Call:
		// a predicate helper handed the type name: isOneByte(typ)
		if h := x.Call.StaticCallee(); h != nil && h.Blocks != nil && h.Signature.Results().Len() == 1 {
			if bt, ok := h.Signature.Results().At(0).Type().Underlying().(*types.Basic); ok && bt.Kind() == types.Bool {
				for i, a := range x.Call.Args {
					if sameCarrier(a, key, param) {
						return predicateExcludes(h, i, val, 0)
					}
				}
			}
		}
	case *ssa.BinOp:
		for i, pair := range [][2]ssa.Value{{x.X, x.Y}, {x.Y, x.X}} {
			k, isK := pair[1].(*ssa.Const)
			if !isK || k.Value == nil {
				continue
			}
			op := x.Op
			if i == 1 {
				switch op {
				case token.LSS:
					op = token.GTR
				case token.GTR:
					op = token.LSS
				case token.LEQ:
					op = token.GEQ
				case token.GEQ:
					op = token.LEQ
				}
			}
			if k.Value.Kind() == constant.String && (op == token.EQL || op == token.NEQ) && sameCarrier(pair[0], key, param) {
				c := constant.StringVal(k.Value)
				eq := (op == token.EQL) == val
				if eq {
					return oneByteAll &^ oneByteBit(c) // the name is c
				}
				return oneByteBit(c)
			}
			// a test of the width the type table records for this name: table[name].Size
			if k.Value.Kind() == constant.Int && sizeOfCarrier(pair[0], key, param) {
				n, _ := constant.Int64Val(k.Value)
				var multi, known bool // cond true means: width > 1
				switch {
				case op == token.GTR && n == 1, op == token.GEQ && n == 2, op == token.NEQ && n == 1:
					multi, known = true, true
				case op == token.EQL && n == 1, op == token.LEQ && n == 1, op == token.LSS && n == 2:
					multi, known = false, true
				}
				if known && multi == val {
					return oneByteAll
				}
			}
		}
	}
	return 0
}

// predicateExcludes: h is a bool function handed the type name as parameter pidx; which one-byte names are excluded when it
// returns val?
func predicateExcludes(h *ssa.Function, pidx int, val bool, depth int) int {
	if h == nil || h.Blocks == nil || pidx >= len(h.Params) || depth > 3 {
		return 0
	}
	param := h.Params[pidx]
	must := mustFacts(h, oneByteAll, func(b *ssa.BasicBlock, succ int) int {
		cond := branchCond(b)
		if cond == nil {
			return 0
		}
		return edgeExcludes(cond, succ == 0, nil, param)
	})
	var eval func(v ssa.Value, at *ssa.BasicBlock, d int) (int, bool) // (excluded, feasible)
	eval = func(v ssa.Value, at *ssa.BasicBlock, d int) (int, bool) {
		if d > 6 {
			return 0, true
		}
		switch x := v.(type) {
		case *ssa.Const:
			if x.Value == nil || x.Value.Kind() != constant.Bool {
				return 0, true
			}
			if constant.BoolVal(x.Value) != val {
				return 0, false
			}
			return must[at.Index], true
		case *ssa.Phi:
			acc, any := oneByteAll, false
			for i, e := range x.Edges {
				ex, feasible := eval(e, x.Block().Preds[i], d+1)
				if !feasible {
					continue
				}
				any = true
				acc &= ex
			}
			return acc, any
		default:
			return must[at.Index] | edgeExcludes(v, val, nil, param), true
		}
	}
	acc, any := oneByteAll, false
	for _, b := range h.Blocks {
		ret, ok := b.Instrs[len(b.Instrs)-1].(*ssa.Return)
		if !ok || len(ret.Results) != 1 {
			continue
		}
		ex, feasible := eval(ret.Results[0], b, 0)
		if !feasible {
			continue
		}
		any = true
		acc &= ex
	}
	if !any {
		return 0
	}
	return acc
}

// sizeOfCarrier: v is table[<carrier>].Size for some table.
func sizeOfCarrier(v ssa.Value, key ssa.Value, param *ssa.Parameter) bool {
	v = stripIdentity(v)
	var base ssa.Value
	switch x := v.(type) {
	case *ssa.Field:
		if fieldNameOf(x.X.Type(), x.Field) != "Size" {
			return false
		}
		base = stripIdentity(x.X)
	case *ssa.UnOp:
		fa, ok := x.X.(*ssa.FieldAddr)
		if !ok || x.Op != token.MUL || fieldNameOf(fa.X.Type(), fa.Field) != "Size" {
			return false
		}
		base = stripIdentity(fa.X)
	default:
		return false
	}
	for d := 0; d < 4 && base != nil; d++ {
		switch b := base.(type) {
		case *ssa.Lookup:
			return sameCarrier(b.Index, key, param)
		case *ssa.Extract:
			base = stripIdentity(b.Tuple)
		case *ssa.UnOp:
			base = stripIdentity(b.X)
		case *ssa.Alloc:
			// spilled lookup result
			var stored ssa.Value
			if b.Referrers() != nil {
				for _, ref := range *b.Referrers() {
					if st, ok := ref.(*ssa.Store); ok && st.Addr == ssa.Value(b) {
						stored = st.Val
					}
				}
			}
			base = stripIdentity(stored)
		default:
			return false
		}
	}
	return false
}

func fieldNameOf(t types.Type, idx int) string {
	if p, ok := t.Underlying().(*types.Pointer); ok {
		t = p.Elem()
	}
	st, ok := t.Underlying().(*types.Struct)
	if !ok || idx >= st.NumFields() {
		return ""
	}
	return st.Field(idx).Name()
}

// oneByteExcludedAt: the one-byte names excluded on every path from fn's entry to blk (forward must-analysis).
func oneByteExcludedAt(fn *ssa.Function, blk *ssa.BasicBlock, key ssa.Value, param *ssa.Parameter) int {
	in := make([]int, len(fn.Blocks))
	for i := range in {
		in[i] = oneByteAll // top
	}
	in[0] = 0
	reach := map[*ssa.BasicBlock]bool{fn.Blocks[0]: true}
	changed := true
	for changed {
		changed = false
		for _, b := range fn.Blocks {
			if !reach[b] {
				continue
			}
			cond := branchCond(b)
			for si, s := range b.Succs {
				out := in[b.Index]
				if cond != nil && len(b.Succs) == 2 && b.Succs[0] != b.Succs[1] {
					out |= edgeExcludes(cond, si == 0, key, param)
				}
				nv := out
				if reach[s] {
					nv = in[s.Index] & out
				}
				if !reach[s] || nv != in[s.Index] {
					// first visit: take out; later: intersect
					if !reach[s] {
						in[s.Index] = out
					} else {
						in[s.Index] = nv
					}
					reach[s] = true
					changed = true
				}
			}
		}
	}
	if !reach[blk] {
		return oneByteAll
	}
	return in[blk.Index]
}

func wireOneByteEndian(w *World, wc *wireCtx, r *Report, prop string) {
	rule := prop + "/one-byte-has-no-endian-variant"
	type callSites = map[*ssa.Function][]ssa.CallInstruction
	sites := callSites{}
	var all []*ssa.Function
	seen := map[*ssa.Function]bool{}
	for _, ga := range anchorTable {
		for _, fn := range wc.anchors[ga.Lang]["own"] {
			for _, g := range append([]*ssa.Function{fn}, fn.AnonFuncs...) {
				if !seen[g] {
					seen[g] = true
					all = append(all, g)
				}
			}
		}
	}
	// helpers of the parser package called from them
	for changed := true; changed; {
		changed = false
		for _, fn := range append([]*ssa.Function(nil), all...) {
			forEachInstr(fn, func(_ *ssa.BasicBlock, ins ssa.Instruction) {
				c, ok := ins.(ssa.CallInstruction)
				if !ok {
					return
				}
				if g := calleeOf(c); g != nil && g.Pkg == w.Parser && g.Blocks != nil && !seen[g] {
					seen[g] = true
					all = append(all, g)
					changed = true
				}
			})
		}
	}
	for _, fn := range all {
		forEachInstr(fn, func(_ *ssa.BasicBlock, ins ssa.Instruction) {
			if c, ok := ins.(ssa.CallInstruction); ok {
				if g := calleeOf(c); g != nil {
					sites[g] = append(sites[g], c)
				}
			}
		})
	}
	sort.Slice(all, func(i, j int) bool { return fnKey(all[i]) < fnKey(all[j]) })

	// mayBeOneByte: can the type name carried by v at blk (in fn) be a one-byte scalar? returns the names not excluded
	var mayBe func(fn *ssa.Function, blk *ssa.BasicBlock, v ssa.Value, depth int) (int, bool)
	mayBe = func(fn *ssa.Function, blk *ssa.BasicBlock, v ssa.Value, depth int) (int, bool) {
		key, param, ok := typeNameCarrier(v)
		if !ok {
			return 0, false
		}
		left := oneByteAll &^ oneByteExcludedAt(fn, blk, key, param)
		if left == 0 {
			return 0, true
		}
		if param != nil {
			if depth > 2 {
				return left, true
			}
			idx := -1
			for i, p := range fn.Params {
				if p == param {
					idx = i
				}
			}
			if idx < 0 || len(sites[fn]) == 0 {
				return left, true
			}
			union := 0
			for _, s := range sites[fn] {
				if idx >= len(s.Common().Args) {
					return left, true
				}
				l2, ok2 := mayBe(s.Parent(), s.Block(), s.Common().Args[idx], depth+1)
				if !ok2 {
					// the argument is not a field's type name (a constant, a configured prefix type): judge constants
					if k, isK := stripIdentity(s.Common().Args[idx]).(*ssa.Const); isK && k.Value != nil && k.Value.Kind() == constant.String {
						l2 = oneByteBit(constant.StringVal(k.Value))
					} else {
						l2 = 0 // other strings (configured prefix types are never composed into accessor names here) - not judged
					}
				}
				union |= l2
			}
			return left & union, true
		}
		// the field's kind state: a non-scalar field's GetType() is "string", "match" or a packet name
		if st, f := wc.m.stateAt(fn, blk); f != nil && !st.empty() && sameAccessPath(key, f, 0) {
			if !st.admits(unit{K: kBasic}) && !st.admits(unit{K: kLength}) && !st.admits(unit{K: kCheckSum}) && !st.admits(unit{K: kBasic, List: true}) {
				return 0, true
			}
		}
		return left, true
	}

	names := func(bits int) string {
		var out []string
		for i, n := range oneByteNames {
			if bits&(1<<i) != 0 {
				out = append(out, n)
			}
		}
		return strings.Join(out, ", ")
	}
	n := 0
	cnt := map[string]int{}
	judge := func(fn *ssa.Function, ins ssa.Instruction, ident string, operand ssa.Value) {
		left, ok := mayBe(fn, ins.Block(), operand, 0)
		if !ok {
			return
		}
		n++
		cnt[fnKey(fn)+ident]++
		key := fmt.Sprintf("%s composes %s", fnKey(fn), ident)
		if c := cnt[fnKey(fn)+ident]; c > 1 {
			key += fmt.Sprintf(" #%d", c)
		}
		if left == 0 {
			r.pass(rule, key, w.instrPos(ins), "one-byte type names excluded on every path")
		} else {
			r.fail(rule, key, w.instrPos(ins), "the endian-specific accessor name is composed from the field's type name on a path where the type may be "+names(left)+": one-byte scalars have no endian variants in the runtime (no put_u8_le, no ByteOrder::write_u8), the emitted program does not build")
		}
	}
	for _, fn := range all {
		forEachInstr(fn, func(_ *ssa.BasicBlock, ins ssa.Instruction) {
			switch x := ins.(type) {
			case ssa.CallInstruction:
				f := x.Common().StaticCallee()
				if f == nil {
					return
				}
				fi := -1
				switch f.String() {
				case "fmt.Sprintf":
					fi = 0
				case "fmt.Fprintf":
					fi = 1
				}
				if fi < 0 || len(x.Common().Args) < fi+2 {
					return
				}
				fc, ok := x.Common().Args[fi].(*ssa.Const)
				if !ok || fc.Value == nil || fc.Value.Kind() != constant.String {
					return
				}
				format := constant.StringVal(fc.Value)
				ops := variadicOperands(x.Common().Args[fi+1])
				for _, vb := range scanVerbs(format) {
					if vb.verb != 's' && vb.verb != 'v' {
						continue
					}
					ident, fl := endianFlavouredIdent(format, vb.start, vb.end)
					if !fl || vb.operand >= len(ops) || ops[vb.operand] == nil {
						continue
					}
					judge(fn, ins, ident, ops[vb.operand])
				}
			case *ssa.BinOp:
				if x.Op != token.ADD {
					return
				}
				if bt, ok := x.Type().Underlying().(*types.Basic); !ok || bt.Info()&types.IsString == 0 {
					return
				}
				// <... type name> + "_le..."   or   "...LittleEndian::write_" + <type name>
				if k, ok := x.Y.(*ssa.Const); ok && k.Value != nil && k.Value.Kind() == constant.String {
					s := constant.StringVal(k.Value)
					j := 0
					for j < len(s) && identPathChar(s[j]) {
						j++
					}
					if endianWords(s[:j]) {
						if tv := trailingTypeName(x.X, 0); tv != nil {
							judge(fn, ins, "<type>"+s[:j], tv)
						}
					}
				}
				if k, ok := x.X.(*ssa.Const); ok && k.Value != nil && k.Value.Kind() == constant.String {
					s := constant.StringVal(k.Value)
					i := len(s)
					for i > 0 && identPathChar(s[i-1]) {
						i--
					}
					if endianWords(s[i:]) {
						if _, _, ok := typeNameCarrier(x.Y); ok {
							judge(fn, ins, s[i:]+"<type>", x.Y)
						}
					}
				}
			}
		})
	}
	if n == 0 {
		r.note("%s: no site composes an endian-specific accessor name from a field's type name", rule)
	}
}

// trailingTypeName: the value whose text ends the string v, if that is a field's type name ("put_" + f.GetType()).
func trailingTypeName(v ssa.Value, depth int) ssa.Value {
	if depth > 4 {
		return nil
	}
	v = stripIdentity(v)
	if _, _, ok := typeNameCarrier(v); ok {
		return v
	}
	switch x := v.(type) {
	case *ssa.BinOp:
		if x.Op == token.ADD {
			return trailingTypeName(x.Y, depth+1)
		}
	case *ssa.Phi:
		for _, e := range x.Edges {
			if t := trailingTypeName(e, depth+1); t != nil {
				return t
			}
		}
	}
	return nil
}

// */model-sequence-frame: generator-reachable code does not rewrite, in place, the sequences the wire is derived from - a packet's
// field list (declaration order, C01/C03) or a match field's pair list (dispatch table, C05). Every generator reads the one parsed
// model; a sort, an in-place filter (append onto x[:0]) or an element store on those slices changes what the generators that run
// later emit. The engine is C14's write-effect analysis (scanFrame); this rule keeps the findings whose written storage is a
// sequence of model.Field / model.MatchPair.
func wireSequenceFrame(w *World, r *Report, prop string, elems map[string]bool) {
	rule := prop + "/model-sequence-frame"
	subjects, err := c14Subjects(w)
	if err != nil {
		r.fatal("%v", err)
		return
	}
	mparams := mutatedParams(w)
	n := 0
	nw := 0
	for _, fn := range subjects {
		var bad []frameFinding
		for _, f := range scanFrame(w, fn, mparams, &nw) {
			if f.typ == nil || f.rule != "C14/model-frame" {
				continue
			}
			if en := seqElemName(f.typ); elems[en] {
				bad = append(bad, f)
			}
		}
		n++
		if len(bad) == 0 {
			r.pass(rule, fnKey(fn), w.pos(fn.Pos()), "")
			continue
		}
		seen := map[string]bool{}
		for _, f := range bad {
			if seen[f.what] {
				continue
			}
			seen[f.what] = true
			r.fail(rule, fnKey(fn)+": "+f.what, f.pos, "a generator rewrites a sequence of the shared model in place: the generators that run after it see another field order / match table than the DSL declares")
		}
	}
	r.floor(rule, 100)
}

// */model-frame: C14's write-effect scan, kept for the properties whose subject the written storage is. Every generator reads the one
// parsed model, so a generator (or a helper it calls) that rewrites a part of it changes what the targets generated after it emit.
// Which property that breaks depends on what is rewritten: rx selects the written model members by their description
// ("Field.Attr", "Packet.MatchFields", ...), elems the element types of rewritten sequences. Only direct writes are kept - a call
// that hands shared storage to a writing callee is reported at the callee's own write.
var (
	frameWire     = regexp.MustCompile(`\b(Field\.(Attr|IsRepeat|LenAttr|Name)|[A-Za-z]*FieldAttribute\.[A-Za-z]+|LengthOfAttribute\.[A-Za-z]+|Padding\.[A-Za-z]+|Configuration\.[A-Za-z]+|MatchPair\.[A-Za-z]+|Packet\.(Fields|LengthField|MatchFields|FieldMap|Name)|BinaryModel\.Config)\b`)
	// framePadding: what decides the spelling of a literal in the emitted programs (pad characters, option values)
	framePadding  = regexp.MustCompile(`\bPadding\.[A-Za-z]+\b|\bConfiguration\.[A-Za-z]+\b|\bFixedStringFieldAttribute\.[A-Za-z]+\b`)
	framePackets  = regexp.MustCompile(`\bBinaryModel\.(Packets|PacketsMap|RootPacket|MetaDataMap)\b|\bPacket\.(IsRoot|Fields|Name)\b|\bField\.Attr\b`)
	frameLength   = regexp.MustCompile(`Length|LenAttr|\bField\.Attr\b|\bPacket\.Fields\b`)
	frameMatch    = regexp.MustCompile(`Match|\bField\.Attr\b`)
	frameCheckSum = regexp.MustCompile(`CheckSum|\bField\.Attr\b`)
)

func wireModelFrame(w *World, r *Report, prop string, rx *regexp.Regexp, also *regexp.Regexp, elems map[string]bool, why string) {
	rule := prop + "/model-frame"
	subjects, err := c14Subjects(w)
	if err != nil {
		r.fatal("%v", err)
		return
	}
	mparams := mutatedParams(w)
	nw := 0
	for _, fn := range subjects {
		var bad []frameFinding
		for _, f := range scanFrame(w, fn, mparams, &nw) {
			if f.rule != "C14/model-frame" || strings.HasPrefix(f.what, "passes storage") {
				continue
			}
			hit := rx != nil && rx.MatchString(f.what) && (also == nil || also.MatchString(f.what))
			if !hit && f.typ != nil && elems[seqElemName(f.typ)] {
				hit = true
			}
			if hit {
				bad = append(bad, f)
			}
		}
		if len(bad) == 0 {
			r.pass(rule, fnKey(fn), w.pos(fn.Pos()), "")
			continue
		}
		seen := map[string]bool{}
		for _, f := range bad {
			if seen[f.what] {
				continue
			}
			seen[f.what] = true
			r.fail(rule, fnKey(fn)+": "+f.what, f.pos, why)
		}
	}
	r.floor(rule, 100)
}

func seqElemName(t types.Type) string {
	for i := 0; i < 3; i++ {
		switch u := t.Underlying().(type) {
		case *types.Pointer:
			t = u.Elem()
			continue
		case *types.Slice:
			t = u.Elem()
			continue
		case *types.Array:
			t = u.Elem()
			continue
		}
		break
	}
	if p, ok := t.(*types.Pointer); ok {
		t = p.Elem()
	}
	return modelTypeName(t)
}

// mustFacts: forward must-analysis over branch edges. edgeFact(b, succ) gives the facts (bits) established by taking successor
// succ of b; the result holds, per block index, the facts established on every path from the entry (unreachable blocks: all).
func mustFacts(fn *ssa.Function, all int, edgeFact func(b *ssa.BasicBlock, succ int) int) []int {
	in := make([]int, len(fn.Blocks))
	for i := range in {
		in[i] = all
	}
	if len(fn.Blocks) == 0 {
		return in
	}
	in[0] = 0
	reach := map[*ssa.BasicBlock]bool{fn.Blocks[0]: true}
	for changed := true; changed; {
		changed = false
		for _, b := range fn.Blocks {
			if !reach[b] {
				continue
			}
			for si, s := range b.Succs {
				out := in[b.Index]
				if len(b.Succs) == 2 && b.Succs[0] != b.Succs[1] {
					out |= edgeFact(b, si)
				}
				if !reach[s] {
					reach[s] = true
					in[s.Index] = out
					changed = true
				} else if nv := in[s.Index] & out; nv != in[s.Index] {
					in[s.Index] = nv
					changed = true
				}
			}
		}
	}
	return in
}

// */padding-precedence: a fixed string is padded "with the declared, else configured" padding. In the padding resolvers
// (each generator's GetPadding and the helpers it calls, wherever they live) every result that is made - wholly or in part - of
// Configuration.Padding must be produced only on paths where the field is known to have no padding of its own (the field is not
// a fixed string, or its Padding is nil). A resolver that looks at the *content* of the declared padding before honouring it
// (IsDefault(), PadChar == "' '") lets the configuration override what the DSL declares on the field.
const (
	padAbsent  = 1 // the field has no own padding on this path
	padPresent = 2
)

func paddingEdgeFact(b *ssa.BasicBlock, succ int) int {
	cond := branchCond(b)
	if cond == nil {
		return 0
	}
	val := succ == 0
	for {
		if u, ok := cond.(*ssa.UnOp); ok && u.Op == token.NOT {
			cond = u.X
			val = !val
			continue
		}
		break
	}
	switch x := cond.(type) {
	case *ssa.Extract:
		if ta, ok := x.Tuple.(*ssa.TypeAssert); ok && x.Index == 1 && ta.CommaOk && modelTypeName(ta.AssertedType) == "FixedStringFieldAttribute" {
			if !val {
				return padAbsent
			}
		}
	case *ssa.BinOp:
		if x.Op != token.EQL && x.Op != token.NEQ {
			return 0
		}
		var o ssa.Value
		if isNilConst(x.X) {
			o = x.Y
		} else if isNilConst(x.Y) {
			o = x.X
		} else {
			return 0
		}
		if ld, ok := stripIdentity(o).(*ssa.UnOp); ok && ld.Op == token.MUL {
			if fa, ok := ld.X.(*ssa.FieldAddr); ok {
				if tn, f, _, _ := fieldOf(fa); tn == "FixedStringFieldAttribute" && f == "Padding" {
					isNil := (x.Op == token.EQL) == val
					if isNil {
						return padAbsent
					}
					return padPresent
				}
			}
		}
	}
	return 0
}

type padWalk struct {
	w     *World
	must  map[*ssa.Function][]int
	bad   []string
	badAt ssa.Instruction
	leafs int
}

func (pw *padWalk) mustOf(fn *ssa.Function) []int {
	if m, ok := pw.must[fn]; ok {
		return m
	}
	m := mustFacts(fn, padAbsent|padPresent, paddingEdgeFact)
	pw.must[fn] = m
	return m
}

type padFrame struct {
	fn     *ssa.Function
	binds  map[*ssa.Parameter]ssa.Value
	parent *padFrame
	site   ssa.Instruction
}

func (pw *padWalk) walk(v ssa.Value, facts int, fr *padFrame, depth int, seen map[ssa.Value]bool) {
	if depth > 12 || v == nil {
		return
	}
	v = stripIdentity(v)
	if seen[v] {
		return
	}
	seen[v] = true
	defer delete(seen, v)
	switch x := v.(type) {
	case *ssa.Phi:
		m := pw.mustOf(fr.fn)
		for i, e := range x.Edges {
			p := x.Block().Preds[i]
			f := facts | m[p.Index]
			for si, s := range p.Succs {
				if s == x.Block() && len(p.Succs) == 2 && p.Succs[0] != p.Succs[1] {
					f |= paddingEdgeFact(p, si)
				}
			}
			pw.walk(e, f, fr, depth+1, seen)
		}
	case *ssa.Alloc:
		m := pw.mustOf(fr.fn)
		var visit func(addr ssa.Value)
		visit = func(addr ssa.Value) {
			refs := addr.Referrers()
			if refs == nil {
				return
			}
			for _, ref := range *refs {
				switch r := ref.(type) {
				case *ssa.Store:
					if r.Addr == addr {
						pw.walk(r.Val, facts|m[r.Block().Index], fr, depth+1, seen)
					}
				case *ssa.FieldAddr:
					if r.X == addr {
						visit(r)
					}
				}
			}
		}
		visit(x)
	case *ssa.UnOp:
		if x.Op != token.MUL {
			return
		}
		if fa, ok := x.X.(*ssa.FieldAddr); ok {
			tn, f, _, _ := fieldOf(fa)
			switch {
			case tn == "Configuration" && f == "Padding":
				pw.leafs++
				if facts&padAbsent == 0 {
					pw.bad = append(pw.bad, pw.w.instrPos(x))
					if pw.badAt == nil {
						pw.badAt = x
					}
				}
				return
			case tn == "FixedStringFieldAttribute" && f == "Padding":
				pw.leafs++
				return
			case tn == "Padding":
				pw.walk(fa.X, facts, fr, depth+1, seen)
				return
			}
			return
		}
		pw.walk(x.X, facts, fr, depth+1, seen)
	case *ssa.Parameter:
		for f := fr; f != nil; f = f.parent {
			if a, ok := f.binds[x]; ok && f.parent != nil {
				pf := f.parent
				m := pw.mustOf(pf.fn)
				extra := 0
				if f.site != nil {
					extra = m[f.site.Block().Index]
				}
				pw.walk(a, facts|extra, pf, depth+1, seen)
				return
			}
		}
	case *ssa.Call:
		g := x.Call.StaticCallee()
		if g == nil || g.Blocks == nil || !(g.Pkg == pw.w.Parser || g.Pkg == pw.w.Model) {
			return
		}
		if !paddingTyped(x.Type()) {
			return
		}
		nf := &padFrame{fn: g, binds: map[*ssa.Parameter]ssa.Value{}, parent: fr, site: x}
		for i, p := range g.Params {
			if i < len(x.Call.Args) {
				nf.binds[p] = x.Call.Args[i]
			}
		}
		m := pw.mustOf(g)
		for _, b := range g.Blocks {
			ret, ok := b.Instrs[len(b.Instrs)-1].(*ssa.Return)
			if !ok || len(ret.Results) == 0 {
				continue
			}
			pw.walk(ret.Results[0], facts|m[b.Index], nf, depth+1, seen)
		}
	}
}

func paddingTyped(t types.Type) bool {
	if p, ok := t.(*types.Pointer); ok {
		t = p.Elem()
	}
	return modelTypeName(t) == "Padding"
}

func wirePaddingPrecedence(wc *wireCtx, r *Report, prop string) {
	rule := prop + "/padding-precedence"
	w := wc.m.w
	for _, l := range codecLangs {
		fns := wc.anchors[l]["padding"]
		if len(fns) != 1 {
			continue
		}
		fn := fns[0]
		pw := &padWalk{w: w, must: map[*ssa.Function][]int{}}
		root := &padFrame{fn: fn, binds: map[*ssa.Parameter]ssa.Value{}}
		m := pw.mustOf(fn)
		for _, b := range fn.Blocks {
			ret, ok := b.Instrs[len(b.Instrs)-1].(*ssa.Return)
			if !ok || len(ret.Results) == 0 {
				continue
			}
			pw.walk(ret.Results[0], m[b.Index], root, 0, map[ssa.Value]bool{})
		}
		key := l + ": the configured padding is used only where the field declares none"
		switch {
		case pw.leafs == 0:
			r.fail(rule, key, w.pos(fn.Pos()), "the padding resolver returns neither the field's nor the configured padding (no source found)")
		case len(pw.bad) > 0:
			r.fail(rule, key, w.instrPos(pw.badAt.(ssa.Instruction)), "a result is built from Configuration.Padding on a path where the field may have a padding of its own (read at "+strings.Join(uniqStrings(pw.bad), ", ")+"): a declared pad character / side is overridden by the options")
		default:
			r.pass(rule, key, w.pos(fn.Pos()), fmt.Sprintf("%d source reads", pw.leafs))
		}
	}
}

// */emitted-in-field-order: inside the loop over a packet's fields, wire statements go to one output.
//
// The emitted encoder/decoder performs its statements in the order they were appended, and that order has to be the order of the
// fields (C01) with every derived statement - the back-patch of a length field, the checksum over "the bytes that precede it" -
// at the position of the field it belongs to (C04, C06). An emitter that collects some per-field wire statements in a second
// builder and flushes it after the loop reorders them against the statements of the following fields. Decided: in every
// encode/decode emitter that loops over Packet.Fields, at most one builder that outlives the loop receives, inside the loop,
// text that depends on a wire-determining input (byte order, scalar / prefix / length-field type, fixed length, padding).
func wireFieldOrderEmission(wc *wireCtx, r *Report, prop string, dirs map[string]bool) {
	rule := prop + "/emitted-in-field-order"
	w := wc.m.w
	wire := sLE | sSP | sAP | sFL | sTY | sLFT | sCS | sPC | sPL
	n := 0
	for _, l := range codecLangs {
		seenFn := map[*ssa.Function]bool{}
		for _, fn := range wc.anchors[l]["own"] {
			if seenFn[fn] || !dirs[roleOf(fn)] {
				continue
			}
			seenFn[fn] = true
			loops := fieldLoops(fn)
			if len(loops) == 0 {
				continue
			}
			sites := wc.m.sitesOfX(fn, false)
			for li, lp := range loops {
				recv := map[*ssa.Alloc][]site{}
				for _, s := range sites {
					if !lp.blocks[s.instr.Block()] {
						continue
					}
					c, ok := s.instr.(ssa.CallInstruction)
					if !ok || len(c.Common().Args) == 0 {
						continue
					}
					al, ok := valueRoot(c.Common().Args[0]).(*ssa.Alloc)
					if !ok || lp.blocks[al.Block()] {
						continue
					}
					if !strings.HasSuffix(types.TypeString(al.Type(), nil), "strings.Builder") && !strings.HasSuffix(types.TypeString(al.Type(), nil), "bytes.Buffer") {
						continue
					}
					d, _ := wc.m.siteDeps(s, nil)
					if d&wire == 0 {
						continue
					}
					recv[al] = append(recv[al], s)
				}
				n++
				key := fmt.Sprintf("%s %s field loop #%d: wire statements go to one output", l, fnKey(fn), li+1)
				if len(recv) <= 1 {
					r.pass(rule, key, w.pos(fn.Pos()), "")
					continue
				}
				var where []string
				for al, ss := range recv {
					where = append(where, fmt.Sprintf("%s (e.g. at %s)", al.Comment, w.instrPos(ss[0].instr)))
				}
				sort.Strings(where)
				r.fail(rule, key, w.pos(fn.Pos()), "inside the loop over the fields, wire-dependent text is appended to "+fmt.Sprint(len(recv))+" different builders that outlive the loop: "+strings.Join(where, "; ")+" - what is collected in the second one is emitted out of field order (a back-patch or checksum statement ends up after the statements of later fields)")
			}
		}
	}
	if n == 0 {
		r.fail(rule, "field loops found", "internal/parser", "no encode/decode emitter loops over Packet.Fields")
	}
}

// */every-match-field: a packet may declare several match fields. Generator code that looks for "the" match field of a packet by
// walking its fields and returning something taken from the first field of that kind - the return inside the loop is controlled
// by the kind test alone, no comparison with anything the caller asked for - silently assumes there is only one: the second match
// field's key is never read into a local (Lua), never consulted (decoders).
func wireEveryMatchField(w *World, wc *wireCtx, r *Report, prop string, langs []string) {
	rule := prop + "/every-match-field"
	n := 0
	for _, l := range langs {
		var fns []*ssa.Function
		seen := map[*ssa.Function]bool{}
		for _, fn := range wc.anchors[l]["own"] {
			if !seen[fn] {
				seen[fn] = true
				fns = append(fns, fn)
			}
		}
		// parser-package helpers they call
		for i := 0; i < len(fns); i++ {
			forEachInstr(fns[i], func(_ *ssa.BasicBlock, ins ssa.Instruction) {
				if c, ok := ins.(ssa.CallInstruction); ok {
					if g := calleeOf(c); g != nil && g.Pkg == w.Parser && g.Blocks != nil && !seen[g] && w.isSubjectFunc(g) {
						seen[g] = true
						fns = append(fns, g)
					}
				}
			})
		}
		for _, fn := range fns {
			loops := fieldLoops(fn)
			if len(loops) == 0 {
				continue
			}
			cd := computeCD(fn)
			for _, lp0 := range loops {
				// the loop plus the blocks that leave it by returning (they are not part of the natural loop)
				lp := fieldLoop{lp0.header, map[*ssa.BasicBlock]bool{}}
				for b := range lp0.blocks {
					lp.blocks[b] = true
				}
				for _, b := range fn.Blocks {
					if lp.blocks[b] {
						continue
					}
					if _, isRet := b.Instrs[len(b.Instrs)-1].(*ssa.Return); !isRet {
						continue
					}
					for _, p := range b.Preds {
						if lp0.blocks[p] && p != lp0.header {
							lp.blocks[b] = true
						}
					}
				}
				// the loop element
				taint := map[ssa.Value]bool{}
				forEachInstr(fn, func(b *ssa.BasicBlock, ins ssa.Instruction) {
					if ia, ok := ins.(*ssa.IndexAddr); ok && lp.blocks[b] {
						if ld, ok := stripIdentity(ia.X).(*ssa.UnOp); ok {
							if fa, ok := ld.X.(*ssa.FieldAddr); ok {
								if tn, f, _, _ := fieldOf(fa); tn == "Packet" && f == "Fields" {
									taint[ia] = true
								}
							}
						}
					}
				})
				for changed := true; changed; {
					changed = false
					forEachInstr(fn, func(b *ssa.BasicBlock, ins ssa.Instruction) {
						v, ok := ins.(ssa.Value)
						if !ok || taint[v] || !lp.blocks[b] {
							return
						}
						if _, isPhi := ins.(*ssa.Phi); isPhi && b == lp.header {
							return // the index itself
						}
						for _, op := range ins.Operands(nil) {
							if *op != nil && taint[*op] {
								taint[v] = true
								changed = true
								return
							}
						}
					})
				}
				for b := range lp.blocks {
					ret, ok := b.Instrs[len(b.Instrs)-1].(*ssa.Return)
					if !ok || len(ret.Results) == 0 || !taint[ret.Results[0]] {
						continue
					}
					n++
					onlyKind, sawMatchKind := true, false
					for _, d := range cd.allCtrl(b) {
						if !lp.blocks[d.Branch] {
							continue
						}
						cond := branchCond(d.Branch)
						if cond == nil {
							continue
						}
						if ex, ok := cond.(*ssa.Extract); ok {
							if ta, ok := ex.Tuple.(*ssa.TypeAssert); ok && ex.Index == 1 && taint[ta.X] {
								if modelTypeName(ta.AssertedType) == "MatchFieldAttribute" {
									sawMatchKind = true
								}
								continue
							}
						}
						if d.Branch == lp.header {
							continue // the loop test
						}
						if _, _, isNil := nilTest(cond); isNil {
							continue
						}
						onlyKind = false
					}
					key := fmt.Sprintf("%s %s: a result taken from a match field is selected by more than the field's kind", l, fnKey(fn))
					if sawMatchKind && onlyKind {
						r.fail(rule, key, w.instrPos(ret), "the loop over the packet's fields returns at the first match field, whatever the caller is looking for: with two match fields in one packet the second one's key field is never found")
					} else if sawMatchKind {
						r.pass(rule, key, w.instrPos(ret), "")
					}
				}
			}
		}
	}
	r.note("%s: returns inside field loops examined: %d", rule, n)
}

// */emit-once-keyed-by-identity: what a generator remembers across packets ("already emitted") is keyed by the packet's own name.
//
// A generator instance lives for one Generate call and may keep a set of the packets it has written, to write each once. Such a set
// is harmless only when its key identifies what is being skipped - the Name of the packet whose text is guarded. A set keyed by
// anything else (the name of a sample variable, of a member, of a helper function) makes the text emitted for one packet depend on
// which other packets were emitted before it: a declaration is missing from the second test function that needs it (C17), a type
// or helper is emitted for one of two distinct constructs that merely share a name (C07).
// Decided: every lookup in a map-typed member of a generator struct that is also updated by generator code has, as its key, the
// Name of a *model.Packet (directly, or through a string parameter bound to such a Name at every call site).
func wireEmitOnceKeys(w *World, wc *wireCtx, r *Report, prop string) {
	rule := prop + "/emit-once-keyed-by-identity"
	isPacketName := func(v ssa.Value) bool {
		ld, ok := stripIdentity(v).(*ssa.UnOp)
		if !ok || ld.Op != token.MUL {
			return false
		}
		fa, ok := ld.X.(*ssa.FieldAddr)
		if !ok {
			return false
		}
		tn, f, _, _ := fieldOf(fa)
		return tn == "Packet" && f == "Name"
	}
	n := 0
	for _, ga := range anchorTable {
		own := wc.anchors[ga.Lang]["own"]
		inOwn := map[*ssa.Function]bool{}
		for _, f := range own {
			inOwn[f] = true
		}
		// maps of the generator struct that generator code updates
		updated := map[string]bool{}
		instMap := func(v ssa.Value) string {
			genStruct := func(t types.Type) string {
				if p, ok := t.Underlying().(*types.Pointer); ok {
					t = p.Elem()
				}
				if n := namedOf(t); n != nil && n.Obj().Pkg() != nil && n.Obj().Pkg().Path() == parserPath && strings.HasSuffix(n.Obj().Name(), "Generator") {
					return n.Obj().Name()
				}
				return ""
			}
			v = stripIdentity(v)
			if _, isMap := v.Type().Underlying().(*types.Map); !isMap {
				return ""
			}
			switch x := v.(type) {
			case *ssa.Field:
				if g := genStruct(x.X.Type()); g != "" {
					return g + "." + fieldNameOf(x.X.Type(), x.Field)
				}
			case *ssa.UnOp:
				if fa, ok := x.X.(*ssa.FieldAddr); ok && x.Op == token.MUL {
					if g := genStruct(fa.X.Type()); g != "" {
						return g + "." + fieldNameOf(fa.X.Type(), fa.Field)
					}
				}
			}
			return ""
		}
		for _, fn := range own {
			forEachInstr(fn, func(_ *ssa.BasicBlock, ins ssa.Instruction) {
				if mu, ok := ins.(*ssa.MapUpdate); ok {
					if m := instMap(mu.Map); m != "" {
						updated[m] = true
					}
				}
			})
		}
		var keyOK func(fn *ssa.Function, k ssa.Value, depth int) bool
		keyOK = func(fn *ssa.Function, k ssa.Value, depth int) bool {
			if isPacketName(k) {
				return true
			}
			p, ok := stripIdentity(k).(*ssa.Parameter)
			if !ok || depth > 2 {
				return false
			}
			idx := -1
			for i, q := range fn.Params {
				if q == p {
					idx = i
				}
			}
			sites := 0
			good := true
			for _, g := range own {
				forEachInstr(g, func(_ *ssa.BasicBlock, ins ssa.Instruction) {
					c, ok := ins.(ssa.CallInstruction)
					if !ok || calleeOf(c) != fn || idx < 0 || idx >= len(c.Common().Args) {
						return
					}
					sites++
					if !keyOK(g, c.Common().Args[idx], depth+1) {
						good = false
					}
				})
			}
			return sites > 0 && good
		}
		for _, fn := range own {
			cnt := 0
			forEachInstr(fn, func(_ *ssa.BasicBlock, ins ssa.Instruction) {
				lk, ok := ins.(*ssa.Lookup)
				if !ok {
					return
				}
				m := instMap(lk.X)
				if m == "" || !updated[m] {
					return
				}
				n++
				cnt++
				key := fmt.Sprintf("%s %s: lookup #%d in %s is keyed by a packet's name", ga.Lang, fnKey(fn), cnt, m)
				if keyOK(fn, lk.Index, 0) {
					r.pass(rule, key, w.instrPos(lk), "")
				} else {
					r.fail(rule, key, w.instrPos(lk), "the generator remembers something across packets under a key that is not the name of a packet: whether a piece of text is emitted for one packet then depends on which other packets (with a member / variable / helper of the same name) were emitted before it")
				}
			})
		}
	}
	r.note("%s: lookups in generator-instance maps examined: %d", rule, n)
}

// C15/helpers-defined-before-use: "every helper it calls exists when called".
//
// The dissector script defines one `local function <prefix><packet>` per packet and the body of one packet's function calls the
// functions of the packets it contains. In Lua a local function is visible only to the code that follows its declaration: a call,
// inside an earlier function, to a function declared later resolves to a nil global when the script runs. Decided from the
// generator's source:
//
//	definitions  emission sites whose constant text is "local function <prefix>" followed by the packet's name;
//	uses         emission sites whose constant text contains "<prefix>" followed by a name verb and "(" (a call);
//	demand       if there are uses, then (1) the name at the definitions and the name at the uses are the same term over the packet's
//	             name (luaNameForms: helpers unfolded, a name parameter replaced by what the call sites pass), and (2) either the
//	             definitions are emitted in an order computed by a dependencies-first walk (the collection the definition loop
//	             ranges over is returned by a function that keeps a visited set, descends into the packets of by-name object fields
//	             and of match pairs - directly or as elements of a callee list computed first - and appends a packet only after
//	             the descent), or every name is declared ahead of all definitions (an emission site "local <prefix><name>"
//	             without "function").
//
// The definition loop is a call site of a defining emitter (the function with the definition site, or a function that hands its own
// packet parameter on to one) whose packet is an element of a collection. A collection that holds nothing but the packets of object
// attributes gathered from fields (the objects declared inline in one packet, as a flat list) is not the loop over the declared
// packets; for it the demand is that the list is innermost-first (no function it comes from appends an object and afterwards what a
// descent gathers), because the outer object's function calls the inner one's.
func c15HelpersDefinedFirst(w *World, wc *wireCtx, r *Report) {
	const rule = "C15/helpers-defined-before-use"
	own := wc.anchors["lua"]["own"]
	if len(own) == 0 {
		r.fail(rule, "lua emitters found", "internal/parser/lua_wsp_generator.go", "no emitter of the Lua generator resolved")
		return
	}
	defRE := regexp.MustCompile(`local function ([A-Za-z_][A-Za-z_0-9]*)%s\(`)
	fwdRE := regexp.MustCompile(`local ([A-Za-z_][A-Za-z_0-9]*)%s\s*(\n|$|=)`)
	type fsite struct {
		fn     *ssa.Function
		ins    ssa.Instruction
		format string
		args   ssa.Value // the variadic operand slice
	}
	var formats []fsite
	for _, fn := range own {
		forEachInstr(fn, func(_ *ssa.BasicBlock, ins ssa.Instruction) {
			c, ok := ins.(ssa.CallInstruction)
			if !ok || c.Common().StaticCallee() == nil {
				return
			}
			fi := -1
			switch c.Common().StaticCallee().String() {
			case "fmt.Sprintf":
				fi = 0
			case "fmt.Fprintf":
				fi = 1
			}
			if fi < 0 || fi >= len(c.Common().Args) {
				return
			}
			if k, ok := c.Common().Args[fi].(*ssa.Const); ok && k.Value != nil && k.Value.Kind() == constant.String {
				var va ssa.Value
				if fi+1 < len(c.Common().Args) {
					va = c.Common().Args[fi+1]
				}
				formats = append(formats, fsite{fn, ins, constant.StringVal(k.Value), va})
			}
		})
	}
	prefixes := map[string][]fsite{}
	for _, f := range formats {
		if m := defRE.FindStringSubmatch(f.format); m != nil {
			prefixes[m[1]] = append(prefixes[m[1]], f)
		}
	}
	if len(prefixes) == 0 {
		r.note("%s: the Lua generator defines no per-packet local functions", rule)
		return
	}
	// nameOperands: the operands of the %s verbs that stand behind "<prefix>" and in front of "(" in the format of a site
	nameOperands := func(f fsite, prefix string) []ssa.Value {
		re := regexp.MustCompile(`(^|[^A-Za-z_0-9])` + regexp.QuoteMeta(prefix) + `%s\(`)
		ops := variadicOperands(f.args)
		var out []ssa.Value
		for _, loc := range re.FindAllStringIndex(f.format, -1) {
			at := loc[1] - len(`%s(`)
			// the verb's index: verbs in front of it
			k := 0
			for i := 0; i < at; i++ {
				if f.format[i] != '%' {
					continue
				}
				if i+1 < len(f.format) && f.format[i+1] == '%' {
					i++
					continue
				}
				k++
			}
			if k < len(ops) && ops[k] != nil {
				out = append(out, ops[k])
			} else {
				out = append(out, nil)
			}
		}
		return out
	}
	for _, prefix := range sortedKeys(prefixes) {
		defs := prefixes[prefix]
		useRE := regexp.MustCompile(`(^|[^A-Za-z_0-9])` + regexp.QuoteMeta(prefix) + `%s\(`)
		var uses []fsite
		fwd := false
		for _, f := range formats {
			if defRE.MatchString(f.format) {
				continue
			}
			if useRE.MatchString(f.format) {
				uses = append(uses, f)
			}
			if m := fwdRE.FindStringSubmatch(f.format); m != nil && m[1] == prefix {
				fwd = true
			}
			// a declaration list assembled from names (`local %s` with a joined list): a "local" line without `function` and
			// without an initialiser, emitted by the function that also drives the definitions
			if t := strings.TrimSpace(f.format); strings.HasPrefix(t, "local %s") && !strings.Contains(t, "=") && !strings.Contains(t, "function") {
				fwd = true
			}
		}
		key := fmt.Sprintf("local functions %s<packet> are defined before the functions that call them", prefix)
		if len(uses) == 0 {
			r.pass(rule, key, w.instrPos(defs[0].ins), "never called from another emitted function")
			continue
		}
		// the name a function is defined under and the name it is called by are the same function of the packet's name
		nf := &luaNameForms{w: w, scope: own}
		defForms, useForms := map[string]bool{}, map[string]bool{}
		for _, d := range defs {
			for _, op := range nameOperands(d, prefix) {
				for s := range nf.forms(op, nil, 0) {
					defForms[s] = true
				}
			}
		}
		for _, u := range uses {
			for _, op := range nameOperands(u, prefix) {
				for s := range nf.forms(op, nil, 0) {
					useForms[s] = true
				}
			}
		}
		if ds, us := strings.Join(sortedBoolKeys(defForms), " | "), strings.Join(sortedBoolKeys(useForms), " | "); ds != us || strings.Contains(ds, "?") {
			r.fail(rule, key, w.instrPos(defs[0].ins), fmt.Sprintf("the name a function is defined under and the name it is called by are not the same function of the packet's name (defined as %s<%s>, called as %s<%s>): a call whose name no definition produced is a nil global at run time; %d call site(s), e.g. %s", prefix, ds, prefix, us, len(uses), w.instrPos(uses[0].ins)))
			continue
		}
		if fwd {
			r.pass(rule, key, w.instrPos(defs[0].ins), "names are declared ahead of the definitions")
			continue
		}
		// the defining emitters: the function with the definition site and every function that hands a packet of its own caller on
		// to one (a wrapper that emits something around the definition)
		defining := map[*ssa.Function]bool{}
		for _, d := range defs {
			defining[d.fn] = true
		}
		scope := append([]*ssa.Function(nil), own...)
		packetArgs := func(c ssa.CallInstruction) []ssa.Value {
			var out []ssa.Value
			for _, a := range c.Common().Args {
				a = stripIdentity(a)
				if typeIs(a.Type(), modPath+"/internal/model", "Packet") {
					out = append(out, a)
				}
			}
			return out
		}
		for changed := true; changed; {
			changed = false
			for _, fn := range scope {
				if defining[fn] {
					continue
				}
				forEachInstr(fn, func(_ *ssa.BasicBlock, ins ssa.Instruction) {
					c, ok := ins.(ssa.CallInstruction)
					if !ok || !defining[calleeOf(c)] || defining[fn] {
						return
					}
					for _, a := range packetArgs(c) {
						if p, ok := a.(*ssa.Parameter); ok && p.Parent() == fn {
							defining[fn] = true
							changed = true
						}
					}
				})
			}
		}
		// the loop(s) that emit the definitions: call sites of a defining emitter whose packet is an element of a collection
		ordered, total := 0, 0
		var bad, badNested string
		for _, fn := range scope {
			forEachInstr(fn, func(b *ssa.BasicBlock, ins ssa.Instruction) {
				c, ok := ins.(ssa.CallInstruction)
				if !ok || !defining[calleeOf(c)] {
					return
				}
				// the packet argument: an element of which collection?
				for _, a := range packetArgs(c) {
					ld, ok := a.(*ssa.UnOp)
					if !ok {
						continue
					}
					ia, ok := ld.X.(*ssa.IndexAddr)
					if !ok {
						continue
					}
					coll := stripIdentity(ia.X)
					// the objects declared inline in one packet (a list derived from its fields): their functions are emitted with the
					// owner's; the list must put an object behind the objects declared inside it
					if nested, orderOK := inlineObjectList(w, coll, scope); nested {
						if !orderOK {
							badNested = w.instrPos(ins)
						}
						continue
					}
					total++
					if cc, ok := coll.(*ssa.Call); ok {
						if g := calleeOf(cc); g != nil && dependenciesFirstOrder(w, g) {
							ordered++
							continue
						}
					}
					bad = w.instrPos(ins)
				}
			})
		}
		switch {
		case badNested != "":
			r.fail(rule, key, badNested, fmt.Sprintf("the definitions for the objects declared inline in a packet are emitted in the order of a list that puts an object in front of the objects declared inside it, and the names are not declared ahead: the outer object's function calls %s<inner> before that local exists (a nil global at run time); %d call site(s), e.g. %s", prefix, len(uses), w.instrPos(uses[0].ins)))
		case total == 0:
			r.fail(rule, key, w.instrPos(defs[0].ins), "the place where the per-packet definitions are emitted for the declared packets was not found")
		case ordered == total:
			r.pass(rule, key, w.instrPos(defs[0].ins), "definitions are emitted in dependencies-first order")
		default:
			r.fail(rule, key, bad, fmt.Sprintf("the definitions are emitted in the order of a collection that is not sorted dependencies-first, and the names are not declared ahead: a packet that refers to a packet written later calls %s<name> before that local exists (a nil global at run time); %d call site(s), e.g. %s", prefix, len(uses), w.instrPos(uses[0].ins)))
		}
	}
}

// dependenciesFirstOrder: g returns a packet list built by a visited-set walk that descends into the packets of by-name object
// fields and of match pairs and appends a packet only after the descent. The packet the walk descends into is the attribute's /
// the table's packet itself or an element of a list of such packets computed first (the callees of a packet as a slice).
func dependenciesFirstOrder(w *World, g *ssa.Function) bool {
	if g == nil || g.Blocks == nil {
		return false
	}
	// the walk: g, its closures and the parser-package functions they call (a walker record with methods)
	var cluster []*ssa.Function
	inCluster := map[*ssa.Function]bool{}
	var addFn func(f *ssa.Function, depth int)
	addFn = func(f *ssa.Function, depth int) {
		if f == nil || inCluster[f] || f.Blocks == nil || depth > 3 {
			return
		}
		inCluster[f] = true
		cluster = append(cluster, f)
		for _, a := range f.AnonFuncs {
			addFn(a, depth+1)
		}
		forEachInstr(f, func(_ *ssa.BasicBlock, ins ssa.Instruction) {
			if c, ok := ins.(ssa.CallInstruction); ok {
				if t := calleeOf(c); t != nil && t.Pkg == w.Parser && roleOf(t) == "" {
					addFn(t, depth+1)
				}
			}
		})
	}
	addFn(g, 0)
	viaObject, viaMatch, postOrder, visitedSet := false, false, false, false
	isPacketTable := func(m ssa.Value) bool {
		mt, ok := m.Type().Underlying().(*types.Map)
		return ok && typeIs(mt.Elem(), modPath+"/internal/model", "Packet")
	}
	origin := func(a ssa.Value) {
		a = stripIdentity(a)
		if isRefPacketLoad(a) {
			viaObject = true
		}
		if lk, ok := a.(*ssa.Lookup); ok && isPacketTable(lk.X) && pairFieldOf(lk.Index) == "Value" {
			viaMatch = true
		}
		if ex, ok := a.(*ssa.Extract); ok {
			if lk, ok := ex.Tuple.(*ssa.Lookup); ok && isPacketTable(lk.X) && pairFieldOf(lk.Index) == "Value" {
				viaMatch = true
			}
		}
	}
	for _, fn := range cluster {
		var descents, appends []ssa.Instruction
		forEachInstr(fn, func(b *ssa.BasicBlock, ins ssa.Instruction) {
			if c, ok := ins.(*ssa.Call); ok {
				if bi, ok := c.Call.Value.(*ssa.Builtin); ok && bi.Name() == "append" && len(c.Call.Args) > 0 {
					if sl, ok := c.Call.Args[0].Type().Underlying().(*types.Slice); ok && typeIs(sl.Elem(), modPath+"/internal/model", "Packet") {
						appends = append(appends, ins)
					}
				}
				t := calleeOf(c)
				if t == nil || !inCluster[t] {
					return
				}
				descents = append(descents, ins)
				for _, a := range c.Call.Args {
					a = stripIdentity(a)
					if !typeIs(a.Type(), modPath+"/internal/model", "Packet") {
						continue
					}
					origin(a)
					// an element of a list computed before the descent: what the list is filled with
					if ld, ok := a.(*ssa.UnOp); ok && ld.Op == token.MUL {
						if ia, ok := ld.X.(*ssa.IndexAddr); ok {
							lw := &packetListWalk{scope: cluster}
							lw.walk(ia.X, 0)
							for _, e := range lw.elems {
								origin(e.val)
							}
						}
					}
				}
			}
		})
		if len(visitedMarks(fn, 0)) > 0 {
			visitedSet = true
		}
		for _, ap := range appends {
			after := false
			for _, d := range descents {
				if instrReaches(d, ap) && !instrReaches(ap, d) {
					after = true
				}
			}
			if after {
				postOrder = true
			}
		}
	}
	return viaObject && viaMatch && postOrder && visitedSet
}

// isRefPacketLoad: v reads the packet of an object attribute (ObjectFieldAttribute.RefPacket).
func isRefPacketLoad(v ssa.Value) bool {
	if ld, ok := stripIdentity(v).(*ssa.UnOp); ok && ld.Op == token.MUL {
		if fa, ok := ld.X.(*ssa.FieldAddr); ok {
			if tn, f, _, _ := fieldOf(fa); tn == "ObjectFieldAttribute" && f == "RefPacket" {
				return true
			}
		}
	}
	return false
}

// packetListWalk collects what a slice value may hold: the operands of the appends that feed it, through phis, reslicing, spread
// appends of other lists, the results of repo functions (their return values), slice parameters (the arguments at the call sites
// within scope and within the functions entered) and record members (what is stored into the member).
type packetListWalk struct {
	scope   []*ssa.Function
	elems   []packetListElem
	entered []*ssa.Function // repo functions whose result is (part of) the list
	unknown bool            // some contribution could not be followed
	seen    map[ssa.Value]bool
}

type packetListElem struct {
	val ssa.Value
	by  *ssa.Call // the append
}

func (lw *packetListWalk) funcs() []*ssa.Function {
	out := append([]*ssa.Function(nil), lw.scope...)
	for _, f := range lw.entered {
		dup := false
		for _, g := range out {
			if g == f {
				dup = true
			}
		}
		if !dup {
			out = append(out, f)
		}
	}
	return out
}

func (lw *packetListWalk) walk(v ssa.Value, depth int) {
	if v == nil {
		return
	}
	v = stripIdentity(v)
	if lw.seen == nil {
		lw.seen = map[ssa.Value]bool{}
	}
	if lw.seen[v] {
		return
	}
	lw.seen[v] = true
	if depth > 12 {
		lw.unknown = true
		return
	}
	switch x := v.(type) {
	case *ssa.Const:
		if !x.IsNil() {
			lw.unknown = true
		}
	case *ssa.MakeSlice:
	case *ssa.Slice:
		if _, isArr := x.X.(*ssa.Alloc); isArr {
			for _, o := range variadicOperands(x) {
				if o != nil {
					lw.elems = append(lw.elems, packetListElem{o, nil})
				}
			}
			return
		}
		lw.walk(x.X, depth+1)
	case *ssa.Phi:
		for _, e := range x.Edges {
			lw.walk(e, depth+1)
		}
	case *ssa.Extract:
		if c, ok := x.Tuple.(*ssa.Call); ok {
			lw.results(c, x.Index, depth)
		} else {
			lw.unknown = true
		}
	case *ssa.Call:
		if bi, ok := x.Call.Value.(*ssa.Builtin); ok {
			if bi.Name() != "append" || len(x.Call.Args) != 2 {
				lw.unknown = true
				return
			}
			lw.walk(x.Call.Args[0], depth+1)
			if sl, ok := stripIdentity(x.Call.Args[1]).(*ssa.Slice); ok {
				if _, isArr := sl.X.(*ssa.Alloc); isArr {
					for _, o := range variadicOperands(sl) {
						if o != nil {
							lw.elems = append(lw.elems, packetListElem{o, x})
						}
					}
					return
				}
			}
			lw.walk(x.Call.Args[1], depth+1)
			return
		}
		lw.results(x, 0, depth)
	case *ssa.Parameter:
		fn := x.Parent()
		idx := -1
		for i, p := range fn.Params {
			if p == x {
				idx = i
			}
		}
		sites := 0
		for _, f := range lw.funcs() {
			forEachInstr(f, func(_ *ssa.BasicBlock, ins ssa.Instruction) {
				c, ok := ins.(ssa.CallInstruction)
				if !ok || calleeOf(c) != fn {
					return
				}
				args := c.Common().Args
				if c.Common().StaticCallee() == nil {
					// a closure value: no receiver among the arguments, bound variables are not parameters
					if idx < len(args) {
						sites++
						lw.walk(args[idx], depth+1)
					}
					return
				}
				if idx >= 0 && idx < len(args) {
					sites++
					lw.walk(args[idx], depth+1)
				}
			})
		}
		if sites == 0 {
			lw.unknown = true
		}
	case *ssa.UnOp:
		if x.Op != token.MUL {
			lw.unknown = true
			return
		}
		switch addr := x.X.(type) {
		case *ssa.FieldAddr:
			// a record member: what is stored into the same member of the same record type
			st := 0
			for _, f := range lw.funcs() {
				forEachInstr(f, func(_ *ssa.BasicBlock, ins ssa.Instruction) {
					s, ok := ins.(*ssa.Store)
					if !ok {
						return
					}
					fa, ok := s.Addr.(*ssa.FieldAddr)
					if !ok || fa.Field != addr.Field || !types.Identical(fa.X.Type(), addr.X.Type()) {
						return
					}
					st++
					lw.walk(s.Val, depth+1)
				})
			}
			if st == 0 {
				lw.unknown = true
			}
		case *ssa.Alloc, *ssa.FreeVar:
			// a local variable captured by closures: what is stored into the cell
			cell := cellOfAddr(addr)
			if cell == nil {
				lw.unknown = true
				return
			}
			st := 0
			for _, f := range lw.funcs() {
				forEachInstr(f, func(_ *ssa.BasicBlock, ins ssa.Instruction) {
					s, ok := ins.(*ssa.Store)
					if !ok {
						return
					}
					if cellOfAddr(s.Addr) != cell {
						return
					}
					st++
					lw.walk(s.Val, depth+1)
				})
			}
			if st == 0 {
				lw.unknown = true
			}
		default:
			lw.unknown = true
		}
	default:
		lw.unknown = true
	}
}

// results: the idx-th result of a call of a repo function
func (lw *packetListWalk) results(c *ssa.Call, idx int, depth int) {
	g := calleeOf(c)
	if g == nil || g.Blocks == nil {
		lw.unknown = true
		return
	}
	dup := false
	for _, f := range lw.entered {
		if f == g {
			dup = true
		}
	}
	if !dup {
		lw.entered = append(lw.entered, g)
	}
	forEachInstr(g, func(_ *ssa.BasicBlock, ins ssa.Instruction) {
		if ret, ok := ins.(*ssa.Return); ok && idx < len(ret.Results) {
			lw.walk(ret.Results[idx], depth+1)
		}
	})
}

// inlineObjectList: coll is a list of the objects declared inline in a packet - everything it may hold is the packet of an object
// attribute, gathered from fields by the functions the list comes from. orderOK: no such function appends an object and
// afterwards what it gathers from a descent (the objects declared inside), i.e. the list is innermost-first.
func inlineObjectList(w *World, coll ssa.Value, scope []*ssa.Function) (nested, orderOK bool) {
	if _, isCall := stripIdentity(coll).(*ssa.Call); !isCall {
		return false, false
	}
	lw := &packetListWalk{}
	lw.walk(coll, 0)
	if lw.unknown || len(lw.elems) == 0 || len(lw.entered) == 0 {
		return false, false
	}
	for _, e := range lw.elems {
		if !isRefPacketLoad(e.val) {
			return false, false
		}
	}
	entered := map[*ssa.Function]bool{}
	for _, f := range lw.entered {
		entered[f] = true
	}
	orderOK = true
	for _, f := range lw.entered {
		var descents []ssa.Instruction
		forEachInstr(f, func(_ *ssa.BasicBlock, ins ssa.Instruction) {
			if c, ok := ins.(ssa.CallInstruction); ok && entered[calleeOf(c)] {
				descents = append(descents, ins)
			}
		})
		for _, e := range lw.elems {
			if e.by == nil || e.by.Parent() != f {
				continue
			}
			for _, d := range descents {
				if instrDominates(e.by, d) {
					orderOK = false
				}
			}
		}
	}
	return true, orderOK
}

// luaNameForms: the text an emitted name is, as a term over the packet's name: NAME for a packet's Name / the Value of a match
// pair (the name a declared packet is found under), F(...) for a call of a function outside the repo, a quoted constant, a+b for a
// concatenation; repo helpers are unfolded (their results with the parameters bound), a string parameter of the emitter stands for
// what the call sites pass. A set: one term per way the value can come about. Terms with "?" are values that were not understood.
type luaNameForms struct {
	w     *World
	scope []*ssa.Function
	busy  map[ssa.Value]bool
}

func (nf *luaNameForms) forms(v ssa.Value, env map[*ssa.Parameter]map[string]bool, depth int) map[string]bool {
	one := func(s string) map[string]bool { return map[string]bool{s: true} }
	if v == nil {
		return one("?nil")
	}
	v = stripIdentity(v)
	if depth > 10 {
		return one("?deep")
	}
	if nf.busy == nil {
		nf.busy = map[ssa.Value]bool{}
	}
	if pairFieldOf(v) == "Value" {
		if _, isPhi := v.(*ssa.Phi); !isPhi {
			return one("NAME")
		}
	}
	switch x := v.(type) {
	case *ssa.Const:
		if x.Value != nil && x.Value.Kind() == constant.String {
			return one(strconv.Quote(constant.StringVal(x.Value)))
		}
		return one("?const")
	case *ssa.Phi:
		if nf.busy[x] {
			return map[string]bool{}
		}
		nf.busy[x] = true
		defer delete(nf.busy, x)
		out := map[string]bool{}
		for _, e := range x.Edges {
			for s := range nf.forms(e, env, depth+1) {
				out[s] = true
			}
		}
		return out
	case *ssa.BinOp:
		if x.Op != token.ADD {
			return one("?op")
		}
		out := map[string]bool{}
		for a := range nf.forms(x.X, env, depth+1) {
			for b := range nf.forms(x.Y, env, depth+1) {
				out[a+"+"+b] = true
			}
		}
		return out
	case *ssa.UnOp:
		if x.Op == token.MUL {
			if fa, ok := x.X.(*ssa.FieldAddr); ok {
				if tn, f, _, _ := fieldOf(fa); tn == "Packet" && f == "Name" {
					return one("NAME")
				} else {
					return one("?" + tn + "." + f)
				}
			}
		}
		return one("?load")
	case *ssa.Parameter:
		if env != nil {
			if s, ok := env[x]; ok {
				return s
			}
		}
		if nf.busy[x] {
			return one("?recursive")
		}
		nf.busy[x] = true
		defer delete(nf.busy, x)
		fn := x.Parent()
		idx := -1
		for i, p := range fn.Params {
			if p == x {
				idx = i
			}
		}
		out := map[string]bool{}
		for _, f := range nf.scope {
			forEachInstr(f, func(_ *ssa.BasicBlock, ins ssa.Instruction) {
				c, ok := ins.(ssa.CallInstruction)
				if !ok || c.Common().StaticCallee() != fn || idx < 0 || idx >= len(c.Common().Args) {
					return
				}
				for s := range nf.forms(c.Common().Args[idx], nil, depth+1) {
					out[s] = true
				}
			})
		}
		if len(out) == 0 {
			return one("?parameter")
		}
		return out
	case *ssa.Call:
		g := x.Call.StaticCallee()
		if g == nil {
			return one("?call")
		}
		var args []map[string]bool
		for _, a := range x.Call.Args {
			if bt, ok := a.Type().Underlying().(*types.Basic); ok && bt.Info()&types.IsString != 0 {
				args = append(args, nf.forms(a, env, depth+1))
			} else {
				args = append(args, nil)
			}
		}
		if g.Blocks != nil && g.Pkg == nf.w.Parser {
			// a repo helper: its results with the string parameters bound; a packet parameter's Name is NAME whatever the packet
			env2 := map[*ssa.Parameter]map[string]bool{}
			for i, p := range g.Params {
				if i < len(args) && args[i] != nil {
					env2[p] = args[i]
				}
			}
			out := map[string]bool{}
			forEachInstr(g, func(_ *ssa.BasicBlock, ins ssa.Instruction) {
				if ret, ok := ins.(*ssa.Return); ok && len(ret.Results) == 1 {
					for s := range nf.forms(ret.Results[0], env2, depth+1) {
						out[s] = true
					}
				}
			})
			if len(out) == 0 {
				return one("?helper")
			}
			return out
		}
		terms := []string{g.String() + "("}
		first := true
		for _, a := range args {
			if a == nil {
				continue
			}
			var next []string
			for _, t := range terms {
				for s := range a {
					sep := ","
					if first {
						sep = ""
					}
					next = append(next, t+sep+s)
				}
			}
			terms, first = next, false
		}
		out := map[string]bool{}
		for _, t := range terms {
			out[t+")"] = true
		}
		return out
	}
	return one("?" + strings.TrimPrefix(fmt.Sprintf("%T", v), "*ssa."))
}

// C07|C17/go-imports-used: the Go compiler rejects a file that imports a package it does not use.
//
// Decided for the Go generator: for every import path in a constant import block it emits, the package's qualified uses
// (`<name>.` in emitted constants) must include one that is emitted whenever the block is - a use site without control dependences in
// the emitter of the block or in an emitter that is called from there without control dependences - or the import line itself must be
// conditional on the emitted code containing such a use (strings.Contains(code, "<name>.")). An import emitted for every file with
// all its uses inside per-field or per-kind branches makes the files of the packets that do not take those branches fail to build.
func goImportsUsed(w *World, wc *wireCtx, r *Report, prop string) {
	rule := prop + "/go-imports-used"
	own := wc.anchors["go"]["own"]
	if len(own) == 0 {
		r.fail(rule, "go emitters found", "internal/parser/go_generator.go", "no emitter of the Go generator resolved")
		return
	}
	importRE := regexp.MustCompile(`(?s)import\s*\((.*?)\)`)
	pathRE := regexp.MustCompile(`(?m)^\s*(?:([A-Za-z_][A-Za-z_0-9]*)\s+)?"([^"]+)"\s*$`)
	type piece struct {
		fn  *ssa.Function
		ins ssa.Instruction
		s   string
	}
	var pieces []piece
	for _, fn := range own {
		forEachInstr(fn, func(_ *ssa.BasicBlock, ins ssa.Instruction) {
			for _, op := range ins.Operands(nil) {
				if *op == nil {
					continue
				}
				if k, ok := (*op).(*ssa.Const); ok && k.Value != nil && k.Value.Kind() == constant.String {
					pieces = append(pieces, piece{fn, ins, constant.StringVal(k.Value)})
				}
			}
		})
	}
	cds := map[*ssa.Function]*cdInfo{}
	cdOf := func(fn *ssa.Function) *cdInfo {
		if cds[fn] == nil {
			cds[fn] = computeCD(fn)
		}
		return cds[fn]
	}
	unconditional := func(ins ssa.Instruction) bool {
		return len(cdOf(ins.Parent()).allCtrl(ins.Block())) == 0
	}
	// alwaysReach: functions whose whole body runs whenever fn runs (calls without control dependences), fn included
	alwaysReach := func(fn *ssa.Function) map[*ssa.Function]bool {
		out := map[*ssa.Function]bool{fn: true}
		work := []*ssa.Function{fn}
		for len(work) > 0 {
			f := work[len(work)-1]
			work = work[:len(work)-1]
			forEachInstr(f, func(_ *ssa.BasicBlock, ins ssa.Instruction) {
				c, ok := ins.(ssa.CallInstruction)
				if !ok || !unconditional(ins) {
					return
				}
				if g := calleeOf(c); g != nil && g.Blocks != nil && !out[g] && g.Pkg == w.Parser {
					out[g] = true
					work = append(work, g)
				}
			})
		}
		return out
	}
	n := 0
	headerFns := map[*ssa.Function]bool{} // functions that decide about imports by scanning a text handed to them
	defer func() {
		// the text that is scanned for uses is the text of the whole file: header(X) is followed by exactly X and nothing is added
		// behind it (declarations appended after the header was computed are not covered by its imports)
		for _, hf := range sortedFuncs(headerFns) {
			pidx := -1
			forEachInstr(hf, func(_ *ssa.BasicBlock, ins ssa.Instruction) {
				c, ok := ins.(*ssa.Call)
				if !ok || c.Call.StaticCallee() == nil || c.Call.StaticCallee().String() != "strings.Contains" || len(c.Call.Args) != 2 {
					return
				}
				for i, q := range hf.Params {
					if stripIdentity(c.Call.Args[0]) == ssa.Value(q) {
						pidx = i
					}
				}
			})
			if pidx < 0 {
				continue
			}
			nSites := 0
			for _, fn := range own {
				forEachInstr(fn, func(_ *ssa.BasicBlock, ins ssa.Instruction) {
					c, ok := ins.(*ssa.Call)
					if !ok || c.Call.StaticCallee() != hf || pidx >= len(c.Call.Args) {
						return
					}
					nSites++
					key := fmt.Sprintf("%s: the imports are chosen from the text of the whole file #%d", fnKey(fn), nSites)
					x := c.Call.Args[pidx]
					sameText := func(a, b ssa.Value) bool {
						a, b = stripIdentity(a), stripIdentity(b)
						if a == b {
							return true
						}
						// two String() calls on one builder with nothing written in between
						ca, ok1 := a.(*ssa.Call)
						cb, ok2 := b.(*ssa.Call)
						if !ok1 || !ok2 || ca.Call.StaticCallee() == nil || cb.Call.StaticCallee() == nil {
							return false
						}
						if ca.Call.StaticCallee().String() != "(*strings.Builder).String" || cb.Call.StaticCallee().String() != "(*strings.Builder).String" {
							return false
						}
						if stripIdentity(ca.Call.Args[0]) != stripIdentity(cb.Call.Args[0]) || ca.Block() != cb.Block() {
							return false
						}
						lo, hi := indexIn(ca), indexIn(cb)
						if lo > hi {
							lo, hi = hi, lo
						}
						for _, mid := range ca.Block().Instrs[lo+1 : hi] {
							if mc, ok := mid.(ssa.CallInstruction); ok {
								if f := mc.Common().StaticCallee(); f != nil && strings.HasPrefix(f.String(), "(*strings.Builder).Write") {
									return false
								}
							}
						}
						return true
					}
					// nothing is appended behind header + text
					var grows func(v ssa.Value, depth int) string
					grows = func(v ssa.Value, depth int) string {
						if depth > 4 || v.Referrers() == nil {
							return ""
						}
						for _, r2 := range *v.Referrers() {
							switch y := r2.(type) {
							case *ssa.BinOp:
								if y.Op == token.ADD && y.X == v {
									return w.instrPos(y)
								}
							case *ssa.Phi:
								if g := grows(y, depth+1); g != "" {
									return g
								}
							}
						}
						return ""
					}
					why := ""
					if tailIsParam(hf, pidx) {
						// the function itself returns header + text: its result is the whole file
						if at := grows(c, 0); at != "" {
							why = "more text is appended behind header + text (at " + at + "): what it uses is not covered by the imports"
						}
					} else if c.Referrers() == nil {
						why = "the header is not used"
					} else {
						for _, ref := range *c.Referrers() {
							bo, ok := ref.(*ssa.BinOp)
							if !ok || bo.Op != token.ADD || bo.X != ssa.Value(c) {
								if _, isDbg := ref.(*ssa.DebugRef); !isDbg {
									why = "the header is used other than as the head of header + text (" + instrKind(ref) + ")"
								}
								continue
							}
							if !sameText(bo.Y, x) {
								why = "the text that follows the header is not the text the header was computed from"
								continue
							}
							if at := grows(bo, 0); at != "" {
								why = "more text is appended behind header + text (at " + at + "): what it uses is not covered by the imports"
							}
						}
					}
					if why == "" {
						r.pass(rule, key, w.instrPos(c), "")
					} else {
						r.fail(rule, key, w.instrPos(c), why+" - a file whose only qualified uses sit in the uncovered part is rejected by the Go compiler (undefined: codec / binary)")
					}
				})
			}
		}
	}()
	for _, p := range pieces {
		// a whole import block in one constant, or a single import line (a block assembled line by line)
		var lines []string
		if m := importRE.FindStringSubmatch(p.s); m != nil {
			lines = strings.Split(m[1], "\n")
		} else if t := strings.TrimSpace(p.s); pathRE.MatchString(t) && strings.Count(t, "\"") == 2 && strings.Contains(t, "/") || t == `"fmt"` || t == `"bytes"` {
			lines = []string{t}
		} else {
			continue
		}
		for _, ln := range lines {
			m := pathRE.FindStringSubmatch(ln)
			if m == nil {
				continue
			}
			name := m[1]
			if name == "" {
				name = m[2][strings.LastIndex(m[2], "/")+1:]
			}
			if name == "_" || name == "." {
				continue
			}
			n++
			key := fmt.Sprintf("%s: import %q is emitted only into files that use it", fnKey(p.fn), m[2])
			useRE := regexp.MustCompile(`(^|[^A-Za-z_0-9.])` + regexp.QuoteMeta(name) + `\.[A-Za-z_]`)
			// (a) the import line is conditional on the emitted code containing a use
			condOK := false
			for _, d := range cdOf(p.fn).allCtrl(p.ins.Block()) {
				cond := stripNot(branchCond(d.Branch))
				if c, ok := cond.(*ssa.Call); ok {
					if f := c.Call.StaticCallee(); f != nil && f.String() == "strings.Contains" && len(c.Call.Args) == 2 {
						if k, ok := c.Call.Args[1].(*ssa.Const); ok && k.Value != nil && k.Value.Kind() == constant.String && strings.HasPrefix(constant.StringVal(k.Value), name+".") {
							condOK = true
						}
					}
				}
			}
			if condOK {
				r.pass(rule, key, w.instrPos(p.ins), "emitted only when the generated code contains "+name+".")
				headerFns[p.fn] = true
				continue
			}
			// (b) some use is emitted whenever the emitter of the import runs
			reach := alwaysReach(p.fn)
			found, any := false, false
			for _, u := range pieces {
				if u.ins == p.ins && importRE.MatchString(u.s) {
					continue
				}
				if !useRE.MatchString(u.s) {
					continue
				}
				any = true
				if reach[u.fn] && unconditional(u.ins) {
					found = true
				}
			}
			switch {
			case found:
				r.pass(rule, key, w.instrPos(p.ins), "a use is emitted unconditionally")
			case !any:
				r.fail(rule, key, w.instrPos(p.ins), "the generator never emits a qualified use of "+name+": the Go compiler rejects the file (imported and not used)")
			default:
				r.fail(rule, key, w.instrPos(p.ins), "every emitted use of "+name+". sits in a branch or loop (per field, per kind), the import does not: the file of a packet that takes none of those branches is rejected by the Go compiler (imported and not used)")
			}
		}
	}
	if n == 0 {
		r.fail(rule, "import blocks found", "internal/parser/go_generator.go", "no constant import block found in the Go emitters")
	}
}

// */list-endian-unconditional: in a list cell the byte-order flavour of an emitted name is a function of LittleEndian alone.
//
// The accessors of a repeated field (put_list / get_list, put_string_list, WriteBasicTypeListLE ...) write the element count, the
// elements and, for strings, each element's length prefix; their little-endian variant governs all of them. "A single byte has no
// byte order" is true of a scalar u8, not of a list whose count (or whose elements, or whose string prefixes) is wider: a helper
// that drops the `_le` flavour when *one* of the types involved is a single byte makes the list come out big-endian in part, while
// every other language - and the same language's scalar fields - stay little-endian. Decided: for every string piece of an emission
// in a list-only cell, the strings the piece can be with LittleEndian set and the strings it can be without are either the same set
// (the piece does not depend on the byte order) or disjoint (constants, phis and parser helpers evaluated under each assumption;
// pieces the evaluator cannot enumerate are not judged).
func wireListEndianUnconditional(w *World, wc *wireCtx, r *Report, prop string) {
	rule := prop + "/list-endian-unconditional"
	isLELoad := func(v ssa.Value) bool {
		v = stripIdentity(v)
		switch x := v.(type) {
		case *ssa.UnOp:
			if fa, ok := x.X.(*ssa.FieldAddr); ok && x.Op == token.MUL {
				tn, f, _, _ := fieldOf(fa)
				return tn == "Configuration" && f == "LittleEndian"
			}
		case *ssa.Field:
			tn, f, _, _ := fieldOf(x)
			return tn == "Configuration" && f == "LittleEndian"
		}
		return false
	}
	// excluded: block b cannot execute under the assumption LittleEndian == le
	excluded := func(b *ssa.BasicBlock, le bool) bool {
		for _, bb := range b.Parent().Blocks {
			cond := branchCond(bb)
			if cond == nil {
				continue
			}
			neg := false
			c := cond
			for {
				if u, ok := c.(*ssa.UnOp); ok && u.Op == token.NOT {
					neg = !neg
					c = u.X
					continue
				}
				break
			}
			if !isLELoad(c) {
				continue
			}
			// successor taken when LittleEndian is true
			trueSucc := 0
			if neg {
				trueSucc = 1
			}
			wrong := 1 - trueSucc
			if !le {
				wrong = trueSucc
			}
			if edgeDominates(bb, wrong, b) {
				return true
			}
		}
		return false
	}
	// excludedEdge: the edge from -> to is the branch of a LittleEndian test that the assumption rules out
	excludedEdge := func(from, to *ssa.BasicBlock, le bool) bool {
		cond := branchCond(from)
		if cond == nil || len(from.Succs) != 2 || from.Succs[0] == from.Succs[1] {
			return false
		}
		neg := false
		c := cond
		for {
			if u, ok := c.(*ssa.UnOp); ok && u.Op == token.NOT {
				neg = !neg
				c = u.X
				continue
			}
			break
		}
		if !isLELoad(c) {
			return false
		}
		trueSucc := 0
		if neg {
			trueSucc = 1
		}
		wrong := 1 - trueSucc
		if !le {
			wrong = trueSucc
		}
		return from.Succs[wrong] == to
	}
	var possible func(v ssa.Value, le bool, depth int, seen map[ssa.Value]bool) (map[string]bool, bool)
	possible = func(v ssa.Value, le bool, depth int, seen map[ssa.Value]bool) (map[string]bool, bool) {
		if depth > 6 || seen[v] {
			return nil, false
		}
		seen[v] = true
		defer delete(seen, v)
		switch x := v.(type) {
		case *ssa.Const:
			if s, ok := constString(x); ok {
				return map[string]bool{s: true}, true
			}
			return nil, false
		case *ssa.Phi:
			out := map[string]bool{}
			for i, e := range x.Edges {
				if excluded(x.Block().Preds[i], le) || excludedEdge(x.Block().Preds[i], x.Block(), le) {
					continue
				}
				s, ok := possible(e, le, depth+1, seen)
				if !ok {
					return nil, false
				}
				for k := range s {
					out[k] = true
				}
			}
			return out, true
		case *ssa.Parameter:
			// whatever is handed in: one fixed text, the same under both assumptions
			return map[string]bool{"\u2039" + x.Name() + "\u203a": true}, true
		case *ssa.BinOp:
			if x.Op != token.ADD || !isStringType(x.Type()) {
				return nil, false
			}
			l, ok1 := possible(x.X, le, depth+1, seen)
			rr, ok2 := possible(x.Y, le, depth+1, seen)
			if !ok1 || !ok2 || len(l)*len(rr) > 32 {
				return nil, false
			}
			out := map[string]bool{}
			for a := range l {
				for b := range rr {
					out[a+b] = true
				}
			}
			return out, true
		case *ssa.Call:
			f := x.Call.StaticCallee()
			if f != nil && f.String() == "fmt.Sprintf" && len(x.Call.Args) == 2 {
				// the text pieces filled into the format, in order (the format itself is the same under both assumptions)
				out := map[string]bool{"": true}
				for _, o := range variadicOperands(x.Call.Args[1]) {
					if o == nil {
						continue
					}
					o = stripIdentity(o)
					if !isStringType(o.Type()) {
						continue
					}
					s, ok := possible(o, le, depth+1, seen)
					if !ok {
						s = map[string]bool{"\u2039?\u203a": true}
					}
					if len(out)*len(s) > 32 {
						return nil, false
					}
					next := map[string]bool{}
					for a := range out {
						for b := range s {
							next[a+"|"+b] = true
						}
					}
					out = next
				}
				return out, true
			}
			if f == nil || f.Blocks == nil || f.Pkg != w.Parser || !isStringType(x.Type()) {
				return nil, false
			}
			out := map[string]bool{}
			any := false
			for _, b := range f.Blocks {
				ret, ok := b.Instrs[len(b.Instrs)-1].(*ssa.Return)
				if !ok || len(ret.Results) != 1 || excluded(b, le) {
					continue
				}
				s, ok := possible(ret.Results[0], le, depth+1, seen)
				if !ok {
					return nil, false
				}
				any = true
				for k := range s {
					out[k] = true
				}
			}
			return out, any
		case *ssa.UnOp:
			if al, ok := x.X.(*ssa.Alloc); ok && x.Op == token.MUL && al.Referrers() != nil {
				out := map[string]bool{}
				any := false
				for _, ref := range *al.Referrers() {
					if st, ok := ref.(*ssa.Store); ok && st.Addr == ssa.Value(al) {
						if excluded(st.Block(), le) {
							continue
						}
						s, ok := possible(st.Val, le, depth+1, seen)
						if !ok {
							return nil, false
						}
						any = true
						for k := range s {
							out[k] = true
						}
					}
				}
				return out, any
			}
		}
		return nil, false
	}
	n := 0
	cnt := map[string]int{}
	for _, lang := range codecLangs {
		for _, fn := range wc.anchors[lang]["own"] {
			forEachInstr(fn, func(b *ssa.BasicBlock, ins ssa.Instruction) {
				st, f := wc.m.stateAt(fn, b)
				if f == nil || st.isTop() || st.R != 2 {
					return // not a list-only cell
				}
				var pieces []ssa.Value
				switch x := ins.(type) {
				case *ssa.Call:
					callee := x.Call.StaticCallee()
					if callee == nil {
						return
					}
					idx := -1
					switch callee.String() {
					case "fmt.Sprintf":
						idx = 0
					case "fmt.Fprintf":
						idx = 1
					}
					if idx < 0 || idx+1 >= len(x.Call.Args) {
						return
					}
					for _, o := range variadicOperands(x.Call.Args[idx+1]) {
						if o != nil && isStringType(stripIdentity(o).Type()) {
							pieces = append(pieces, stripIdentity(o))
						}
					}
				case *ssa.BinOp:
					if x.Op == token.ADD && isStringType(x.Type()) {
						pieces = append(pieces, x.X, x.Y)
					}
				default:
					return
				}
				for _, p := range pieces {
					if _, isC := p.(*ssa.Const); isC {
						continue
					}
					sle, ok1 := possible(p, true, 0, map[ssa.Value]bool{})
					sbe, ok2 := possible(p, false, 0, map[ssa.Value]bool{})
					if !ok1 || !ok2 {
						continue
					}
					same := len(sle) == len(sbe)
					var common []string
					for k := range sle {
						if sbe[k] {
							common = append(common, strconv.Quote(k))
						} else {
							same = false
						}
					}
					if same {
						continue // does not depend on the byte order
					}
					n++
					cnt[fnKey(fn)]++
					key := fmt.Sprintf("%s %s: byte-order flavoured piece #%d of a list emission follows LittleEndian alone", lang, fnKey(fn), cnt[fnKey(fn)])
					if len(common) == 0 {
						r.pass(rule, key, w.instrPos(ins), "")
					} else {
						sort.Strings(common)
						r.fail(rule, key, w.instrPos(ins), fmt.Sprintf("with LittleEndian set this piece of the list accessor's name can still be %s, as it is without (with: %v, without: %v): the flavour is dropped under a condition on one of the types involved, so the element count / the elements / the string prefixes of the list are written big-endian while the rest of the message and the other languages are little-endian", strings.Join(common, ", "), sortedBoolKeys(sle), sortedBoolKeys(sbe)))
					}
				}
			})
		}
	}
	r.note("%s: %d byte-order dependent pieces in list cells judged", rule, n)
}

// C05/key-as-written: a match key reaches the emitted dispatch table as the text the author wrote. The key field may be as wide as
// u64 (and keys may be strings): a round trip through strconv.Atoi / ParseInt "to normalise the literal" clamps every key above
// MaxInt64 to the same number, so two table entries collapse and the declared key selects nothing. Decided: no strconv conversion in
// generator or parse-phase code takes an argument that derives from MatchPair.Key (through trimming, phis, helper parameters).
func wireKeyAsWritten(w *World, wc *wireCtx, r *Report, prop string) {
	rule := prop + "/key-as-written"
	var fromKey func(v ssa.Value, depth int, seen map[ssa.Value]bool) bool
	fromKey = func(v ssa.Value, depth int, seen map[ssa.Value]bool) bool {
		v = stripIdentity(v)
		if depth > 6 || seen[v] {
			return false
		}
		seen[v] = true
		switch x := v.(type) {
		case *ssa.UnOp:
			if fa, ok := x.X.(*ssa.FieldAddr); ok && x.Op == token.MUL {
				tn, f, _, _ := fieldOf(fa)
				return tn == "MatchPair" && f == "Key"
			}
		case *ssa.Field:
			tn, f, _, _ := fieldOf(x)
			return tn == "MatchPair" && f == "Key"
		case *ssa.Phi:
			for _, e := range x.Edges {
				if fromKey(e, depth+1, seen) {
					return true
				}
			}
		case *ssa.Call:
			if f := x.Call.StaticCallee(); f != nil && f.Pkg != nil && f.Pkg.Pkg.Path() == "strings" {
				for _, a := range x.Call.Args {
					if isStringType(a.Type()) && fromKey(a, depth+1, seen) {
						return true
					}
				}
			}
		case *ssa.Parameter:
			fn := x.Parent()
			for i, p := range fn.Params {
				if p != x {
					continue
				}
				for _, g := range w.srcFuncs {
					found := false
					forEachInstr(g, func(_ *ssa.BasicBlock, ins ssa.Instruction) {
						if c, ok := ins.(ssa.CallInstruction); ok && !found && calleeOf(c) == fn && i < len(c.Common().Args) {
							if fromKey(c.Common().Args[i], depth+1, seen) {
								found = true
							}
						}
					})
					if found {
						return true
					}
				}
			}
		}
		return false
	}
	var bad []string
	n := 0
	for _, fn := range w.srcFuncs {
		if fn.Pkg != w.Parser && fn.Pkg != w.Model {
			continue
		}
		forEachInstr(fn, func(_ *ssa.BasicBlock, ins ssa.Instruction) {
			c, ok := ins.(*ssa.Call)
			if !ok {
				return
			}
			f := c.Call.StaticCallee()
			if f == nil || f.Pkg == nil || f.Pkg.Pkg.Path() != "strconv" || !(f.Name() == "Atoi" || strings.HasPrefix(f.Name(), "Parse")) || len(c.Call.Args) == 0 {
				return
			}
			n++
			if fromKey(c.Call.Args[0], 0, map[ssa.Value]bool{}) {
				bad = append(bad, fmt.Sprintf("%s in %s (%s)", f.Name(), fnKey(fn), w.instrPos(c)))
			}
		})
	}
	key := "no numeric conversion of a match key between the DSL and the emitted table"
	if len(bad) == 0 {
		r.pass(rule, key, "internal/parser", fmt.Sprintf("%d strconv conversions examined, none of a MatchPair.Key", n))
	} else {
		sort.Strings(bad)
		r.fail(rule, key, "internal/parser", "a match key goes through "+strings.Join(bad, "; ")+": keys above the conversion's range (a u64 key field holds up to 18446744073709551615) are clamped to one value, string keys become 0 - the emitted table no longer maps the declared key to its packet")
	}
}

// tailIsParam: every value fn returns is a concatenation whose last operand is its parameter pidx (header + text, text last).
func tailIsParam(fn *ssa.Function, pidx int) bool {
	if pidx < 0 || pidx >= len(fn.Params) {
		return false
	}
	n := 0
	for _, b := range fn.Blocks {
		ret, ok := b.Instrs[len(b.Instrs)-1].(*ssa.Return)
		if !ok {
			continue
		}
		if len(ret.Results) != 1 {
			return false
		}
		v := stripIdentity(ret.Results[0])
		bo, ok := v.(*ssa.BinOp)
		if !ok || bo.Op != token.ADD || stripIdentity(bo.Y) != ssa.Value(fn.Params[pidx]) {
			return false
		}
		n++
	}
	return n > 0
}

// <prop>/kind-has-its-step: "No declared field is omitted" / "every declared field [has] its encode and decode step". The per-field
// emitters dispatch on the field's kind; for every kind x repeat cell the grammar can produce there is an emission site that is
// specific to the kind - reached under tests that admit the kind and at most two others (the three scalar kinds share their
// representation; strings, objects and match payloads come alone or in pairs) - in the emitters of that language
// and direction. A case that is present but empty (`case *model.ObjectFieldAttribute:` with nothing behind it) leaves the common
// text around the field and emits nothing for it: the enc-sensitivity cells of kinds without a wire-determining input of their own
// (an object delegates to the nested packet's codec) cannot see that.
func wireKindHasStep(wc *wireCtx, r *Report, prop string, dirs []string) {
	rule := prop + "/kind-has-its-step"
	m := wc.m
	n := 0
	for _, l := range codecLangs {
		for _, dir := range dirs {
			fns := wc.anchors[l][dir]
			if dir == "test" {
				// the emitters of the self-test: sample values and sample instances
				fns = nil
				for _, f := range wc.anchors[l]["own"] {
					if roleOf(f) == "test" {
						fns = append(fns, f)
					}
				}
			}
			if len(fns) == 0 {
				continue
			}
			for _, u := range feasibleUnits() {
				specific := 0
				where := ""
				for _, fn := range fns {
					miss := tableMissBlocks(fn)
					for _, blk := range fn.Blocks {
						if miss[blk] {
							continue
						}
						st, f := m.stateAt(fn, blk)
						if f == nil || st.empty() || !st.admits(u) {
							continue
						}
						feasible := uint8(allKinds)
						if u.List {
							feasible = 1<<kBasic | 1<<kDyn | 1<<kFixed | 1<<kObject // what the grammar lets repeat
						}
						if bits.OnesCount8(st.K&feasible) > 3 {
							continue // common text: the block is shared by more kinds than any one representation has (the three scalar kinds)
						}
						if at := producesText(blk); at != nil {
							specific++
							if where == "" {
								where = m.w.instrPos(at)
							}
						}
					}
				}
				n++
				key := fmt.Sprintf("%s/%s/%s has an emission of its own", l, dir, u)
				if specific > 0 {
					r.pass(rule, key, where, fmt.Sprintf("%d kind-specific sites", specific))
				} else {
					r.fail(rule, key, "", fmt.Sprintf("no emission site of the %s %s emitters is specific to this kind of field (every site that admits it is common text): a field of this kind gets no %s step of its own - it is silently omitted", l, dir, map[string]string{"enc": "encode", "dec": "decode", "test": "sample"}[dir]))
				}
			}
		}
	}
	if n == 0 {
		r.fail(rule, "cells found", "", "no emitter anchors resolved")
	}
}

// producesText: the block builds or hands on text: a call that yields or takes a string, a concatenation, a return of a string,
// a text stored into a record field or a list element.
func producesText(b *ssa.BasicBlock) ssa.Instruction {
	for _, ins := range b.Instrs {
		switch x := ins.(type) {
		case *ssa.Call:
			if isStringType(x.Type()) {
				return x
			}
			for _, a := range x.Call.Args {
				if isStringType(a.Type()) {
					return x
				}
			}
		case *ssa.BinOp:
			if x.Op == token.ADD && isStringType(x.Type()) {
				return x
			}
		case *ssa.Store:
			// the arm puts its text into a record or a list that is rendered at a common place (`shape{family: "string_list", ...}`)
			if isStringType(x.Val.Type()) {
				if _, isConst := x.Val.(*ssa.Const); !isConst {
					return x
				}
				if s, ok := constString(x.Val); ok && s != "" {
					return x
				}
			}
		case *ssa.Return:
			for _, rv := range x.Results {
				if isStringType(rv.Type()) {
					if _, isConst := rv.(*ssa.Const); !isConst {
						return x
					}
					if s, ok := constString(rv); ok && s != "" {
						return x
					}
				}
			}
		}
	}
	return nil
}

// <prop>/le-spelling-on-the-le-side: a string constant with the little-endian spelling of a runtime call (`..._le`, `...LE`, `Le`) is
// never produced on the side of a test of Configuration.LittleEndian on which the option is known to be false. Decided per constant
// use: the edges of LittleEndian tests that dominate the block of the use (for a phi operand: the predecessor it comes from); a use
// under contradictory edges is unreachable and skipped. The existing polarity rule compares the two arms of one branch where both
// arms are emission sites; this one does not need the arms to have a particular shape (`if le { return x_le }; return x`).
func wireLESpellingSide(w *World, wc *wireCtx, r *Report, prop string) {
	rule := prop + "/le-spelling-on-the-le-side"
	n := 0
	for _, l := range codecLangs {
		for _, fn := range wc.anchors[l]["own"] {
			type edge struct {
				b    *ssa.BasicBlock
				succ int
				le   bool
			}
			var edges []edge
			for _, b := range fn.Blocks {
				cond := branchCond(b)
				if cond == nil {
					continue
				}
				mode, neg, ok := classifyMode(cond)
				if !ok || mode != modeLE {
					continue
				}
				leSucc := 0
				if neg {
					leSucc = 1
				}
				edges = append(edges, edge{b, leSucc, true}, edge{b, 1 - leSucc, false})
			}
			if len(edges) == 0 {
				continue
			}
			sideOf := func(x *ssa.BasicBlock, viaPhi *ssa.BasicBlock) (le, be bool) {
				for _, e := range edges {
					dom := edgeDominates(e.b, e.succ, x)
					if !dom && viaPhi != nil && x == e.b && e.b.Succs[e.succ] == viaPhi {
						dom = true // the arm is empty: the value travels on the branch's own edge into the join
					}
					if dom {
						if e.le {
							le = true
						} else {
							be = true
						}
					}
				}
				return
			}
			bad := ""
			uses := 0
			forEachInstr(fn, func(b *ssa.BasicBlock, ins ssa.Instruction) {
				for i, op := range ins.Operands(nil) {
					if *op == nil {
						continue
					}
					k, ok := (*op).(*ssa.Const)
					if !ok {
						continue
					}
					s, ok := constString(k)
					if !ok || !leFlavoured(s) {
						continue
					}
					x := b
					var via *ssa.BasicBlock
					if phi, isPhi := ins.(*ssa.Phi); isPhi && i < len(b.Preds) {
						x, via = b.Preds[i], phi.Block()
					}
					le, be := sideOf(x, via)
					if le && be {
						continue // contradictory: unreachable
					}
					if le || be {
						uses++
					}
					if be && bad == "" {
						bad = fmt.Sprintf("%q is produced at %s on the side where LittleEndian is false", s, w.instrPos(ins))
					}
				}
			})
			if uses == 0 {
				continue
			}
			n++
			key := fmt.Sprintf("%s: %s spells little-endian calls only where LittleEndian is set", l, fnKey(fn))
			if bad == "" {
				r.pass(rule, key, w.pos(fn.Pos()), fmt.Sprintf("%d uses", uses))
			} else {
				r.fail(rule, key, w.pos(fn.Pos()), bad+": the two byte orders are swapped for what this routine emits")
			}
		}
	}
	if n == 0 {
		r.fail(rule, "little-endian spellings under LittleEndian tests found", "", "no emitter spells a little-endian call under a test of the option")
	}
}

var listIdiomRE = regexp.MustCompile(`\.add\(|\.append\(|\.push_back\(|\.push\(|\.emplace_back\(`)

// <prop>/element-idiom-on-the-repeat-side: the decoders read the elements of a repeated field one by one and add each to the member
// (`this.x.add(..)`, `self.x.append(..)`, `x.push_back(..)`), while a single field is assigned. A constant that spells the
// add-to-a-list idiom of the target language is never produced on the side of a test of Field.IsRepeat on which the field is known
// not to repeat (same construction as le-spelling-on-the-le-side; a fixed lexicon of five method spellings).
func wireListIdiomSide(w *World, wc *wireCtx, r *Report, prop string) {
	rule := prop + "/element-idiom-on-the-repeat-side"
	n := 0
	for _, l := range codecLangs {
		for _, fn := range wc.anchors[l]["own"] {
			type edge struct {
				b      *ssa.BasicBlock
				succ   int
				repeat bool
			}
			var edges []edge
			for _, b := range fn.Blocks {
				cond := branchCond(b)
				if cond == nil {
					continue
				}
				mode, neg, ok := classifyMode(cond)
				if !ok || mode != modeRepeat {
					continue
				}
				rs := 0
				if neg {
					rs = 1
				}
				edges = append(edges, edge{b, rs, true}, edge{b, 1 - rs, false})
			}
			if len(edges) == 0 {
				continue
			}
			bad := ""
			uses := 0
			forEachInstr(fn, func(b *ssa.BasicBlock, ins ssa.Instruction) {
				for i, op := range ins.Operands(nil) {
					if *op == nil {
						continue
					}
					k, ok := (*op).(*ssa.Const)
					if !ok {
						continue
					}
					s, ok := constString(k)
					if !ok || !listIdiomRE.MatchString(s) {
						continue
					}
					x := b
					var via *ssa.BasicBlock
					if phi, isPhi := ins.(*ssa.Phi); isPhi && i < len(b.Preds) {
						x, via = b.Preds[i], phi.Block()
					}
					rep, single := false, false
					for _, e := range edges {
						dom := edgeDominates(e.b, e.succ, x)
						if !dom && via != nil && x == e.b && e.b.Succs[e.succ] == via {
							dom = true
						}
						if dom {
							if e.repeat {
								rep = true
							} else {
								single = true
							}
						}
					}
					if rep && single {
						continue
					}
					if rep || single {
						uses++
					}
					if single && bad == "" {
						bad = fmt.Sprintf("%q is produced at %s on the side where the field does not repeat", s, w.instrPos(ins))
					}
				}
			})
			if uses == 0 {
				continue
			}
			n++
			key := fmt.Sprintf("%s: %s adds elements only where the field repeats", l, fnKey(fn))
			if bad == "" {
				r.pass(rule, key, w.pos(fn.Pos()), fmt.Sprintf("%d uses", uses))
			} else {
				r.fail(rule, key, w.pos(fn.Pos()), bad+": a single field is added to a list it does not have and a repeated one is overwritten element by element")
			}
		}
	}
	if n == 0 {
		r.pass(rule, "element idioms under IsRepeat tests found", "", "no emitter spells an add-to-list call under a test of IsRepeat")
	}
}
