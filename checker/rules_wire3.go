package main

// */one-byte-has-no-endian-variant
//
// The target runtimes name their endian-specific accessors after the scalar type (bytes::BufMut::put_u16_le,
// byteorder::LittleEndian::write_u32, ...). One-byte types have no such variants in any of them - there is no put_u8_le,
// no ByteOrder::write_u8 - so an emitter that composes "<endianness flavour> + <type name>" into one identifier must not do so
// for a field whose type may be a one-byte scalar. Decided from the generator's own source:
//   site     a format string (or string concatenation) in which a %s verb and an endianness-flavoured word (le, be, LittleEndian,
//            BigEndian) are parts of the same identifier path, the verb's operand being a field's type name (Field.GetType(), directly
//            or through a string parameter bound at the call sites);
//   demand   on every path to the site the type name is known not to be a one-byte scalar: the field's kind state excludes the
//            scalar kinds, or comparisons of the same type name with "u8"/"i8" (if/switch, either polarity, also a test of the
//            type table's Size) exclude each of them (a forward must-analysis over branch edges).
// What it does not decide: whether the composed name exists in the runtime for the remaining types.

import (
	"fmt"
	"go/constant"
	"go/token"
	"go/types"
	"regexp"
	"sort"
	"strings"

	"golang.org/x/tools/go/ssa"
)

var oneByteNames = []string{"u8", "i8"}

const oneByteAll = 3

func oneByteBit(s string) int {
	for i, n := range oneByteNames {
		if n == s {
			return 1 << i
		}
	}
	return 0
}

type fmtVerb struct {
	start, end int // [start,end) of the verb in the format
	verb       byte
	operand    int
}

func scanVerbs(format string) []fmtVerb {
	var out []fmtVerb
	n := 0
	for i := 0; i < len(format); i++ {
		if format[i] != '%' {
			continue
		}
		j := i + 1
		for j < len(format) && strings.IndexByte("+-# 0123456789.[]*", format[j]) >= 0 {
			j++
		}
		if j >= len(format) {
			break
		}
		if format[j] == '%' {
			i = j
			continue
		}
		out = append(out, fmtVerb{i, j + 1, format[j], n})
		n++
		i = j
	}
	return out
}

var identPathChar = func(c byte) bool {
	return c == '_' || c == ':' || (c >= '0' && c <= '9') || (c >= 'a' && c <= 'z') || (c >= 'A' && c <= 'Z')
}

var endianWordRE = regexp.MustCompile(`(?i)^(le|be|littleendian|bigendian)$`)

// endianFlavouredIdent: the identifier path around format[start:end) (the verb) contains an endianness word.
func endianFlavouredIdent(format string, start, end int) (string, bool) {
	i := start
	for i > 0 && identPathChar(format[i-1]) {
		i--
	}
	j := end
	for j < len(format) && identPathChar(format[j]) {
		j++
	}
	ident := format[i:start] + "\x00" + format[end:j]
	return strings.ReplaceAll(ident, "\x00", "<type>"), endianWords(format[i:start]) || endianWords(format[end:j])
}

func endianWords(s string) bool {
	for _, w := range strings.FieldsFunc(s, func(r rune) bool { return r == '_' || r == ':' }) {
		if endianWordRE.MatchString(w) {
			return true
		}
	}
	// camel-case suffix/prefix forms: writeU16LE is not composed with %s in this code base; only word forms are recognised
	return false
}

// typeNameCarrier: v is a field's type name. Returns the key identifying "the same field" (the pointer/value the receiver was
// taken from) or the string parameter that carries the name.
func typeNameCarrier(v ssa.Value) (key ssa.Value, param *ssa.Parameter, ok bool) {
	v = stripIdentity(v)
	switch x := v.(type) {
	case *ssa.Call:
		f := x.Call.StaticCallee()
		if f == nil {
			return nil, nil, false
		}
		if f.Name() == "GetType" && f.Signature.Recv() != nil && modelTypeName(f.Signature.Recv().Type()) == "Field" && len(x.Call.Args) == 1 {
			a := stripIdentity(x.Call.Args[0])
			if ld, ok := a.(*ssa.UnOp); ok && ld.Op == token.MUL {
				a = stripIdentity(ld.X)
			}
			return a, nil, true
		}
		if (f.String() == "strings.ToUpper" || f.String() == "strings.ToLower" || f.String() == "strings.TrimSpace") && len(x.Call.Args) == 1 {
			return typeNameCarrier(x.Call.Args[0])
		}
	case *ssa.Parameter:
		if bt, ok := x.Type().Underlying().(*types.Basic); ok && bt.Info()&types.IsString != 0 {
			return nil, x, true
		}
	}
	return nil, nil, false
}

// sameCarrier: x denotes the same type name as (key|param).
func sameCarrier(x ssa.Value, key ssa.Value, param *ssa.Parameter) bool {
	x = stripIdentity(x)
	if param != nil {
		return x == ssa.Value(param)
	}
	k2, _, ok := typeNameCarrier(x)
	if !ok || k2 == nil {
		return false
	}
	return sameAccessPath(k2, key, 0)
}

// sameAccessPath: two values denote the same storage path (identical value, or the same field chain from the same root).
func sameAccessPath(a, b ssa.Value, depth int) bool {
	a, b = stripIdentity(a), stripIdentity(b)
	if a == b {
		return true
	}
	if depth > 4 {
		return false
	}
	switch x := a.(type) {
	case *ssa.FieldAddr:
		y, ok := b.(*ssa.FieldAddr)
		return ok && x.Field == y.Field && sameAccessPath(x.X, y.X, depth+1)
	case *ssa.Field:
		y, ok := b.(*ssa.Field)
		return ok && x.Field == y.Field && sameAccessPath(x.X, y.X, depth+1)
	case *ssa.UnOp:
		y, ok := b.(*ssa.UnOp)
		return ok && x.Op == y.Op && x.Op == token.MUL && sameAccessPath(x.X, y.X, depth+1)
	}
	return false
}

// edgeExcludes: which one-byte names are excluded when cond has value val.
func edgeExcludes(cond ssa.Value, val bool, key ssa.Value, param *ssa.Parameter) int {
	switch x := cond.(type) {
	case *ssa.UnOp:
		if x.Op == token.NOT {
			return edgeExcludes(x.X, !val, key, param)
		}
	case *ssa.BinOp:
		for i, pair := range [][2]ssa.Value{{x.X, x.Y}, {x.Y, x.X}} {
			k, isK := pair[1].(*ssa.Const)
			if !isK || k.Value == nil {
				continue
			}
			op := x.Op
			if i == 1 {
				switch op {
				case token.LSS:
					op = token.GTR
				case token.GTR:
					op = token.LSS
				case token.LEQ:
					op = token.GEQ
				case token.GEQ:
					op = token.LEQ
				}
			}
			if k.Value.Kind() == constant.String && (op == token.EQL || op == token.NEQ) && sameCarrier(pair[0], key, param) {
				c := constant.StringVal(k.Value)
				eq := (op == token.EQL) == val
				if eq {
					return oneByteAll &^ oneByteBit(c) // the name is c
				}
				return oneByteBit(c)
			}
			// a test of the width the type table records for this name: table[name].Size
			if k.Value.Kind() == constant.Int && sizeOfCarrier(pair[0], key, param) {
				n, _ := constant.Int64Val(k.Value)
				var multi, known bool // cond true means: width > 1
				switch {
				case op == token.GTR && n == 1, op == token.GEQ && n == 2, op == token.NEQ && n == 1:
					multi, known = true, true
				case op == token.EQL && n == 1, op == token.LEQ && n == 1, op == token.LSS && n == 2:
					multi, known = false, true
				}
				if known && multi == val {
					return oneByteAll
				}
			}
		}
	}
	return 0
}

// sizeOfCarrier: v is table[<carrier>].Size for some table.
func sizeOfCarrier(v ssa.Value, key ssa.Value, param *ssa.Parameter) bool {
	v = stripIdentity(v)
	var base ssa.Value
	switch x := v.(type) {
	case *ssa.Field:
		if fieldNameOf(x.X.Type(), x.Field) != "Size" {
			return false
		}
		base = stripIdentity(x.X)
	case *ssa.UnOp:
		fa, ok := x.X.(*ssa.FieldAddr)
		if !ok || x.Op != token.MUL || fieldNameOf(fa.X.Type(), fa.Field) != "Size" {
			return false
		}
		base = stripIdentity(fa.X)
	default:
		return false
	}
	for d := 0; d < 4 && base != nil; d++ {
		switch b := base.(type) {
		case *ssa.Lookup:
			return sameCarrier(b.Index, key, param)
		case *ssa.Extract:
			base = stripIdentity(b.Tuple)
		case *ssa.UnOp:
			base = stripIdentity(b.X)
		case *ssa.Alloc:
			// spilled lookup result
			var stored ssa.Value
			if b.Referrers() != nil {
				for _, ref := range *b.Referrers() {
					if st, ok := ref.(*ssa.Store); ok && st.Addr == ssa.Value(b) {
						stored = st.Val
					}
				}
			}
			base = stripIdentity(stored)
		default:
			return false
		}
	}
	return false
}

func fieldNameOf(t types.Type, idx int) string {
	if p, ok := t.Underlying().(*types.Pointer); ok {
		t = p.Elem()
	}
	st, ok := t.Underlying().(*types.Struct)
	if !ok || idx >= st.NumFields() {
		return ""
	}
	return st.Field(idx).Name()
}

// oneByteExcludedAt: the one-byte names excluded on every path from fn's entry to blk (forward must-analysis).
func oneByteExcludedAt(fn *ssa.Function, blk *ssa.BasicBlock, key ssa.Value, param *ssa.Parameter) int {
	in := make([]int, len(fn.Blocks))
	for i := range in {
		in[i] = oneByteAll // top
	}
	in[0] = 0
	reach := map[*ssa.BasicBlock]bool{fn.Blocks[0]: true}
	changed := true
	for changed {
		changed = false
		for _, b := range fn.Blocks {
			if !reach[b] {
				continue
			}
			cond := branchCond(b)
			for si, s := range b.Succs {
				out := in[b.Index]
				if cond != nil && len(b.Succs) == 2 && b.Succs[0] != b.Succs[1] {
					out |= edgeExcludes(cond, si == 0, key, param)
				}
				nv := out
				if reach[s] {
					nv = in[s.Index] & out
				}
				if !reach[s] || nv != in[s.Index] {
					// first visit: take out; later: intersect
					if !reach[s] {
						in[s.Index] = out
					} else {
						in[s.Index] = nv
					}
					reach[s] = true
					changed = true
				}
			}
		}
	}
	if !reach[blk] {
		return oneByteAll
	}
	return in[blk.Index]
}

func wireOneByteEndian(w *World, wc *wireCtx, r *Report, prop string) {
	rule := prop + "/one-byte-has-no-endian-variant"
	type callSites = map[*ssa.Function][]ssa.CallInstruction
	sites := callSites{}
	var all []*ssa.Function
	seen := map[*ssa.Function]bool{}
	for _, ga := range anchorTable {
		for _, fn := range wc.anchors[ga.Lang]["own"] {
			for _, g := range append([]*ssa.Function{fn}, fn.AnonFuncs...) {
				if !seen[g] {
					seen[g] = true
					all = append(all, g)
				}
			}
		}
	}
	// helpers of the parser package called from them
	for changed := true; changed; {
		changed = false
		for _, fn := range append([]*ssa.Function(nil), all...) {
			forEachInstr(fn, func(_ *ssa.BasicBlock, ins ssa.Instruction) {
				c, ok := ins.(ssa.CallInstruction)
				if !ok {
					return
				}
				if g := calleeOf(c); g != nil && g.Pkg == w.Parser && g.Blocks != nil && !seen[g] {
					seen[g] = true
					all = append(all, g)
					changed = true
				}
			})
		}
	}
	for _, fn := range all {
		forEachInstr(fn, func(_ *ssa.BasicBlock, ins ssa.Instruction) {
			if c, ok := ins.(ssa.CallInstruction); ok {
				if g := calleeOf(c); g != nil {
					sites[g] = append(sites[g], c)
				}
			}
		})
	}
	sort.Slice(all, func(i, j int) bool { return fnKey(all[i]) < fnKey(all[j]) })

	// mayBeOneByte: can the type name carried by v at blk (in fn) be a one-byte scalar? returns the names not excluded
	var mayBe func(fn *ssa.Function, blk *ssa.BasicBlock, v ssa.Value, depth int) (int, bool)
	mayBe = func(fn *ssa.Function, blk *ssa.BasicBlock, v ssa.Value, depth int) (int, bool) {
		key, param, ok := typeNameCarrier(v)
		if !ok {
			return 0, false
		}
		left := oneByteAll &^ oneByteExcludedAt(fn, blk, key, param)
		if left == 0 {
			return 0, true
		}
		if param != nil {
			if depth > 2 {
				return left, true
			}
			idx := -1
			for i, p := range fn.Params {
				if p == param {
					idx = i
				}
			}
			if idx < 0 || len(sites[fn]) == 0 {
				return left, true
			}
			union := 0
			for _, s := range sites[fn] {
				if idx >= len(s.Common().Args) {
					return left, true
				}
				l2, ok2 := mayBe(s.Parent(), s.Block(), s.Common().Args[idx], depth+1)
				if !ok2 {
					// the argument is not a field's type name (a constant, a configured prefix type): judge constants
					if k, isK := stripIdentity(s.Common().Args[idx]).(*ssa.Const); isK && k.Value != nil && k.Value.Kind() == constant.String {
						l2 = oneByteBit(constant.StringVal(k.Value))
					} else {
						l2 = 0 // other strings (configured prefix types are never composed into accessor names here) - not judged
					}
				}
				union |= l2
			}
			return left & union, true
		}
		// the field's kind state: a non-scalar field's GetType() is "string", "match" or a packet name
		if st, f := wc.m.stateAt(fn, blk); f != nil && !st.empty() && sameAccessPath(key, f, 0) {
			if !st.admits(unit{K: kBasic}) && !st.admits(unit{K: kLength}) && !st.admits(unit{K: kCheckSum}) && !st.admits(unit{K: kBasic, List: true}) {
				return 0, true
			}
		}
		return left, true
	}

	names := func(bits int) string {
		var out []string
		for i, n := range oneByteNames {
			if bits&(1<<i) != 0 {
				out = append(out, n)
			}
		}
		return strings.Join(out, ", ")
	}
	n := 0
	cnt := map[string]int{}
	judge := func(fn *ssa.Function, ins ssa.Instruction, ident string, operand ssa.Value) {
		left, ok := mayBe(fn, ins.Block(), operand, 0)
		if !ok {
			return
		}
		n++
		cnt[fnKey(fn)+ident]++
		key := fmt.Sprintf("%s composes %s", fnKey(fn), ident)
		if c := cnt[fnKey(fn)+ident]; c > 1 {
			key += fmt.Sprintf(" #%d", c)
		}
		if left == 0 {
			r.pass(rule, key, w.instrPos(ins), "one-byte type names excluded on every path")
		} else {
			r.fail(rule, key, w.instrPos(ins), "the endian-specific accessor name is composed from the field's type name on a path where the type may be "+names(left)+": one-byte scalars have no endian variants in the runtime (no put_u8_le, no ByteOrder::write_u8), the emitted program does not build")
		}
	}
	for _, fn := range all {
		forEachInstr(fn, func(_ *ssa.BasicBlock, ins ssa.Instruction) {
			switch x := ins.(type) {
			case ssa.CallInstruction:
				f := x.Common().StaticCallee()
				if f == nil {
					return
				}
				fi := -1
				switch f.String() {
				case "fmt.Sprintf":
					fi = 0
				case "fmt.Fprintf":
					fi = 1
				}
				if fi < 0 || len(x.Common().Args) < fi+2 {
					return
				}
				fc, ok := x.Common().Args[fi].(*ssa.Const)
				if !ok || fc.Value == nil || fc.Value.Kind() != constant.String {
					return
				}
				format := constant.StringVal(fc.Value)
				ops := variadicOperands(x.Common().Args[fi+1])
				for _, vb := range scanVerbs(format) {
					if vb.verb != 's' && vb.verb != 'v' {
						continue
					}
					ident, fl := endianFlavouredIdent(format, vb.start, vb.end)
					if !fl || vb.operand >= len(ops) || ops[vb.operand] == nil {
						continue
					}
					judge(fn, ins, ident, ops[vb.operand])
				}
			case *ssa.BinOp:
				if x.Op != token.ADD {
					return
				}
				if bt, ok := x.Type().Underlying().(*types.Basic); !ok || bt.Info()&types.IsString == 0 {
					return
				}
				// <... type name> + "_le..."   or   "...LittleEndian::write_" + <type name>
				if k, ok := x.Y.(*ssa.Const); ok && k.Value != nil && k.Value.Kind() == constant.String {
					s := constant.StringVal(k.Value)
					j := 0
					for j < len(s) && identPathChar(s[j]) {
						j++
					}
					if endianWords(s[:j]) {
						if tv := trailingTypeName(x.X, 0); tv != nil {
							judge(fn, ins, "<type>"+s[:j], tv)
						}
					}
				}
				if k, ok := x.X.(*ssa.Const); ok && k.Value != nil && k.Value.Kind() == constant.String {
					s := constant.StringVal(k.Value)
					i := len(s)
					for i > 0 && identPathChar(s[i-1]) {
						i--
					}
					if endianWords(s[i:]) {
						if _, _, ok := typeNameCarrier(x.Y); ok {
							judge(fn, ins, s[i:]+"<type>", x.Y)
						}
					}
				}
			}
		})
	}
	if n == 0 {
		r.note("%s: no site composes an endian-specific accessor name from a field's type name", rule)
	}
}

// trailingTypeName: the value whose text ends the string v, if that is a field's type name ("put_" + f.GetType()).
func trailingTypeName(v ssa.Value, depth int) ssa.Value {
	if depth > 4 {
		return nil
	}
	v = stripIdentity(v)
	if _, _, ok := typeNameCarrier(v); ok {
		return v
	}
	switch x := v.(type) {
	case *ssa.BinOp:
		if x.Op == token.ADD {
			return trailingTypeName(x.Y, depth+1)
		}
	case *ssa.Phi:
		for _, e := range x.Edges {
			if t := trailingTypeName(e, depth+1); t != nil {
				return t
			}
		}
	}
	return nil
}
