package main

import (
	"fmt"
	"sort"
	"strings"

	"golang.org/x/tools/go/ssa"
)

// defaultKinds: for every type switch over a field's Attr in fn, the feasible (kind/repeat) cells that reach its default clause
// (the block entered when every tested kind has failed). Keyed by an ordinal of the switch within the function.
func defaultKinds(m *matrix, fn *ssa.Function) map[string]string {
	out := map[string]string{}
	ff := m.facts[fn]
	if ff == nil {
		return out
	}
	n := 0
	for _, b := range fn.Blocks {
		cond := branchCond(b)
		if cond == nil {
			continue
		}
		f, _ := fieldTest(cond)
		if f == nil || !isAttrTest(cond) {
			continue
		}
		// fail successor (for a non-negated ok test: Succs[1])
		fail := b.Succs[1]
		// is the fail successor itself another Attr test of the same field? then it is not the default
		if c2 := branchCond(fail); c2 != nil {
			if f2, _ := fieldTest(c2); f2 == f && isAttrTest(c2) && len(fail.Instrs) <= 4 {
				continue
			}
		}
		// single `if _, ok := f.Attr.(*T); ok {...}` statements are not switches: require that b is itself reached through a failed Attr test or is followed by one
		partOfChain := false
		for _, p := range b.Preds {
			if cp := branchCond(p); cp != nil {
				if fp, _ := fieldTest(cp); fp == f && isAttrTest(cp) && p.Succs[1] == b {
					partOfChain = true
				}
			}
		}
		if !partOfChain {
			continue
		}
		sts := ff.st[f]
		if sts == nil {
			continue
		}
		s := sts[fail.Index]
		n++
		var cells []string
		for _, u := range feasibleUnits() {
			if s.admits(u) {
				cells = append(cells, u.String())
			}
		}
		sort.Strings(cells)
		out[fmt.Sprintf("switch%d", n)] = strings.Join(cells, ",")
	}
	return out
}

func isAttrTest(cond ssa.Value) bool {
	for {
		if u, ok := cond.(*ssa.UnOp); ok && u.Op.String() == "!" {
			cond = u.X
			continue
		}
		break
	}
	ex, ok := cond.(*ssa.Extract)
	if !ok {
		return false
	}
	ta, ok := ex.Tuple.(*ssa.TypeAssert)
	if !ok {
		return false
	}
	ld, ok := ta.X.(*ssa.UnOp)
	if !ok {
		return false
	}
	fa, ok := ld.X.(*ssa.FieldAddr)
	if !ok {
		return false
	}
	_, f, _, _ := fieldOf(fa)
	return f == "Attr"
}

var _ = fmt.Sprintf

// defaultReference: the cells that reach the default clause of each kind switch on today's (hand-checked) tree.
// A switch whose default now receives a cell outside every reference set of its function has lost a case.
var defaultReference = map[string][]string{
	"(model.Field).GetType":                          {"Basic/list,Basic/single,CheckSum/single,Length/single"},
	"(parser.CppGenerator).generateDecode":           {""},
	"(parser.CppGenerator).generateEncode":           {""},
	"(parser.CppGenerator).generateTestValue":        {""},
	"(parser.CppGenerator).generateToString":         {"Basic/list,DynamicString/list,FixedString/list,Object/list", "DynamicString/single,FixedString/single"},
	"(parser.CppGenerator).getFieldType":             {"Object/list,Object/single"},
	"(parser.GoGenerator).generateDecodingField":     {""},
	"(parser.GoGenerator).generateDecodingListField": {""},
	"(parser.GoGenerator).generateEncodingField":     {""},
	"(parser.GoGenerator).generateEncodingListField": {""},
	"(parser.GoGenerator).generateTestValue":         {""},
	"(parser.GoGenerator).getFieldType":              {""},
	"(parser.JavaGenerator).GenerateDecodeField":     {""},
	"(parser.JavaGenerator).GenerateEncodeField":     {""},
	"(parser.JavaGenerator).GetFieldType":            {""},
	"(parser.LuaWspGenerator).decodeField":           {""},
	"(parser.LuaWspGenerator).decodeFieldForLocal":   {"Match/single,Object/list,Object/single"},
	"(parser.PythonGenerator).generateDecodeField":   {""},
	"(parser.PythonGenerator).generateEncodeField":   {""},
	"(parser.PythonGenerator).generateEncodeMethod":  {"Basic/list,Basic/single,DynamicString/list,DynamicString/single,FixedString/list,FixedString/single,Match/single,Object/list,Object/single"},
	"(parser.PythonGenerator).generateInitMethod":    {"Match/single,Object/single"},
	"(parser.RustGenerator).DecodeField":             {"Basic/list", "Basic/single,CheckSum/single,Length/single"},
	"(parser.RustGenerator).EncodeField":             {"Basic/list,Basic/single,DynamicString/list,DynamicString/single,FixedString/list,FixedString/single,Match/single,Object/list,Object/single", "Basic/list", "Basic/single"},
	"(parser.RustGenerator).GetFieldType":            {"Basic/list,Basic/single,CheckSum/single,Length/single,Object/list,Object/single"},
	"(parser.RustGenerator).testValueSingle":         {"Basic/single,CheckSum/single,DynamicString/single"},
}

func kindExhaustiveness(m *matrix, r *Report, rule string, only func(fn *ssa.Function) bool) {
	n := 0
	for _, fn := range m.funcs {
		if only != nil && !only(fn) {
			continue
		}
		refs, ok := defaultReference[fnKey(fn)]
		if !ok {
			continue
		}
		cur := defaultKinds(m, fn)
		for _, sw := range sortedKeys(cur) {
			n++
			cells := cur[sw]
			key := fmt.Sprintf("%s %s: no new field kind falls through to the default clause", fnKey(fn), sw)
			okSet := false
			var extra []string
			for _, ref := range refs {
				refSet := map[string]bool{}
				for _, c := range strings.Split(ref, ",") {
					refSet[c] = true
				}
				var ex []string
				for _, c := range strings.Split(cells, ",") {
					if c != "" && !refSet[c] {
						ex = append(ex, c)
					}
				}
				if len(ex) == 0 {
					okSet = true
					break
				}
				if extra == nil || len(ex) < len(extra) {
					extra = ex
				}
			}
			if okSet {
				r.pass(rule, key, m.w.pos(fn.Pos()), "default receives {"+cells+"}")
			} else {
				r.fail(rule, key, m.w.pos(fn.Pos()), fmt.Sprintf("field kind(s) %s now reach the default clause of this emitter's kind switch (on the checked tree they had their own case): the construct is emitted as placeholder text or dropped instead of being generated or diagnosed", strings.Join(extra, ", ")))
			}
		}
		if len(cur) == 0 {
			r.fail(rule, fnKey(fn)+": kind switch present", m.w.pos(fn.Pos()), "the kind switch recorded for this emitter is gone (anchor lost)")
		}
	}
	if n < 10 {
		r.fail(rule, "kind switches found", "", fmt.Sprintf("expected >= 10 kind switches in the reference functions, found %d", n))
	}
}

func init() {
	register("C07", "Completeness conditions visible in the generators' shape: (kinds) in every emitter with a switch over the field kind, no feasible kind x repeat cell reaches the default clause beyond those checked by hand on the reference tree - a lost case means placeholder text or a dropped field; (tables) every grammatical scalar type has a row in each language's scalar table (a miss emits nothing); "+
		"(packets) each generator emits for every packet (plain range over the packet list/map, only the root-first skip) and recurses into inline objects; (byte-order columns) little-endian method names come from the table's Le column; (variants) Rust emits one enum variant / encode arm per packet; (diagnostics) a generator error reaches cmd.Compile's error result. "+
		"Whether emitted files parse and type-check in their languages needs the five toolchains and is NOT decided.", func(w *World, r *Report) {
		wc := buildWire(w, r)
		kindExhaustiveness(wc.m, r, "C07/kind-exhaustive", nil)
		wireTables(w, r, "C07")
		wireLEColumn(wc, r, "C07", "enc")
		wireLEColumn(wc, r, "C07", "dec")
		c07Packets(w, wc, r)
		c07Variants(w, wc, r)
		c07Diagnostics(w, r)
		wireAssumptions(r)
	})
	register("C17", "Necessary conditions on the emitted self-tests, visible in the sample/test emitters: no field kind falls through to the default of a sample-value switch beyond the hand-checked reference; every scalar table row has a non-empty sample value; every generator emits a test for every packet; the Rust and C++ test emitters copy back the fields their encoders overwrite (length and checksum) before comparing. "+
		"Whether the emitted tests build and pass is a runtime fact about five toolchains and is NOT decided (the core of C17).", func(w *World, r *Report) {
		wc := buildWire(w, r)
		testFns := map[*ssa.Function]bool{}
		for _, l := range codecLangs {
			for _, f := range wc.anchors[l]["test"] {
				testFns[f] = true
			}
		}
		kindExhaustivenessTests(wc.m, r, testFns)
		c17Samples(w, r)
		c17Coverage(w, wc, r)
		c17CopyBack(w, wc, r)
		wireAssumptions(r)
	})
}

func kindExhaustivenessTests(m *matrix, r *Report, fns map[*ssa.Function]bool) {
	const rule = "C17/sample-kind-exhaustive"
	n := 0
	for _, fn := range sortedFuncs(fns) {
		refs, ok := defaultReference[fnKey(fn)]
		if !ok {
			continue
		}
		for sw, cells := range defaultKinds(m, fn) {
			n++
			key := fmt.Sprintf("%s %s", fnKey(fn), sw)
			okSet := false
			for _, ref := range refs {
				refSet := map[string]bool{}
				for _, c := range strings.Split(ref, ",") {
					refSet[c] = true
				}
				all := true
				for _, c := range strings.Split(cells, ",") {
					if c != "" && !refSet[c] {
						all = false
					}
				}
				if all {
					okSet = true
				}
			}
			if okSet {
				r.pass(rule, key, m.w.pos(fn.Pos()), "default receives {"+cells+"}")
			} else {
				r.fail(rule, key, m.w.pos(fn.Pos()), "a field kind that had its own sample-value case now reaches the default clause ({"+cells+"}): the emitted test contains placeholder text / an empty sample")
			}
		}
	}
	if n < 3 {
		r.fail(rule, "sample-value switches found", "", fmt.Sprintf("expected >= 3, found %d", n))
	}
}

// c07Packets: per generator, a range over Packets/PacketsMap that reaches the per-packet emitter on every iteration except root-first skips; inline objects are recursed into.
func c07Packets(w *World, wc *wireCtx, r *Report) {
	const rule = "C07/every-packet"
	gens, err := w.generateFuncs()
	if err != nil {
		r.fatal("%v", err)
		return
	}
	for _, g := range generators {
		gen := gens[g.Lang]
		reach := w.subjectsOnly(w.reachable([]*ssa.Function{gen}, func(f *ssa.Function) bool { return w.isRepoLike(f) }))
		found := false
		bad := ""
		for _, fn := range sortedFuncs(reach) {
			if recvNamedCore(fn) != g.Type {
				continue
			}
			for _, b := range fn.Blocks {
				for _, ins := range b.Instrs {
					var rangedField string
					var loopBlocks map[*ssa.BasicBlock]bool
					var header *ssa.BasicBlock
					switch x := ins.(type) {
					case *ssa.Range:
						if ld, ok := x.X.(*ssa.UnOp); ok {
							if fa, ok := ld.X.(*ssa.FieldAddr); ok {
								if tn, f, _, _ := fieldOf(fa); tn == "BinaryModel" && f == "PacketsMap" {
									rangedField = f
									for _, ref := range *x.Referrers() {
										if nx, ok := ref.(*ssa.Next); ok {
											header = nx.Block()
											loopBlocks = naturalLoop(header)
										}
									}
								}
							}
						}
					case *ssa.IndexAddr:
						if ld, ok := x.X.(*ssa.UnOp); ok {
							if fa, ok := ld.X.(*ssa.FieldAddr); ok {
								if tn, f, _, _ := fieldOf(fa); tn == "BinaryModel" && f == "Packets" {
									if bo, ok := x.Index.(*ssa.BinOp); ok {
										if phi, ok := bo.X.(*ssa.Phi); ok && phi.Comment == "rangeindex" {
											rangedField = f
											header = phi.Block()
											loopBlocks = naturalLoop(header)
										}
									}
								}
							}
						}
					}
					if rangedField == "" || loopBlocks == nil {
						continue
					}
					// the loop must call a per-packet emitter (a method of the generator taking *model.Packet) with the loop element
					var emitBlocks []*ssa.BasicBlock
					for lb := range loopBlocks {
						for _, i2 := range lb.Instrs {
							if c, ok := i2.(ssa.CallInstruction); ok {
								if f := c.Common().StaticCallee(); f != nil && recvNamedCore(f) == g.Type {
									for _, a := range c.Common().Args {
										if typeIs(a.Type(), modPath+"/internal/model", "Packet") {
											emitBlocks = append(emitBlocks, lb)
										}
									}
								}
							}
						}
					}
					if len(emitBlocks) == 0 {
						continue
					}
					found = true
					// skips: a back edge not dominated by an emitting block must be guarded by an IsRoot test only
					for _, p := range header.Preds {
						if !loopBlocks[p] || !header.Dominates(p) {
							continue
						}
						dom := false
						for _, eb := range emitBlocks {
							if eb.Dominates(p) {
								dom = true
							}
						}
						if dom {
							continue
						}
						// which conditions can lead here without emitting? they must be IsRoot tests
						for lb := range loopBlocks {
							if cond := branchCond(lb); cond != nil && !mentionsField(cond, "IsRoot", 0) && lb != header {
								isEmitPath := false
								for _, eb := range emitBlocks {
									if lb.Dominates(eb) || eb.Dominates(lb) {
										isEmitPath = true
									}
								}
								if !isEmitPath {
									bad = fmt.Sprintf("%s skips packets under a condition other than IsRoot", fnKey(fn))
								}
							}
						}
					}
				}
			}
		}
		key := g.Lang + ": code is emitted for every packet"
		switch {
		case !found:
			r.fail(rule, key, w.pos(gen.Pos()), "no range over BinaryModel.Packets / PacketsMap that calls a per-packet emitter found under "+g.Type+".Generate")
		case bad != "":
			r.fail(rule, key, w.pos(gen.Pos()), bad)
		default:
			r.pass(rule, key, w.pos(gen.Pos()), "")
		}
	}
	// inline objects: somewhere under Generate the packet of an object attribute is handed to a per-packet emitter (or queued in a packet list)
	for _, g := range generators {
		gen := gens[g.Lang]
		reach := w.subjectsOnly(w.reachable([]*ssa.Function{gen}, func(f *ssa.Function) bool { return w.isRepoLike(f) }))
		handled := false
		pos := w.pos(gen.Pos())
		for _, fn := range sortedFuncs(reach) {
			if recvNamedCore(fn) != g.Type {
				continue
			}
			forEachInstr(fn, func(b *ssa.BasicBlock, ins ssa.Instruction) {
				ld, ok := ins.(*ssa.UnOp)
				if !ok {
					return
				}
				fa, ok := ld.X.(*ssa.FieldAddr)
				if !ok {
					return
				}
				if tn, f, _, _ := fieldOf(fa); tn != "ObjectFieldAttribute" || f != "RefPacket" {
					return
				}
				for _, ref := range *ld.Referrers() {
					c, ok := ref.(ssa.CallInstruction)
					if !ok {
						continue
					}
					if bi, ok := c.Common().Value.(*ssa.Builtin); ok && bi.Name() == "append" {
						handled = true
						pos = w.instrPos(ins)
					}
					if f := c.Common().StaticCallee(); f != nil && recvNamedCore(f) == g.Type {
						// a code emitter, not a sample-value builder
						isTest := false
						for _, ga := range anchorTable {
							if ga.Lang == g.Lang {
								for _, tn := range ga.Test {
									if f.Name() == tn {
										isTest = true
									}
								}
							}
						}
						if !isTest {
							handled = true
							pos = w.instrPos(ins)
						}
					}
				}
			})
		}
		key := g.Lang + ": the packet of an inline object is emitted"
		if handled {
			r.pass(rule, key, pos, "RefPacket is handed to a per-packet emitter")
		} else {
			r.fail(rule, key, pos, "no code emitter under "+g.Type+".Generate receives the packet of an object attribute: the type of an inline object is never emitted")
		}
	}
}

func c07Variants(w *World, wc *wireCtx, r *Report) {
	const rule = "C07/rust-variants"
	for _, name := range []string{"generateMatchFieldEnumCode", "EncoderMatchField"} {
		fn := lookupFunc(w.Parser, "RustGenerator", name)
		if fn == nil {
			r.fatal("anchor unresolved: (RustGenerator).%s", name)
			continue
		}
		keys := dedupKeys(w, fn, 0, map[*ssa.Function]bool{})
		key := "rust: " + name + " emits one entry per packet"
		if keys["Value"] && len(keys) == 1 {
			r.pass(rule, key, w.pos(fn.Pos()), "pairs de-duplicated by MatchPair.Value")
		} else {
			r.fail(rule, key, w.pos(fn.Pos()), fmt.Sprintf("pairs are de-duplicated by %v instead of by packet: two keys mapping to one packet emit a repeated enum variant / match arm, which rustc rejects", sortedBoolKeys(keys)))
		}
	}
}

func c07Diagnostics(w *World, r *Report) {
	const rule = "C07/generator-error-delivered"
	compile := w.Cmd.Func("Compile")
	if compile == nil {
		r.fatal("anchor unresolved: cmd.Compile")
		return
	}
	n := 0
	forEachInstr(compile, func(b *ssa.BasicBlock, ins ssa.Instruction) {
		c, ok := ins.(*ssa.Call)
		if !ok || c.Call.StaticCallee() != nil || c.Call.IsInvoke() {
			return
		}
		if _, isB := c.Call.Value.(*ssa.Builtin); isB {
			return
		}
		if c.Type().String() == "()" {
			return
		}
		var errV ssa.Value
		for _, ref := range *c.Referrers() {
			if e, ok := ref.(*ssa.Extract); ok && isErrorType(e.Type()) {
				errV = e
			}
		}
		if errV == nil {
			return
		}
		n++
		delivered := false
		for _, bb := range compile.Blocks {
			cond := branchCond(bb)
			if cond == nil {
				continue
			}
			x, nn, ok := nilTest(cond)
			if !ok || !sameValue(x, errV) {
				continue
			}
			for _, b3 := range compile.Blocks {
				if !edgeDominates(bb, nn, b3) {
					continue
				}
				for _, i3 := range b3.Instrs {
					if ret, ok := i3.(*ssa.Return); ok && len(ret.Results) == 1 && !isNilConst(ret.Results[0]) {
						delivered = true
					}
				}
			}
		}
		if delivered {
			r.pass(rule, "a generator's error becomes Compile's error", w.instrPos(ins), "")
		} else {
			r.fail(rule, "a generator's error becomes Compile's error", w.instrPos(ins), "the error returned by a generator is dropped: an unsupported construct cannot be reported")
		}
	})
	if n == 0 {
		r.fail(rule, "a generator's error becomes Compile's error", w.pos(compile.Pos()), "no generator call with an error result found in cmd.Compile")
	}
}

func c17Samples(w *World, r *Report) {
	const rule = "C17/sample-values"
	for _, t := range readTables(w) {
		hasCol := false
		var empty []string
		for k, row := range t.keys {
			if v, ok := row["TestValue"]; ok {
				hasCol = true
				if strings.TrimSpace(v) == "" {
					empty = append(empty, k)
				}
			}
		}
		if !hasCol {
			continue
		}
		sort.Strings(empty)
		if len(empty) == 0 {
			r.pass(rule, t.name+": every row has a sample value", "internal/parser", "")
		} else {
			r.fail(rule, t.name+": every row has a sample value", "internal/parser", "empty TestValue for "+strings.Join(empty, ", ")+": the emitted test assigns nothing")
		}
	}
}

func c17Coverage(w *World, wc *wireCtx, r *Report) {
	const rule = "C17/test-per-packet"
	// each codec generator has a function ranging over Packets/PacketsMap that calls a test emitter
	testEntry := map[string][]string{"go": {"generateGoTestFileForPacket"}, "rust": {"generateUnitTestCode"}, "java": {"GenerateJavaTestClassFileForPacket"}, "python": {"generateTestCodeForPacket"}, "cpp": {"generateUnitestForPacket"}}
	recv := map[string]string{}
	for _, g := range generators {
		recv[g.Lang] = g.Type
	}
	cg := w.CallGraph()
	for _, l := range codecLangs {
		for _, name := range testEntry[l] {
			fn := lookupFunc(w.Parser, recv[l], name)
			if fn == nil {
				r.fatal("anchor unresolved: (%s).%s", recv[l], name)
				continue
			}
			// some caller invokes it inside a loop over the packet list/map
			inLoop := false
			if n := cg.Nodes[fn]; n != nil {
				for _, e := range n.In {
					if e.Site == nil || e.Caller.Func.Synthetic != "" {
						continue
					}
					caller := e.Caller.Func
					for _, b := range caller.Blocks {
						if b.Comment == "rangeindex.loop" || b.Comment == "rangeiter.loop" {
							if naturalLoop(b)[e.Site.Block()] {
								inLoop = true
							}
						}
					}
					// rust: generateStructCode -> generateUnitTestCode per packet, itself called per packet
					if !inLoop {
						if n2 := cg.Nodes[caller]; n2 != nil {
							for _, e2 := range n2.In {
								if e2.Site == nil {
									continue
								}
								for _, b := range e2.Caller.Func.Blocks {
									if (b.Comment == "rangeindex.loop" || b.Comment == "rangeiter.loop") && naturalLoop(b)[e2.Site.Block()] {
										inLoop = true
									}
								}
								if n3 := cg.Nodes[e2.Caller.Func]; n3 != nil && !inLoop {
									for _, e3 := range n3.In {
										if e3.Site == nil {
											continue
										}
										for _, b := range e3.Caller.Func.Blocks {
											if (b.Comment == "rangeindex.loop" || b.Comment == "rangeiter.loop") && naturalLoop(b)[e3.Site.Block()] {
												inLoop = true
											}
										}
									}
								}
							}
						}
					}
				}
			}
			key := fmt.Sprintf("%s: a test is emitted for every packet (%s)", l, name)
			if inLoop {
				r.pass(rule, key, w.pos(fn.Pos()), "")
			} else {
				r.fail(rule, key, w.pos(fn.Pos()), "the test emitter is not called from a loop over the packets")
			}
		}
	}
}

func c17CopyBack(w *World, wc *wireCtx, r *Report) {
	const rule = "C17/copy-back"
	for _, e := range []struct{ lang, recv, fn string }{{"rust", "RustGenerator", "generateUnitTestCode"}, {"cpp", "CppGenerator", "generateUnitestForPacket"}} {
		fn := lookupFunc(w.Parser, e.recv, e.fn)
		if fn == nil {
			r.fatal("anchor unresolved: (%s).%s", e.recv, e.fn)
			continue
		}
		covered := uint8(0)
		for _, s := range wc.m.sitesOf(fn) {
			st, f := wc.m.stateAt(fn, s.instr.Block())
			if f == nil || st.isTop() {
				continue
			}
			if st.K&^(1<<kLength|1<<kCheckSum) == 0 {
				covered |= st.K
			}
		}
		for _, k := range []int{kLength, kCheckSum} {
			key := fmt.Sprintf("%s: the test copies the %s field back from the decoded message before comparing", e.lang, kindNames[k])
			if covered&(1<<k) != 0 {
				r.pass(rule, key, w.pos(fn.Pos()), "")
			} else {
				r.fail(rule, key, w.pos(fn.Pos()), "the encoder overwrites this field (const/by-value encoder), the emitted test compares the original with the decoded message without copying it back: the test fails for every packet with such a field")
			}
		}
	}
}
