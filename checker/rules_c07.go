package main

import (
	"fmt"
	"go/types"
	"sort"
	"strings"

	"golang.org/x/tools/go/ssa"
)

// defaultKinds: for every type switch over a field's Attr in fn, the feasible (kind/repeat) cells that reach its default clause
// (the block entered when every tested kind has failed). Keyed by an ordinal of the switch within the function.
func defaultKinds(m *matrix, fn *ssa.Function) map[string]string {
	out := map[string]string{}
	ff := m.facts[fn]
	if ff == nil {
		return out
	}
	n := 0
	for _, b := range fn.Blocks {
		cond := branchCond(b)
		if cond == nil {
			continue
		}
		f, _ := fieldTest(cond)
		if f == nil || !isAttrTest(cond) {
			continue
		}
		// fail successor (for a non-negated ok test: Succs[1])
		fail := b.Succs[1]
		// is the fail successor itself another Attr test of the same field? then it is not the default
		if c2 := branchCond(fail); c2 != nil {
			if f2, _ := fieldTest(c2); f2 == f && isAttrTest(c2) && len(fail.Instrs) <= 4 {
				continue
			}
		}
		// single `if _, ok := f.Attr.(*T); ok {...}` statements are not switches: require that b is itself reached through a failed Attr test or is followed by one
		partOfChain := false
		for _, p := range b.Preds {
			if cp := branchCond(p); cp != nil {
				if fp, _ := fieldTest(cp); fp == f && isAttrTest(cp) && p.Succs[1] == b {
					partOfChain = true
				}
			}
		}
		if !partOfChain {
			continue
		}
		sts := ff.st[f]
		if sts == nil {
			continue
		}
		s := sts[fail.Index]
		n++
		var cells []string
		for _, u := range feasibleUnits() {
			if s.admits(u) {
				cells = append(cells, u.String())
			}
		}
		sort.Strings(cells)
		out[fmt.Sprintf("switch%d", n)] = strings.Join(cells, ",")
	}
	return out
}

func isAttrTest(cond ssa.Value) bool {
	for {
		if u, ok := cond.(*ssa.UnOp); ok && u.Op.String() == "!" {
			cond = u.X
			continue
		}
		break
	}
	ex, ok := cond.(*ssa.Extract)
	if !ok {
		return false
	}
	ta, ok := ex.Tuple.(*ssa.TypeAssert)
	if !ok {
		return false
	}
	ld, ok := ta.X.(*ssa.UnOp)
	if !ok {
		return false
	}
	fa, ok := ld.X.(*ssa.FieldAddr)
	if !ok {
		return false
	}
	_, f, _, _ := fieldOf(fa)
	return f == "Attr"
}

var _ = fmt.Sprintf

// c07EveryKind: every grammatical field kind x repeat cell has at least one kind-specific emission site in each language's
// encode and decode emitters (a cell without one is a field that is silently dropped).
func c07EveryKind(wc *wireCtx, r *Report) {
	const rule = "C07/every-kind-emitted"
	n := 0
	for _, ga := range anchorTable {
		for _, dir := range []string{"enc", "dec"} {
			seen := map[string]bool{}
			for _, c := range wc.cells[ga.Lang+"/"+dir] {
				if c.u.Target {
					continue
				}
				k := fmt.Sprintf("%s/%s/%s has an emission site", ga.Lang, dir, c.u)
				if seen[k] {
					continue
				}
				seen[k] = true
				n++
				if c.sites > 0 {
					r.pass(rule, k, "", fmt.Sprintf("%d sites", c.sites))
				} else {
					r.fail(rule, k, "", "no kind-specific emission site of the "+ga.Lang+" "+dir+" emitters can execute for this field kind: the declared field gets no "+dir+" step")
				}
			}
		}
	}
	if n < 100 {
		r.fail(rule, "cells found", "", fmt.Sprintf("expected >= 100 language x direction x kind cells, found %d", n))
	}
}

func init() {
	register("C07", "Completeness conditions visible in the generators' shape: (kinds) every grammatical field kind x repeat cell has a kind-specific emission site in each language's encode and decode emitters; (tables) every grammatical scalar type has a row in each language's scalar table (a miss emits nothing); "+
		"(packets) each generator emits for every packet (plain range over the packet list/map, only the root-first skip) and recurses into inline objects; (byte-order columns) little-endian method names come from the table's Le column; (variants) Rust emits one enum variant / encode arm per packet; (diagnostics) a generator error reaches cmd.Compile's error result, across helpers; (ordering) emitters that write packets ahead of their users do so for match targets too; (escaping) quoted values are not interpolated through the html/template renderer. "+
		"Whether emitted files parse and type-check in their languages needs the five toolchains and is NOT decided.", func(w *World, r *Report) {
		wc := buildWire(w, r)
		c07EveryKind(wc, r)
		wireKindHasStep(wc, r, "C07", []string{"enc", "dec"})
		kindArmDoesSomething(w, wc, r, "C07", nil)
		rowUsedWhereFound(w, wc, r, "C07")
		memberNamedByField(w, wc, r, "C07")
		wireTables(w, r, "C07")
		wireLEColumn(wc, r, "C07", "enc")
		wireLEColumn(wc, r, "C07", "dec")
		c07Packets(w, wc, r)
		c07Variants(w, wc, r)
		c07Diagnostics(w, r)
		c07DependenciesFirst(w, wc, r)
		wireBracketBalance(w, wc, r, "C07", map[string]bool{"code": true, "test": true})
		wireOneByteEndian(w, wc, r, "C07")
		wireEmitOnceKeys(w, wc, r, "C07")
		goImportsUsed(w, wc, r, "C07")
		computedFieldsSingle(w, r, "C07")
		attributeRefusalReported(w, r, "C07")
		c07PresentChildModelled(w, r, w.ctxTable())
		collectedIsUsed(w, r, "C07")
		declarationKindIsModelled(w, r, "C07", nil)
		wholeInputRule(w, r, "C07") // declarations the parser never read get no type and no diagnostic
		nameKeyedSetOverInline(w, r, "C07", func(fn *ssa.Function) bool { return isGeneratorFunc(fn) && recvNamedCore(fn) != "LuaWspGenerator" && roleOf(fn) != "test" }, "a generator remembers the packets it has written under their names and consults that set for inline objects too: of two inline objects that share a name (or an inline object named like a declared packet) only the first is emitted, and the members of the other are encoded with its layout")
		wireModelFrame(w, r, "C07", framePackets, nil, map[string]bool{"Packet": true, "Field": true}, "a generator rewrites the packet list / a field list / the kind of a field in the shared model: the targets generated after it (and, for a list rewritten while it is being walked, the generator itself) no longer emit every declared packet and field")
		// round 9: a pad character rewritten in the shared model for one target's literal syntax ('\0') is not a literal of the
		// next target's language - its file is written, the compilation succeeds, the file does not compile
		r.refile("C07/model-frame", "C07/model-frame", func(sr *Report) {
			wireModelFrame(w, sr, "C07", framePadding, nil, nil, "a generator rewrites a pad character / an option value in the shared model in the literal syntax of its own language: the targets generated after it emit it as written - a file that is not well-formed code of their language, from a compilation that succeeded")
		}, func(o Obligation) bool { return !o.OK })
		// round 9: the files a successful compilation leaves behind are the files the generators returned - nothing under compile
		// but the writer touches the file system (a clean-up pass that removes "stale" files removes another target's output when two
		// output directories are nested or equal)
		r.refile("C16/writer", "C07/writer", func(sr *Report) { c16Compile(w, sr) }, func(o Obligation) bool { return strings.Contains(o.Key, "created truncated") })
		visitorKeepsNoPacketState(w, r, "C07")
		r.refile("C16/compile-writes-only-in-writer", "C07/compile-writes-only-in-writer", func(sr *Report) { c16Compile(w, sr) }, nil)
		c12OptionValidation(w, r, "C07") // a value outside the documented list reaches the type tables as a missing row: empty type names in the output
		wireTemplateTaint(w, wc, r, "C07", []string{"go", "rust", "java", "python", "cpp", "lua"})
		wireAssumptions(r)
	})
	register("C17", "Necessary conditions on the emitted self-tests, visible in the sample/test emitters: every scalar table row has a non-empty sample value; every generator emits a test for every packet; the Rust and C++ test emitters copy back the fields their encoders overwrite (length and checksum) before comparing; 4-byte float samples are exactly representable; the sample-instance emitters keep no re-assigned string state from one field to the next. "+
		"Whether the emitted tests build and pass is a runtime fact about five toolchains and is NOT decided (the core of C17).", func(w *World, r *Report) {
		wc := buildWire(w, r)
		c17Samples(w, r)
		c17Coverage(w, wc, r)
		kindArmDoesSomething(w, wc, r, "C17", map[string]bool{"test": true})
		c17CopyBack(w, wc, r)
		c17StickyState(w, wc, r)
		// round 9: the emitted tests are the files the generators returned: created truncated (a file that keeps the tail of an older,
		// longer revision is not a program), and built from a model whose per-packet tables were not lost to visitor state that the
		// walk into an inline object overwrote (samples are made from Packet.MatchFields)
		r.refile("C16/writer", "C17/writer", func(sr *Report) { c16Compile(w, sr) }, func(o Obligation) bool { return strings.Contains(o.Key, "created truncated") })
		visitorKeepsNoPacketState(w, r, "C17")
		wireEmitOnceKeys(w, wc, r, "C17")
		goImportsUsed(w, wc, r, "C17")
		wireBracketBalance(w, wc, r, "C17", map[string]bool{"test": true})
		c17FloatSamples(w, r)
		nameKeyedSetOverInline(w, r, "C17", func(fn *ssa.Function) bool { return isGeneratorFunc(fn) && roleOf(fn) == "test" }, "a sample / test emitter remembers packets under their names and consults that set for inline objects too: the sample of an inline object that shares its name with a construct seen before is skipped, the emitted test builds an incomplete message")
		cycleGuardIsPathScoped(w, r, "C17")
		sampleKeyAndPayloadFromOnePair(w, r, "C17")
		wireModelFrame(w, r, "C17", framePackets, nil, map[string]bool{"Packet": true, "Field": true}, "a generator rewrites the packet list / a field list in the shared model: the self-tests of the targets generated after it no longer cover every declared packet")
		wireAssumptions(r)
	})
}

// c07Packets: per generator, a range over Packets/PacketsMap that reaches the per-packet emitter on every iteration except root-first skips; inline objects are recursed into.
func c07Packets(w *World, wc *wireCtx, r *Report) {
	const rule = "C07/every-packet"
	gens, err := w.generateFuncs()
	if err != nil {
		r.fatal("%v", err)
		return
	}
	// reachesEmitter: the call enters (through static calls, closures and function values; depth 5) a generator function with an
	// encode / decode role
	var reachesEmitter func(f *ssa.Function, seen map[*ssa.Function]bool, depth int) bool
	reachesEmitter = func(f *ssa.Function, seen map[*ssa.Function]bool, depth int) bool {
		if f == nil || seen[f] || depth > 5 || !w.isSubjectFunc(f) {
			return false
		}
		seen[f] = true
		if ro := roleOf(f); ro == "enc" || ro == "dec" {
			return true
		}
		hit := false
		forEachInstr(f, func(_ *ssa.BasicBlock, ins ssa.Instruction) {
			if c, ok := ins.(ssa.CallInstruction); ok && !hit {
				for _, g := range calleesOfAll(c) {
					if reachesEmitter(g, seen, depth+1) {
						hit = true
					}
				}
			}
		})
		return hit
	}
	for _, g := range generators {
		gen := gens[g.Lang]
		reach := w.subjectsOnly(w.reachable([]*ssa.Function{gen}, func(f *ssa.Function) bool { return w.isRepoLike(f) }))
		found := false
		bad := ""
		for _, fn := range sortedFuncs(reach) {
			if fn.Pkg != w.Parser {
				continue
			}
			if rn := recvNamedCore(fn); rn != "" && rn != g.Type {
				continue
			}
			for _, loopBlocks := range packetLoops(fn) {
				// the blocks of the loop from which an emitter is reached
				var emitBlocks []*ssa.BasicBlock
				for lb := range loopBlocks {
					for _, i2 := range lb.Instrs {
						c, ok := i2.(ssa.CallInstruction)
						if !ok {
							continue
						}
						for _, callee := range calleesOfAll(c) {
							if reachesEmitter(callee, map[*ssa.Function]bool{}, 0) {
								emitBlocks = append(emitBlocks, lb)
							}
						}
					}
				}
				if len(emitBlocks) == 0 {
					continue
				}
				found = true
				// skips: a way round the emitting call, inside one iteration, may only depend on IsRoot (the root is emitted separately)
				var header *ssa.BasicBlock
				for lb := range loopBlocks {
					isHeader := true
					for ob := range loopBlocks {
						if !lb.Dominates(ob) {
							isHeader = false
						}
					}
					if isHeader {
						header = lb
					}
				}
				if header == nil {
					continue
				}
				// round 9: a way round the emitting call that is chosen by the packet's *content* (`if len(pkt.Fields) == 0 { continue }`):
				// the packets that refer to the skipped one still name its type / call its routine
				for lb := range loopBlocks {
					cond := branchCond(lb)
					if cond == nil || lb == header {
						continue
					}
					domEmit := false
					for _, eb := range emitBlocks {
						if lb.Dominates(eb) && lb != eb {
							domEmit = true
						}
					}
					if !domEmit {
						continue
					}
					for _, s := range lb.Succs {
						reachesEmit := false
						seenB := map[*ssa.BasicBlock]bool{header: true}
						stack := []*ssa.BasicBlock{s}
						for len(stack) > 0 {
							x := stack[len(stack)-1]
							stack = stack[:len(stack)-1]
							if seenB[x] || !loopBlocks[x] {
								continue
							}
							seenB[x] = true
							for _, eb := range emitBlocks {
								if eb == x {
									reachesEmit = true
								}
							}
							stack = append(stack, x.Succs...)
						}
						if reachesEmit {
							continue
						}
						for _, member := range []string{"Fields", "FieldMap", "MatchFields", "LengthField"} {
							if mentionsFieldThroughLen(cond, member, 0) {
								bad = fmt.Sprintf("%s skips a declared packet depending on its content (a test of Packet.%s at %s leads round the emitter): the packets that refer to it still name what was not emitted", fnKey(fn), member, w.instrPos(lb.Instrs[len(lb.Instrs)-1]))
							}
						}
					}
				}
				for _, p := range header.Preds {
					if !loopBlocks[p] || !header.Dominates(p) {
						continue
					}
					dom := false
					for _, eb := range emitBlocks {
						if eb.Dominates(p) {
							dom = true
						}
					}
					if dom {
						continue
					}
					for lb := range loopBlocks {
						if cond := branchCond(lb); cond != nil && !mentionsField(cond, "IsRoot", 0) && lb != header {
							isEmitPath := false
							for _, eb := range emitBlocks {
								if lb.Dominates(eb) || eb.Dominates(lb) {
									isEmitPath = true
								}
							}
							if !isEmitPath {
								bad = fmt.Sprintf("%s skips packets under a condition other than IsRoot", fnKey(fn))
							}
						}
					}
				}
			}
		}
		key := g.Lang + ": code is emitted for every packet"
		switch {
		case !found:
			r.fail(rule, key, w.pos(gen.Pos()), "no loop over the declared packets (BinaryModel.Packets / PacketsMap or a list made from them) that reaches an encode / decode emitter found under "+g.Type+".Generate")
		case bad != "":
			r.fail(rule, key, w.pos(gen.Pos()), bad)
		default:
			r.pass(rule, key, w.pos(gen.Pos()), "")
		}
	}
	// inline objects: somewhere under Generate the packet of an object attribute is handed to a per-packet emitter (or queued in a packet list)
	otherGenerator := func(rn, own string) bool {
		if rn == own {
			return false
		}
		for _, g2 := range generators {
			if g2.Type == rn {
				return true
			}
		}
		return false
	}
	for _, g := range generators {
		gen := gens[g.Lang]
		reach := w.subjectsOnly(w.reachable([]*ssa.Function{gen}, func(f *ssa.Function) bool { return w.isRepoLike(f) }))
		handled := false
		pos := w.pos(gen.Pos())
		// handed: the packet v ends in a code emitter of this generator (not a sample-value builder) or in a packet list: directly,
		// or through the helpers it is passed to - a walker shared with the sibling generators, with or without a record of its
		// own, that is given the generator's emitter as a static callee, a closure or a function value kept in a member
		var handed func(v ssa.Value, depth int, seen map[ssa.Value]bool) bool
		handed = func(v ssa.Value, depth int, seen map[ssa.Value]bool) bool {
			if v == nil || depth > 4 || seen[v] || v.Referrers() == nil {
				return false
			}
			seen[v] = true
			for _, ref := range *v.Referrers() {
				switch x := ref.(type) {
				case *ssa.Phi:
					if handed(x, depth, seen) {
						return true
					}
					continue
				case *ssa.ChangeType:
					if handed(x, depth, seen) {
						return true
					}
					continue
				case *ssa.Store:
					// queued: stored into the element slot of an append(list, ...)
					if x.Val != v {
						continue
					}
					if ia, ok := x.Addr.(*ssa.IndexAddr); ok {
						if al, ok := ia.X.(*ssa.Alloc); ok && al.Referrers() != nil {
							for _, r2 := range *al.Referrers() {
								if sl, ok := r2.(*ssa.Slice); ok && sl.Referrers() != nil {
									for _, r3 := range *sl.Referrers() {
										if c3, ok := r3.(*ssa.Call); ok {
											if bi, ok := c3.Call.Value.(*ssa.Builtin); ok && bi.Name() == "append" {
												return true
											}
										}
									}
								}
							}
						}
					}
					continue
				}
				c, ok := ref.(ssa.CallInstruction)
				if !ok {
					continue
				}
				if bi, ok := c.Common().Value.(*ssa.Builtin); ok && bi.Name() == "append" {
					return true
				}
				args := c.Common().Args
				for _, f := range calleesOfAll(c) {
					if f == nil {
						continue
					}
					rn := recvNamedCore(f)
					if rn == g.Type {
						// a code emitter, not a sample-value builder
						if roleOf(f) != "test" {
							return true
						}
						continue
					}
					// a helper under this Generate that is no part of another generator: what it does with the parameter
					if !reach[f] || f.Blocks == nil || pkgOfFunc(f) != w.Parser || otherGenerator(rn, g.Type) {
						continue
					}
					off := len(f.Params) - len(args) // a method value is called without its receiver
					if off < 0 || off > 1 {
						continue
					}
					for ai, a := range args {
						if a == v && ai+off < len(f.Params) && handed(f.Params[ai+off], depth+1, seen) {
							return true
						}
					}
				}
			}
			return false
		}
		for _, fn := range sortedFuncs(reach) {
			// the generator's own functions and the helpers it shares with its siblings (functions and methods of records that
			// are not generators themselves)
			if rn := recvNamedCore(fn); rn != g.Type && (pkgOfFunc(fn) != w.Parser || otherGenerator(rn, g.Type)) {
				continue
			}
			forEachInstr(fn, func(b *ssa.BasicBlock, ins ssa.Instruction) {
				ld, ok := ins.(*ssa.UnOp)
				if !ok || handled {
					return
				}
				fa, ok := ld.X.(*ssa.FieldAddr)
				if !ok {
					return
				}
				if tn, f, _, _ := fieldOf(fa); tn != "ObjectFieldAttribute" || f != "RefPacket" {
					return
				}
				if handed(ld, 0, map[ssa.Value]bool{}) {
					handled = true
					pos = w.instrPos(ins)
				}
			})
		}
		key := g.Lang + ": the packet of an inline object is emitted"
		if handled {
			r.pass(rule, key, pos, "RefPacket is handed to a per-packet emitter")
		} else {
			r.fail(rule, key, pos, "no code emitter under "+g.Type+".Generate receives the packet of an object attribute: the type of an inline object is never emitted")
		}
	}
}

func c07Variants(w *World, wc *wireCtx, r *Report) {
	const rule = "C07/rust-variants"
	n := 0
	for _, fn := range wc.anchors["rust"]["own"] {
		if roleOf(fn) == "test" {
			continue
		}
		var usesKey, usesVal bool
		loops := pairLoopBlocks(fn)
		for _, st := range wc.m.sitesOf(fn) {
			pf := pairUse(wc, st)
			if pf["Key"] {
				usesKey = true
			}
			// per-pair text: emitted inside this function's own loop over match pairs
			if pf["Value"] && loops[st.instr.Block()] {
				usesVal = true
			}
		}
		if !usesVal || usesKey {
			continue
		}
		n++
		keys := dedupKeys(w, fn, 0, map[*ssa.Function]bool{})
		key := "rust: " + fnKey(fn) + " emits one entry per packet"
		if keys["Value"] && len(keys) == 1 {
			r.pass(rule, key, w.pos(fn.Pos()), "pairs de-duplicated by MatchPair.Value")
		} else {
			r.fail(rule, key, w.pos(fn.Pos()), fmt.Sprintf("per-packet text is emitted for every pair, de-duplicated by %v instead of by packet: two keys mapping to one packet emit a repeated enum variant / match arm, which rustc rejects", sortedBoolKeys(keys)))
		}
	}
	if n == 0 {
		r.fail(rule, "rust per-packet emitters found", "", "no Rust emitter that emits per-packet text from match pairs found")
	}
}

func c07Diagnostics(w *World, r *Report) {
	const rule = "C07/generator-error-delivered"
	d := newDriver(w)
	if d.compile == nil {
		r.fatal("anchor unresolved: cmd.Compile")
		return
	}
	// every call in Compile (or a cmd helper it is split into) that runs a generator - through a function value or Generate itself -
	// and yields an error: a non-nil error must become Compile's error
	n := 0
	for _, fn := range d.sortedFns() {
		cnt := 0
		forEachInstr(fn, func(b *ssa.BasicBlock, ins ssa.Instruction) {
			c, ok := ins.(*ssa.Call)
			if !ok {
				return
			}
			isGen := false
			switch {
			case c.Call.IsInvoke():
				isGen = c.Call.Method.Name() == "Generate"
			case c.Call.StaticCallee() != nil:
				f := c.Call.StaticCallee()
				isGen = f.Pkg == w.Parser && f.Name() == "Generate"
			default:
				_, isB := c.Call.Value.(*ssa.Builtin)
				isGen = !isB
			}
			if !isGen {
				return
			}
			errV := errResultOf(c)
			if errV == nil {
				return
			}
			n++
			cnt++
			key := fmt.Sprintf("a generator's error becomes Compile's error (%s)", fnKey(fn))
			if cnt > 1 {
				key += fmt.Sprintf("#%d", cnt)
			}
			if d.delivered(fn, errV, 0) {
				r.pass(rule, key, w.instrPos(ins), "")
			} else {
				r.fail(rule, key, w.instrPos(ins), "the error returned by a generator is dropped: an unsupported construct cannot be reported")
			}
		})
	}
	if n == 0 {
		r.fail(rule, "a generator's error becomes Compile's error", w.pos(d.compile.Pos()), "no generator call with an error result found under cmd.Compile")
	}
}

func c17Samples(w *World, r *Report) {
	const rule = "C17/sample-values"
	for _, t := range readTables(w) {
		hasCol := false
		var empty []string
		for k, row := range t.keys {
			if v, ok := row["TestValue"]; ok {
				hasCol = true
				if strings.TrimSpace(v) == "" {
					empty = append(empty, k)
				}
			}
		}
		if !hasCol {
			continue
		}
		sort.Strings(empty)
		if len(empty) == 0 {
			r.pass(rule, t.name+": every row has a sample value", "internal/parser", "")
		} else {
			r.fail(rule, t.name+": every row has a sample value", "internal/parser", "empty TestValue for "+strings.Join(empty, ", ")+": the emitted test assigns nothing")
		}
	}
}

// packetLoops: loops in fn that range over BinaryModel.Packets or BinaryModel.PacketsMap (header block -> loop blocks).
var packetLoopsMemo = map[*ssa.Function][]map[*ssa.BasicBlock]bool{}
var packetLoopsBusy = map[*ssa.Function]bool{}

func packetLoops(fn *ssa.Function) []map[*ssa.BasicBlock]bool {
	if out, ok := packetLoopsMemo[fn]; ok {
		return out
	}
	if packetLoopsBusy[fn] {
		return nil // a list that is defined in terms of itself is not a list of the declared packets
	}
	packetLoopsBusy[fn] = true
	out := packetLoopsOf(fn)
	delete(packetLoopsBusy, fn)
	packetLoopsMemo[fn] = out
	return out
}

// namesOfDeclaredPackets: v is a list of all the keys (names) of BinaryModel.PacketsMap: a loop over it visits every declared packet
// (by name) as a range over the map would, in an order of the helper's choosing.
func namesOfDeclaredPackets(v ssa.Value) bool {
	c, ok := stripIdentity(v).(*ssa.Call)
	if !ok || theWorld == nil {
		return false
	}
	isPacketsMap := func(a ssa.Value) bool {
		ld, ok := stripIdentity(a).(*ssa.UnOp)
		if !ok {
			return false
		}
		fa, ok := ld.X.(*ssa.FieldAddr)
		if !ok {
			return false
		}
		tn, f, _, _ := fieldOf(fa)
		return tn == "BinaryModel" && f == "PacketsMap"
	}
	var cands []ssa.Value
	for _, a := range c.Call.Args {
		if isPacketsMap(a) {
			cands = append(cands, a)
		}
		if kc, ok := stripIdentity(a).(*ssa.Call); ok {
			for _, a2 := range kc.Call.Args {
				if isPacketsMap(a2) {
					cands = append(cands, a2)
				}
			}
		}
	}
	for _, m := range cands {
		if theWorld.allKeysOf(c, m, 0) {
			return true
		}
	}
	return false
}

// basePacketLoops: the loops of fn directly over BinaryModel.Packets / BinaryModel.PacketsMap.
func basePacketLoops(fn *ssa.Function) []map[*ssa.BasicBlock]bool {
	var out []map[*ssa.BasicBlock]bool
	isModelList := func(v ssa.Value, field string) bool {
		ld, ok := stripIdentity(v).(*ssa.UnOp)
		if !ok {
			return false
		}
		fa, ok := ld.X.(*ssa.FieldAddr)
		if !ok {
			return false
		}
		tn, f, _, _ := fieldOf(fa)
		return tn == "BinaryModel" && f == field
	}
	forEachInstr(fn, func(b *ssa.BasicBlock, ins ssa.Instruction) {
		switch x := ins.(type) {
		case *ssa.Range:
			if isModelList(x.X, "PacketsMap") && x.Referrers() != nil {
				for _, ref := range *x.Referrers() {
					if nx, ok := ref.(*ssa.Next); ok {
						out = append(out, naturalLoop(nx.Block()))
					}
				}
			}
		case *ssa.IndexAddr:
			if isModelList(x.X, "Packets") {
				var phi *ssa.Phi
				switch ix := x.Index.(type) {
				case *ssa.BinOp:
					phi, _ = ix.X.(*ssa.Phi)
				case *ssa.Phi:
					phi = ix
				}
				if phi != nil {
					out = append(out, naturalLoop(phi.Block()))
				}
			}
		}
	})
	return out
}

func packetLoopsOf(fn *ssa.Function) []map[*ssa.BasicBlock]bool {
	var out []map[*ssa.BasicBlock]bool
	forEachInstr(fn, func(b *ssa.BasicBlock, ins ssa.Instruction) {
		switch x := ins.(type) {
		case *ssa.Range:
			if ld, ok := x.X.(*ssa.UnOp); ok {
				if fa, ok := ld.X.(*ssa.FieldAddr); ok {
					if tn, f, _, _ := fieldOf(fa); tn == "BinaryModel" && f == "PacketsMap" {
						for _, ref := range *x.Referrers() {
							if nx, ok := ref.(*ssa.Next); ok {
								out = append(out, naturalLoop(nx.Block()))
							}
						}
					}
				}
			}
		case *ssa.IndexAddr:
			if listOfDeclaredPackets(x.X, 0, map[ssa.Value]bool{}) || namesOfDeclaredPackets(x.X) {
				// the index is a loop counter: the range form (counter + 1) or a hand-written `for i := 0; i < len(list); i++`
				var phi *ssa.Phi
				switch ix := x.Index.(type) {
				case *ssa.BinOp:
					phi, _ = ix.X.(*ssa.Phi)
				case *ssa.Phi:
					phi = ix
				}
				if phi != nil && len(naturalLoop(phi.Block())) > 1 {
					out = append(out, naturalLoop(phi.Block()))
				}
			}
		}
	})
	return out
}

// listOfDeclaredPackets: v is BinaryModel.Packets, or a packet slice made from it - returned by a repo function that itself loops
// over the declared packets, or accumulated (append) in such a loop of the same function.
func listOfDeclaredPackets(v ssa.Value, depth int, seen map[ssa.Value]bool) bool {
	v = stripIdentity(v)
	if depth > 4 || seen[v] {
		return false
	}
	seen[v] = true
	switch x := v.(type) {
	case *ssa.UnOp:
		if fa, ok := x.X.(*ssa.FieldAddr); ok {
			tn, f, _, _ := fieldOf(fa)
			return tn == "BinaryModel" && f == "Packets"
		}
		if al, ok := x.X.(*ssa.Alloc); ok && al.Referrers() != nil {
			for _, ref := range *al.Referrers() {
				if st, ok := ref.(*ssa.Store); ok && st.Addr == ssa.Value(al) && listOfDeclaredPackets(st.Val, depth+1, seen) {
					return true
				}
			}
		}
	case *ssa.Slice:
		return listOfDeclaredPackets(x.X, depth+1, seen)
	case *ssa.Parameter:
		// a list handed in: every call site in the generators passes a list of the declared packets
		fn := x.Parent()
		if theWorld == nil {
			return false
		}
		sl, ok := x.Type().Underlying().(*types.Slice)
		if !ok || modelTypeName(sl.Elem()) != "Packet" {
			return false
		}
		sites := 0
		for i, p := range fn.Params {
			if p != x {
				continue
			}
			for _, g := range theWorld.srcFuncs {
				bad := false
				forEachInstr(g, func(_ *ssa.BasicBlock, ins ssa.Instruction) {
					if c, ok := ins.(ssa.CallInstruction); ok && c.Common().StaticCallee() == fn && i < len(c.Common().Args) {
						sites++
						if !listOfDeclaredPackets(c.Common().Args[i], depth+1, seen) {
							bad = true
						}
					}
				})
				if bad {
					return false
				}
			}
		}
		return sites > 0
	case *ssa.Phi:
		for _, e := range x.Edges {
			if listOfDeclaredPackets(e, depth+1, seen) {
				return true
			}
		}
	case *ssa.Call:
		if bi, ok := x.Call.Value.(*ssa.Builtin); ok && bi.Name() == "append" && len(x.Call.Args) > 0 {
			// accumulated inside a loop over the declared packets (the model's own list or map first: no recursion needed)
			for _, lp := range basePacketLoops(x.Parent()) {
				if lp[x.Block()] {
					return true
				}
			}
			for _, lp := range packetLoops(x.Parent()) {
				if lp[x.Block()] {
					return true
				}
			}
			return listOfDeclaredPackets(x.Call.Args[0], depth+1, seen)
		}
		if f := x.Call.StaticCallee(); f != nil && f.Blocks != nil && theWorld != nil && theWorld.isSubjectFunc(f) {
			sl, ok := x.Type().Underlying().(*types.Slice)
			if !ok || modelTypeName(sl.Elem()) != "Packet" {
				return false
			}
			return len(packetLoops(f)) > 0
		}
	}
	return false
}

func c17Coverage(w *World, wc *wireCtx, r *Report) {
	packetLoopReaches(w, wc, r, "C17/test-per-packet", "test", "a test is emitted for every packet", "no loop over the packet list/map under this generator reaches a test emitter")
	// ... and the tests' subjects exist: the emitted tests name the codec type of every declared packet, so the codec emitters have to be
	// driven by the declared packets as well (not by what the root packet happens to lead to)
	packetLoopReaches(w, wc, r, "C17/codec-per-packet", "enc", "the codec its test uses is emitted for every declared packet", "no loop over the packet list/map under this generator reaches the encoder emitter: a declared packet the root does not lead to has a test (which names its type) but no type")
}

// packetLoopReaches: each codec generator has a loop over the declared packets that (transitively) reaches an emitter of the role.
func packetLoopReaches(w *World, wc *wireCtx, r *Report, rule, role, what, failure string) {
	for _, l := range codecLangs {
		found := false
		pos := ""
		for _, fn := range wc.anchors[l]["own"] {
			for _, loop := range packetLoops(fn) {
				seen := map[*ssa.Function]bool{}
				var reach func(f *ssa.Function, blocks map[*ssa.BasicBlock]bool, depth int) bool
				reach = func(f *ssa.Function, blocks map[*ssa.BasicBlock]bool, depth int) bool {
					if depth > 4 {
						return false
					}
					hit := false
					forEachInstr(f, func(b *ssa.BasicBlock, ins ssa.Instruction) {
						if hit || (blocks != nil && !blocks[b]) {
							return
						}
						c, ok := ins.(ssa.CallInstruction)
						if !ok {
							return
						}
						for _, g := range calleesOfAll(c) {
							if g == nil || !w.isSubjectFunc(g) || seen[g] {
								continue
							}
							seen[g] = true
							if roleOf(g) == role || reach(g, nil, depth+1) {
								hit = true
							}
						}
					})
					return hit
				}
				if reach(fn, loop, 0) {
					found = true
					pos = w.pos(fn.Pos())
				}
			}
		}
		key := l + ": " + what
		if found {
			r.pass(rule, key, pos, "")
		} else {
			r.fail(rule, key, pos, failure)
		}
	}
}

func c17CopyBack(w *World, wc *wireCtx, r *Report) {
	const rule = "C17/copy-back"
	for _, lang := range []string{"rust", "cpp"} {
		covered := uint8(0)
		pos := ""
		for _, fn := range wc.anchors[lang]["test"] {
			for _, s := range wc.m.sitesOf(fn) {
				st, f := wc.m.stateAt(fn, s.instr.Block())
				if f == nil || st.isTop() {
					continue
				}
				if st.K&^(1<<kLength|1<<kCheckSum) == 0 {
					covered |= st.K
					pos = w.pos(fn.Pos())
				}
			}
			// ... or collects the names of such fields for the emitting loop (a helper returning the computed members)
			forEachInstr(fn, func(b *ssa.BasicBlock, ins ssa.Instruction) {
				c, ok := ins.(*ssa.Call)
				if !ok {
					return
				}
				if bi, ok := c.Call.Value.(*ssa.Builtin); !ok || bi.Name() != "append" {
					return
				}
				st, f := wc.m.stateAt(fn, b)
				if f == nil || st.isTop() || st.empty() {
					return
				}
				if st.K&^(1<<kLength|1<<kCheckSum) == 0 {
					covered |= st.K
					pos = w.pos(fn.Pos())
				}
			})
		}
		for _, k := range []int{kLength, kCheckSum} {
			key := fmt.Sprintf("%s: the test copies the %s field back from the decoded message before comparing", lang, kindNames[k])
			if covered&(1<<k) != 0 {
				r.pass(rule, key, pos, "")
			} else {
				r.fail(rule, key, pos, "the encoder overwrites this field (const/by-value encoder), the emitted test compares the original with the decoded message without copying it back: the test fails for every packet with such a field")
			}
		}
	}
}
