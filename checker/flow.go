package main

import (
	"go/token"
	"go/types"

	"golang.org/x/tools/go/ssa"
)

// sameValue: a is b modulo value-preserving wrappers (Convert string<->[]byte, ChangeType, MakeInterface) .
func stripIdentity(v ssa.Value) ssa.Value {
	for {
		switch x := v.(type) {
		case *ssa.ChangeType:
			v = x.X
		case *ssa.ChangeInterface:
			v = x.X
		case *ssa.MakeInterface:
			v = x.X
		case *ssa.Convert:
			// string <-> []byte conversions preserve the bytes
			if isStringOrBytes(x.Type()) && isStringOrBytes(x.X.Type()) {
				v = x.X
				continue
			}
			return v
		case *ssa.UnOp:
			// a parameter that lives in a cell because a closure captures it: the cell is written once, at function entry, with the
			// parameter; every load is the parameter
			if x.Op == token.MUL {
				if al, ok := x.X.(*ssa.Alloc); ok && al.Comment != "" && al.Referrers() != nil {
					var only ssa.Value
					n := 0
					for _, ref := range *al.Referrers() {
						if st, ok := ref.(*ssa.Store); ok && st.Addr == ssa.Value(al) {
							n++
							only = st.Val
						}
					}
					if p, ok := only.(*ssa.Parameter); ok && n == 1 && p.Parent() == al.Parent() {
						v = p
						continue
					}
				}
			}
			return v
		default:
			return v
		}
	}
}

func isStringOrBytes(t types.Type) bool {
	switch u := t.Underlying().(type) {
	case *types.Basic:
		return u.Info()&types.IsString != 0
	case *types.Slice:
		if b, ok := u.Elem().Underlying().(*types.Basic); ok {
			return b.Kind() == types.Byte || b.Kind() == types.Uint8
		}
	}
	return false
}

func sameValue(a, b ssa.Value) bool {
	return stripIdentity(a) == stripIdentity(b)
}

// isExtractOf reports whether v is (modulo identity wrappers) extract #idx of call.
func isExtractOf(v ssa.Value, call ssa.Value, idx int) bool {
	e, ok := stripIdentity(v).(*ssa.Extract)
	return ok && e.Tuple == call && e.Index == idx
}

// nilTest recognises `v != nil` / `v == nil` conditions; returns the tested value and the successor index taken when v is non-nil.
func nilTest(cond ssa.Value) (v ssa.Value, nonNilSucc int, ok bool) {
	neg := false
	for {
		if u, isU := cond.(*ssa.UnOp); isU && u.Op == token.NOT {
			neg = !neg
			cond = u.X
			continue
		}
		break
	}
	b, isB := cond.(*ssa.BinOp)
	if !isB || (b.Op != token.NEQ && b.Op != token.EQL) {
		return nil, 0, false
	}
	var x ssa.Value
	if isNilConst(b.Y) {
		x = b.X
	} else if isNilConst(b.X) {
		x = b.Y
	} else {
		return nil, 0, false
	}
	// If cond goto succ0 (true) else succ1 (false)
	nonNilOnTrue := b.Op == token.NEQ
	if neg {
		nonNilOnTrue = !nonNilOnTrue
	}
	if nonNilOnTrue {
		return x, 0, true
	}
	return x, 1, true
}

// noReturnFuncs: repo functions from whose entry no Return is reachable (they always exit or panic); filled by computeNoReturn.
var noReturnFuncs = map[*ssa.Function]bool{}

func computeNoReturn(funcs []*ssa.Function) {
	changed := true
	for changed {
		changed = false
		for _, fn := range funcs {
			if noReturnFuncs[fn] || len(fn.Blocks) == 0 {
				continue
			}
			// can a Return be reached?
			seen := map[*ssa.BasicBlock]bool{}
			stack := []*ssa.BasicBlock{fn.Blocks[0]}
			returns := false
			for len(stack) > 0 && !returns {
				b := stack[len(stack)-1]
				stack = stack[:len(stack)-1]
				if seen[b] {
					continue
				}
				seen[b] = true
				nr := false
				for _, ins := range b.Instrs {
					if instrNoReturn(ins) {
						nr = true
						break
					}
					if _, ok := ins.(*ssa.Return); ok {
						returns = true
					}
				}
				if !nr {
					stack = append(stack, b.Succs...)
				}
			}
			if !returns {
				noReturnFuncs[fn] = true
				changed = true
			}
		}
	}
}

func instrNoReturn(ins ssa.Instruction) bool {
	switch x := ins.(type) {
	case *ssa.Panic:
		return true
	case ssa.CallInstruction:
		if f := x.Common().StaticCallee(); f != nil {
			if noReturnFuncs[f] {
				return true
			}
			switch f.String() {
			case "os.Exit", "log.Fatal", "log.Fatalf", "log.Fatalln", "runtime.Goexit":
				return true
			}
		}
	}
	return false
}

// noReturnBlock: the block contains a call that never returns (os.Exit, panic, log.Fatal*, or a repo wrapper of those), so its out-edges are infeasible.
func noReturnBlock(b *ssa.BasicBlock) bool {
	for _, ins := range b.Instrs {
		if instrNoReturn(ins) {
			return true
		}
	}
	return false
}

// edgeDominates: every feasible path from the entry to blk passes through the edge from -> from.Succs[succ]
// (computed as: blk is unreachable once that edge and the out-edges of no-return blocks are removed).
func edgeDominates(from *ssa.BasicBlock, succ int, blk *ssa.BasicBlock) bool {
	if succ >= len(from.Succs) {
		return false
	}
	fn := from.Parent()
	if len(fn.Blocks) == 0 {
		return false
	}
	// both successors identical: the edge carries no information
	if len(from.Succs) == 2 && from.Succs[0] == from.Succs[1] {
		return false
	}
	seen := map[*ssa.BasicBlock]bool{}
	stack := []*ssa.BasicBlock{fn.Blocks[0]}
	for len(stack) > 0 {
		b := stack[len(stack)-1]
		stack = stack[:len(stack)-1]
		if seen[b] {
			continue
		}
		seen[b] = true
		if b == blk {
			return false
		}
		if noReturnBlock(b) {
			continue
		}
		for i, s := range b.Succs {
			if b == from && i == succ {
				continue
			}
			stack = append(stack, s)
		}
	}
	// blk must be reachable at all through the edge (otherwise the claim is vacuous but harmless)
	return true
}

// guardedByNil: is blk dominated by an edge on which v is known non-nil (wantNonNil) / nil (!wantNonNil)?
func guardedByNil(blk *ssa.BasicBlock, v ssa.Value, wantNonNil bool) bool {
	fn := blk.Parent()
	for _, b := range fn.Blocks {
		cond := branchCond(b)
		if cond == nil {
			continue
		}
		x, nn, ok := nilTest(cond)
		if !ok || !(sameValue(x, v) || reloadUnchanged(x, v)) {
			continue
		}
		succ := nn
		if !wantNonNil {
			succ = 1 - nn
		}
		if edgeDominates(b, succ, blk) {
			return true
		}
	}
	return false
}

// reloadUnchanged: first and second are two loads, in one function, of the same member of the same object (a member of a record
// that is read again instead of being kept in a local), and nothing that executes between the first load and the second can write
// that member: no store to that member of any object of the type, no store through a pointer that may address it, and no call
// other than builtins and repository functions that (transitively, statically) contain no such store.
func reloadUnchanged(first, second ssa.Value) bool {
	la, ok1 := stripIdentity(first).(*ssa.UnOp)
	lb, ok2 := stripIdentity(second).(*ssa.UnOp)
	if !ok1 || !ok2 || la == lb || la.Op != token.MUL || lb.Op != token.MUL {
		return false
	}
	fa, ok1 := la.X.(*ssa.FieldAddr)
	fb, ok2 := lb.X.(*ssa.FieldAddr)
	if !ok1 || !ok2 || fa.Field != fb.Field || !types.Identical(fa.X.Type(), fb.X.Type()) || stripIdentity(fa.X) != stripIdentity(fb.X) {
		return false
	}
	if la.Parent() == nil || la.Parent() != lb.Parent() || la.Block() == nil || lb.Block() == nil {
		return false
	}
	hazard := func(ins ssa.Instruction) bool { return mayWriteMember(ins, fa, 0, map[*ssa.Function]bool{}) }
	idx := func(b *ssa.BasicBlock, i ssa.Instruction) int {
		for k, x := range b.Instrs {
			if x == i {
				return k
			}
		}
		return -1
	}
	ba, bb := la.Block(), lb.Block()
	ia, ib := idx(ba, la), idx(bb, lb)
	if ia < 0 || ib < 0 {
		return false
	}
	if ba == bb {
		if ia > ib {
			return false
		}
		for _, ins := range ba.Instrs[ia+1 : ib] {
			if hazard(ins) {
				return false
			}
		}
		return true
	}
	if !ba.Dominates(bb) {
		return false
	}
	for _, ins := range ba.Instrs[ia+1:] {
		if hazard(ins) {
			return false
		}
	}
	// the blocks on a path from the first load's block to the second's that does not pass the first load again
	fwd := map[*ssa.BasicBlock]bool{}
	stack := append([]*ssa.BasicBlock{}, ba.Succs...)
	for len(stack) > 0 {
		x := stack[len(stack)-1]
		stack = stack[:len(stack)-1]
		if fwd[x] || x == ba {
			continue
		}
		fwd[x] = true
		stack = append(stack, x.Succs...)
	}
	bwd := map[*ssa.BasicBlock]bool{}
	stack = append(stack[:0], bb.Preds...)
	for len(stack) > 0 {
		x := stack[len(stack)-1]
		stack = stack[:len(stack)-1]
		if bwd[x] || x == ba {
			continue
		}
		bwd[x] = true
		stack = append(stack, x.Preds...)
	}
	for x := range fwd {
		if !bwd[x] {
			continue
		}
		// (the second load's block is in bwd only when it lies on a cycle: then all of it can run before the load)
		for _, ins := range x.Instrs {
			if hazard(ins) {
				return false
			}
		}
	}
	for _, ins := range bb.Instrs[:ib] {
		if hazard(ins) {
			return false
		}
	}
	return true
}

// mayWriteMember: executing ins can change the member that fa addresses (in any object of that type).
func mayWriteMember(ins ssa.Instruction, fa *ssa.FieldAddr, depth int, seen map[*ssa.Function]bool) bool {
	switch x := ins.(type) {
	case *ssa.Store:
		switch a := x.Addr.(type) {
		case *ssa.FieldAddr:
			return a.Field == fa.Field && types.Identical(a.X.Type(), fa.X.Type())
		case *ssa.Alloc, *ssa.Global:
			return false
		case *ssa.IndexAddr:
			return false // an element of a list or array, not a member of a record
		}
		// through a pointer of unknown origin: only if it can point at a value of the member's type
		if pt, ok := x.Addr.Type().Underlying().(*types.Pointer); ok {
			if mt, ok := fa.Type().Underlying().(*types.Pointer); ok {
				return types.Identical(pt.Elem(), mt.Elem())
			}
		}
		return true
	case *ssa.MapUpdate, *ssa.Send:
		return false
	case *ssa.Go, *ssa.Defer:
		return true
	case *ssa.Call:
		if _, isB := x.Call.Value.(*ssa.Builtin); isB {
			return false
		}
		g := x.Call.StaticCallee()
		if g == nil || len(g.Blocks) == 0 || depth > 4 {
			return true
		}
		if seen[g] {
			return false
		}
		seen[g] = true
		for _, b := range g.Blocks {
			for _, i2 := range b.Instrs {
				if mayWriteMember(i2, fa, depth+1, seen) {
					return true
				}
			}
		}
		return false
	}
	return false
}

// reachesCall: does control flowing out of blk (inclusive) necessarily/possibly reach a call satisfying pred? (possible reachability)
// blockReachesForward: like blockReaches, but without taking loop back edges (an edge into a block that dominates its source): what
// is reached "in the same iteration".
func blockReachesForward(from *ssa.BasicBlock, pred func(ssa.Instruction) bool) bool {
	seen := map[*ssa.BasicBlock]bool{}
	stack := []*ssa.BasicBlock{from}
	for len(stack) > 0 {
		b := stack[len(stack)-1]
		stack = stack[:len(stack)-1]
		if seen[b] {
			continue
		}
		seen[b] = true
		for _, ins := range b.Instrs {
			if pred(ins) {
				return true
			}
		}
		if noReturnBlock(b) {
			continue
		}
		for _, s := range b.Succs {
			if s.Dominates(b) {
				continue
			}
			stack = append(stack, s)
		}
	}
	return false
}

func blockReaches(from *ssa.BasicBlock, pred func(ssa.Instruction) bool) bool {
	seen := map[*ssa.BasicBlock]bool{}
	stack := []*ssa.BasicBlock{from}
	for len(stack) > 0 {
		b := stack[len(stack)-1]
		stack = stack[:len(stack)-1]
		if seen[b] {
			continue
		}
		seen[b] = true
		for _, ins := range b.Instrs {
			if pred(ins) {
				return true
			}
		}
		if noReturnBlock(b) {
			continue
		}
		stack = append(stack, b.Succs...)
	}
	return false
}

// callsIn lists call instructions in fn (optionally only those whose static callee name matches).
func callsTo(fn *ssa.Function, names ...string) []ssa.CallInstruction {
	var out []ssa.CallInstruction
	forEachInstr(fn, func(b *ssa.BasicBlock, ins ssa.Instruction) {
		c, ok := ins.(ssa.CallInstruction)
		if !ok {
			return
		}
		f := c.Common().StaticCallee()
		if f == nil {
			return
		}
		for _, n := range names {
			if f.String() == n {
				out = append(out, c)
			}
		}
	})
	return out
}
