package main

// The "parse unit" view shared by C11/G, C09/error-path and */whole-input.
//
// An entry point (FormatPacketDsl, ParseFile) parses, decides whether the input had syntax errors and only then walks the tree.
// These steps may sit in the entry function or in parser-package helpers it calls (a helper that installs the listener, parses,
// checks for left-over input and returns the tree together with the errors; a helper that walks the tree). The view locates,
// anywhere in that unit: the start-rule call, the end-of-input check, the gates (branches on "errors were reported": HasErrors(),
// len(errors) > 0 on a []SyntaxError that comes from a listener's Errors, err != nil on an error a helper returns iff errors were
// reported) and the tree walks (Accept), and answers ordering / dominance questions across the call structure.

import (
	"fmt"
	"go/constant"
	"go/token"
	"go/types"
	"strings"

	"golang.org/x/tools/go/ssa"
)

type parseUnit struct {
	w     *World
	entry *ssa.Function
	fns   map[*ssa.Function]bool
	sites map[*ssa.Function][]ssa.CallInstruction // call sites inside the unit, by callee
}

// calleeOf: the function a call inside the unit runs: the static / visible-closure callee, or - for a call of a function value
// whose origins are several (a callback parameter of a helper shared by both entry points, a member of a record) - the one origin
// that belongs to this unit (the closure this entry point hands to the helper).
func (u *parseUnit) calleeOf(c ssa.CallInstruction) *ssa.Function {
	if g := calleeOf(c); g != nil {
		return g
	}
	if c.Common().IsInvoke() {
		return nil
	}
	var only *ssa.Function
	for _, t := range closureTargets(c.Common().Value, 0, map[ssa.Value]bool{}) {
		if !u.fns[t] {
			continue
		}
		if only != nil && only != t {
			return nil
		}
		only = t
	}
	return only
}

func newParseUnit(w *World, entry *ssa.Function) *parseUnit {
	u := &parseUnit{w: w, entry: entry, fns: map[*ssa.Function]bool{}, sites: map[*ssa.Function][]ssa.CallInstruction{}}
	var add func(fn *ssa.Function, depth int)
	add = func(fn *ssa.Function, depth int) {
		if u.fns[fn] || depth > 4 {
			return
		}
		u.fns[fn] = true
		for _, a := range fn.AnonFuncs {
			add(a, depth+1)
		}
		forEachInstr(fn, func(_ *ssa.BasicBlock, ins ssa.Instruction) {
			c, ok := ins.(ssa.CallInstruction)
			if !ok {
				return
			}
			g := calleeOf(c)
			if g == nil || g.Blocks == nil || g.Pkg != w.Parser {
				return
			}
			// helpers only: not the visitors themselves (they are reached through Accept)
			if rn := recvNamedCore(g); rn == "PacketDslVisitorImpl" || strings.HasSuffix(rn, "Formattor") || strings.HasSuffix(rn, "Generator") {
				return
			}
			add(g, depth+1)
		})
	}
	add(entry, 0)
	for fn := range u.fns {
		forEachInstr(fn, func(_ *ssa.BasicBlock, ins ssa.Instruction) {
			if c, ok := ins.(ssa.CallInstruction); ok {
				if g := u.calleeOf(c); g != nil && u.fns[g] {
					u.sites[g] = append(u.sites[g], c)
				}
			}
		})
	}
	return u
}

// originOf: where a value seen somewhere in the unit comes from, across the unit's own plumbing: a parameter is what the unit's
// call sites pass (all the same thing), a unit function's result is what it returns (all the same thing), a member read from a
// record built in the unit and assigned once is what was assigned. Anything else is its own origin.
func (u *parseUnit) originOf(v ssa.Value, depth int) ssa.Value {
	if v == nil || depth > 8 {
		return v
	}
	v = stripIdentity(v)
	same := func(vals []ssa.Value) ssa.Value {
		var o ssa.Value
		for _, a := range vals {
			oa := u.originOf(a, depth+1)
			if oa == nil || (o != nil && o != oa) {
				return nil
			}
			o = oa
		}
		return o
	}
	returnsOf := func(g *ssa.Function, idx int) []ssa.Value {
		var vals []ssa.Value
		for _, b := range g.Blocks {
			if ret, ok := b.Instrs[len(b.Instrs)-1].(*ssa.Return); ok && idx < len(ret.Results) {
				vals = append(vals, ret.Results[idx])
			}
		}
		return vals
	}
	switch x := v.(type) {
	case *ssa.Parameter:
		fn := x.Parent()
		if fn == u.entry || !u.fns[fn] || len(u.sites[fn]) == 0 {
			return v
		}
		idx := paramIndex(fn, x)
		var vals []ssa.Value
		for _, s := range u.sites[fn] {
			if idx < 0 || idx >= len(s.Common().Args) {
				return v
			}
			vals = append(vals, s.Common().Args[idx])
		}
		if o := same(vals); o != nil {
			return o
		}
	case *ssa.Call:
		if g := u.calleeOf(x); g != nil && u.fns[g] && g.Blocks != nil && g.Signature.Results().Len() == 1 {
			if o := same(returnsOf(g, 0)); o != nil {
				return o
			}
		}
	case *ssa.Extract:
		if c, ok := x.Tuple.(*ssa.Call); ok {
			if g := u.calleeOf(c); g != nil && u.fns[g] && g.Blocks != nil {
				if o := same(returnsOf(g, x.Index)); o != nil {
					return o
				}
			}
		}
	case *ssa.UnOp:
		if x.Op != token.MUL {
			return v
		}
		fa, ok := x.X.(*ssa.FieldAddr)
		if !ok {
			return v
		}
		al, ok := u.originOf(fa.X, depth+1).(*ssa.Alloc)
		if !ok || al.Referrers() == nil {
			return v
		}
		var stored []ssa.Value
		for _, ref := range *al.Referrers() {
			fa2, ok := ref.(*ssa.FieldAddr)
			if !ok || fa2.Field != fa.Field || fa2.Referrers() == nil {
				continue
			}
			for _, r2 := range *fa2.Referrers() {
				if st, ok := r2.(*ssa.Store); ok && st.Addr == ssa.Value(fa2) {
					stored = append(stored, st.Val)
				}
			}
		}
		if len(stored) == 1 {
			return u.originOf(stored[0], depth+1)
		}
	}
	return v
}

func (u *parseUnit) funcs() []*ssa.Function {
	var out []*ssa.Function
	for f := range u.fns {
		out = append(out, f)
	}
	sortFuncsByName(out)
	return out
}

// isStartRuleCall: a call of a start-rule method of the generated parser.
func (u *parseUnit) isStartRuleCall(ins ssa.Instruction) (*PRule, bool) {
	c, ok := ins.(*ssa.Call)
	if !ok {
		return nil, false
	}
	f := c.Call.StaticCallee()
	if f == nil || f.Pkg != u.w.Grammar || f.Signature.Recv() == nil || f.Signature.Params().Len() != 0 {
		return nil, false
	}
	if !strings.HasSuffix(types.TypeString(f.Signature.Recv().Type(), shortQual), "Parser") {
		return nil, false
	}
	for _, pr := range u.w.G4.PRules {
		if title(pr.Name) == f.Name() {
			return pr, true
		}
	}
	return nil, false
}

func isAcceptCall(ins ssa.Instruction) bool {
	c, ok := ins.(ssa.CallInstruction)
	return ok && c.Common().IsInvoke() && c.Common().Method.Name() == "Accept"
}

// errorsOfListener: v is (derived from) the Errors of a SyntaxErrorListener; returns the listener value(s).
func (u *parseUnit) errorsOfListener(v ssa.Value, depth int) []ssa.Value {
	if depth > 5 || v == nil {
		return nil
	}
	v = stripIdentity(v)
	switch x := v.(type) {
	case *ssa.UnOp:
		if x.Op == token.MUL {
			if fa, ok := x.X.(*ssa.FieldAddr); ok {
				if tn, f, _, _ := fieldOf(fa); tn == "SyntaxErrorListener" && f == "Errors" {
					return []ssa.Value{stripIdentity(fa.X)}
				}
			}
		}
	case *ssa.Extract:
		if c, ok := x.Tuple.(*ssa.Call); ok {
			if g := calleeOf(c); g != nil && u.fns[g] {
				var out []ssa.Value
				for _, b := range g.Blocks {
					if ret, ok := b.Instrs[len(b.Instrs)-1].(*ssa.Return); ok && x.Index < len(ret.Results) {
						out = append(out, u.errorsOfListener(ret.Results[x.Index], depth+1)...)
					}
				}
				return out
			}
		}
	case *ssa.Call:
		if g := calleeOf(x); g != nil && u.fns[g] {
			var out []ssa.Value
			for _, b := range g.Blocks {
				if ret, ok := b.Instrs[len(b.Instrs)-1].(*ssa.Return); ok && len(ret.Results) == 1 {
					out = append(out, u.errorsOfListener(ret.Results[0], depth+1)...)
				}
			}
			return out
		}
	case *ssa.Phi:
		var out []ssa.Value
		for _, e := range x.Edges {
			out = append(out, u.errorsOfListener(e, depth+1)...)
		}
		return out
	}
	return nil
}

// gateOf: is cond a test of "syntax errors were reported"? errSucc: the successor taken when there are errors.
func (u *parseUnit) gateOf(cond ssa.Value) (errSucc int, listeners []ssa.Value, ok bool) {
	return u.gateOfD(cond, 0)
}

// nilOnlyWithoutErrors: result idx of unit function g is nil only where no syntax error has been reported: every `return nil` (of
// that result) lies under the no-error edge of a gate inside g, every other return hands back a value that cannot be nil or the
// result of another such function. Returns the listeners of the inner gates, with g's parameters replaced by the call's arguments.
func (u *parseUnit) nilOnlyWithoutErrors(call *ssa.Call, idx int, depth int) ([]ssa.Value, bool) {
	g := calleeOf(call)
	if g == nil || !u.fns[g] || g.Blocks == nil || depth > 3 {
		return nil, false
	}
	var ls []ssa.Value
	mapBack := func(l ssa.Value) ssa.Value {
		for i, p := range g.Params {
			if stripIdentity(l) == ssa.Value(p) && i < len(call.Call.Args) {
				return stripIdentity(call.Call.Args[i])
			}
		}
		return l
	}
	any := false
	for _, b := range g.Blocks {
		ret, isRet := b.Instrs[len(b.Instrs)-1].(*ssa.Return)
		if !isRet || idx >= len(ret.Results) {
			continue
		}
		res := stripIdentity(ret.Results[idx])
		switch x := res.(type) {
		case *ssa.Const:
			if !x.IsNil() {
				continue
			}
			// under the no-error edge of a gate of g
			found := false
			for _, gb := range g.Blocks {
				c := branchCond(gb)
				if c == nil {
					continue
				}
				es, l2, isGate := u.gateOfD(c, depth+1)
				if isGate && edgeDominates(gb, 1-es, b) {
					found = true
					for _, l := range l2 {
						ls = append(ls, mapBack(l))
					}
				}
			}
			if !found {
				return nil, false
			}
			any = true
		case *ssa.MakeInterface:
			// a concrete value boxed as error: not nil
		case *ssa.Call:
			if f := x.Call.StaticCallee(); f != nil && (f.String() == "fmt.Errorf" || f.String() == "errors.New" || f.String() == "errors.Join") {
				continue
			}
			l2, ok := u.nilOnlyWithoutErrors(x, 0, depth+1)
			if !ok {
				return nil, false
			}
			for _, l := range l2 {
				ls = append(ls, mapBack(l))
			}
			any = true
		default:
			return nil, false
		}
	}
	return ls, any
}

func (u *parseUnit) gateOfD(cond ssa.Value, depth int) (errSucc int, listeners []ssa.Value, ok bool) {
	// err != nil, where err is what a function of the unit returns, nil only if nothing was reported
	if x, nn, isNil := nilTest(cond); isNil && depth <= 3 {
		x = stripIdentity(x)
		switch c := x.(type) {
		case *ssa.Call:
			if ls, ok := u.nilOnlyWithoutErrors(c, 0, depth); ok {
				return nn, ls, true
			}
		case *ssa.Extract:
			if cc, isC := c.Tuple.(*ssa.Call); isC {
				if ls, ok := u.nilOnlyWithoutErrors(cc, c.Index, depth); ok {
					return nn, ls, true
				}
			}
		}
	}
	val := true
	for {
		if n, isN := cond.(*ssa.UnOp); isN && n.Op == token.NOT {
			cond, val = n.X, !val
			continue
		}
		break
	}
	succ := func(errorsWhenTrue bool) int {
		if errorsWhenTrue == val {
			return 0
		}
		return 1
	}
	switch x := cond.(type) {
	case *ssa.Call:
		if f := x.Call.StaticCallee(); f != nil && f.Name() == "HasErrors" && recvNamed(f) == "SyntaxErrorListener" && len(x.Call.Args) > 0 {
			return succ(true), []ssa.Value{stripIdentity(x.Call.Args[0])}, true
		}
	case *ssa.BinOp:
		for i, pair := range [][2]ssa.Value{{x.X, x.Y}, {x.Y, x.X}} {
			k, isK := pair[1].(*ssa.Const)
			if !isK {
				continue
			}
			op := x.Op
			if i == 1 {
				switch op {
				case token.LSS:
					op = token.GTR
				case token.GTR:
					op = token.LSS
				case token.LEQ:
					op = token.GEQ
				case token.GEQ:
					op = token.LEQ
				}
			}
			if call, isC := stripIdentity(pair[0]).(*ssa.Call); isC && k.Value != nil && k.Value.Kind() == constant.Int {
				if bi, isBi := call.Call.Value.(*ssa.Builtin); isBi && bi.Name() == "len" && len(call.Call.Args) == 1 {
					ls := u.errorsOfListener(call.Call.Args[0], 0)
					if len(ls) == 0 {
						continue
					}
					n, _ := constant.Int64Val(k.Value)
					switch {
					case op == token.GTR && n == 0, op == token.NEQ && n == 0, op == token.GEQ && n == 1:
						return succ(true), ls, true
					case op == token.EQL && n == 0, op == token.LEQ && n == 0, op == token.LSS && n == 1:
						return succ(false), ls, true
					}
				}
			}
		}
	}
	return 0, nil, false
}

// gated: every way to reach ins (inside the unit, from the entry) passes the no-error edge of a gate.
func (u *parseUnit) gated(ins ssa.Instruction, depth int, listeners map[ssa.Value]bool) bool {
	if depth > 4 {
		return false
	}
	fn := ins.Parent()
	for _, b := range fn.Blocks {
		cond := branchCond(b)
		if cond == nil {
			continue
		}
		errSucc, ls, ok := u.gateOf(cond)
		if !ok {
			continue
		}
		if edgeDominates(b, 1-errSucc, ins.Block()) {
			for _, l := range ls {
				listeners[l] = true
			}
			return true
		}
	}
	if fn == u.entry || len(u.sites[fn]) == 0 {
		return false
	}
	for _, s := range u.sites[fn] {
		if !u.gated(s, depth+1, listeners) {
			return false
		}
	}
	return true
}

// contains: does fn's closure within the unit contain an instruction satisfying pred?
func (u *parseUnit) contains(fn *ssa.Function, pred func(ssa.Instruction) bool, seen map[*ssa.Function]bool) bool {
	if seen[fn] {
		return false
	}
	seen[fn] = true
	found := false
	forEachInstr(fn, func(_ *ssa.BasicBlock, ins ssa.Instruction) {
		if found {
			return
		}
		if pred(ins) {
			found = true
			return
		}
		if c, ok := ins.(ssa.CallInstruction); ok {
			if g := u.calleeOf(c); g != nil && u.fns[g] && u.contains(g, pred, seen) {
				found = true
			}
		}
	})
	return found
}

// sitesIn: the instructions of fn that are the event or a call into a unit function whose closure contains it.
func (u *parseUnit) sitesIn(fn *ssa.Function, pred func(ssa.Instruction) bool) []ssa.Instruction {
	var out []ssa.Instruction
	forEachInstr(fn, func(_ *ssa.BasicBlock, ins ssa.Instruction) {
		if pred(ins) {
			out = append(out, ins)
			return
		}
		if c, ok := ins.(ssa.CallInstruction); ok {
			if g := u.calleeOf(c); g != nil && u.fns[g] && u.contains(g, pred, map[*ssa.Function]bool{}) {
				out = append(out, ins)
			}
		}
	})
	return out
}

// orderedBefore: on every path the event a happens before the event b (both located anywhere in the unit): in their lowest common
// function the site of a dominates the site of b; if both are reached through the same call, the question is asked inside the callee.
func (u *parseUnit) orderedBefore(fn *ssa.Function, a, b func(ssa.Instruction) bool, depth int) bool {
	if depth > 4 {
		return false
	}
	as, bs := u.sitesIn(fn, a), u.sitesIn(fn, b)
	if len(as) == 0 || len(bs) == 0 {
		return false
	}
	for _, sb := range bs {
		ok := false
		for _, sa := range as {
			if sa == sb {
				// both inside the same callee
				if c, isCall := sa.(ssa.CallInstruction); isCall {
					if g := u.calleeOf(c); g != nil && u.fns[g] && u.orderedBefore(g, a, b, depth+1) {
						ok = true
					}
				}
				continue
			}
			if instrDominates(sa, sb) {
				ok = true
			}
		}
		if !ok {
			return false
		}
	}
	return true
}

// */errors-not-discarded: what the listener has collected is not thrown away before the gate looks at it.
//
// The lexer runs lazily while the parser pulls tokens, its errors ("token recognition error") land in the same listener as the
// parser's. Any assignment to the listener's error list that can execute after a start rule has run - resetting it before a second
// parsing attempt, replacing it - loses the lexer's errors for good (a re-parse reuses the buffered tokens): input with characters
// outside the alphabet is then accepted, formatted without them and written back. Decided: in the unit of every entry point no store
// to SyntaxErrorListener.Errors other than the listener's own recording (an append of the list to itself) is reachable from a
// start-rule call.
func errorsNotDiscarded(w *World, r *Report, prop string) {
	rule := prop + "/errors-not-discarded"
	n := 0
	for _, name := range []string{"FormatPacketDsl", "ParseFile"} {
		fn := w.Parser.Func(name)
		if fn == nil {
			continue
		}
		u := newParseUnit(w, fn)
		isStart := func(ins ssa.Instruction) bool { _, ok := u.isStartRuleCall(ins); return ok }
		var bad ssa.Instruction
		for _, f := range u.funcs() {
			forEachInstr(f, func(_ *ssa.BasicBlock, ins ssa.Instruction) {
				st, ok := ins.(*ssa.Store)
				if !ok || bad != nil {
					return
				}
				fa, ok := st.Addr.(*ssa.FieldAddr)
				if !ok {
					return
				}
				if tn, fname, _, _ := fieldOf(fa); tn != "SyntaxErrorListener" || fname != "Errors" {
					return
				}
				// the recording itself: Errors = append(Errors, ...)
				if c, ok := stripIdentity(st.Val).(*ssa.Call); ok {
					if bi, ok := c.Call.Value.(*ssa.Builtin); ok && bi.Name() == "append" && len(c.Call.Args) > 0 {
						if ld, ok := stripIdentity(c.Call.Args[0]).(*ssa.UnOp); ok && ld.Op == token.MUL {
							if fa2, ok := ld.X.(*ssa.FieldAddr); ok {
								if tn2, f2, _, _ := fieldOf(fa2); tn2 == "SyntaxErrorListener" && f2 == "Errors" {
									return
								}
							}
						}
					}
				}
				// a constructor initialising a fresh listener
				if al, ok := stripIdentity(fa.X).(*ssa.Alloc); ok && al.Parent() == f {
					return
				}
				// reachable after a start rule ran? (same function: a start-rule site reaches the store; other function: conservatively yes
				// when the function is called after one)
				after := false
				for _, s := range u.sitesIn(f, isStart) {
					if instrReaches(s, ins) {
						after = true
					}
				}
				if !after && f != fn {
					for _, cs := range u.sites[f] {
						for _, s := range u.sitesIn(cs.Parent(), isStart) {
							if instrReaches(s, cs) {
								after = true
							}
						}
					}
				}
				if after {
					bad = ins
				}
			})
		}
		n++
		key := name + ": the collected syntax errors reach the gate"
		if bad == nil {
			r.pass(rule, key, w.pos(fn.Pos()), "")
		} else {
			r.fail(rule, key, w.instrPos(bad), "the listener's error list is overwritten after the start rule has run: the lexer's errors (characters outside the alphabet) are reported only while the tokens are first produced, a second parse reuses the buffered tokens - such input is accepted, formatted without the offending characters and written back")
		}
	}
	if n == 0 {
		r.fail(rule, "entry points found", "internal/parser", "neither FormatPacketDsl nor ParseFile resolved")
	}
}

// errorDelivered: the error result cv (a call's value) of a function called under the command line reaches the process's exit
// status: the calling function returns it (as it is, wrapped, or any non-nil error in its place) on every path on which it is not
// nil and is itself a cobra RunE function or delivers its own error the same way, or it tests it and exits non-zero on the non-nil
// edge. Returns "" when delivered, the reason otherwise.
func errorDelivered(w *World, cv *ssa.Call, depth int) string {
	return errorDeliveredV(w, cv, cv, depth)
}

// errorDeliveredV: the same for an error value ev (a call's only result, or the error component extracted from its tuple); at is
// the instruction that produced it.
func errorDeliveredV(w *World, ev ssa.Value, at ssa.Instruction, depth int) string {
	cv := ev
	fn := at.Parent()
	if depth > 4 {
		return "call chain too deep"
	}
	// tested and exited
	mustExit := func(b *ssa.BasicBlock, succ int) bool {
		seen := map[*ssa.BasicBlock]bool{}
		stack := []*ssa.BasicBlock{b.Succs[succ]}
		some := false
		for len(stack) > 0 {
			bb := stack[len(stack)-1]
			stack = stack[:len(stack)-1]
			if seen[bb] {
				continue
			}
			seen[bb] = true
			ex := false
			for _, ins := range bb.Instrs {
				if ci, ok := ins.(ssa.CallInstruction); ok && exitsNonZero(ci, 0) {
					ex = true
				}
			}
			if ex {
				some = true
				continue
			}
			if noReturnBlock(bb) {
				continue
			}
			if len(bb.Succs) == 0 {
				return false
			}
			stack = append(stack, bb.Succs...)
		}
		return some
	}
	type nt struct {
		b  *ssa.BasicBlock
		nn int
	}
	var tests []nt
	for _, b := range fn.Blocks {
		cond := branchCond(b)
		if cond == nil {
			continue
		}
		if x, nn, ok := nilTest(cond); ok && sameValue(x, cv) {
			tests = append(tests, nt{b, nn})
		}
	}
	for _, t := range tests {
		if mustExit(t.b, t.nn) {
			return ""
		}
	}
	res := fn.Signature.Results()
	errIdx := -1
	for i := 0; i < res.Len(); i++ {
		if types.TypeString(res.At(i).Type(), nil) == "error" {
			errIdx = i
		}
	}
	if errIdx < 0 {
		return fnKey(fn) + " neither returns the error nor exits with a non-zero status when it is not nil"
	}
	underNil := func(b *ssa.BasicBlock) bool {
		for _, t := range tests {
			if edgeDominates(t.b, 1-t.nn, b) {
				return true
			}
		}
		return false
	}
	var nonNil func(v ssa.Value, at *ssa.BasicBlock, d int) bool
	nonNil = func(v ssa.Value, at *ssa.BasicBlock, d int) bool {
		v0 := v
		v = stripIdentity(v)
		if sameValue(v, cv) || sameValue(v0, cv) {
			return true
		}
		if d > 4 {
			return false
		}
		switch x := v.(type) {
		case *ssa.Call:
			if f := x.Call.StaticCallee(); f != nil {
				switch f.String() {
				case "fmt.Errorf", "errors.New", "errors.Join":
					return true
				}
			}
		case *ssa.MakeInterface:
			return !isNilConst(x.X)
		case *ssa.Phi:
			for i, e := range x.Edges {
				if underNil(x.Block().Preds[i]) {
					continue
				}
				if !nonNil(e, x.Block().Preds[i], d+1) {
					return false
				}
			}
			return true
		case *ssa.UnOp:
			// a package-level sentinel error
			if g, ok := x.X.(*ssa.Global); ok && x.Op == token.MUL {
				_ = g
				return true
			}
		}
		return false
	}
	reach := map[*ssa.BasicBlock]bool{}
	stack := []*ssa.BasicBlock{at.Block()}
	for len(stack) > 0 {
		b := stack[len(stack)-1]
		stack = stack[:len(stack)-1]
		if reach[b] {
			continue
		}
		reach[b] = true
		stack = append(stack, b.Succs...)
	}
	for _, b := range fn.Blocks {
		if !reach[b] || len(b.Instrs) == 0 {
			continue
		}
		ret, ok := b.Instrs[len(b.Instrs)-1].(*ssa.Return)
		if !ok || underNil(b) {
			continue
		}
		if errIdx >= len(ret.Results) || !nonNil(ret.Results[errIdx], b, 0) {
			return fmt.Sprintf("%s can return without an error (%s) although the call at %s reported one", fnKey(fn), w.instrPos(ret), w.instrPos(at))
		}
	}
	// fn itself: a RunE function, or its callers deliver
	if runFieldOf(w, fn) == "RunE" {
		return ""
	}
	if f := runFieldOf(w, fn); f != "" {
		return fnKey(fn) + " is a cobra " + f + " function: its error result is not seen by anybody"
	}
	n := w.CallGraph().Nodes[fn]
	real := 0
	if n != nil {
		for _, e := range n.In {
			if e.Caller.Func.Synthetic != "" || e.Site == nil {
				continue
			}
			if e.Caller.Func.Pkg != w.Cmd {
				continue
			}
			c2, ok := e.Site.(*ssa.Call)
			if !ok {
				return fnKey(fn) + " is started with go/defer: its error is dropped"
			}
			real++
			if res.Len() > 1 {
				var ex ssa.Value
				if c2.Referrers() != nil {
					for _, ref := range *c2.Referrers() {
						if e2, ok := ref.(*ssa.Extract); ok && e2.Index == errIdx {
							ex = e2
						}
					}
				}
				if ex == nil {
					return fnKey(c2.Parent()) + " drops the error result of " + fnKey(fn)
				}
				if why := errorDeliveredV(w, ex, c2, depth+1); why != "" {
					return why
				}
				continue
			}
			if why := errorDelivered(w, c2, depth+1); why != "" {
				return why
			}
		}
	}
	if real == 0 {
		return fnKey(fn) + " has no caller under the command line"
	}
	return ""
}

// runFieldOf: the field of a cobra.Command (RunE, Run, ...) the function fn is stored in, "" if none.
func runFieldOf(w *World, fn *ssa.Function) string {
	out := ""
	for _, f := range w.allFuncsInRepo() {
		forEachInstr(f, func(_ *ssa.BasicBlock, ins ssa.Instruction) {
			st, ok := ins.(*ssa.Store)
			if !ok {
				return
			}
			fa, ok := st.Addr.(*ssa.FieldAddr)
			if !ok {
				return
			}
			tn, fname, _, _ := fieldOf(fa)
			if tn != "Command" {
				return
			}
			v := stripIdentity(st.Val)
			if mc, ok := v.(*ssa.MakeClosure); ok {
				v = mc.Fn
			}
			if v == ssa.Value(fn) {
				out = fname
			}
		})
	}
	return out
}

// errorForcesExit: wherever the error value v is not nil the process ends with a non-zero status: in v's function a nil test of v
// whose non-nil edge cannot leave the function without passing os.Exit(non-zero) (or a wrapper that only exits that way), or v is
// handed - on every path - to a cmd function for whose parameter the same holds.
func errorForcesExit(w *World, v ssa.Value, depth int) bool {
	if depth > 3 || v == nil {
		return false
	}
	var fn *ssa.Function
	switch x := v.(type) {
	case *ssa.Parameter:
		fn = x.Parent()
	case ssa.Instruction:
		fn = x.Parent()
	}
	if fn == nil {
		return false
	}
	exits := func(bb *ssa.BasicBlock) bool {
		for _, ins := range bb.Instrs {
			if ci, ok := ins.(ssa.CallInstruction); ok && exitsNonZero(ci, 0) {
				return true
			}
		}
		return false
	}
	for _, b := range fn.Blocks {
		cond := branchCond(b)
		if cond == nil {
			continue
		}
		x, nn, ok := nilTest(cond)
		if !ok || !sameValue(x, v) {
			continue
		}
		seen := map[*ssa.BasicBlock]bool{}
		stack := []*ssa.BasicBlock{b.Succs[nn]}
		leaks, some := false, false
		for len(stack) > 0 {
			bb := stack[len(stack)-1]
			stack = stack[:len(stack)-1]
			if seen[bb] {
				continue
			}
			seen[bb] = true
			if exits(bb) {
				some = true
				continue
			}
			// handed on to a function that exits on it
			handed := false
			for _, ins := range bb.Instrs {
				if c, ok := ins.(ssa.CallInstruction); ok {
					if h := c.Common().StaticCallee(); h != nil && h.Blocks != nil && h.Pkg == w.Cmd {
						for i, a := range c.Common().Args {
							if sameValue(a, v) && i < len(h.Params) && errorForcesExit(w, h.Params[i], depth+1) {
								handed = true
							}
						}
					}
				}
			}
			if handed {
				some = true
				continue
			}
			if noReturnBlock(bb) {
				continue
			}
			if len(bb.Succs) == 0 {
				leaks = true
			}
			stack = append(stack, bb.Succs...)
		}
		if some && !leaks {
			return true
		}
	}
	// no test here: passed on unconditionally (the call's block dominates every return of the function)
	if v.Referrers() == nil {
		return false
	}
	for _, ref := range *v.Referrers() {
		c, ok := ref.(ssa.CallInstruction)
		if !ok {
			continue
		}
		h := c.Common().StaticCallee()
		if h == nil || h.Blocks == nil || h.Pkg != w.Cmd {
			continue
		}
		dominatesAll := true
		for _, rb := range fn.Blocks {
			if _, isRet := rb.Instrs[len(rb.Instrs)-1].(*ssa.Return); isRet && !c.Block().Dominates(rb) {
				dominatesAll = false
			}
		}
		if !dominatesAll {
			continue
		}
		for i, a := range c.Common().Args {
			if a == v && i < len(h.Params) && errorForcesExit(w, h.Params[i], depth+1) {
				return true
			}
		}
	}
	return false
}
