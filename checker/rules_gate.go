package main

// The "parse unit" view shared by C11/G, C09/error-path and */whole-input.
//
// An entry point (FormatPacketDsl, ParseFile) parses, decides whether the input had syntax errors and only then walks the tree.
// These steps may sit in the entry function or in parser-package helpers it calls (a helper that installs the listener, parses,
// checks for left-over input and returns the tree together with the errors; a helper that walks the tree). The view locates,
// anywhere in that unit: the start-rule call, the end-of-input check, the gates (branches on "errors were reported": HasErrors(),
// len(errors) > 0 on a []SyntaxError that comes from a listener's Errors, err != nil on an error a helper returns iff errors were
// reported) and the tree walks (Accept), and answers ordering / dominance questions across the call structure.

import (
	"go/constant"
	"go/token"
	"go/types"
	"strings"

	"golang.org/x/tools/go/ssa"
)

type parseUnit struct {
	w     *World
	entry *ssa.Function
	fns   map[*ssa.Function]bool
	sites map[*ssa.Function][]ssa.CallInstruction // call sites inside the unit, by callee
}

func newParseUnit(w *World, entry *ssa.Function) *parseUnit {
	u := &parseUnit{w: w, entry: entry, fns: map[*ssa.Function]bool{}, sites: map[*ssa.Function][]ssa.CallInstruction{}}
	var add func(fn *ssa.Function, depth int)
	add = func(fn *ssa.Function, depth int) {
		if u.fns[fn] || depth > 4 {
			return
		}
		u.fns[fn] = true
		for _, a := range fn.AnonFuncs {
			add(a, depth+1)
		}
		forEachInstr(fn, func(_ *ssa.BasicBlock, ins ssa.Instruction) {
			c, ok := ins.(ssa.CallInstruction)
			if !ok {
				return
			}
			g := calleeOf(c)
			if g == nil || g.Blocks == nil || g.Pkg != w.Parser {
				return
			}
			// helpers only: not the visitors themselves (they are reached through Accept)
			if rn := recvNamedCore(g); rn == "PacketDslVisitorImpl" || strings.HasSuffix(rn, "Formattor") || strings.HasSuffix(rn, "Generator") {
				return
			}
			add(g, depth+1)
		})
	}
	add(entry, 0)
	for fn := range u.fns {
		forEachInstr(fn, func(_ *ssa.BasicBlock, ins ssa.Instruction) {
			if c, ok := ins.(ssa.CallInstruction); ok {
				if g := calleeOf(c); g != nil && u.fns[g] {
					u.sites[g] = append(u.sites[g], c)
				}
			}
		})
	}
	return u
}

func (u *parseUnit) funcs() []*ssa.Function {
	var out []*ssa.Function
	for f := range u.fns {
		out = append(out, f)
	}
	sortFuncsByName(out)
	return out
}

// isStartRuleCall: a call of a start-rule method of the generated parser.
func (u *parseUnit) isStartRuleCall(ins ssa.Instruction) (*PRule, bool) {
	c, ok := ins.(*ssa.Call)
	if !ok {
		return nil, false
	}
	f := c.Call.StaticCallee()
	if f == nil || f.Pkg != u.w.Grammar || f.Signature.Recv() == nil || f.Signature.Params().Len() != 0 {
		return nil, false
	}
	if !strings.HasSuffix(types.TypeString(f.Signature.Recv().Type(), shortQual), "Parser") {
		return nil, false
	}
	for _, pr := range u.w.G4.PRules {
		if title(pr.Name) == f.Name() {
			return pr, true
		}
	}
	return nil, false
}

func isAcceptCall(ins ssa.Instruction) bool {
	c, ok := ins.(ssa.CallInstruction)
	return ok && c.Common().IsInvoke() && c.Common().Method.Name() == "Accept"
}

// errorsOfListener: v is (derived from) the Errors of a SyntaxErrorListener; returns the listener value(s).
func (u *parseUnit) errorsOfListener(v ssa.Value, depth int) []ssa.Value {
	if depth > 5 || v == nil {
		return nil
	}
	v = stripIdentity(v)
	switch x := v.(type) {
	case *ssa.UnOp:
		if x.Op == token.MUL {
			if fa, ok := x.X.(*ssa.FieldAddr); ok {
				if tn, f, _, _ := fieldOf(fa); tn == "SyntaxErrorListener" && f == "Errors" {
					return []ssa.Value{stripIdentity(fa.X)}
				}
			}
		}
	case *ssa.Extract:
		if c, ok := x.Tuple.(*ssa.Call); ok {
			if g := calleeOf(c); g != nil && u.fns[g] {
				var out []ssa.Value
				for _, b := range g.Blocks {
					if ret, ok := b.Instrs[len(b.Instrs)-1].(*ssa.Return); ok && x.Index < len(ret.Results) {
						out = append(out, u.errorsOfListener(ret.Results[x.Index], depth+1)...)
					}
				}
				return out
			}
		}
	case *ssa.Call:
		if g := calleeOf(x); g != nil && u.fns[g] {
			var out []ssa.Value
			for _, b := range g.Blocks {
				if ret, ok := b.Instrs[len(b.Instrs)-1].(*ssa.Return); ok && len(ret.Results) == 1 {
					out = append(out, u.errorsOfListener(ret.Results[0], depth+1)...)
				}
			}
			return out
		}
	case *ssa.Phi:
		var out []ssa.Value
		for _, e := range x.Edges {
			out = append(out, u.errorsOfListener(e, depth+1)...)
		}
		return out
	}
	return nil
}

// gateOf: is cond a test of "syntax errors were reported"? errSucc: the successor taken when there are errors.
func (u *parseUnit) gateOf(cond ssa.Value) (errSucc int, listeners []ssa.Value, ok bool) {
	val := true
	for {
		if n, isN := cond.(*ssa.UnOp); isN && n.Op == token.NOT {
			cond, val = n.X, !val
			continue
		}
		break
	}
	succ := func(errorsWhenTrue bool) int {
		if errorsWhenTrue == val {
			return 0
		}
		return 1
	}
	switch x := cond.(type) {
	case *ssa.Call:
		if f := x.Call.StaticCallee(); f != nil && f.Name() == "HasErrors" && recvNamed(f) == "SyntaxErrorListener" && len(x.Call.Args) > 0 {
			return succ(true), []ssa.Value{stripIdentity(x.Call.Args[0])}, true
		}
	case *ssa.BinOp:
		for i, pair := range [][2]ssa.Value{{x.X, x.Y}, {x.Y, x.X}} {
			k, isK := pair[1].(*ssa.Const)
			if !isK {
				continue
			}
			op := x.Op
			if i == 1 {
				switch op {
				case token.LSS:
					op = token.GTR
				case token.GTR:
					op = token.LSS
				case token.LEQ:
					op = token.GEQ
				case token.GEQ:
					op = token.LEQ
				}
			}
			if call, isC := stripIdentity(pair[0]).(*ssa.Call); isC && k.Value != nil && k.Value.Kind() == constant.Int {
				if bi, isBi := call.Call.Value.(*ssa.Builtin); isBi && bi.Name() == "len" && len(call.Call.Args) == 1 {
					ls := u.errorsOfListener(call.Call.Args[0], 0)
					if len(ls) == 0 {
						continue
					}
					n, _ := constant.Int64Val(k.Value)
					switch {
					case op == token.GTR && n == 0, op == token.NEQ && n == 0, op == token.GEQ && n == 1:
						return succ(true), ls, true
					case op == token.EQL && n == 0, op == token.LEQ && n == 0, op == token.LSS && n == 1:
						return succ(false), ls, true
					}
				}
			}
		}
	}
	return 0, nil, false
}

// gated: every way to reach ins (inside the unit, from the entry) passes the no-error edge of a gate.
func (u *parseUnit) gated(ins ssa.Instruction, depth int, listeners map[ssa.Value]bool) bool {
	if depth > 4 {
		return false
	}
	fn := ins.Parent()
	for _, b := range fn.Blocks {
		cond := branchCond(b)
		if cond == nil {
			continue
		}
		errSucc, ls, ok := u.gateOf(cond)
		if !ok {
			continue
		}
		if edgeDominates(b, 1-errSucc, ins.Block()) {
			for _, l := range ls {
				listeners[l] = true
			}
			return true
		}
	}
	if fn == u.entry || len(u.sites[fn]) == 0 {
		return false
	}
	for _, s := range u.sites[fn] {
		if !u.gated(s, depth+1, listeners) {
			return false
		}
	}
	return true
}

// contains: does fn's closure within the unit contain an instruction satisfying pred?
func (u *parseUnit) contains(fn *ssa.Function, pred func(ssa.Instruction) bool, seen map[*ssa.Function]bool) bool {
	if seen[fn] {
		return false
	}
	seen[fn] = true
	found := false
	forEachInstr(fn, func(_ *ssa.BasicBlock, ins ssa.Instruction) {
		if found {
			return
		}
		if pred(ins) {
			found = true
			return
		}
		if c, ok := ins.(ssa.CallInstruction); ok {
			if g := calleeOf(c); g != nil && u.fns[g] && u.contains(g, pred, seen) {
				found = true
			}
		}
	})
	return found
}

// sitesIn: the instructions of fn that are the event or a call into a unit function whose closure contains it.
func (u *parseUnit) sitesIn(fn *ssa.Function, pred func(ssa.Instruction) bool) []ssa.Instruction {
	var out []ssa.Instruction
	forEachInstr(fn, func(_ *ssa.BasicBlock, ins ssa.Instruction) {
		if pred(ins) {
			out = append(out, ins)
			return
		}
		if c, ok := ins.(ssa.CallInstruction); ok {
			if g := calleeOf(c); g != nil && u.fns[g] && u.contains(g, pred, map[*ssa.Function]bool{}) {
				out = append(out, ins)
			}
		}
	})
	return out
}

// orderedBefore: on every path the event a happens before the event b (both located anywhere in the unit): in their lowest common
// function the site of a dominates the site of b; if both are reached through the same call, the question is asked inside the callee.
func (u *parseUnit) orderedBefore(fn *ssa.Function, a, b func(ssa.Instruction) bool, depth int) bool {
	if depth > 4 {
		return false
	}
	as, bs := u.sitesIn(fn, a), u.sitesIn(fn, b)
	if len(as) == 0 || len(bs) == 0 {
		return false
	}
	for _, sb := range bs {
		ok := false
		for _, sa := range as {
			if sa == sb {
				// both inside the same callee
				if c, isCall := sa.(ssa.CallInstruction); isCall {
					if g := calleeOf(c); g != nil && u.fns[g] && u.orderedBefore(g, a, b, depth+1) {
						ok = true
					}
				}
				continue
			}
			if instrDominates(sa, sb) {
				ok = true
			}
		}
		if !ok {
			return false
		}
	}
	return true
}
