package main

import (
	"fmt"
	"go/types"
	"sort"
	"strings"

	"golang.org/x/tools/go/ssa"
)

func init() {
	register("C13", "Determinism as non-interference, decided from the shape of every function reachable from cmd.Compile: "+
		"(1) every range over a map is classified by the effects inside its loop (direct and through callees): commutative effects (map insert keyed by the iteration element, file per key, append that is sorted before use) pass, ordered effects (write to a builder/buffer/writer living outside the loop, string accumulation, unsorted append, store or return of an iteration-dependent value) fail; "+
		"(2) no call to an ambient input (clock, random, environment, pid, hostname, cwd, NumCPU) and no pointer-address formatting; (3) no goroutines, channels or sync. "+
		"If 1-3 hold the emitted bytes and file names are a function of (DSL text, flags). Decides the structural necessary-and-sufficient shape inside the repo's own code; it does not run the compiler.", runC13)
}

var builderWriters = map[string]bool{
	"(*strings.Builder).WriteString": true, "(*strings.Builder).WriteByte": true, "(*strings.Builder).WriteRune": true, "(*strings.Builder).Write": true,
	"(*bytes.Buffer).WriteString": true, "(*bytes.Buffer).WriteByte": true, "(*bytes.Buffer).WriteRune": true, "(*bytes.Buffer).Write": true,
	"(*bufio.Writer).WriteString": true, "(*bufio.Writer).Write": true, "(*bufio.Writer).WriteByte": true, "(*bufio.Writer).WriteRune": true,
}

var fprintFuncs = map[string]bool{"fmt.Fprintf": true, "fmt.Fprint": true, "fmt.Fprintln": true, "io.WriteString": true}

var ambientCalls = []string{"time.Now", "time.Since", "time.Until", "math/rand.", "math/rand/v2.", "crypto/rand.", "os.Getenv", "os.LookupEnv", "os.Environ",
	"os.Getpid", "os.Getppid", "os.Hostname", "os.Getwd", "os.Getuid", "os.Getgid", "os.UserHomeDir", "os.TempDir", "os.MkdirTemp", "os.CreateTemp",
	"runtime.NumCPU", "runtime.NumGoroutine", "runtime.GOMAXPROCS", "(reflect.Value).MapKeys", "(reflect.Value).MapRange", "(*reflect.MapIter).Next", "os/user."}

// writerParamSummary: for each function, the set of parameter indices (receiver = index 0 when present)
// such that the function may write to a builder/buffer/writer reachable from that parameter.
func writerParamSummary(w *World, funcs []*ssa.Function) map[*ssa.Function]map[int]bool {
	sum := map[*ssa.Function]map[int]bool{}
	paramIndex := func(fn *ssa.Function, v ssa.Value) int {
		root := valueRoot(v)
		for i, p := range fn.Params {
			if root == ssa.Value(p) {
				return i
			}
		}
		for i, fv := range fn.FreeVars {
			if root == ssa.Value(fv) {
				return 1000 + i
			}
		}
		return -1
	}
	changed := true
	for changed {
		changed = false
		for _, fn := range funcs {
			forEachInstr(fn, func(b *ssa.BasicBlock, ins ssa.Instruction) {
				call, ok := ins.(ssa.CallInstruction)
				if !ok {
					return
				}
				cc := call.Common()
				mark := func(v ssa.Value) {
					if i := paramIndex(fn, v); i >= 0 {
						if sum[fn] == nil {
							sum[fn] = map[int]bool{}
						}
						if !sum[fn][i] {
							sum[fn][i] = true
							changed = true
						}
					}
				}
				if f := cc.StaticCallee(); f != nil {
					name := f.String()
					if builderWriters[name] && len(cc.Args) > 0 {
						mark(cc.Args[0])
					} else if fprintFuncs[name] && len(cc.Args) > 0 {
						mark(cc.Args[0])
					} else if s := sum[f]; s != nil {
						for i := range s {
							if i < len(cc.Args) {
								mark(cc.Args[i])
							}
						}
					}
				} else if cc.IsInvoke() && (cc.Method.Name() == "Write" || cc.Method.Name() == "WriteString") {
					mark(cc.Value)
				}
			})
		}
	}
	return sum
}

// statefulFuncs: repo functions that (transitively) write to storage that outlives the call - per-instance generator state
// (visited sets), package-level variables, or model objects. Calling one from inside a range over a map makes the
// iterations order-dependent.
func statefulFuncs(w *World) map[*ssa.Function]string {
	out := map[*ssa.Function]string{}
	for _, fn := range w.srcFuncs {
		forEachInstr(fn, func(b *ssa.BasicBlock, ins ssa.Instruction) {
			if _, done := out[fn]; done {
				return
			}
			var target ssa.Value
			switch x := ins.(type) {
			case *ssa.Store:
				target = x.Addr
			case *ssa.MapUpdate:
				target = x.Map
			default:
				return
			}
			// a closure assigning to a variable of its enclosing function (`ordered = append(ordered, x)` inside a func literal):
			// the variable outlives the call, later calls see the earlier ones' effect
			if st, ok := ins.(*ssa.Store); ok && fn.Parent() != nil {
				if fv, ok := valueRoot(st.Addr).(*ssa.FreeVar); ok && st.Addr == ssa.Value(fv) {
					if _, isFn := fv.Type().(*types.Pointer).Elem().Underlying().(*types.Signature); !isFn {
						out[fn] = "assigns to " + fv.Name() + ", a variable captured from " + fnKey(fn.Parent())
						return
					}
				}
			}
			cls, via := w.baseClass(target)
			switch cls {
			case "instance":
				out[fn] = "updates generator instance state (" + describeTarget(target) + " of " + via + ")"
			case "global":
				out[fn] = "writes package-level variable " + via
			case "model":
				// the parser fills the model through its own mutators; only generator-side writes matter here
				if fn.Pkg == w.Parser && recvNamedCore(fn) != "PacketDslVisitorImpl" {
					out[fn] = "writes the shared model (" + describeTarget(target) + ")"
				}
			}
		})
	}
	// propagate to callers (static calls only; interface dispatch to generators is through cmd.Compile's closures)
	changed := true
	for changed {
		changed = false
		for _, fn := range w.srcFuncs {
			if _, done := out[fn]; done {
				continue
			}
			forEachInstr(fn, func(b *ssa.BasicBlock, ins ssa.Instruction) {
				if _, done := out[fn]; done {
					return
				}
				c, ok := ins.(ssa.CallInstruction)
				if !ok {
					return
				}
				f := c.Common().StaticCallee()
				if f == nil && !c.Common().IsInvoke() {
					f = closureTarget(c.Common().Value, 0)
				}
				if f != nil {
					if why, ok := out[f]; ok && f != fn {
						out[fn] = "calls " + fnKey(f) + " which " + why
						changed = true
					}
				}
			})
		}
	}
	return out
}

// valueRoot follows address arithmetic, loads and interface wrapping back to a root value.
func valueRoot(v ssa.Value) ssa.Value {
	for i := 0; i < 64; i++ {
		switch x := v.(type) {
		case *ssa.FieldAddr:
			v = x.X
		case *ssa.IndexAddr:
			v = x.X
		case *ssa.Field:
			v = x.X
		case *ssa.ChangeType:
			v = x.X
		case *ssa.ChangeInterface:
			v = x.X
		case *ssa.MakeInterface:
			v = x.X
		case *ssa.Slice:
			v = x.X
		case *ssa.UnOp:
			if x.Op.String() == "*" {
				v = x.X
			} else {
				return v
			}
		default:
			return v
		}
	}
	return v
}

func c13Subjects(w *World) ([]*ssa.Function, error) {
	compile := w.Cmd.Func("Compile")
	if compile == nil {
		return nil, fmt.Errorf("anchor unresolved: cmd.Compile")
	}
	reach := w.compileReach()
	var out []*ssa.Function
	for f := range reach {
		out = append(out, f)
	}
	sort.Slice(out, func(i, j int) bool { return fnKey(out[i]) < fnKey(out[j]) })
	return out, nil
}

func runC13(w *World, r *Report) {
	entryPointsKeepNoState(w, r, "C13", compileEntryRoots(w), "reachable from compile", "compilation writes package-level storage: the output of a compilation depends on the compilations that ran before it in the same process")

	subjects, err := c13Subjects(w)
	if err != nil {
		r.fatal("%v", err)
		return
	}
	r.note("subjects: %d functions reachable from cmd.Compile in model/parser/cmd", len(subjects))
	wsum := writerParamSummary(w, w.srcFuncs)
	stateful := statefulFuncs(w)
	meff := w.modelEffectSummary()

	// ---- rule 1: map iteration order ----
	const ruleMap = "C13/map-order"
	r.floor(ruleMap, 5)
	for _, fn := range subjects {
		loops := mapRangeLoops(fn)
		for li, lp := range loops {
			desc := mapDesc(lp.Range.X)
			key := fmt.Sprintf("%s range(%s)", fnKey(fn), desc)
			if countSame(loops, li, desc) > 0 {
				key += fmt.Sprintf("#%d", countSame(loops, li, desc)+1)
			}
			bad := classifyMapLoop(w, fn, lp, wsum, stateful)
			bad = append(bad, mapLoopModelEffects(w, fn, lp, meff)...)
			bad = append(bad, mapLoopForeignKeys(w, fn, lp)...)
			if len(bad) == 0 {
				r.pass(ruleMap, key, w.instrPos(lp.Range), "only commutative effects in loop")
			} else {
				r.fail(ruleMap, key, w.instrPos(lp.Range), "ordered effect(s) inside range over map: "+strings.Join(bad, "; "))
			}
		}
	}

	// ---- rule 2: ambient inputs ----
	const ruleAmb = "C13/ambient"
	nCalls := 0
	ambientSeen, ambientWhere := map[string]string{}, map[string]string{}
	for _, fn := range subjects {
		found := map[string]string{}
		forEachInstr(fn, func(b *ssa.BasicBlock, ins ssa.Instruction) {
			call, ok := ins.(ssa.CallInstruction)
			if !ok {
				return
			}
			nCalls++
			f := call.Common().StaticCallee()
			if f == nil {
				return
			}
			name := f.String()
			for _, a := range ambientCalls {
				if name == a || (strings.HasSuffix(a, ".") && strings.HasPrefix(name, a)) {
					// what is taken from the ambient value (time.Now().Year()): part of the finding's identity, so that another use of the
					// same source is another finding
					uses := map[string]bool{}
					if v, ok := ins.(ssa.Value); ok && v.Referrers() != nil {
						for _, ref := range *v.Referrers() {
							if c2, ok := ref.(ssa.CallInstruction); ok {
								if f2 := c2.Common().StaticCallee(); f2 != nil {
									uses["."+f2.Name()] = true
								}
							}
							if st, ok := ref.(*ssa.Store); ok {
								// a spilled struct value (time.Time): the methods called on the cell
								if al, ok := st.Addr.(*ssa.Alloc); ok && al.Referrers() != nil {
									for _, r2 := range *al.Referrers() {
										if c2, ok := r2.(ssa.CallInstruction); ok {
											if f2 := c2.Common().StaticCallee(); f2 != nil {
												uses["."+f2.Name()] = true
											}
										}
										if ld, ok := r2.(*ssa.UnOp); ok && ld.Referrers() != nil {
											for _, r3 := range *ld.Referrers() {
												if c3, ok := r3.(ssa.CallInstruction); ok {
													if f3 := c3.Common().StaticCallee(); f3 != nil {
														uses["."+f3.Name()] = true
													}
												}
											}
										}
									}
								}
							}
						}
					}
					k := name
					if len(uses) > 0 {
						k += "()" + strings.Join(sortedBoolKeys(uses), ",")
					}
					found[k] = w.instrPos(ins)
				}
			}
			if why := libraryStateWriter(w, f, 0, map[*ssa.Function]bool{}); why != "" {
				found[name+" (reconfigures its library for the rest of the process: "+why+")"] = w.instrPos(ins)
			}
			if bad := pointerFormatting(call); bad != "" {
				found["fmt address formatting: "+bad] = w.instrPos(ins)
			}
		})
		// findings are keyed by who owns the code (the generator type, or the package for free functions), not by the function the call
		// happens to sit in: moving it into a helper is not a new finding
		owner := recvNamedCore(fn)
		if owner == "" && fn.Pkg != nil {
			owner = "package " + fn.Pkg.Pkg.Name()
		}
		for _, name := range sortedKeys(found) {
			k := owner + " calls " + name
			if ambientSeen[k] == "" {
				ambientSeen[k] = found[name]
				ambientWhere[k] = fnKey(fn)
			} else {
				ambientWhere[k] += ", " + fnKey(fn)
			}
		}
		if len(found) == 0 {
			r.pass(ruleAmb, fnKey(fn), w.pos(fn.Pos()), "no ambient-input call")
		}
	}
	for _, k := range sortedKeys(ambientSeen) {
		r.fail(ruleAmb, k, ambientSeen[k], "ambient input reachable from cmd.Compile (in "+ambientWhere[k]+"): output may differ between runs")
	}
	r.note("call sites scanned for ambient inputs: %d", nCalls)

	// ---- rule 3: no concurrency ----
	const ruleConc = "C13/no-concurrency"
	for _, fn := range subjects {
		var bad []string
		forEachInstr(fn, func(b *ssa.BasicBlock, ins ssa.Instruction) {
			switch x := ins.(type) {
			case *ssa.Go:
				bad = append(bad, "go statement at "+w.instrPos(ins))
			case *ssa.Select:
				bad = append(bad, "select at "+w.instrPos(ins))
			case *ssa.Send:
				bad = append(bad, "channel send at "+w.instrPos(ins))
			case *ssa.MakeChan:
				bad = append(bad, "make(chan) at "+w.instrPos(ins))
			case *ssa.UnOp:
				if x.Op.String() == "<-" {
					bad = append(bad, "channel receive at "+w.instrPos(ins))
				}
			case ssa.CallInstruction:
				if f := x.Common().StaticCallee(); f != nil && (strings.HasPrefix(f.String(), "(*sync.") || strings.HasPrefix(f.String(), "sync.") || strings.HasPrefix(f.String(), "golang.org/x/sync")) {
					bad = append(bad, f.String()+" at "+w.instrPos(ins))
				}
			}
		})
		if len(bad) > 0 {
			r.fail(ruleConc, fnKey(fn), w.pos(fn.Pos()), strings.Join(bad, "; "))
		} else {
			r.pass(ruleConc, fnKey(fn), w.pos(fn.Pos()), "")
		}
	}
	r.floor(ruleConc, 60)
	// the output of one compilation does not depend on what the process compiled before: nothing under cmd.Compile writes into an
	// object that outlives the compilation through a shared pointer (package-level defaults copied shallowly, MetaData entries)
	attributeIsolation(w, r, "C13")
	r.assume("ANTLR runtime, strcase, cobra and html/template (sorted map ranges) are deterministic")
	r.assume("strcase.ToSnake is injective on the packet names of one DSL (file-name keyed map inserts commute only then)")
	r.assume("writes to os.Stdout (progress chatter) are not part of C13's observable")
}

func countSame(loops []rangeLoop, idx int, desc string) int {
	n := 0
	for i := 0; i < idx; i++ {
		if mapDesc(loops[i].Range.X) == desc {
			n++
		}
	}
	return n
}

// mapDesc names the ranged map by access path (field / global / param), never by line.
func mapDesc(v ssa.Value) string {
	switch x := v.(type) {
	case *ssa.UnOp:
		if x.Op.String() == "*" {
			return mapDesc(x.X)
		}
	case *ssa.FieldAddr:
		_, f, _, _ := fieldOf(x)
		return "." + f
	case *ssa.Field:
		_, f, _, _ := fieldOf(x)
		return "." + f
	case *ssa.Global:
		return x.Name()
	case *ssa.Parameter:
		return "param:" + x.Name()
	case *ssa.MakeMap:
		return "local-map"
	case *ssa.Phi:
		return "phi"
	case *ssa.Call:
		return "call:" + calleeName(x)
	case *ssa.Alloc:
		return "local"
	case *ssa.FreeVar:
		return "freevar:" + x.Name()
	}
	return v.Name()
}

// iterTaint: values data-dependent on the loop's Next result.
func iterTaint(fn *ssa.Function, nx *ssa.Next) map[ssa.Value]bool {
	t := map[ssa.Value]bool{nx: true}
	changed := true
	for changed {
		changed = false
		forEachInstr(fn, func(b *ssa.BasicBlock, ins ssa.Instruction) {
			// object taint: a tainted value stored into a local aggregate (e.g. the [n]any of a variadic call) taints the aggregate
			if st, isSt := ins.(*ssa.Store); isSt && t[st.Val] {
				if al, isAl := addrRoot(st.Addr).(*ssa.Alloc); isAl && !t[al] {
					t[al] = true
					changed = true
				}
			}
			v, ok := ins.(ssa.Value)
			if !ok || t[v] {
				return
			}
			for _, op := range ins.Operands(nil) {
				if *op != nil && t[*op] {
					// the "ok" component of Next is not iteration *content*
					if ex, isEx := ins.(*ssa.Extract); isEx && ex.Tuple == ssa.Value(nx) && ex.Index == 0 {
						return
					}
					t[v] = true
					changed = true
					return
				}
			}
		})
	}
	return t
}

func inLoop(lp rangeLoop, ins ssa.Instruction) bool { return lp.Blocks[ins.Block()] }

func definedOutsideLoop(lp rangeLoop, v ssa.Value) bool {
	root := valueRoot(v)
	if ins, ok := root.(ssa.Instruction); ok {
		return !lp.Blocks[ins.Block()]
	}
	return true // params, globals, freevars
}

func isSortCall(c ssa.CallInstruction) bool {
	f := c.Common().StaticCallee()
	if f == nil {
		return false
	}
	n := f.String()
	if i := strings.Index(n, "["); i > 0 { // generic instantiation
		n = n[:i]
	}
	switch n {
	case "sort.Strings", "sort.Ints", "sort.Float64s", "sort.Slice", "sort.SliceStable", "sort.Sort", "sort.Stable",
		"slices.Sort", "slices.SortFunc", "slices.SortStableFunc":
		return true
	}
	return false
}

func classifyMapLoop(w *World, fn *ssa.Function, lp rangeLoop, wsum map[*ssa.Function]map[int]bool, stateful map[*ssa.Function]string) []string {
	return classifyLoopBody(w, fn, lp, lp.Next.Block(), iterTaint(fn, lp.Next), wsum, stateful, 0)
}

// orderFreeConsumers: the slice phi (accumulated in map order inside lp) is consumed, outside lp, only by len() and by loops over
// its elements whose bodies have none but commutative effects - then the order it was filled in cannot show.
func orderFreeConsumers(w *World, fn *ssa.Function, phi *ssa.Phi, lp rangeLoop, wsum map[*ssa.Function]map[int]bool, stateful map[*ssa.Function]string, depth int) bool {
	if depth > 1 || phi.Referrers() == nil {
		return false
	}
	any := false
	for _, ref := range *phi.Referrers() {
		if lp.Blocks[ref.Block()] {
			continue
		}
		switch x := ref.(type) {
		case *ssa.DebugRef:
		case *ssa.Call:
			if bi, ok := x.Call.Value.(*ssa.Builtin); !ok || (bi.Name() != "len" && bi.Name() != "cap") {
				return false
			}
		case *ssa.IndexAddr:
			var cnt *ssa.Phi
			switch ix := x.Index.(type) {
			case *ssa.BinOp:
				cnt, _ = ix.X.(*ssa.Phi)
			case *ssa.Phi:
				cnt = ix
			}
			if cnt == nil {
				return false
			}
			blocks := naturalLoop(cnt.Block())
			if len(blocks) < 2 || !blocks[x.Block()] {
				return false
			}
			// taint: everything computed from the element
			seeds := map[ssa.Value]bool{x: true}
			t := iterTaintFrom(fn, seeds)
			lp2 := rangeLoop{Blocks: blocks}
			if bad := classifyLoopBody(w, fn, lp2, cnt.Block(), t, wsum, stateful, depth+1); len(bad) > 0 {
				return false
			}
			any = true
		default:
			return false
		}
	}
	return any
}

func iterTaintFrom(fn *ssa.Function, seeds map[ssa.Value]bool) map[ssa.Value]bool {
	t := map[ssa.Value]bool{}
	for k := range seeds {
		t[k] = true
	}
	for changed := true; changed; {
		changed = false
		forEachInstr(fn, func(b *ssa.BasicBlock, ins ssa.Instruction) {
			if st, isSt := ins.(*ssa.Store); isSt && t[st.Val] {
				if al, isAl := addrRoot(st.Addr).(*ssa.Alloc); isAl && !t[al] {
					t[al] = true
					changed = true
				}
			}
			v, ok := ins.(ssa.Value)
			if !ok || t[v] {
				return
			}
			for _, op := range ins.Operands(nil) {
				if *op != nil && t[*op] {
					t[v] = true
					changed = true
					return
				}
			}
		})
	}
	return t
}

func classifyLoopBody(w *World, fn *ssa.Function, lp rangeLoop, header *ssa.BasicBlock, taint map[ssa.Value]bool, wsum map[*ssa.Function]map[int]bool, stateful map[*ssa.Function]string, depth int) []string {
	var bad []string
	for _, b := range fn.Blocks {
		if !lp.Blocks[b] {
			continue
		}
		for _, ins := range b.Instrs {
			switch x := ins.(type) {
			case *ssa.Phi:
				if b != header {
					continue
				}
				// accumulation across iterations: a header phi with an incoming edge from inside the loop
				accum := false
				for i, e := range x.Edges {
					if lp.Blocks[b.Preds[i]] && e != ssa.Value(x) {
						accum = true
					}
				}
				if !accum {
					continue
				}
				if bt, ok := x.Type().Underlying().(*types.Basic); ok && bt.Info()&types.IsString != 0 {
					bad = append(bad, "string accumulated across iterations at "+w.instrPos(firstInLoopDef(x, lp)))
				}
				if _, ok := x.Type().Underlying().(*types.Slice); ok {
					if !sortedBeforeUse(x, lp) && !orderFreeConsumers(w, fn, x, lp, wsum, stateful, depth) {
						bad = append(bad, "slice appended across iterations and used without sorting ("+x.Name()+")")
					}
				}
			case *ssa.MapUpdate:
				if definedOutsideLoop(lp, x.Map) && !taint[x.Key] {
					bad = append(bad, "map insert under a key that does not depend on the iteration element (last one wins) at "+w.instrPos(ins))
				} else if definedOutsideLoop(lp, x.Map) {
					if lossy := lossyKeyOf(w, x.Key, taint, 0); lossy != "" {
						bad = append(bad, fmt.Sprintf("map insert under a key that depends on the iteration element only through %s, which maps different elements to the same key (`AB` and `Ab`): which of two colliding entries stays depends on the iteration order (at %s)", lossy, w.instrPos(ins)))
					}
				}
			case *ssa.Store:
				if definedOutsideLoop(lp, x.Addr) && taint[x.Val] {
					if al, ok := valueRoot(x.Addr).(*ssa.Alloc); ok {
						if _, isSl := al.Type().(*types.Pointer).Elem().Underlying().(*types.Slice); isSl && allocSortedAfter(al, lp) {
							continue
						}
					}
					bad = append(bad, "store of an iteration-dependent value into storage that outlives the loop at "+w.instrPos(ins))
				}
			case *ssa.Return:
				for _, res := range x.Results {
					if taint[res] && !isErrorType(res.Type()) {
						bad = append(bad, "return of an iteration-dependent value from inside the loop (first match wins) at "+w.instrPos(ins))
					}
				}
			case ssa.CallInstruction:
				cc := x.Common()
				f := cc.StaticCallee()
				if f == nil && !cc.IsInvoke() {
					// a call of a function variable / closure: judged like a static call when the target is known
					if t := closureTarget(cc.Value, 0); t != nil {
						if why, ok := stateful[t]; ok {
							bad = append(bad, fmt.Sprintf("call to %s, which %s: the effect of one iteration is visible to the next, so results depend on iteration order (at %s)", fnKey(t), why, w.instrPos(ins)))
						}
						continue
					}
				}
				if f != nil {
					name := f.String()
					if (builderWriters[name] || fprintFuncs[name]) && len(cc.Args) > 0 {
						if fprintFuncs[name] && isStdStream(cc.Args[0]) {
							continue
						}
						if definedOutsideLoop(lp, cc.Args[0]) {
							bad = append(bad, fmt.Sprintf("%s on an object that outlives the loop at %s", name, w.instrPos(ins)))
						}
						continue
					}
					if why, ok := stateful[f]; ok {
						bad = append(bad, fmt.Sprintf("call to %s, which %s: the effect of one iteration is visible to the next, so results depend on iteration order (at %s)", fnKey(f), why, w.instrPos(ins)))
					}
					if s := wsum[f]; s != nil {
						for i := range s {
							if i < len(cc.Args) && definedOutsideLoop(lp, cc.Args[i]) && isWriterish(cc.Args[i].Type()) {
								bad = append(bad, fmt.Sprintf("call to %s writes (transitively) to a builder/writer argument that outlives the loop at %s", fnKey(f), w.instrPos(ins)))
							}
						}
					}
				} else if cc.IsInvoke() && (cc.Method.Name() == "Write" || cc.Method.Name() == "WriteString") {
					if definedOutsideLoop(lp, cc.Value) && !isStdStream(cc.Value) {
						bad = append(bad, "Write on an io.Writer that outlives the loop at "+w.instrPos(ins))
					}
				}
			}
		}
	}
	// file-system effects and a way out of the loop before it is exhausted (return / break): which files exist afterwards depends
	// on how many iterations ran before the exit, i.e. on the order
	fsx := fsEffectFuncs(w)
	var fsAt, exitAt ssa.Instruction
	for _, b := range fn.Blocks {
		if !lp.Blocks[b] {
			continue
		}
		for _, ins := range b.Instrs {
			if c, ok := ins.(ssa.CallInstruction); ok && fsAt == nil {
				f := c.Common().StaticCallee()
				if f == nil && !c.Common().IsInvoke() {
					f = closureTarget(c.Common().Value, 0)
				}
				if f != nil && (isFsEffect(f) || fsx[f]) {
					fsAt = ins
				}
			}
			if _, ok := ins.(*ssa.Return); ok && exitAt == nil {
				exitAt = ins
			}
		}
		if b != header && exitAt == nil {
			for _, s := range b.Succs {
				if !lp.Blocks[s] && len(b.Instrs) > 0 {
					exitAt = b.Instrs[len(b.Instrs)-1]
				}
			}
		}
	}
	if fsAt != nil && exitAt != nil {
		bad = append(bad, fmt.Sprintf("files are created / written inside the loop (%s at %s) and the loop can be left before it is exhausted (%s): after a failure the set of files on disk depends on the iteration order", calleeName(fsAt.(ssa.CallInstruction)), w.instrPos(fsAt), w.instrPos(exitAt)))
	}
	// a `break` carrying state out: covered by Store/Phi rules above (values leave only through those or returns)
	// phis *after* the loop that merge iteration-dependent values (e.g. found := v; break)
	for _, b := range fn.Blocks {
		if lp.Blocks[b] {
			continue
		}
		for _, ins := range b.Instrs {
			phi, ok := ins.(*ssa.Phi)
			if !ok {
				break
			}
			for i, e := range phi.Edges {
				if lp.Blocks[b.Preds[i]] && taint[e] && b.Preds[i] != header {
					bad = append(bad, "iteration-dependent value leaves the loop through an early exit at "+w.instrPos(phi))
				}
			}
		}
	}
	sort.Strings(bad)
	return uniqStrings(bad)
}

func uniqStrings(in []string) []string {
	var out []string
	for i, s := range in {
		if i == 0 || s != in[i-1] {
			out = append(out, s)
		}
	}
	return out
}

func firstInLoopDef(phi *ssa.Phi, lp rangeLoop) ssa.Instruction {
	for i, e := range phi.Edges {
		if lp.Blocks[phi.Block().Preds[i]] {
			if ins, ok := e.(ssa.Instruction); ok {
				return ins
			}
		}
	}
	return phi
}

func isErrorType(t types.Type) bool {
	return types.Identical(t, types.Universe.Lookup("error").Type())
}

func isStdStream(v ssa.Value) bool {
	root := valueRoot(v)
	if g, ok := root.(*ssa.Global); ok && g.Pkg != nil && g.Pkg.Pkg.Path() == "os" && (g.Name() == "Stdout" || g.Name() == "Stderr") {
		return true
	}
	return false
}

func isWriterish(t types.Type) bool {
	s := t.String()
	return strings.Contains(s, "strings.Builder") || strings.Contains(s, "bytes.Buffer") || strings.Contains(s, "io.Writer") || strings.Contains(s, "bufio.Writer") || strings.Contains(s, "os.File")
}

// sortedBeforeUse: the slice phi accumulated in the loop is passed to a sort call that dominates every other use outside the loop.
func sortedBeforeUse(phi *ssa.Phi, lp rangeLoop) bool {
	var sortCall ssa.Instruction
	var others []ssa.Instruction
	for _, ref := range *phi.Referrers() {
		if lp.Blocks[ref.Block()] {
			continue
		}
		if c, ok := ref.(ssa.CallInstruction); ok && isSortCall(c) {
			if sortCall == nil {
				sortCall = ref
			}
			continue
		}
		others = append(others, ref)
	}
	if sortCall == nil {
		// no use at all outside the loop is fine too
		return len(others) == 0
	}
	for _, o := range others {
		if !instrDominates(sortCall, o) {
			return false
		}
	}
	return true
}

func allocSortedAfter(al *ssa.Alloc, lp rangeLoop) bool {
	// every load of the alloc outside the loop must be dominated by a sort call on a load of it
	var sortCall ssa.Instruction
	var loads []ssa.Instruction
	for _, ref := range *al.Referrers() {
		if lp.Blocks[ref.Block()] {
			continue
		}
		if u, ok := ref.(*ssa.UnOp); ok {
			isSort := false
			for _, r2 := range *u.Referrers() {
				if c, ok := r2.(ssa.CallInstruction); ok && isSortCall(c) && !lp.Blocks[r2.Block()] {
					if sortCall == nil {
						sortCall = r2
					}
					isSort = true
				}
			}
			if !isSort {
				loads = append(loads, ref)
			}
		}
	}
	if sortCall == nil {
		return false
	}
	for _, l := range loads {
		// loads before the loop (initialisation) are fine
		if !instrDominates(sortCall, l) && !instrDominates(l, lp.Range) {
			return false
		}
	}
	return true
}

func instrDominates(a, b ssa.Instruction) bool {
	if a.Block() == b.Block() {
		for _, i := range a.Block().Instrs {
			if i == a {
				return true
			}
			if i == b {
				return false
			}
		}
	}
	return a.Block().Dominates(b.Block())
}

// pointerFormatting flags %p and %v/%s/%d of address-printing operands in fmt formatting calls with constant format.
func pointerFormatting(call ssa.CallInstruction) string {
	f := call.Common().StaticCallee()
	if f == nil {
		return ""
	}
	idx := -1
	switch f.String() {
	case "fmt.Sprintf", "fmt.Printf", "fmt.Errorf":
		idx = 0
	case "fmt.Fprintf":
		idx = 1
	default:
		return ""
	}
	args := call.Common().Args
	if idx >= len(args) {
		return ""
	}
	format, ok := constString(args[idx])
	if !ok {
		return ""
	}
	// collect variadic operands
	var ops []ssa.Value
	if idx+1 < len(args) {
		ops = variadicOperands(args[idx+1])
	}
	verbs := parseVerbs(format)
	for i, vb := range verbs {
		if vb == 'p' {
			return "%p in " + fmt.Sprintf("%q", format)
		}
		if i < len(ops) && ops[i] != nil && (vb == 'v' || vb == 's' || vb == 'd' || vb == 'x') {
			t := unwrap(ops[i]).Type()
			if printsAddress(t, 0, map[types.Type]bool{}) {
				return fmt.Sprintf("%%%c of %s in %q", vb, t.String(), format)
			}
		}
	}
	return ""
}

func parseVerbs(format string) []byte {
	var out []byte
	for i := 0; i < len(format); i++ {
		if format[i] != '%' {
			continue
		}
		i++
		for i < len(format) && strings.ContainsRune("+-# 0123456789.*[]", rune(format[i])) {
			i++
		}
		if i < len(format) {
			if format[i] != '%' {
				out = append(out, format[i])
			}
		}
	}
	return out
}

// variadicOperands recovers the values stored into the []any slice built for a variadic call.
func variadicOperands(v ssa.Value) []ssa.Value {
	sl, ok := v.(*ssa.Slice)
	if !ok {
		return nil
	}
	al, ok := sl.X.(*ssa.Alloc)
	if !ok {
		return nil
	}
	arr, ok := al.Type().(*types.Pointer).Elem().Underlying().(*types.Array)
	if !ok {
		return nil
	}
	out := make([]ssa.Value, arr.Len())
	for _, ref := range *al.Referrers() {
		ia, ok := ref.(*ssa.IndexAddr)
		if !ok {
			continue
		}
		c, ok := ia.Index.(*ssa.Const)
		if !ok {
			continue
		}
		k := int(c.Int64())
		for _, r2 := range *ia.Referrers() {
			if st, ok := r2.(*ssa.Store); ok && st.Addr == ssa.Value(ia) && k < len(out) {
				out[k] = st.Val
			}
		}
	}
	return out
}

func printsAddress(t types.Type, depth int, seen map[types.Type]bool) bool {
	if seen[t] {
		return false
	}
	seen[t] = true
	if implementsStringerOrError(t) {
		return false
	}
	switch u := t.Underlying().(type) {
	case *types.Pointer:
		if depth > 0 {
			return true
		}
		if _, ok := u.Elem().Underlying().(*types.Struct); ok {
			return printsAddress(u.Elem(), depth+1, seen)
		}
		if _, ok := u.Elem().Underlying().(*types.Array); ok {
			return printsAddress(u.Elem(), depth+1, seen)
		}
		if _, ok := u.Elem().Underlying().(*types.Slice); ok {
			return printsAddress(u.Elem(), depth+1, seen)
		}
		if _, ok := u.Elem().Underlying().(*types.Map); ok {
			return printsAddress(u.Elem(), depth+1, seen)
		}
		return true
	case *types.Chan, *types.Signature:
		return true
	case *types.Basic:
		return u.Kind() == types.UnsafePointer || u.Kind() == types.Uintptr
	case *types.Struct:
		for i := 0; i < u.NumFields(); i++ {
			if printsAddress(u.Field(i).Type(), depth+1, seen) {
				return true
			}
		}
	case *types.Slice:
		return printsAddress(u.Elem(), depth+1, seen)
	case *types.Array:
		return printsAddress(u.Elem(), depth+1, seen)
	case *types.Map:
		return printsAddress(u.Key(), depth+1, seen) || printsAddress(u.Elem(), depth+1, seen)
	}
	return false
}

func implementsStringerOrError(t types.Type) bool {
	for _, T := range []types.Type{t, types.NewPointer(t)} {
		ms := types.NewMethodSet(T)
		for i := 0; i < ms.Len(); i++ {
			n := ms.At(i).Obj().Name()
			if n == "String" || n == "Error" {
				if sig, ok := ms.At(i).Type().(*types.Signature); ok && sig.Params().Len() == 0 && sig.Results().Len() == 1 {
					return true
				}
			}
		}
	}
	return false
}

// isFsEffect: a standard-library call that creates, writes, renames or removes a file or directory.
func isFsEffect(f *ssa.Function) bool {
	switch f.String() {
	case "os.Create", "os.WriteFile", "os.MkdirAll", "os.Mkdir", "os.OpenFile", "os.Remove", "os.RemoveAll", "os.Rename", "os.CreateTemp", "os.MkdirTemp",
		"io/ioutil.WriteFile", "(*os.File).Write", "(*os.File).WriteString", "(*os.File).WriteAt", "(*os.File).Truncate", "os.Truncate", "os.Symlink", "os.Link":
		return true
	}
	return false
}

var fsEffectMemo map[*ssa.Function]bool

// fsEffectFuncs: repo functions that (transitively, through static calls and closures) have a file-system effect.
func fsEffectFuncs(w *World) map[*ssa.Function]bool {
	if fsEffectMemo != nil {
		return fsEffectMemo
	}
	out := map[*ssa.Function]bool{}
	for changed := true; changed; {
		changed = false
		for _, fn := range w.srcFuncs {
			if out[fn] {
				continue
			}
			forEachInstr(fn, func(_ *ssa.BasicBlock, ins ssa.Instruction) {
				c, ok := ins.(ssa.CallInstruction)
				if !ok || out[fn] {
					return
				}
				f := c.Common().StaticCallee()
				if f == nil && !c.Common().IsInvoke() {
					f = closureTarget(c.Common().Value, 0)
				}
				if f != nil && (isFsEffect(f) || out[f]) {
					out[fn] = true
					changed = true
				}
			})
			for _, a := range fn.AnonFuncs {
				if out[a] && !out[fn] {
					// a closure with the effect makes its maker a carrier only when called; handled by closureTarget above
					_ = a
				}
			}
		}
	}
	fsEffectMemo = out
	return out
}

// libraryStateWriter: f belongs to a third-party library (not the standard library, not the ANTLR runtime, not the repo) and
// - itself or through functions of the same package - stores into a package-level variable of that library or modifies a
// package-level sync.Map. Such a call changes what later calls into the library return, for the rest of the process: the text
// produced before it and after it (next target, next compilation in the same process) differs for the same input.
func libraryStateWriter(w *World, f *ssa.Function, depth int, seen map[*ssa.Function]bool) string {
	if f == nil || f.Pkg == nil || f.Blocks == nil || depth > 4 || seen[f] {
		return ""
	}
	seen[f] = true
	path := f.Pkg.Pkg.Path()
	if !strings.Contains(strings.SplitN(path, "/", 2)[0], ".") { // standard library
		return ""
	}
	if strings.Contains(path, "antlr4-go/antlr") || f.Pkg == w.Parser || f.Pkg == w.Model || f.Pkg == w.Cmd || f.Pkg == w.Grammar {
		return ""
	}
	why := ""
	isGlobalRoot := func(v ssa.Value) *ssa.Global {
		for i := 0; i < 6; i++ {
			switch x := v.(type) {
			case *ssa.Global:
				return x
			case *ssa.FieldAddr:
				v = x.X
			case *ssa.IndexAddr:
				v = x.X
			case *ssa.UnOp:
				v = x.X
			default:
				return nil
			}
		}
		return nil
	}
	forEachInstr(f, func(_ *ssa.BasicBlock, ins ssa.Instruction) {
		if why != "" {
			return
		}
		switch x := ins.(type) {
		case *ssa.Store:
			if g := isGlobalRoot(x.Addr); g != nil && g.Pkg == f.Pkg {
				why = "assigns " + g.Pkg.Pkg.Name() + "." + g.Name()
			}
		case *ssa.MapUpdate:
			if g := isGlobalRoot(x.Map); g != nil && g.Pkg == f.Pkg {
				why = "inserts into " + g.Pkg.Pkg.Name() + "." + g.Name()
			}
		case ssa.CallInstruction:
			c := x.Common().StaticCallee()
			if c == nil {
				return
			}
			switch c.String() {
			case "(*sync.Map).Store", "(*sync.Map).Delete", "(*sync.Map).LoadOrStore", "(*sync.Map).Swap", "(*sync.Map).CompareAndSwap", "(*sync.Map).LoadAndDelete", "(*sync.Map).Clear":
				if len(x.Common().Args) > 0 {
					if g := isGlobalRoot(x.Common().Args[0]); g != nil && g.Pkg == f.Pkg {
						why = "modifies " + g.Pkg.Pkg.Name() + "." + g.Name()
					}
				}
				return
			}
			if c.Pkg == f.Pkg {
				why = libraryStateWriter(w, c, depth+1, seen)
			}
		}
	})
	return why
}

// lossyKeyOf: the key of a map insert depends on the iteration element, but every such dependence passes through a function that
// is not injective on names (case folding / case conversion, trimming, replacing): returns that function's name, "" when some
// dependence is direct (or goes through something the analysis does not classify - then nothing is claimed).
func lossyKeyOf(w *World, key ssa.Value, taint map[ssa.Value]bool, depth int) string {
	lossyName := ""
	var direct func(v ssa.Value, t map[ssa.Value]bool, d int) bool
	isLossy := func(f *ssa.Function) bool {
		if f == nil || f.Pkg == nil {
			return false
		}
		p := f.Pkg.Pkg.Path()
		if strings.HasSuffix(p, "/strcase") {
			return true
		}
		if p == "strings" {
			switch f.Name() {
			case "ToLower", "ToUpper", "Title", "ToTitle", "TrimSpace", "Trim", "TrimLeft", "TrimRight", "TrimPrefix", "TrimSuffix", "Replace", "ReplaceAll", "Map", "ToValidUTF8":
				return true
			}
		}
		return false
	}
	// direct: v carries the element's identity without passing a lossy function
	direct = func(v ssa.Value, t map[ssa.Value]bool, d int) bool {
		if d > 10 || v == nil || !t[v] {
			return false
		}
		switch x := v.(type) {
		case *ssa.BinOp:
			return direct(x.X, t, d+1) || direct(x.Y, t, d+1)
		case *ssa.Convert:
			return direct(x.X, t, d+1)
		case *ssa.ChangeType:
			return direct(x.X, t, d+1)
		case *ssa.MakeInterface:
			return direct(x.X, t, d+1)
		case *ssa.Phi:
			for _, e := range x.Edges {
				if t[e] && !direct(e, t, d+1) {
					return false
				}
			}
			return true
		case *ssa.Extract:
			if c, ok := x.Tuple.(*ssa.Call); ok {
				return directCall(w, c, x.Index, t, d, isLossy, &lossyName, direct)
			}
			return true
		case *ssa.Call:
			return directCall(w, x, 0, t, d, isLossy, &lossyName, direct)
		}
		return true // a tainted leaf (a member of the element, the map key itself)
	}
	if !taint[key] {
		return ""
	}
	if direct(key, taint, depth) {
		return ""
	}
	return lossyName
}

func directCall(w *World, c *ssa.Call, resIdx int, t map[ssa.Value]bool, d int, isLossy func(*ssa.Function) bool, lossyName *string, direct func(ssa.Value, map[ssa.Value]bool, int) bool) bool {
	f := c.Call.StaticCallee()
	if f == nil {
		return true
	}
	if isLossy(f) {
		*lossyName = f.Pkg.Pkg.Name() + "." + f.Name()
		return false
	}
	if f.Pkg != nil && f.Pkg.Pkg.Path() == "fmt" {
		// Sprintf: any operand that is direct makes the result direct
		for _, a := range c.Call.Args {
			if sl, ok := a.(*ssa.Slice); ok {
				for _, o := range variadicOperands(sl) {
					if o != nil && direct(o, t, d+1) {
						return true
					}
				}
			} else if direct(a, t, d+1) {
				return true
			}
		}
		return false
	}
	if f.Blocks != nil && w.isSubjectFunc(f) {
		// a helper of the repo: its result in terms of the parameters that receive something derived from the element
		seeds := map[ssa.Value]bool{}
		for i, a := range c.Call.Args {
			if t[a] && i < len(f.Params) {
				seeds[f.Params[i]] = true
			}
		}
		if len(seeds) == 0 {
			return true
		}
		ht := iterTaintFrom(f, seeds)
		any := false
		for _, b := range f.Blocks {
			ret, ok := b.Instrs[len(b.Instrs)-1].(*ssa.Return)
			if !ok || resIdx >= len(ret.Results) {
				continue
			}
			rv := ret.Results[resIdx]
			if !ht[rv] {
				continue
			}
			any = true
			if !direct(rv, ht, d+1) {
				return false
			}
		}
		return any || true
	}
	return true
}
