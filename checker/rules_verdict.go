package main

import (
	"go/constant"
	"go/token"
	"go/types"

	"golang.org/x/tools/go/ssa"
)

// Check here, act there.
//
// A routine that validates a declaration can be split into a helper that only judges - it reads the model and returns what it
// found: a flag ("store it", "it takes the root slot") and the messages of the problems it saw, as results or as members of one
// result record - and a caller that reports every message and acts on the flag. What the rules ask of the code is then spread over
// two functions:
//
//   * "the action is behind edge E of a test" holds when the action sits behind the true edge of the flag in the caller and the
//     flag can only be true at returns of the helper that are behind E (flagGuardsOf, flagSources, onlyBehind);
//   * "edge E reaches a diagnostic" holds when E reaches a block of the helper that puts a message into a result of which every
//     caller reports every message, on every path (problemBlocks, slotReported).
//
// Values of the helper are matched with values of the caller through the arguments of the call (crossCallSame).

// ---- results of a call, followed into the caller's local record ----

type resultOrigin struct {
	call *ssa.Call
	g    *ssa.Function
	ri   int
}

// resultOriginOf: v is result ri of a static call of a repo function, directly or through a local variable that is assigned only
// that result and whose members are never written in place.
func resultOriginOf(v ssa.Value) (resultOrigin, bool) {
	switch x := stripIdentity(v).(type) {
	case *ssa.Call:
		g := x.Call.StaticCallee()
		if g == nil || len(g.Blocks) == 0 || g.Signature.Results().Len() != 1 {
			return resultOrigin{}, false
		}
		return resultOrigin{x, g, 0}, true
	case *ssa.Extract:
		c, ok := x.Tuple.(*ssa.Call)
		if !ok {
			return resultOrigin{}, false
		}
		g := c.Call.StaticCallee()
		if g == nil || len(g.Blocks) == 0 {
			return resultOrigin{}, false
		}
		return resultOrigin{c, g, x.Index}, true
	case *ssa.UnOp:
		if x.Op != token.MUL {
			return resultOrigin{}, false
		}
		if cell, ok := x.X.(*ssa.Alloc); ok {
			return cellOrigin(cell)
		}
	}
	return resultOrigin{}, false
}

func cellOrigin(cell *ssa.Alloc) (resultOrigin, bool) {
	if cell.Referrers() == nil {
		return resultOrigin{}, false
	}
	var o resultOrigin
	n := 0
	for _, ref := range *cell.Referrers() {
		switch r := ref.(type) {
		case *ssa.Store:
			if r.Addr != ssa.Value(cell) {
				return resultOrigin{}, false
			}
			if _, isLoad := stripIdentity(r.Val).(*ssa.UnOp); isLoad {
				return resultOrigin{}, false // a copy of a copy: not followed
			}
			oo, ok := resultOriginOf(r.Val)
			if !ok {
				return resultOrigin{}, false
			}
			o = oo
			n++
		case *ssa.UnOp:
			if r.Op != token.MUL {
				return resultOrigin{}, false
			}
		case *ssa.FieldAddr:
			if r.Referrers() == nil {
				continue
			}
			for _, r2 := range *r.Referrers() {
				switch u := r2.(type) {
				case *ssa.UnOp:
					if u.Op != token.MUL {
						return resultOrigin{}, false
					}
				case *ssa.DebugRef:
				default:
					return resultOrigin{}, false
				}
			}
		case *ssa.DebugRef:
		default:
			return resultOrigin{}, false
		}
	}
	if n != 1 {
		return resultOrigin{}, false
	}
	return o, true
}

// memberOfResult: v is member mi of a call's result record (mi == -1: the result itself).
func memberOfResult(v ssa.Value) (resultOrigin, int, bool) {
	v = stripIdentity(v)
	switch x := v.(type) {
	case *ssa.Field:
		if o, ok := resultOriginOf(x.X); ok {
			return o, x.Field, true
		}
		return resultOrigin{}, 0, false
	case *ssa.UnOp:
		if x.Op == token.MUL {
			if fa, ok := x.X.(*ssa.FieldAddr); ok {
				if cell, ok := fa.X.(*ssa.Alloc); ok {
					if o, ok := cellOrigin(cell); ok {
						return o, fa.Field, true
					}
				}
				return resultOrigin{}, 0, false
			}
		}
	}
	if o, ok := resultOriginOf(v); ok {
		return o, -1, true
	}
	return resultOrigin{}, 0, false
}

// ---- flags ----

// flagGuard: block b of the caller runs only behind the edge of `branch` on which a boolean that a call returned (as a result or as
// a member of a result record) is true (holds) / false (!holds).
type flagGuard struct {
	origin resultOrigin
	mi     int
	branch *ssa.BasicBlock
	holds  bool
}

func flagGuardsOf(fn *ssa.Function, b *ssa.BasicBlock, anyPolarity bool) []flagGuard {
	var out []flagGuard
	for _, bb := range fn.Blocks {
		cond := branchCond(bb)
		if cond == nil {
			continue
		}
		neg := false
		cv := cond
		for {
			if u, ok := cv.(*ssa.UnOp); ok && u.Op == token.NOT {
				neg, cv = !neg, u.X
				continue
			}
			break
		}
		if bt, ok := cv.Type().Underlying().(*types.Basic); !ok || bt.Kind() != types.Bool {
			continue
		}
		o, mi, ok := memberOfResult(cv)
		if !ok {
			continue
		}
		trueSucc := 0
		if neg {
			trueSucc = 1
		}
		if edgeDominates(bb, trueSucc, b) {
			out = append(out, flagGuard{o, mi, bb, true})
		} else if anyPolarity && edgeDominates(bb, 1-trueSucc, b) {
			out = append(out, flagGuard{o, mi, bb, false})
		}
	}
	return out
}

// flagSource: the flag can be true when the helper returns only if control passed through blk; val is the value the flag has there
// (nil: the constant true).
type flagSource struct {
	blk *ssa.BasicBlock
	val ssa.Value
}

func boolConst(v ssa.Value) (bool, bool) {
	k, ok := v.(*ssa.Const)
	if !ok || k.Value == nil || k.Value.Kind() != constant.Bool {
		return false, false
	}
	return constant.BoolVal(k.Value), true
}

// builderCell: a local record that is only built member by member and read (never assigned as a whole, its address not handed on).
func builderCell(cell *ssa.Alloc) bool {
	if cell.Referrers() == nil {
		return false
	}
	for _, ref := range *cell.Referrers() {
		switch r := ref.(type) {
		case *ssa.UnOp:
			if r.Op != token.MUL {
				return false
			}
		case *ssa.FieldAddr:
			if r.Referrers() == nil {
				continue
			}
			for _, r2 := range *r.Referrers() {
				switch u := r2.(type) {
				case *ssa.Store:
					if u.Addr != ssa.Value(r) {
						return false
					}
				case *ssa.UnOp:
					if u.Op != token.MUL {
						return false
					}
				case *ssa.DebugRef:
				default:
					return false
				}
			}
		case *ssa.DebugRef:
		default:
			return false
		}
	}
	return true
}

func memberStores(cell *ssa.Alloc, mi int) []*ssa.Store {
	var out []*ssa.Store
	for _, ref := range *cell.Referrers() {
		fa, ok := ref.(*ssa.FieldAddr)
		if !ok || fa.Field != mi || fa.Referrers() == nil {
			continue
		}
		for _, r2 := range *fa.Referrers() {
			if st, ok := r2.(*ssa.Store); ok && st.Addr == ssa.Value(fa) {
				out = append(out, st)
			}
		}
	}
	return out
}

func blockReachesBlock(a, b *ssa.BasicBlock) bool {
	seen := map[*ssa.BasicBlock]bool{}
	stack := []*ssa.BasicBlock{a}
	for len(stack) > 0 {
		x := stack[len(stack)-1]
		stack = stack[:len(stack)-1]
		if seen[x] {
			continue
		}
		seen[x] = true
		if x == b {
			return true
		}
		stack = append(stack, x.Succs...)
	}
	return false
}

// flagSources: where the flag (result ri of g, or member mi of the record g returns as result ri) can become true. ok is false when
// the shape of g's returns is not understood.
func flagSources(g *ssa.Function, ri, mi int) ([]flagSource, bool) {
	var out []flagSource
	for _, rb := range returnBlocks(g) {
		ret := rb.Instrs[len(rb.Instrs)-1].(*ssa.Return)
		if ri >= len(ret.Results) {
			return nil, false
		}
		res := ret.Results[ri]
		if mi < 0 {
			switch x := res.(type) {
			case *ssa.Const:
				if v, ok := boolConst(x); !ok {
					return nil, false
				} else if v {
					out = append(out, flagSource{rb, nil})
				}
			case *ssa.Phi:
				for i, e := range x.Edges {
					if v, ok := boolConst(e); ok {
						if v {
							out = append(out, flagSource{x.Block().Preds[i], nil})
						}
						continue
					}
					out = append(out, flagSource{x.Block().Preds[i], e})
				}
			default:
				out = append(out, flagSource{rb, res})
			}
			continue
		}
		if k, isConst := res.(*ssa.Const); isConst && k.Value == nil {
			continue // the zero record: the flag is false
		}
		ld, ok := res.(*ssa.UnOp)
		if !ok || ld.Op != token.MUL {
			return nil, false
		}
		cell, ok := ld.X.(*ssa.Alloc)
		if !ok || !builderCell(cell) {
			return nil, false
		}
		for _, st := range memberStores(cell, mi) {
			if !blockReachesBlock(st.Block(), rb) {
				continue
			}
			if v, ok := boolConst(st.Val); ok {
				if v {
					out = append(out, flagSource{st.Block(), nil})
				}
				continue
			}
			out = append(out, flagSource{st.Block(), st.Val})
		}
	}
	return out, true
}

// sameFieldRead: a and b read the same member of the same object, and g never writes that member (two reads in g agree).
func sameFieldRead(a, b ssa.Value, g *ssa.Function) bool {
	a, b = stripIdentity(a), stripIdentity(b)
	if a == b {
		return true
	}
	la, ok1 := a.(*ssa.UnOp)
	lb, ok2 := b.(*ssa.UnOp)
	if !ok1 || !ok2 || la.Op != token.MUL || lb.Op != token.MUL {
		return false
	}
	fa, ok1 := la.X.(*ssa.FieldAddr)
	fb, ok2 := lb.X.(*ssa.FieldAddr)
	if !ok1 || !ok2 || fa.Field != fb.Field || stripIdentity(fa.X) != stripIdentity(fb.X) || !types.Identical(fa.X.Type(), fb.X.Type()) {
		return false
	}
	written := false
	forEachInstr(g, func(_ *ssa.BasicBlock, ins ssa.Instruction) {
		if st, ok := ins.(*ssa.Store); ok {
			if f2, ok := st.Addr.(*ssa.FieldAddr); ok && f2.Field == fa.Field && types.Identical(f2.X.Type(), fa.X.Type()) {
				written = true
			}
		}
	})
	return !written
}

// onlyBehind: the flag is true at src only when control took the edge bb -> bb.Succs[succ]. Either the block lies behind the edge,
// or it does once the edges are removed on which the very value the flag has there was found false (`if p.IsRoot && ..` on the way
// to `return .., p.IsRoot`).
func onlyBehind(src flagSource, bb *ssa.BasicBlock, succ int) bool {
	if edgeDominates(bb, succ, src.blk) {
		return true
	}
	if src.val == nil {
		return false
	}
	g := bb.Parent()
	type edge struct {
		b *ssa.BasicBlock
		s int
	}
	pruned := map[edge]bool{}
	for _, b2 := range g.Blocks {
		cond := branchCond(b2)
		if cond == nil {
			continue
		}
		neg := false
		cv := cond
		for {
			if u, ok := cv.(*ssa.UnOp); ok && u.Op == token.NOT {
				neg, cv = !neg, u.X
				continue
			}
			break
		}
		if !sameFieldRead(cv, src.val, g) {
			continue
		}
		falseSucc := 1
		if neg {
			falseSucc = 0
		}
		pruned[edge{b2, falseSucc}] = true
	}
	if len(pruned) == 0 || succ >= len(bb.Succs) || (len(bb.Succs) == 2 && bb.Succs[0] == bb.Succs[1]) {
		return false
	}
	seen := map[*ssa.BasicBlock]bool{}
	stack := []*ssa.BasicBlock{g.Blocks[0]}
	for len(stack) > 0 {
		b := stack[len(stack)-1]
		stack = stack[:len(stack)-1]
		if seen[b] {
			continue
		}
		seen[b] = true
		if b == src.blk {
			return false
		}
		if noReturnBlock(b) {
			continue
		}
		for i, s := range b.Succs {
			if (b == bb && i == succ) || pruned[edge{b, i}] {
				continue
			}
			stack = append(stack, s)
		}
	}
	return true
}

// ---- values of the helper and values of the caller ----

func paramIndexV(p *ssa.Parameter) int {
	for i, q := range p.Parent().Params {
		if q == p {
			return i
		}
	}
	return -1
}

// spilledParam: the parameter a local cell holds (the cell is written once, with the parameter).
func spilledParam(cell *ssa.Alloc) *ssa.Parameter {
	if cell.Referrers() == nil {
		return nil
	}
	var p *ssa.Parameter
	n := 0
	for _, ref := range *cell.Referrers() {
		if st, ok := ref.(*ssa.Store); ok && st.Addr == ssa.Value(cell) {
			n++
			p, _ = st.Val.(*ssa.Parameter)
		}
	}
	if n != 1 || p == nil || p.Parent() != cell.Parent() {
		return nil
	}
	return p
}

// crossCallSame: the value `in` of the callee of c denotes, for this call, what `out` denotes in the caller: a parameter and its
// argument, the same member read from corresponding objects, equal constants.
func crossCallSame(in, out ssa.Value, c *ssa.Call) bool {
	return crossCallSameD(in, out, c, 0)
}

func crossCallSameD(in, out ssa.Value, c *ssa.Call, depth int) bool {
	if depth > 6 || in == nil || out == nil {
		return false
	}
	in = stripIdentity(in)
	switch x := in.(type) {
	case *ssa.Parameter:
		i := paramIndexV(x)
		if i < 0 || i >= len(c.Call.Args) {
			return false
		}
		return sameValue(c.Call.Args[i], out) || sameKey(c.Call.Args[i], out)
	case *ssa.Const:
		k, ok := stripIdentity(out).(*ssa.Const)
		return ok && types.Identical(k.Type(), x.Type()) && ((k.Value == nil && x.Value == nil) || (k.Value != nil && x.Value != nil && constant.Compare(k.Value, token.EQL, x.Value)))
	case *ssa.Field:
		y, ok := stripIdentity(out).(*ssa.Field)
		return ok && y.Field == x.Field && types.Identical(x.X.Type(), y.X.Type()) && crossCallSameD(x.X, y.X, c, depth+1)
	case *ssa.UnOp:
		if x.Op != token.MUL {
			return false
		}
		y, ok := stripIdentity(out).(*ssa.UnOp)
		if !ok || y.Op != token.MUL {
			return false
		}
		fa, ok1 := x.X.(*ssa.FieldAddr)
		fb, ok2 := y.X.(*ssa.FieldAddr)
		if !ok1 || !ok2 || fa.Field != fb.Field || !types.Identical(fa.X.Type(), fb.X.Type()) {
			return false
		}
		// the objects: a record parameter kept in a cell on both sides, or pointers that correspond
		if ca, ok := fa.X.(*ssa.Alloc); ok {
			p := spilledParam(ca)
			if p == nil || !memberNeverWritten(ca, fa.Field) {
				return false
			}
			i := paramIndexV(p)
			if i < 0 || i >= len(c.Call.Args) {
				return false
			}
			arg := c.Call.Args[i]
			cb, ok := fb.X.(*ssa.Alloc)
			if !ok {
				return false
			}
			if ld, ok := arg.(*ssa.UnOp); ok && ld.Op == token.MUL && ld.X == ssa.Value(cb) {
				// the argument is a copy of the caller's record; the caller must not have changed the member in between: its
				// record is a parameter cell or a cell whose members are not written
				return memberNeverWritten(cb, fb.Field) && (spilledParam(cb) != nil || cellNeverReassigned(cb))
			}
			return false
		}
		return crossCallSameD(fa.X, fb.X, c, depth+1)
	}
	return false
}

// memberNeverWritten: member mi of the record in the cell is only read in place (the cell's address goes nowhere, the member's
// address is only loaded from); the record as a whole may be assigned.
func memberNeverWritten(cell *ssa.Alloc, mi int) bool {
	if cell.Referrers() == nil {
		return false
	}
	for _, ref := range *cell.Referrers() {
		switch r := ref.(type) {
		case *ssa.Store:
			if r.Addr != ssa.Value(cell) {
				return false
			}
		case *ssa.UnOp:
			if r.Op != token.MUL {
				return false
			}
		case *ssa.FieldAddr:
			if r.Field != mi || r.Referrers() == nil {
				continue
			}
			for _, r2 := range *r.Referrers() {
				switch u := r2.(type) {
				case *ssa.UnOp:
					if u.Op != token.MUL {
						return false
					}
				case *ssa.DebugRef:
				default:
					return false
				}
			}
		case *ssa.DebugRef:
		default:
			return false
		}
	}
	return true
}

// ---- messages that every caller reports ----

type resultSlot struct{ ri, mi int }

func isStringList(t types.Type) bool {
	sl, ok := t.Underlying().(*types.Slice)
	return ok && isStringType(sl.Elem())
}

// messageSlots: the places in fn's results that can carry a list of messages.
func messageSlots(fn *ssa.Function) []resultSlot {
	var out []resultSlot
	res := fn.Signature.Results()
	for i := 0; i < res.Len(); i++ {
		t := res.At(i).Type()
		if isStringList(t) {
			out = append(out, resultSlot{i, -1})
			continue
		}
		if st, ok := t.Underlying().(*types.Struct); ok {
			for j := 0; j < st.NumFields(); j++ {
				if isStringList(st.Field(j).Type()) {
					out = append(out, resultSlot{i, j})
				}
			}
		}
	}
	return out
}

var slotReportedMemo = map[*ssa.Function]map[resultSlot]bool{}

// slotReported: at every call site of fn every message in the slot becomes a diagnostic, on every path that leads from the call to
// a return of the caller: the record (or the list) is handed to a routine that walks the list and records each element, or the
// caller walks it itself.
func (w *World) slotReported(fn *ssa.Function, s resultSlot) bool {
	if m := slotReportedMemo[fn]; m != nil {
		if v, ok := m[s]; ok {
			return v
		}
	} else {
		slotReportedMemo[fn] = map[resultSlot]bool{}
	}
	slotReportedMemo[fn][s] = false // a recursive question is answered no
	v := w.slotReportedUncached(fn, s)
	slotReportedMemo[fn][s] = v
	return v
}

func (w *World) slotReportedUncached(fn *ssa.Function, s resultSlot) bool {
	ix := programIndex()
	if ix == nil || ix.asValue[fn] || len(ix.closures[fn]) > 0 || len(ix.sites[fn]) == 0 {
		return false
	}
	if fn.Signature.Recv() != nil && ix.invoked[fn.Name()] && methodInvocable(fn) {
		return false
	}
	for _, site := range ix.sites[fn] {
		c, ok := site.(*ssa.Call)
		if !ok {
			return false
		}
		caller := c.Parent()
		// the values of the caller that are the record / the list
		isRecord := func(v ssa.Value) bool {
			o, ok := resultOriginOf(v)
			return ok && o.call == c && o.ri == s.ri
		}
		isList := func(v ssa.Value) bool {
			o, mi, ok := memberOfResult(v)
			return ok && o.call == c && o.ri == s.ri && mi == s.mi
		}
		reported := false
		forEachInstr(caller, func(_ *ssa.BasicBlock, ins ssa.Instruction) {
			if reported {
				return
			}
			switch x := ins.(type) {
			case *ssa.Call:
				if x == c {
					return
				}
				h := calleeOf(x)
				if h == nil || len(h.Blocks) == 0 {
					return
				}
				for j, a := range x.Call.Args {
					if j >= len(h.Params) {
						break
					}
					switch {
					case isList(a):
						if reportsEveryElement(h, h.Params[j], -1) && everyPathPasses(c, x) {
							reported = true
						}
					case s.mi >= 0 && isRecord(a):
						if reportsEveryElement(h, h.Params[j], s.mi) && everyPathPasses(c, x) {
							reported = true
						}
					}
				}
			case *ssa.IndexAddr:
				// the caller walks the list itself
				if isList(x.X) {
					if hd := elementLoopReports(caller, x); hd != nil && everyPathPassesBlock(c, hd) {
						reported = true
					}
				}
			}
		})
		if !reported {
			return false
		}
	}
	return true
}

// everyPathPasses: every path from call c to a return of its function executes instruction x (after c).
func everyPathPasses(c *ssa.Call, x ssa.Instruction) bool {
	if c.Block() == x.Block() {
		ic, ix := -1, -1
		for i, ins := range c.Block().Instrs {
			if ins == ssa.Instruction(c) {
				ic = i
			}
			if ins == x {
				ix = i
			}
		}
		return ic >= 0 && ic < ix
	}
	return everyPathPassesBlock(c, x.Block())
}

func everyPathPassesBlock(c *ssa.Call, via *ssa.BasicBlock) bool {
	if c.Block() == via {
		return false // a loop head in the block of the call itself: not decided here
	}
	seen := map[*ssa.BasicBlock]bool{}
	stack := []*ssa.BasicBlock{c.Block()}
	for len(stack) > 0 {
		b := stack[len(stack)-1]
		stack = stack[:len(stack)-1]
		if seen[b] || b == via {
			continue
		}
		seen[b] = true
		if noReturnBlock(b) {
			continue
		}
		if _, isRet := b.Instrs[len(b.Instrs)-1].(*ssa.Return); isRet {
			return false
		}
		stack = append(stack, b.Succs...)
	}
	return true
}

// reportsEveryElement: h records, on every call, every element of the list it is handed as parameter p (mi == -1) or as member mi
// of the record p.
func reportsEveryElement(h *ssa.Function, p *ssa.Parameter, mi int) bool {
	isList := func(v ssa.Value) bool {
		v = stripIdentity(v)
		if mi < 0 {
			return v == ssa.Value(p)
		}
		switch x := v.(type) {
		case *ssa.Field:
			return x.Field == mi && stripIdentity(x.X) == ssa.Value(p)
		case *ssa.UnOp:
			if x.Op != token.MUL {
				return false
			}
			fa, ok := x.X.(*ssa.FieldAddr)
			if !ok || fa.Field != mi {
				return false
			}
			cell, ok := fa.X.(*ssa.Alloc)
			return ok && spilledParam(cell) == p && memberNeverWritten(cell, mi)
		}
		return false
	}
	ok := false
	forEachInstr(h, func(_ *ssa.BasicBlock, ins ssa.Instruction) {
		ia, isIA := ins.(*ssa.IndexAddr)
		if !isIA || ok || !isList(ia.X) {
			return
		}
		hd := elementLoopReports(h, ia)
		if hd == nil {
			return
		}
		all := true
		for _, rb := range returnBlocks(h) {
			if !hd.Dominates(rb) {
				all = false
			}
		}
		if all {
			ok = true
		}
	})
	return ok
}

// cellNeverReassigned: the cell is written once (with the parameter it holds).
func cellNeverReassigned(cell *ssa.Alloc) bool {
	n := 0
	for _, ref := range *cell.Referrers() {
		if st, ok := ref.(*ssa.Store); ok && st.Addr == ssa.Value(cell) {
			n++
		}
	}
	return n == 1
}

// elementLoopReports: ia addresses the current element of a loop that walks the whole list ia.X from the first element to the last
// (`for _, e := range list` / `for i := range list`), and every iteration records the element as a diagnostic; the loop is left
// only when the list is exhausted. Returns the loop's head.
func elementLoopReports(fn *ssa.Function, ia *ssa.IndexAddr) *ssa.BasicBlock {
	// index: phi(-1, next) + 1 tested against len(list) in the head
	next, ok := ia.Index.(*ssa.BinOp)
	if !ok || next.Op != token.ADD {
		return nil
	}
	phi, ok := next.X.(*ssa.Phi)
	if !ok || len(phi.Edges) != 2 {
		return nil
	}
	if one, ok := next.Y.(*ssa.Const); !ok || one.Value == nil || one.Int64() != 1 {
		return nil
	}
	head := phi.Block()
	start, back := false, false
	for _, e := range phi.Edges {
		if k, ok := e.(*ssa.Const); ok && k.Value != nil && k.Value.Kind() == constant.Int && k.Int64() == -1 {
			start = true
		}
		if e == ssa.Value(next) {
			back = true
		}
	}
	if !start || !back || next.Block() != head {
		return nil
	}
	cond, ok := branchCond(head).(*ssa.BinOp)
	if !ok || cond.Op != token.LSS || cond.X != ssa.Value(next) {
		return nil
	}
	ln, ok := cond.Y.(*ssa.Call)
	if !ok {
		return nil
	}
	if bi, ok := ln.Call.Value.(*ssa.Builtin); !ok || bi.Name() != "len" || len(ln.Call.Args) != 1 || stripIdentity(ln.Call.Args[0]) != stripIdentity(ia.X) {
		return nil
	}
	loop := naturalLoop(head)
	if !loop[ia.Block()] || !head.Succs[0].Dominates(ia.Block()) {
		return nil
	}
	// left only from the head
	for b := range loop {
		if b == head {
			continue
		}
		for _, s := range b.Succs {
			if !loop[s] {
				return nil
			}
		}
		if len(b.Succs) == 0 && !noReturnBlock(b) {
			return nil
		}
	}
	// the element, recorded on every iteration
	var elems []ssa.Value
	if ia.Referrers() != nil {
		for _, ref := range *ia.Referrers() {
			if ld, ok := ref.(*ssa.UnOp); ok && ld.Op == token.MUL {
				elems = append(elems, ld)
			}
		}
	}
	for b := range loop {
		for _, ins := range b.Instrs {
			if !isAddSyntaxError(ins) {
				continue
			}
			uses := false
			for _, e := range elems {
				if usesValue(ins, e) {
					uses = true
				}
			}
			if !uses {
				continue
			}
			every := true
			for _, p := range head.Preds {
				if loop[p] && p != head && !b.Dominates(p) {
					every = false
				}
			}
			if every {
				return head
			}
		}
	}
	return nil
}

// surelyNonEmptyList: a list literal with at least one element, or a list extended by at least one element.
func surelyNonEmptyList(v ssa.Value, depth int) bool {
	if depth > 4 {
		return false
	}
	switch x := stripIdentity(v).(type) {
	case *ssa.Slice:
		if x.Low != nil || x.High != nil {
			return false
		}
		if pt, ok := x.X.Type().Underlying().(*types.Pointer); ok {
			if arr, ok := pt.Elem().Underlying().(*types.Array); ok {
				return arr.Len() >= 1
			}
		}
	case *ssa.Call:
		if bi, ok := x.Call.Value.(*ssa.Builtin); ok && bi.Name() == "append" && len(x.Call.Args) == 2 {
			return surelyNonEmptyList(x.Call.Args[1], depth+1) || surelyNonEmptyList(x.Call.Args[0], depth+1)
		}
	}
	return false
}

// problemBlocks: the blocks of fn that put a message into a result slot of which every caller reports every message: there the
// input is rejected just as by a diagnostic recorded on the spot.
func (w *World) problemBlocks(fn *ssa.Function) []*ssa.BasicBlock {
	var out []*ssa.BasicBlock
	for _, s := range messageSlots(fn) {
		// cheap structural part first
		var cand []*ssa.BasicBlock
		rets := returnBlocks(fn)
		if s.mi < 0 {
			for _, rb := range rets {
				ret := rb.Instrs[len(rb.Instrs)-1].(*ssa.Return)
				if s.ri >= len(ret.Results) {
					continue
				}
				if phi, ok := ret.Results[s.ri].(*ssa.Phi); ok {
					for i, e := range phi.Edges {
						if surelyNonEmptyList(e, 0) {
							cand = append(cand, phi.Block().Preds[i])
						}
					}
				} else if surelyNonEmptyList(ret.Results[s.ri], 0) {
					cand = append(cand, rb)
				}
			}
		} else {
			// the records fn builds member by member and returns
			returned := map[*ssa.BasicBlock]*ssa.Alloc{}
			for _, rb := range rets {
				ret := rb.Instrs[len(rb.Instrs)-1].(*ssa.Return)
				if s.ri >= len(ret.Results) {
					continue
				}
				if ld, ok := ret.Results[s.ri].(*ssa.UnOp); ok && ld.Op == token.MUL {
					if cell, ok := ld.X.(*ssa.Alloc); ok && builderCell(cell) {
						returned[rb] = cell
					}
				}
			}
			seenCell := map[*ssa.Alloc]bool{}
			for _, rb := range rets {
				cell := returned[rb]
				if cell == nil || seenCell[cell] {
					continue
				}
				seenCell[cell] = true
				sts := memberStores(cell, s.mi)
				grows := len(sts) > 0
				for _, st := range sts {
					if !surelyNonEmptyList(st.Val, 0) {
						grows = false // the list can be emptied again: a message put there may not arrive
					}
				}
				if !grows {
					continue
				}
				for _, st := range sts {
					// every return the store leads to hands out this record
					arrives := true
					for _, rb2 := range rets {
						if blockReachesBlock(st.Block(), rb2) && returned[rb2] != cell {
							arrives = false
						}
					}
					if arrives {
						cand = append(cand, st.Block())
					}
				}
			}
		}
		if len(cand) == 0 || !w.slotReported(fn, s) {
			continue
		}
		out = append(out, cand...)
	}
	return out
}

// ---- the rules' side ----

// nsGuardedByVerdict: the insertion x (in block b of fn) is behind the flag of a checking helper whose flag is true only behind the
// not-present edge of a membership test on the same table and key, and whose already-present edge records a problem that the callers
// report.
func nsGuardedByVerdict(w *World, fn *ssa.Function, x *ssa.MapUpdate, b *ssa.BasicBlock) bool {
	for _, fg := range flagGuardsOf(fn, b, false) {
		g := fg.origin.g
		srcs, ok := flagSources(g, fg.origin.ri, fg.mi)
		if !ok || len(srcs) == 0 {
			continue
		}
		var diag []*ssa.BasicBlock
		haveDiag := false
		for _, t := range membershipTests(g) {
			if !crossCallSame(t.lookup.X, x.Map, fg.origin.call) || !crossCallSame(t.lookup.Index, x.Key, fg.origin.call) {
				continue
			}
			all := true
			for _, s := range srcs {
				if !onlyBehind(s, t.branch, 1-t.presentSucc) {
					all = false
				}
			}
			if !all {
				continue
			}
			if !haveDiag {
				diag, haveDiag = w.diagnosticBlocks(g), true
			}
			for _, pb := range diag {
				if edgeDominates(t.branch, t.presentSucc, pb) {
					return true
				}
			}
		}
	}
	return false
}

// rootGuardedByVerdict: the assignment of the root slot (st, in block b of fn) is behind the flag of a checking helper; okRoot: the
// flag is true only behind the `RootPacket == nil` edge of the helper and the other edge records a problem the callers report;
// isRootEdge: the flag is true only where the IsRoot member of the packet that is stored was found true.
func rootGuardedByVerdict(w *World, fn *ssa.Function, st *ssa.Store, b *ssa.BasicBlock) (okRoot, isRootEdge bool) {
	slot, _ := st.Addr.(*ssa.FieldAddr)
	if slot == nil {
		return
	}
	for _, fg := range flagGuardsOf(fn, b, false) {
		g := fg.origin.g
		c := fg.origin.call
		srcs, ok := flagSources(g, fg.origin.ri, fg.mi)
		if !ok || len(srcs) == 0 {
			continue
		}
		behindAll := func(bb *ssa.BasicBlock, succ int) bool {
			for _, s := range srcs {
				if !onlyBehind(s, bb, succ) {
					return false
				}
			}
			return true
		}
		var diag []*ssa.BasicBlock
		haveDiag := false
		for _, bb := range g.Blocks {
			cond := branchCond(bb)
			if cond == nil {
				continue
			}
			// the slot is empty
			if v, nn, okn := nilTest(cond); okn {
				if ld, okl := stripIdentity(v).(*ssa.UnOp); okl && ld.Op == token.MUL {
					if fa2, okf := ld.X.(*ssa.FieldAddr); okf {
						if tn2, f2, _, _ := fieldOf(fa2); tn2 == "BinaryModel" && f2 == "RootPacket" && crossCallSame(fa2.X, slot.X, c) && behindAll(bb, 1-nn) {
							if !haveDiag {
								diag, haveDiag = w.diagnosticBlocks(g), true
							}
							for _, pb := range diag {
								if edgeDominates(bb, nn, pb) {
									okRoot = true
								}
							}
						}
					}
				}
			}
			// the packet is declared root
			val := true
			cv := cond
			for {
				if u, ok := cv.(*ssa.UnOp); ok && u.Op == token.NOT {
					cv, val = u.X, !val
					continue
				}
				break
			}
			if ld, ok := stripIdentity(cv).(*ssa.UnOp); ok && ld.Op == token.MUL {
				if f3, ok := ld.X.(*ssa.FieldAddr); ok {
					if tn3, n3, _, _ := fieldOf(f3); tn3 == "Packet" && n3 == "IsRoot" && crossCallSame(f3.X, st.Val, c) {
						succ := 0
						if !val {
							succ = 1
						}
						if behindAll(bb, succ) {
							isRootEdge = true
						}
					}
				}
			}
		}
	}
	return
}

// readIsGuardOfInsertion: the call rs consults table t only to look up the key that the map update ws then inserts, and ws is
// executed or not according to a flag that this call returned: the lookup is the duplicate test of the insertion, not a use of the
// table's entries. readsT tells whether a function's closure reads t.
func readIsGuardOfInsertion(rs, ws ssa.Instruction, t string, readsT func(*ssa.Function) bool, w *World) bool {
	c, ok := rs.(*ssa.Call)
	if !ok {
		return false
	}
	mu, ok := ws.(*ssa.MapUpdate)
	if !ok || modelTableOf(mu.Map) != t {
		return false
	}
	g := c.Call.StaticCallee()
	if g == nil || len(g.Blocks) == 0 {
		return false
	}
	guarded := false
	for _, fg := range flagGuardsOf(c.Parent(), mu.Block(), true) {
		if fg.origin.call == c {
			guarded = true
		}
	}
	if !guarded {
		return false
	}
	n, bad := 0, false
	forEachInstr(g, func(_ *ssa.BasicBlock, ins ssa.Instruction) {
		switch x := ins.(type) {
		case *ssa.Lookup:
			if modelTableOf(x.X) != t {
				return
			}
			if crossCallSame(x.X, mu.Map, c) && crossCallSame(x.Index, mu.Key, c) {
				n++
			} else {
				bad = true
			}
		case *ssa.Range:
			if modelTableOf(x.X) == t {
				bad = true
			}
		case ssa.CallInstruction:
			if _, ok := x.Common().Value.(*ssa.Builtin); ok {
				if len(x.Common().Args) > 0 && modelTableOf(x.Common().Args[0]) == t {
					bad = true
				}
				return
			}
			for _, h := range w.phaseCallees(x) {
				if h != g && readsT(h) {
					bad = true
				}
			}
		}
	})
	return n > 0 && !bad
}
